"""C16 - assembled matrices/vectors equal their integrals on every assembly route.

Streams
  scatter   : the real Scatter-/Gather-Axpy classes (CSR, banded, dense vector) and the real SymbolicAssembler on
              arbitrary patterns / DOF tables / local matrices  <->  Lean model (string equality)  + dense oracle
  fe        : the real assemblers (classic cell loop, domain-assembler jobs, symbolic assembler, interpolator) at the
              exact scalar Q on unit-cube meshes with moved interior vertices; judged by the independent oracle
              (exact integrals over the unit cube in Fractions, kernel, symmetry, route equality, pattern coverage)
  fe-model  : the same runs once more, the Lean model folds the recorded cell contributions (DOF maps + local
              matrices that the real cell loop handed to a recording scatter object) over its symbolic pattern
"""
import itertools
import json
import os
import random
import time
from fractions import Fraction

import vlib

PROP = "C16"
F = Fraction


def fs(x):
    return vlib.frac_str(F(x))


def fmt_list(l):
    return ("%d " % len(l) + " ".join(map(str, l))).strip()


def fmt_qlist(l):
    return ("%d " % len(l) + " ".join(fs(x) for x in l)).strip()


def rand_q(rng, small=False):
    if small or rng.random() < 0.6:
        return F(rng.randint(-4, 4))
    return F(rng.randint(-9, 9), rng.choice([1, 2, 3, 4, 5, 7]))


def rand_alpha(rng):
    return rng.choice([F(1), F(1), F(-1), F(2), F(1, 2), F(-3, 4), F(0), F(5, 3)])


# ---------------------------------------------------------------------------------------------
# synthetic stream: scatter / gather / vector / banded / asm
# ---------------------------------------------------------------------------------------------

def gen_pattern(rng, dups=False, allow_empty_rows=True):
    rows = rng.choice([1, 2, 3, 4, 5, 6])
    cols = rng.choice([1, 2, 3, 4, 5, 7])
    rp, ci = [0], []
    for r in range(rows):
        if allow_empty_rows and rng.random() < 0.15:
            row = []
        else:
            k = rng.randint(1, cols)
            row = rng.sample(range(cols), k)
            if rng.random() < 0.6:
                row.sort()
            if dups and rng.random() < 0.5:
                row = row + [rng.choice(row)]
        ci += row
        rp.append(len(ci))
    if not ci:
        ci = [rng.randrange(cols)]
        rp[-1] = 1
    return rows, cols, rp, ci


def gen_calls(rng, rows, cols, rp, ci, stale_ok):
    """calls for one scatter/gather object; never reads a never-written _col_ptr slot (undefined behaviour)"""
    written = set()
    calls = []
    nonempty = [r for r in range(rows) if rp[r + 1] > rp[r]]
    for _ in range(rng.randint(1, 4)):
        nr = rng.randint(0, 3)
        rws = [rng.choice(nonempty) for _ in range(nr)]
        # columns admissible for all rows of this call
        w = set(written)
        cand_common = None
        adm = None
        for r in rws:
            w |= set(ci[rp[r]:rp[r + 1]])
            rc = set(ci[rp[r]:rp[r + 1]])
            cand_common = rc if cand_common is None else (cand_common & rc)
            adm = set(w) if adm is None else (adm & w)  # slot written before row r is processed
        if not rws:
            cls = [rng.randrange(cols) for _ in range(rng.randint(0, 2))]
        else:
            pool = sorted(cand_common) if cand_common else []
            stale_pool = sorted(adm - cand_common) if (stale_ok and adm) else []
            cls = []
            for _ in range(rng.randint(0, 3)):
                if stale_pool and rng.random() < 0.25:
                    cls.append(rng.choice(stale_pool))
                elif pool:
                    cls.append(rng.choice(pool))
        written = w
        vals = [rand_q(rng) for _ in range(len(rws) * len(cls))]
        calls.append((rand_alpha(rng), rws, cls, vals))
    return calls


def fmt_call(c):
    a, r, cl, v = c
    return "%s %s %s %s" % (fs(a), fmt_list(r), fmt_list(cl), fmt_qlist(v))


def fmt_calls(calls):
    return ("%d " % len(calls) + " ".join(fmt_call(c) for c in calls)).strip()


def gen_synth(rng, count):
    cases = []
    for _ in range(count):
        k = rng.random()
        if k < 0.30:
            rows, cols, rp, ci = gen_pattern(rng, dups=rng.random() < 0.2)
            vals = [rand_q(rng) for _ in ci]
            calls = gen_calls(rng, rows, cols, rp, ci, stale_ok=True)
            cases.append("scatter %d %d %s %s %s %s" % (rows, cols, fmt_list(rp), fmt_list(ci), fmt_qlist(vals), fmt_calls(calls)))
        elif k < 0.42:
            rows, cols, rp, ci = gen_pattern(rng)
            vals = [rand_q(rng) for _ in ci]
            calls = gen_calls(rng, rows, cols, rp, ci, stale_ok=True)
            cases.append("gather %d %d %s %s %s %s" % (rows, cols, fmt_list(rp), fmt_list(ci), fmt_qlist(vals), fmt_calls(calls)))
        elif k < 0.50:
            n = rng.randint(1, 6)
            vals = [rand_q(rng) for _ in range(n)]
            calls = []
            for _ in range(rng.randint(1, 3)):
                m = [rng.randrange(n) for _ in range(rng.randint(0, 4))]
                calls.append((rand_alpha(rng), m, [], [rand_q(rng) for _ in m]))
            cases.append("%s %s %s" % (rng.choice(["vscatter", "vgather"]), fmt_qlist(vals), fmt_calls(calls)))
        elif k < 0.60:
            cases.append(gen_banded(rng))
        elif k < 0.72:
            cases.append(gen_asmb(rng))
        else:
            cases.append(gen_asm(rng))
    return cases


def gen_banded(rng):
    """banded scatter / gather on square and rectangular matrices (rows < cols and rows > cols)"""
    rows = rng.randint(1, 5)
    shape = rng.random()
    cols = rows if shape < 0.3 else rng.randint(1, 6)
    noff = rng.randint(1, min(4, rows + cols - 1))
    offs = sorted(rng.sample(range(rows + cols - 1), noff))
    vals = [rand_q(rng, small=True) for _ in range(noff * rows)]

    def band_cols(ix):
        return [o + ix + 1 - rows for o in offs if 0 <= o + ix + 1 - rows < cols]

    calls = []
    for _ in range(rng.randint(1, 3)):
        rws = [rng.randrange(rows) for _ in range(rng.randint(0, 2))]
        common = None
        for r in rws:
            s = set(band_cols(r))
            common = s if common is None else common & s
        pool = sorted(common) if common else []
        if pool and rng.random() < 0.5:
            pool = [max(pool)] * 2 + pool   # favour the last columns (the ones the old `< 2*rows` test lost)
        cls = [rng.choice(pool) for _ in range(rng.randint(0, 3))] if pool else []
        calls.append((rand_alpha(rng), rws, cls, [rand_q(rng, small=True) for _ in range(len(rws) * len(cls))]))
    return "%s %d %d %s %s %s" % (rng.choice(["banded", "bgather"]), rows, cols, fmt_list(offs), fmt_qlist(vals),
                                  fmt_calls(calls))


def gen_asmb(rng):
    """blocked variant of gen_asm: SparseMatrixBCSR<h,w>, block-valued local matrices"""
    line = gen_asm(rng, blocked=rng.choice([(2, 2), (2, 3), (3, 2), (3, 3), (2, 1), (1, 3)]))
    return line


def gen_asm(rng, blocked=None):
    kind = rng.choice([1, 2])
    nT = rng.randint(1, 7)
    nS = nT if kind == 1 else rng.randint(1, 7)
    nc = rng.randint(1, 5)

    def table(n):
        t = []
        for _ in range(nc):
            style = rng.random()
            if style < 0.1:
                t.append([])
            elif style < 0.25:  # repeated DOF inside one cell
                t.append([rng.randrange(n) for _ in range(rng.randint(1, 4))])
            else:
                t.append(rng.sample(range(n), rng.randint(1, min(n, 4))))
        return t

    tm = table(nT)
    sm = tm if kind == 1 else table(nS)
    if not any(a and b for a, b in zip(tm, sm)) and rng.random() < 0.8:
        # (the rest stays: an entry-free matrix owns no arrays, row_ptr == nullptr -> known finding c16-edge:F3)
        tm[0] = [rng.randrange(nT)]
        sm[0] = tm[0] if kind == 1 else [rng.randrange(nS)]
    order = list(range(nc))
    r = rng.random()
    if r < 0.5:
        rng.shuffle(order)
    elif r < 0.6:
        order = [rng.randrange(nc) for _ in range(rng.randint(0, nc + 2))]  # cells visited twice / not at all
    locs = []
    bsz = 1 if blocked is None else blocked[0] * blocked[1]
    for c in range(nc):
        locs.append((rand_alpha(rng), [rand_q(rng, small=blocked is not None) for _ in range(len(tm[c]) * len(sm[c]) * bsz)]))
    if blocked is not None:
        if not any(a and b for a, b in zip(tm, sm)):
            tm[0] = [rng.randrange(nT)]
            sm[0] = tm[0] if kind == 1 else [rng.randrange(nS)]
            locs[0] = (locs[0][0], [rand_q(rng, small=True) for _ in range(bsz)])
        return "asmb %d %d %d %d %d %d %s %s %s %s" % (
            kind, nT, nS, blocked[0], blocked[1], nc, " ".join(fmt_list(l) for l in tm), " ".join(fmt_list(l) for l in sm),
            fmt_list(order), " ".join("%s %s" % (fs(a), fmt_qlist(v)) for a, v in locs))
    return "asm %d %d %d %d %s %s %s %s" % (
        kind, nT, nS, nc, " ".join(fmt_list(l) for l in tm), " ".join(fmt_list(l) for l in sm), fmt_list(order),
        " ".join("%s %s" % (fs(a), fmt_qlist(v)) for a, v in locs))


class Tk:
    def __init__(self, s):
        self.t = s.split() if isinstance(s, str) else s
        self.p = 0

    def tok(self):
        self.p += 1
        return self.t[self.p - 1]

    def peek(self):
        return self.t[self.p] if self.p < len(self.t) else None

    def nat(self):
        return int(self.tok())

    def q(self):
        return vlib.parse_frac(self.tok())

    def lst(self):
        n = self.nat()
        return [self.nat() for _ in range(n)]

    def qlst(self):
        n = self.nat()
        return [self.q() for _ in range(n)]

    def call(self):
        return (self.q(), self.lst(), self.lst(), self.qlst())

    def calls(self):
        n = self.nat()
        return [self.call() for _ in range(n)]

    def expect(self, s):
        t = self.tok()
        if t != s:
            raise ValueError("expected %s, got %s" % (s, t))


def is_abnormal(out):
    return out.split(":")[0] in ("ABORT", "EXC", "TIMEOUT", "SIGNAL", "SANITIZER", "EXIT") or \
        out.split()[0] in ("HANG", "BAD-OP", "UNINIT", "OOB")


def dense_of(rows, rp, ci, vals):
    d = {}
    for r in range(rows):
        for k in range(rp[r], rp[r + 1]):
            d[(r, ci[k])] = d.get((r, ci[k]), F(0)) + vals[k]
    return d


def add_call(d, call):
    a, rws, cls, vals = call
    nc = len(cls)
    for i, r in enumerate(rws):
        for j, c in enumerate(cls):
            d[(r, c)] = d.get((r, c), F(0)) + a * vals[i * nc + j]


def dense_eq(a, b):
    keys = set(a) | set(b)
    for k in keys:
        if a.get(k, F(0)) != b.get(k, F(0)):
            return "entry %s: %s, expected %s" % (k, a.get(k, F(0)), b.get(k, F(0)))
    return None


def calls_covered(rows, rp, ci, calls):
    for a, rws, cls, vals in calls:
        for r in rws:
            rc = set(ci[rp[r]:rp[r + 1]])
            if any(c not in rc for c in cls):
                return False
    return True


def oracle_synth(case, out):
    c = Tk(case)
    op = c.tok()
    try:
        if op in ("scatter", "gather"):
            rows, cols = c.nat(), c.nat()
            rp, ci, vals = c.lst(), c.lst(), c.qlst()
            calls = c.calls()
            if not calls_covered(rows, rp, ci, calls):
                return None  # excluded point: a coupling outside the pattern, no claim (model still compared)
            if is_abnormal(out):
                return "%s on a covering pattern ended with %s" % (op, out)
            o = Tk(out)
            if op == "scatter":
                o.expect("V")
                nv = o.qlst()
                if len(nv) != len(vals):
                    return "data array changed its length"
                exp = dense_of(rows, rp, ci, vals)
                for cl in calls:
                    add_call(exp, cl)
                return dense_eq(dense_of(rows, rp, ci, nv), exp)
            o.expect("L")
            if o.nat() != len(calls):
                return "wrong number of local matrices"
            if len(set(zip([r for r in range(rows) for _ in range(rp[r], rp[r + 1])], ci))) != len(ci):
                return None  # duplicate column inside a row: gather has no dense meaning
            d = dense_of(rows, rp, ci, vals)
            for a, rws, cls, lv in calls:
                got = o.qlst()
                exp = [lv[i * len(cls) + j] + a * d[(r, cc)] for i, r in enumerate(rws) for j, cc in enumerate(cls)]
                if got != exp:
                    return "gathered local matrix %s, expected %s" % (got, exp)
            return None
        if op in ("vscatter", "vgather"):
            vals = c.qlst()
            calls = c.calls()
            if is_abnormal(out):
                return "%s ended with %s" % (op, out)
            o = Tk(out)
            if op == "vscatter":
                o.expect("W")
                got = o.qlst()
                exp = list(vals)
                for a, m, _, lv in calls:
                    for i, ix in enumerate(m):
                        exp[ix] += a * lv[i]
                return None if got == exp else "vector %s, expected %s" % (got, exp)
            o.expect("L")
            o.nat()
            for a, m, _, lv in calls:
                got = o.qlst()
                exp = [lv[i] + a * vals[ix] for i, ix in enumerate(m)]
                if got != exp:
                    return "gathered local vector %s, expected %s" % (got, exp)
            return None
        if op in ("banded", "bgather"):
            rows, cols = c.nat(), c.nat()
            offs, vals = c.lst(), c.qlst()
            calls = c.calls()

            def pos(r, cc):
                for k, o_ in enumerate(offs):
                    if o_ + r + 1 - rows == cc:
                        return k * rows + r
                return None
            for a, rws, cls, lv in calls:
                if any(pos(r, cc) is None or not (0 <= cc < cols) for r in rws for cc in cls):
                    return None
            if is_abnormal(out):
                return "banded %s on couplings inside the band ended with %s" % (op, out)
            o = Tk(out)
            if op == "bgather":
                o.expect("L")
                if o.nat() != len(calls):
                    return "wrong number of local matrices"
                for a, rws, cls, lv in calls:
                    got = o.qlst()
                    exp = [lv[i * len(cls) + j] + a * vals[pos(r, cc)] for i, r in enumerate(rws) for j, cc in enumerate(cls)]
                    if got != exp:
                        return "gathered local matrix %s, expected %s" % (got, exp)
                return None
            o.expect("V")
            got = o.qlst()
            exp = list(vals)
            for a, rws, cls, lv in calls:
                for i, r in enumerate(rws):
                    for j, cc in enumerate(cls):
                        exp[pos(r, cc)] += a * lv[i * len(cls) + j]
            return None if got == exp else "banded data %s, expected %s" % (got, exp)
        if op == "asmb":
            kind, nT, nS, bh, bw, nc = c.nat(), c.nat(), c.nat(), c.nat(), c.nat(), c.nat()
            tm = [c.lst() for _ in range(nc)]
            sm = [c.lst() for _ in range(nc)]
            order = c.lst()
            locs = [(c.q(), c.qlst()) for _ in range(nc)]
            if kind == 1:
                sm, nS = tm, nT
            if is_abnormal(out):
                return "blocked symbolic + numeric assembly ended with " + out
            o = Tk(out)
            o.expect("MB")
            rows, cols = o.nat(), o.nat()
            rp, ci = o.lst(), o.lst()
            if (o.nat(), o.nat()) != (bh, bw):
                return "block size changed"
            vals = o.qlst()
            e = check_pattern(rows, cols, rp, ci, len(vals) // (bh * bw), nT, nS, tm, sm)
            if e:
                return e
            n = bh * bw
            for comp in range(n):
                exp = {}
                for k in order:
                    a, lv = locs[k]
                    add_call(exp, (a, tm[k], sm[k], [lv[q * n + comp] for q in range(len(tm[k]) * len(sm[k]))]))
                e = dense_eq(dense_of(rows, rp, ci, [vals[q * n + comp] for q in range(len(ci))]), exp)
                if e:
                    return "block component (%d,%d): %s" % (comp // bw, comp % bw, e)
            return None
        if op == "asm":
            kind, nT, nS, nc = c.nat(), c.nat(), c.nat(), c.nat()
            tm = [c.lst() for _ in range(nc)]
            sm = [c.lst() for _ in range(nc)]
            order = c.lst()
            locs = [(c.q(), c.qlst()) for _ in range(nc)]
            if kind == 1:
                sm, nS = tm, nT
            if is_abnormal(out):
                return "symbolic + numeric assembly ended with " + out
            return check_assembled(Tk(out), nT, nS, tm, sm, [(locs[k][0], tm[k], sm[k], locs[k][1]) for k in order])
    except (IndexError, ValueError, AssertionError, KeyError) as e:
        return "unparsable implementation output (%s): %s" % (e, out[:200])
    return None


def read_matrix(o):
    o.expect("M")
    rows, cols = o.nat(), o.nat()
    rp, ci, vals = o.lst(), o.lst(), o.qlst()
    return rows, cols, rp, ci, vals


def check_pattern(rows, cols, rp, ci, nvals, nT, nS, tm, sm):
    if rows != nT or cols != nS:
        return "matrix is %dx%d, spaces have %d/%d dofs" % (rows, cols, nT, nS)
    if len(rp) != rows + 1 or rp[0] != 0 or rp[-1] != len(ci) or nvals != len(ci) or \
            any(rp[i] > rp[i + 1] for i in range(rows)) or any(x >= cols for x in ci):
        return "malformed CSR arrays"
    have = [set(ci[rp[r]:rp[r + 1]]) for r in range(rows)]
    for cell, (tl, sl) in enumerate(zip(tm, sm)):
        for r in tl:
            for s in sl:
                if s not in have[r]:
                    return "coupling (%d,%d) of cell %d is missing from the sparsity pattern" % (r, s, cell)
    return None


def check_assembled(o, nT, nS, tm, sm, calls):
    rows, cols, rp, ci, vals = read_matrix(o)
    e = check_pattern(rows, cols, rp, ci, len(vals), nT, nS, tm, sm)
    if e:
        return e
    exp = {}
    for cl in calls:
        add_call(exp, cl)
    return dense_eq(dense_of(rows, rp, ci, vals), exp)


def nontrivial_synth(case):
    t = case.split()
    if t[0] == "asm":
        return int(t[4]) >= 2
    if t[0] == "asmb":
        return int(t[6]) >= 2
    return len(t) > 12


def describe_synth(case):
    t = case.split()
    keys = ["op:" + t[0]]
    if t[0] in ("scatter", "gather"):
        c = Tk(case)
        c.tok()
        rows, cols = c.nat(), c.nat()
        rp, ci, vals = c.lst(), c.lst(), c.qlst()
        calls = c.calls()
        keys.append("covered" if calls_covered(rows, rp, ci, calls) else "stale-slot(excluded point)")
    if t[0] == "asm":
        keys.append("asm-kind:" + t[1])
        if asm_zero_couplings(case):
            keys.append("edge:entry-free-matrix(F3)")
    if t[0] in ("banded", "bgather"):
        r, c = int(t[1]), int(t[2])
        keys.append("banded:" + ("square" if r == c else "rows<cols" if r < c else "rows>cols"))
    return keys


# ---------------------------------------------------------------------------------------------
# finite-element stream
# ---------------------------------------------------------------------------------------------

SHAPES = {"line": (1, "h"), "quad": (2, "h"), "tria": (2, "s"), "hexa": (3, "h"), "tetra": (3, "s")}
DEG = {"L1": 1, "L2": 2, "D0": 0, "CR": 1}       # largest k with P_k inside the space
REFDEG_H = {"L1": 1, "L2": 2, "D0": 0, "CR": 2}  # per-variable degree of a basis function on the reference hypercube
PAIRS = [("L2", "D0"), ("L1", "L2"), ("CR", "D0"), ("L2", "L1"), ("D0", "L2")]
RULES_H = [("newton-cotes-closed:2", 1), ("newton-cotes-closed:3", 3), ("simpson", 3), ("newton-cotes-closed:4", 3),
           ("newton-cotes-closed:5", 5), ("newton-cotes-closed:6", 5), ("newton-cotes-closed:7", 7),
           ("trapezoidal", 1), ("barycentre", 1)]
RULES_S2 = [("lauffer-degree-2", 2), ("silvester-open:2", 2), ("silvester-open:3", 3), ("silvester-open:4", 4),
            ("barycentre", 1), ("trapezoidal", 1)]
RULES_S3 = [("lauffer-degree-2", 2), ("lauffer-degree-4", 4), ("barycentre", 1), ("trapezoidal", 1)]


def rules_for(fam, dim):
    return RULES_H if fam == "h" else (RULES_S2 if dim == 2 else RULES_S3)


def monomials(dim):
    m = [tuple([0] * dim)]
    for i in range(dim):
        e = [0] * dim
        e[i] = 1
        m.append(tuple(e))
    for i in range(dim):
        for j in range(i, dim):
            e = [0] * dim
            e[i] += 1
            e[j] += 1
            m.append(tuple(e))
    return m


class Poly:
    def __init__(self, dim, terms=None):
        self.dim = dim
        self.t = {k: v for k, v in (terms or {}).items() if v != 0}

    @staticmethod
    def from_coefs(dim, coefs):
        return Poly(dim, {m: c for m, c in zip(monomials(dim), coefs)})

    def __mul__(self, o):
        r = {}
        for a, x in self.t.items():
            for b, y in o.t.items():
                k = tuple(p + q for p, q in zip(a, b))
                r[k] = r.get(k, F(0)) + x * y
        return Poly(self.dim, r)

    def __add__(self, o):
        r = dict(self.t)
        for b, y in o.t.items():
            r[b] = r.get(b, F(0)) + y
        return Poly(self.dim, r)

    def diff(self, d):
        r = {}
        for a, x in self.t.items():
            if a[d] > 0:
                k = tuple(p - (1 if i == d else 0) for i, p in enumerate(a))
                r[k] = r.get(k, F(0)) + x * a[d]
        return Poly(self.dim, r)

    def integral_unit_cube(self):
        s = F(0)
        for a, x in self.t.items():
            w = x
            for p in a:
                w /= (p + 1)
            s += w
        return s

    def degree(self):
        return max([sum(a) for a in self.t] + [0])


def rand_poly_coefs(rng, dim, deg):
    ms = monomials(dim)
    return [(rand_q(rng) if sum(m) <= deg else F(0)) for m in ms]


def need_degree(kind, fam, dim, tsp, ssp, moved, degf):
    """degree the rule must have for the assembled integrals to be exact; None = never exact (rational integrand)"""
    if fam == "s":
        kt, ks = DEG[tsp], DEG[ssp]
        if kind in ("mass", "mass2"):
            return kt + ks
        if kind == "lapl":
            return max(0, 2 * kt - 2)
        if kind in ("deriv", "derivt", "derivt1"):
            return max(0, kt - 1 + ks)
        return kt + degf
    kt, ks = REFDEG_H[tsp], REFDEG_H[ssp]
    ex = (dim - 1) if moved else 0
    if kind in ("mass", "mass2"):
        return kt + ks + ex
    if kind == "lapl":
        return None if (moved and dim > 1) else 2 * kt
    if kind in ("deriv", "derivt", "derivt1"):
        return kt + ks + ex
    return kt + degf + ex


def gen_fe_case(rng, tier, kind=None):
    shape = rng.choice(["line", "quad", "quad", "tria", "tria", "hexa", "tetra"])
    dim, fam = SHAPES[shape]
    kind = kind or rng.choice(["mass", "mass", "lapl", "lapl", "mass2", "derivt", "derivt", "derivt1", "force", "force", "deriv"])
    if kind in ("mass", "lapl", "force", "derivt1"):
        sp = ["L1", "L2"] + (["CR"] if dim >= 2 else []) + (["D0"] if kind in ("mass", "force") else [])
        tsp = ssp = rng.choice(sp)
    else:
        # derivt needs test gradients, deriv needs trial gradients (P0 has none)
        tsp, ssp = rng.choice([p for p in PAIRS if (dim >= 2 or "CR" not in p) and
                               not (kind == "derivt" and p[0] == "D0") and not (kind == "deriv" and p[1] == "D0")])
    heavy = ("L2" in (tsp, ssp)) or ("CR" in (tsp, ssp))
    maxlev = {"line": 3, "quad": 2, "tria": 1, "hexa": 1, "tetra": 0}[shape]
    if heavy and shape in ("quad", "tria"):
        maxlev = 1
    if shape == "hexa" and (heavy or kind in ("mass2", "deriv", "derivt", "derivt1")):
        maxlev = 0  # Q2/RT on 8 non-affine hexahedra at Q takes minutes per case (rational blow-up)
    level = rng.randint(0, maxlev)
    h = F(1, 2 ** level) if fam == "h" else F(1, 2 ** (level + 1))
    moves = []
    if rng.random() < 0.7:
        for _ in range(rng.randint(1, 3)):
            moves.append((rng.randrange(64), [F(rng.randint(-5, 5), 40) * h for _ in range(dim)]))
    # polynomials inside the spaces
    cu = rand_poly_coefs(rng, dim, DEG[tsp])
    if kind == "force":
        degf = rng.choice([0, 1, 2])
        cv = rand_poly_coefs(rng, dim, degf)
    else:
        degf = 0
        cv = rand_poly_coefs(rng, dim, DEG[ssp])
    has_inner = (level >= 1) or fam == "s"
    moved = bool(moves) and has_inner
    need = need_degree(kind, fam, dim, tsp, ssp, moved, degf)
    rules = rules_for(fam, dim)
    good = [r for r in rules if need is not None and r[1] >= need]
    if good and rng.random() < 0.85:
        rule = rng.choice(good)[0]
    else:
        rule = rng.choice(rules)[0]
    d = rng.randrange(dim) if kind in ("deriv", "derivt", "derivt1") else 0
    mv = " ".join("%d %s" % (i, " ".join(fs(x) for x in dl)) for i, dl in moves)
    return ("fe %s %d %d %s %s %s %s %d %s %s %s %s" % (
        shape, level, len(moves), mv, kind, tsp, ssp, d, rule, fs(rand_alpha(rng) or F(1)), fmt_qlist(cu), fmt_qlist(cv))
            ).replace("  ", " ")


def parse_fe_case(case):
    c = Tk(case)
    op = c.tok()
    shape = c.tok()
    dim, fam = SHAPES[shape]
    level = c.nat()
    nm = c.nat()
    moves = [(c.nat(), [c.q() for _ in range(dim)]) for _ in range(nm)]
    kind, tsp, ssp = c.tok(), c.tok(), c.tok()
    d = c.nat()
    rule = c.tok()
    alpha = c.q()
    cu, cv = c.qlst(), c.qlst()
    return dict(op=op, shape=shape, dim=dim, fam=fam, level=level, moves=moves, kind=kind, tsp=tsp, ssp=ssp, d=d,
                rule=rule, alpha=alpha, cu=cu, cv=cv, end=c.p)


def parse_fe_out(out):
    o = Tk(out)
    o.expect("FE")
    dim, nv = o.nat(), o.nat()
    verts = [[o.q() for _ in range(dim)] for _ in range(nv)]
    nc, nvpc = o.nat(), o.nat()
    cells = [[o.nat() for _ in range(nvpc)] for _ in range(nc)]
    r = dict(dim=dim, verts=verts, cells=cells)

    def dofmap():
        nd, n = o.nat(), o.nat()
        return nd, [o.lst() for _ in range(n)]
    while o.peek() is not None:
        tag = o.tok()
        if tag in ("T", "S"):
            r[tag] = dofmap()
        elif tag == "P":
            r["P"] = (o.nat(), o.nat(), o.lst(), o.lst())
        elif tag == "B" and "P" in r:
            r["BP"] = (o.nat(), o.nat(), o.lst(), o.lst())
            r["B"] = o.qlst()
        elif tag in ("A", "B", "C", "U", "V"):
            r[tag] = o.qlst()
        elif tag == "R":
            r["R"] = o.calls()
        else:
            raise ValueError("unknown section " + tag)
    return r


def mesh_valid(dim, fam, verts, cells):
    """the moved mesh is still a non-degenerate partition of the unit cube (2D/1D: checked exactly)"""
    if dim == 1:
        return sum(abs(verts[c[1]][0] - verts[c[0]][0]) for c in cells) == 1 and all(verts[c[1]][0] != verts[c[0]][0] for c in cells)
    if dim == 2:
        tot = F(0)
        for c in cells:
            idx = c if fam == "s" else [c[0], c[1], c[3], c[2]]
            pts = [verts[i] for i in idx]
            n = len(pts)
            crs = []
            for i in range(n):
                a, b, cc = pts[i], pts[(i + 1) % n], pts[(i + 2) % n]
                crs.append((b[0] - a[0]) * (cc[1] - b[1]) - (b[1] - a[1]) * (cc[0] - b[0]))
            if not (all(x > 0 for x in crs) or all(x < 0 for x in crs)):
                return False
            ar = sum(pts[i][0] * pts[(i + 1) % n][1] - pts[(i + 1) % n][0] * pts[i][1] for i in range(n)) / 2
            tot += abs(ar)
        return tot == 1
    return True


def cells_moved(dim, fam, level, verts):
    n = 2 ** level if fam == "h" else 2 ** (level + 1)
    return any((x * n).denominator != 1 for v in verts for x in v)


def rule_degree(fam, dim, rule):
    for nme, dg in rules_for(fam, dim):
        if nme == rule:
            return dg
    return 0


def oracle_fe(case, out):
    try:
        g = parse_fe_case(case)
        if is_abnormal(out):
            return "assembly on a valid configuration ended with " + out
        r = parse_fe_out(out)
        dim, fam, kind, alpha = g["dim"], g["fam"], g["kind"], g["alpha"]
        if not mesh_valid(dim, fam, r["verts"], r["cells"]):
            return None
        moved = cells_moved(dim, fam, g["level"], r["verts"])
        pu = Poly.from_coefs(dim, g["cu"])
        pv = Poly.from_coefs(dim, g["cv"])
        one = Poly(dim, {tuple([0] * dim): F(1)})
        degf = pv.degree() if kind == "force" else 0
        need = need_degree(kind, fam, dim, g["tsp"], g["ssp"], moved, degf)
        exact = need is not None and rule_degree(fam, dim, g["rule"]) >= need
        if kind == "force":
            nd, tm = r["T"]
            a, b, c2, u = r["A"], r["B"], r["C"], r["U"]
            if len(a) != nd or len(u) != nd:
                return "vector length differs from the number of dofs"
            if a != b:
                return "LinearFunctionalAssembler and LinearFunctionalAssemblyJob give different vectors"
            if a != c2:
                return "LinearFunctionalAssembler and ForceFunctionalAssemblyJob give different vectors"
            if exact:
                if sum(a) != alpha * pv.integral_unit_cube():
                    return "sum of the force vector %s, exact integral of f is %s" % (sum(a), alpha * pv.integral_unit_cube())
                got = sum(x * y for x, y in zip(u, a))
                exp = alpha * (pu * pv).integral_unit_cube()
                if got != exp:
                    return "u^T b = %s, exact integral of f*u is %s" % (got, exp)
            return None
        (nT, tm), (nS, sm) = r["T"], r["S"]
        rows, cols, rp, ci = r["P"]
        a, b, u, v = r["A"], r["B"], r["U"], r["V"]
        e = check_pattern(rows, cols, rp, ci, len(a), nT, nS, tm, sm)
        if e:
            return e
        if r["BP"] != r["P"]:
            return "assemble_matrix_std1 and assemble_matrix_std2 give different patterns"
        if a != b:
            return "classic cell loop and domain-assembler job give different matrices"
        if len(u) != nT or len(v) != nS:
            return "interpolated vector has wrong length"
        d = dense_of(rows, rp, ci, a)
        if kind in ("mass", "lapl"):
            for (i, j), x in d.items():
                if d.get((j, i), F(0)) != x:
                    return "symmetric form, but A[%d,%d] = %s != A[%d,%d] = %s" % (i, j, x, j, i, d.get((j, i), F(0)))
        rowsum = [sum(a[rp[i]:rp[i + 1]]) for i in range(rows)]
        colsum = [F(0)] * cols
        for k, x in enumerate(a):
            colsum[ci[k]] += x
        if kind == "lapl":
            if any(x != 0 for x in rowsum) or any(x != 0 for x in colsum):
                return "Laplace matrix does not annihilate the constant vector"
        if kind in ("derivt", "derivt1"):
            if any(x != 0 for x in colsum):
                return "test-derivative matrix: 1^T A != 0"
        if kind == "deriv":
            if any(x != 0 for x in rowsum):
                return "trial-derivative matrix: A 1 != 0"
        uav = sum(u[i] * x * v[j] for (i, j), x in d.items())
        if exact:
            if kind in ("mass", "mass2"):
                if sum(a) != alpha:
                    return "mass entries sum to %s, volume of the unit cube times alpha is %s" % (sum(a), alpha)
                exp = alpha * (pu * pv).integral_unit_cube()
                what = "int u v"
            elif kind == "lapl":
                gg = Poly(dim)
                for k in range(dim):
                    gg = gg + pu.diff(k) * pv.diff(k)
                exp = alpha * gg.integral_unit_cube()
                what = "int grad u . grad v"
            elif kind in ("derivt", "derivt1"):
                exp = alpha * (pv * pu.diff(g["d"])).integral_unit_cube()
                what = "int v d_%d u" % g["d"]
            else:  # deriv: documented as  d_i(trial) * test
                exp = alpha * (pu * pv.diff(g["d"])).integral_unit_cube()
                what = "int u d_%d v (trial derivative)" % g["d"]
            if uav != exp:
                return "u^T A v = %s, exact %s = %s" % (uav, what, exp)
        return None
    except (IndexError, ValueError, AssertionError, KeyError) as e:
        return "unparsable implementation output (%s): %s" % (repr(e), out[:200])


def nontrivial_fe(case):
    g = parse_fe_case(case)
    return g["level"] >= 1 or g["fam"] == "s" or bool(g["moves"])


def describe_fe(case):
    g = parse_fe_case(case)
    has_inner = g["level"] >= 1 or g["fam"] == "s"
    moved = bool(g["moves"]) and has_inner
    degf = Poly.from_coefs(g["dim"], g["cv"]).degree() if g["kind"] == "force" else 0
    need = need_degree(g["kind"], g["fam"], g["dim"], g["tsp"], g["ssp"], moved, degf)
    ex = need is not None and rule_degree(g["fam"], g["dim"], g["rule"]) >= need
    return ["exact-rule(integrals judged)" if ex else "inexact-rule(structural identities only)",
            "non-affine-cells" if (moved and g["fam"] == "h" and g["dim"] > 1) else "affine-cells","shape:" + g["shape"], "kind:" + g["kind"], "space:%s/%s" % (g["tsp"], g["ssp"]), "rule:" + g["rule"],
            "level:%d" % g["level"], "moved" if g["moves"] else "unmoved"]


def asm_zero_couplings(case):
    """asm case whose DOF tables have no cell with both a test and a trial dof: the symbolic matrix is entry-free"""
    t = case.split()
    if t[0] != "asm":
        return False
    c = Tk(case)
    c.tok()
    kind, nT, nS, nc = c.nat(), c.nat(), c.nat(), c.nat()
    tm = [c.lst() for _ in range(nc)]
    sm = [c.lst() for _ in range(nc)]
    if kind == 1:
        sm = tm
    return not any(a and b for a, b in zip(tm, sm))


def signature(case, out, why):
    t = case.split()
    if t[0] == "fe":
        g = parse_fe_case(case)
        return "fe:%s:%s" % (g["kind"], (why or "")[:40])
    if t[0] in ("hk", "hkasm"):
        return "%s:%s" % (t[0], (why or "")[:50])
    if t[0] in ("trace3", "trpt"):
        return "%s:%s" % (t[0], (why or "")[:50])
    if t[0] == "vox":
        if t[1] == "burgers" and float(t[7]) == 0 and float(t[9]) == 0 and float(t[8]) != 0 and why and "voxel assembler" in why:
            # F6: the voxel Burgers host kernel gathers the convection dofs only if beta != 0 or streamline diffusion is
            # on; with only frechet_beta != 0 the Frechet term is assembled from a zero field
            return "c16-edge:F6"
        return "vox:%s:%s" % (t[1], (why or "")[:40])
    if t[0] in ("hist", "histj", "flocal"):
        return "%s:%s" % (t[0], (why or "")[:50])
    if t[0] == "trace":
        if why and why.startswith("after clear()"):
            # F5: TraceAssembler::clear() loops over the (just emptied) _facets instead of _facet_mask
            return "c16-edge:F5"
        return "trace:%s" % (why or "")[:50]
    if t[0] == "ops":
        g = parse_ops_case(case)
        if g["part"] == "s9":
            # F4: StrainRateTensorOperator<3,9>::eval assigns K(6,1) twice, K(6,2) stays uninitialised
            return "c16-edge:F4"
        return "ops:%s" % (why or "")[:50]
    if asm_zero_couplings(case) and is_abnormal(out):
        # F3: SparseMatrixCSR::ScatterAxpy on an entry-free matrix (row_ptr == nullptr)
        return "c16-edge:F3"
    return "%s:%s" % (t[0], (why or "")[:40])


def feasm_line(case, out):
    """case for the fe-model stream: configuration + what the real cell loop handed to the scatter object"""
    if is_abnormal(out):
        return None
    g = parse_fe_case(case)
    r = parse_fe_out(out)
    cfg = " ".join(case.split()[1:g["end"]])
    if g["kind"] == "force":
        return "feasm %s REC V %d %s" % (cfg, r["T"][0], fmt_calls(r["R"]))
    tag = "M1" if g["kind"] in ("mass", "lapl", "derivt1") else "M2"
    return "feasm %s REC %s %d %d %s" % (cfg, tag, r["T"][0], r["S"][0], fmt_calls(r["R"]))


def oracle_feasm(case, out):
    # the matrix itself was judged in the fe stream; here only: the run must not fail
    if is_abnormal(out):
        return "assembly on a valid configuration ended with " + out
    return None



# ---------------------------------------------------------------------------------------------
# Burgers stream: classic BurgersAssembler vs. domain-assembler jobs, blocked and scalar matrices
# ---------------------------------------------------------------------------------------------

BG_SHAPES = {"quad": (2, "h", 4), "tria": (2, "s", 4), "hexa": (3, "h", 8)}   # dim, family, refinement factor


def bg_ncells(shape, level):
    base = {"quad": 1, "tria": 4, "hexa": 1}[shape]
    return base * BG_SHAPES[shape][2] ** level


def gen_bg_case(rng, tier):
    shape = rng.choice(["quad", "quad", "quad", "tria", "tria", "hexa"])
    dim, fam, _ = BG_SHAPES[shape]
    space = "L1" if shape == "hexa" else rng.choice(["L1", "L1", "L2"])
    mtype = rng.choice(["B", "B", "S"])
    maxlev = {"quad": 2 if space == "L1" else 1, "tria": 1 if space == "L1" else 0, "hexa": 1}[shape]
    level = rng.randint(0, maxlev)
    if shape == "hexa" and tier == "quick" and rng.random() < 0.5:
        level = 0
    nc = bg_ncells(shape, level)
    h = F(1, 2 ** level) if fam == "h" else F(1, 2 ** (level + 1))
    moves = []
    if rng.random() < 0.6:
        for _ in range(rng.randint(1, 3)):
            moves.append((rng.randrange(64), [F(rng.randint(-5, 5), 40) * h for _ in range(dim)]))
    if fam == "h":
        rule = rng.choice(["newton-cotes-closed:2", "newton-cotes-closed:3", "newton-cotes-closed:4"] +
                          (["newton-cotes-closed:5"] if dim == 2 else []))
    else:
        rule = rng.choice(["lauffer-degree-2", "silvester-open:3", "silvester-open:4", "barycentre"])

    def onoff(p, vals):
        return rng.choice(vals) if rng.random() < p else F(0)
    nu = onoff(0.6, [F(1), F(1, 2), F(1, 100), F(3)])
    theta = onoff(0.4, [F(1), F(-1, 2), F(2)])
    beta = onoff(0.6, [F(1), F(-1), F(1, 2)])
    frechet = onoff(0.3, [F(1), F(1, 3)]) if mtype == "B" else F(0)   # not available for scalar matrices (XASSERT)
    sd_delta = onoff(0.8, [F(1, 10), F(1, 4), F(1), F(-1, 2), F(3)])
    sd_nu = rng.choice([F(1), F(1, 100), F(1, 2), F(5)])
    deform = 1 if (rng.random() < 0.3 and mtype == "B") else 0   # scalar matrices: XASSERT
    vmode = rng.choice([1, 1, 1, 2, 2, 0])
    vnorm = rng.choice([F(1), F(2), F(1, 2), F(7, 3)])
    deg = DEG[space]
    fk = rng.choice([1, 2, 2, 3, 3, 3])
    if fk == 1:
        comps = [[rand_q(rng) if rng.random() < 0.8 else F(0)] + [F(0)] * (len(monomials(dim)) - 1) for _ in range(dim)]
        ftxt = "1 " + " ".join(fmt_qlist(c) for c in comps)
    elif fk == 2:
        comps = [rand_poly_coefs(rng, dim, rng.randint(1, deg)) for _ in range(dim)]
        ftxt = "2 " + " ".join(fmt_qlist(c) for c in comps)
    else:
        k = rng.randrange(nc)
        if dim == 2:
            m = rng.choice([[0, -1, 1, 0], [1, 0, 0, -1], [1, 0, 0, 1], None])
        else:
            m = rng.choice([[0, -1, 0, 1, 0, 0, 0, 0, 0], [1, 0, 0, 0, 1, 0, 0, 0, -2], None])
        if m is None:
            m = [rand_q(rng, small=True) for _ in range(dim * dim)]
        ftxt = "3 %d %s" % (k, " ".join(fs(x) for x in m))
    zero = []
    if rng.random() < 0.4:
        zero = [rng.randrange(nc) for _ in range(rng.randint(1, 3))]
    order = list(range(nc))
    rng.shuffle(order)
    mv = " ".join("%d %s" % (i, " ".join(fs(x) for x in dl)) for i, dl in moves)
    line = "bg %s %d %d %s %s %s %s %d %s %s %s %s %s %s %d %s %s %s %s" % (
        shape, level, len(moves), mv, space, mtype, rule, deform, fs(nu), fs(theta), fs(beta), fs(frechet), fs(sd_delta),
        fs(sd_nu), vmode, fs(vnorm), ftxt, fmt_list(zero), fmt_list(order))
    return " ".join(line.split())


def parse_bg_case(case):
    c = Tk(case)
    op, shape = c.tok(), c.tok()
    dim, fam, _ = BG_SHAPES[shape]
    level = c.nat()
    nm = c.nat()
    moves = [(c.nat(), [c.q() for _ in range(dim)]) for _ in range(nm)]
    space, mtype, rule = c.tok(), c.tok(), c.tok()
    deform = c.nat()
    nu, theta, beta, frechet, sd_delta, sd_nu = [c.q() for _ in range(6)]
    vmode = c.nat()
    vnorm = c.q()
    fk = c.nat()
    fcell, fmat, comps = None, None, None
    if fk == 3:
        fcell = c.nat()
        fmat = [c.q() for _ in range(dim * dim)]
    else:
        comps = [c.qlst() for _ in range(dim)]
    zero, order = c.lst(), c.lst()
    return dict(shape=shape, dim=dim, fam=fam, level=level, moves=moves, space=space, mtype=mtype, rule=rule,
                deform=deform, nu=nu, theta=theta, beta=beta, frechet=frechet, sd_delta=sd_delta, sd_nu=sd_nu,
                vmode=vmode, vnorm=vnorm, fk=fk, fcell=fcell, fmat=fmat, comps=comps, zero=zero, order=order, end=c.p)


def parse_bg_out(out):
    o = Tk(out)
    o.expect("FE")
    dim, nv = o.nat(), o.nat()
    verts = [[o.q() for _ in range(dim)] for _ in range(nv)]
    nc, nvpc = o.nat(), o.nat()
    cells = [[o.nat() for _ in range(nvpc)] for _ in range(nc)]
    o.expect("T")
    nd, n = o.nat(), o.nat()
    tm = [o.lst() for _ in range(n)]
    o.expect("K")
    bs = o.nat()
    tol, sd_delta, sd_nu, vnorm = o.q(), o.q(), o.q(), o.q()
    need = o.nat()
    o.expect("P")
    rp, ci = o.lst(), o.lst()
    r = dict(dim=dim, verts=verts, cells=cells, nd=nd, tm=tm, bs=bs, tol=tol, sd_delta=sd_delta, sd_nu=sd_nu,
             vnorm=vnorm, need=need, rp=rp, ci=ci)
    for tag in ("A", "B", "S", "O"):
        o.expect(tag)
        r[tag] = o.qlst()
    o.expect("C")
    k = o.nat()
    per = []
    for _ in range(k):
        v = [o.q() for _ in range(dim)]
        nrm, width, delta = o.q(), o.q(), o.q()
        d = o.qlst()
        per.append((v, nrm, width, delta, d))
    r["C"] = per
    return r


def q_sqrt(x):
    """the deterministic rational square root of harness/common/exact_q.hpp"""
    import math
    n, d = x.numerator, x.denominator
    return F(math.isqrt(n * d * 2 ** 80), d * 2 ** 40)


def first_diff(a, b):
    if len(a) != len(b):
        return "length %d vs %d" % (len(a), len(b))
    for k, (x, y) in enumerate(zip(a, b)):
        if x != y:
            return "value %d: %s vs %s" % (k, x, y)
    return None


def oracle_bg(case, out):
    try:
        g = parse_bg_case(case)
        if is_abnormal(out):
            return "Burgers assembly on a valid configuration ended with " + out
        r = parse_bg_out(out)
        dim, bs = r["dim"], r["bs"]
        if not mesh_valid(dim, g["fam"], r["verts"], r["cells"]):
            return None
        # --- the routes
        e = first_diff(r["A"], r["B"])
        if e:
            return "classic BurgersAssembler and the domain-assembler job give different matrices (%s)" % e
        e = first_diff(r["B"], r["S"])
        if e:
            return "job on all cells differs from the sum of the one-cell assemblies: state leaks between cells (%s)" % e
        e = first_diff(r["B"], r["O"])
        if e:
            return "the assembled matrix depends on the order of the cells (%s)" % e
        # --- per-cell parameter and streamline-diffusion part
        nc = len(r["cells"])
        zero = set(z % nc for z in g["zero"])
        if g["fk"] == 3:
            ck = [sum(r["verts"][v][d] for v in r["cells"][g["fcell"] % nc]) / len(r["cells"][0]) for d in range(dim)]
            comps = []
            for a in range(dim):
                co = [F(0)] * len(monomials(dim))
                for b in range(dim):
                    co[1 + b] = g["fmat"][a * dim + b]
                    co[0] -= g["fmat"][a * dim + b] * ck[b]
                comps.append(co)
        else:
            comps = g["comps"]
        polys = [Poly.from_coefs(dim, c) for c in comps]
        for cell, (v, nrm, width, delta, dmat) in enumerate(r["C"]):
            cen = [sum(r["verts"][x][d] for x in r["cells"][cell]) / len(r["cells"][cell]) for d in range(dim)]
            if cell in zero:
                exp_v = [F(0)] * dim
            elif not zero:
                exp_v = []
                for pl in polys:
                    sv = F(0)
                    for mon, cf in pl.t.items():
                        w = cf
                        for d in range(dim):
                            w *= cen[d] ** mon[d]
                        sv += w
                    exp_v.append(sv)
            else:
                exp_v = None   # neighbour of a zeroed cell: the field is not a polynomial there
            if not r["need"]:
                # streamline diffusion off: the routes do not evaluate the barycentre velocity at all
                if any(x != 0 for x in dmat):
                    return "cell %d: streamline diffusion is switched off but the local matrix changes with sd_delta" % cell
                continue
            if exp_v is not None and v != exp_v:
                return "cell %d: barycentre velocity %s, expected %s" % (cell, v, exp_v)
            if nrm != q_sqrt(sum(x * x for x in v)):
                return "cell %d: |v| is not the norm of the barycentre velocity" % cell
            if r["need"] and nrm > r["tol"]:
                re_ = nrm * width / r["sd_nu"]
                exp_delta = r["sd_delta"] * (width / r["vnorm"]) * (2 * re_) / (1 + re_)
            else:
                exp_delta = F(0)
            if r["need"] and delta != exp_delta:
                return "cell %d: local_delta = %s, expected %s (|v_bary| = %s)" % (cell, delta, exp_delta, nrm)
            nl = len(r["tm"][cell])
            if len(dmat) != nl * nl * bs * bs:
                return "cell %d: local matrix has wrong size" % cell
            active = bool(r["need"]) and exp_delta > r["tol"]
            if not active and any(x != 0 for x in dmat):
                return "cell %d: non-zero streamline diffusion although delta_T = 0 (|v_bary| = %s, need_sd = %d)" % (
                    cell, nrm, r["need"])

            def dd(i, j, a, b):
                return dmat[((i * nl + j) * bs + a) * bs + b]
            for i in range(nl):
                for a in range(bs):
                    for b in range(bs):
                        if sum(dd(i, j, a, b) for j in range(nl)) != 0:
                            return "cell %d: streamline-diffusion part does not annihilate constants" % cell
                        for j in range(nl):
                            if dd(i, j, a, b) != dd(j, i, b, a):
                                return "cell %d: streamline-diffusion part is not symmetric" % cell
                            if a != b and dd(i, j, a, b) != 0:
                                return "cell %d: streamline-diffusion part couples different components" % cell
        # --- global identities of the assembled operator
        rows = r["nd"]
        rp, ci, a_ = r["rp"], r["ci"], r["A"]
        frechet = g["frechet"] if g["mtype"] == "B" else F(0)

        def blk(k, a, b):
            return a_[(k * bs + a) * bs + b]
        if g["theta"] == 0 and frechet == 0:
            for i in range(rows):
                for a in range(bs):
                    for b in range(bs):
                        if sum(blk(k, a, b) for k in range(rp[i], rp[i + 1])) != 0:
                            return "row %d: the operator has constants in its kernel but A 1 != 0" % i
        if g["beta"] == 0 and frechet == 0:
            pos = {}
            for i in range(rows):
                for k in range(rp[i], rp[i + 1]):
                    pos[(i, ci[k])] = k
            for (i, j), k in pos.items():
                k2 = pos.get((j, i))
                for a in range(bs):
                    for b in range(bs):
                        if k2 is None or blk(k, a, b) != blk(k2, b, a):
                            return "symmetric form (no convection) but the matrix is not symmetric at (%d,%d)" % (i, j)
        return None
    except (IndexError, ValueError, AssertionError, KeyError) as e:
        return "unparsable implementation output (%s): %s" % (repr(e), out[:200])


def bgsd_line(case, out):
    if is_abnormal(out):
        return None
    g = parse_bg_case(case)
    r = parse_bg_out(out)
    cfg = " ".join(case.split()[1:g["end"]])
    cells = " ".join("%s %s" % (fs(nrm), fs(width)) for (_, nrm, width, _, _) in r["C"])
    return "bgsd %s REC %s %s %s %s %d %d %s" % (cfg, fs(r["tol"]), fs(r["sd_delta"]), fs(r["sd_nu"]), fs(r["vnorm"]),
                                                 r["need"], len(r["C"]), cells)


def oracle_bgsd(case, out):
    if is_abnormal(out):
        return "Burgers job task on a valid configuration ended with " + out
    return None


def describe_bg(case):
    g = parse_bg_case(case)
    terms = "".join(ch for ch, v in (("n", g["nu"]), ("t", g["theta"]), ("b", g["beta"]), ("f", g["frechet"]),
                                     ("s", g["sd_delta"])) if v != 0)
    return ["shape:" + g["shape"], "space:" + g["space"], "matrix:" + ("blocked" if g["mtype"] == "B" else "scalar"),
            "terms:" + (terms or "-") + ("+deform" if g["deform"] else ""),
            "field:" + {1: "constant", 2: "polynomial", 3: "stagnation-at-cell-centre"}[g["fk"]] +
            ("+zero-cells" if g["zero"] else ""), "vnorm-mode:%d" % g["vmode"], "level:%d" % g["level"]]


CORPUS_BG = [
    # vortex centred in cell 0, SD on, blocked/scalar; the cell after a flow cell has delta_T = 0
    "bg quad 1 0 L1 B newton-cotes-closed:3 0 1/1 1/2 1/1 0/1 1/10 1/1 1 0/1 3 0 0/1 -1/1 1/1 0/1 0 4 3 1 0 2",
    "bg quad 1 0 L1 S newton-cotes-closed:3 0 1/1 0/1 1/1 0/1 1/10 1/1 2 2/1 3 2 0/1 -1/1 1/1 0/1 0 4 0 1 2 3",
    "bg quad 1 0 L2 B newton-cotes-closed:4 1 1/2 0/1 1/1 1/3 1/4 1/100 1 0/1 3 3 1/1 0/1 0/1 -1/1 2 0 1 4 2 0 3 1",
    "bg tria 0 0 L1 B lauffer-degree-2 0 0/1 0/1 0/1 0/1 1/1 1/1 1 0/1 3 1 0/1 -1/1 1/1 0/1 0 4 1 0 3 2",
]



# ---------------------------------------------------------------------------------------------
# operator sweep: every class of common_operators.hpp / common_functionals.hpp
# ---------------------------------------------------------------------------------------------

# stress-component layouts documented in StressDivergenceOperator / StrainRateTensorOperator
STRESS_COMPS = {
    (2, 4): [(0, 0), (0, 1), (1, 0), (1, 1)],
    (2, 3): [(0, 0), (1, 1), (0, 1)],
    (3, 9): [(a, b) for a in range(3) for b in range(3)],
    (3, 6): [(0, 0), (1, 1), (2, 2), (0, 1), (1, 2), (0, 2)],
}


def ops_table(dim):
    """class instance (section name) -> documented form.
    scalar forms  ('bil', f)   : u^T A v = alpha * f(u, v)        (u: test/rows, v: trial/columns, Poly objects)
    block  forms  ('blk', h, w, g): block (a, b) of the BCSR matrix = sum of coef * scalar section, g(a, b) -> [(coef, name)]
    functionals   ('lin', f)   : u^T b = alpha * f(u)"""
    def grad_dot(u, v):
        r = Poly(dim)
        for k in range(dim):
            r = r + u.diff(k) * v.diff(k)
        return r
    t = {}
    t["LAPL"] = ("bil", lambda u, v: grad_dot(u, v), "grad")           # LaplaceOperator
    t["BELT"] = ("bil", lambda u, v: grad_dot(u, v), "grad")           # LaplaceBeltramiOperator (full-dimensional mesh)
    t["ID"] = ("bil", lambda u, v: u * v, "val")                        # IdentityOperator
    for d in range(dim):
        t["TRD%d" % d] = ("bil", (lambda d: lambda u, v: u * v.diff(d))(d), "der")   # TrialDerivativeOperator(d)
        t["TED%d" % d] = ("bil", (lambda d: lambda u, v: v * u.diff(d))(d), "der")   # TestDerivativeOperator(d)
    for ir in range(dim):
        for ic in range(dim):
            # DivDivOperator(ir, ic): d_ic(trial) * d_ir(test)
            t["DIV%d%d" % (ir, ic)] = ("bil", (lambda ir, ic: lambda u, v: u.diff(ir) * v.diff(ic))(ir, ic), "grad")
            # DuDvOperator(ir, ic): [ir == ic] grad.grad + d_ir(trial) * d_ic(test)
            t["DUDV%d%d" % (ir, ic)] = ("bil", (lambda ir, ic: lambda u, v:
                                                (grad_dot(u, v) if ir == ic else Poly(dim)) + u.diff(ic) * v.diff(ir))(ir, ic), "grad")
    t["LAPLB"] = ("blk", dim, dim, lambda a, b: [(F(1), "LAPL")] if a == b else [])
    t["IDB"] = ("blk", dim, dim, lambda a, b: [(F(1), "ID")] if a == b else [])
    t["DUDVB"] = ("blk", dim, dim, lambda a, b: [(F(1), "DUDV%d%d" % (a, b))])
    t["GTRIAL"] = ("blk", dim, 1, lambda a, b: [(F(1), "TRD%d" % a)])
    t["GTEST"] = ("blk", dim, 1, lambda a, b: [(F(1), "TED%d" % a)])
    for nsc in (dim * (dim + 1) // 2, dim * dim):
        comps = STRESS_COMPS[(dim, nsc)]
        sym = nsc != dim * dim

        def stress(a, s, comps=comps, sym=sym):
            p, q = comps[s]
            r = []
            if p == a:
                r.append((F(1), "TRD%d" % q))          # (div sigma)_a = sum_k d_k sigma_ak
            elif sym and q == a:
                r.append((F(1), "TRD%d" % p))
            return r

        def strain(s, a, comps=comps):
            p, q = comps[s]                            # D(u)_pq = 1/2 (d_q u_p + d_p u_q)
            r = []
            if a == p:
                r.append((F(1, 2), "TRD%d" % q))
            if a == q:
                r.append((F(1, 2), "TRD%d" % p))
            return r
        t["STRESS%d" % nsc] = ("blk", dim, nsc, stress)
        t["STRAIN%d" % nsc] = ("blk", nsc, dim, strain)
    t["FORCE"] = ("lin", lambda u, f: f * u)                                    # ForceFunctional
    t["LAPF"] = ("lin", lambda u, f: Poly(dim, {tuple([0] * dim): -sum((f.diff(k).diff(k).t.get(tuple([0] * dim), F(0))
                                                                            for k in range(dim)), F(0))}) * u)  # LaplaceFunctional
    return t


def gen_ops_case(rng, tier, k):
    shapes = ["quad", "tria", "quad", "tria", "hexa"]
    shape = shapes[k % len(shapes)]
    dim, fam, _ = BG_SHAPES[shape]
    space = "L1" if shape == "hexa" else ["L1", "L2"][(k // len(shapes)) % 2]
    level = rng.randint(0, 1) if shape != "hexa" else (0 if tier == "quick" or rng.random() < 0.7 else 1)
    if shape == "tria" and space == "L2":
        level = 0
    h = F(1, 2 ** level) if fam == "h" else F(1, 2 ** (level + 1))
    moves = []
    if rng.random() < 0.5 and not (shape == "hexa" and level == 1):
        for _ in range(rng.randint(1, 2)):
            moves.append((rng.randrange(64), [F(rng.randint(-5, 5), 40) * h for _ in range(dim)]))
    kdeg = DEG[space]
    has_inner = (level >= 1) or fam == "s"
    moved = bool(moves) and has_inner
    if fam == "h":
        need = 2 * REFDEG_H[space] + ((dim - 1) if moved else 0)
        cand = [r for r in RULES_H if r[1] >= need and r[0].startswith("newton")]
        cand.sort(key=lambda r: r[1])
        rule = cand[0][0] if rng.random() < 0.8 else rng.choice(cand)[0]
    else:
        rule = {1: "lauffer-degree-2", 2: "silvester-open:4"}[kdeg] if dim == 2 else "lauffer-degree-4"
    cu = rand_poly_coefs(rng, dim, kdeg)
    cv = rand_poly_coefs(rng, dim, kdeg)
    # make sure neither polynomial vanishes on the boundary or lacks mixed derivatives
    for c in (cu, cv):
        for i in range(1, dim + 1):
            if c[i] == 0:
                c[i] = F(rng.choice([1, 2, -1, 3]))
        c[0] = c[0] if c[0] != 0 else F(1)
    mv = " ".join("%d %s" % (i, " ".join(fs(x) for x in dl)) for i, dl in moves)
    part = "s9" if (shape == "hexa" and rng.random() < 0.3) else "main"
    line = "ops %s %d %d %s %s %s %s %s %s %s" % (shape, level, len(moves), mv, space, rule, part,
                                               fs(rand_alpha(rng) or F(1)), fmt_qlist(cu), fmt_qlist(cv))
    return " ".join(line.split())


def parse_ops_case(case):
    c = Tk(case)
    op, shape = c.tok(), c.tok()
    dim, fam, _ = BG_SHAPES[shape]
    level = c.nat()
    nm = c.nat()
    moves = [(c.nat(), [c.q() for _ in range(dim)]) for _ in range(nm)]
    space, rule, part = c.tok(), c.tok(), c.tok()
    alpha = c.q()
    cu, cv = c.qlst(), c.qlst()
    return dict(shape=shape, dim=dim, fam=fam, level=level, moves=moves, space=space, rule=rule, part=part, alpha=alpha,
                cu=cu, cv=cv)


def parse_ops_out(out):
    o = Tk(out)
    o.expect("FE")
    dim, nv = o.nat(), o.nat()
    verts = [[o.q() for _ in range(dim)] for _ in range(nv)]
    nc, nvpc = o.nat(), o.nat()
    cells = [[o.nat() for _ in range(nvpc)] for _ in range(nc)]
    o.expect("T")
    nd, n = o.nat(), o.nat()
    tm = [o.lst() for _ in range(n)]
    o.expect("P")
    rp, ci = o.lst(), o.lst()
    sec = {}
    while o.peek() is not None:
        name = o.tok()
        sec[name] = o.qlst()
    return dict(dim=dim, verts=verts, cells=cells, nd=nd, tm=tm, rp=rp, ci=ci, sec=sec)


def oracle_ops(case, out):
    try:
        g = parse_ops_case(case)
        if is_abnormal(out):
            return "operator sweep on a valid configuration ended with " + out
        r = parse_ops_out(out)
        dim, fam, alpha, sec = g["dim"], g["fam"], g["alpha"], r["sec"]
        if not mesh_valid(dim, fam, r["verts"], r["cells"]):
            return None
        table = ops_table(dim)
        rp, ci, nd = r["rp"], r["ci"], r["nd"]
        nnz = len(ci)
        rowof = [i for i in range(nd) for _ in range(rp[i], rp[i + 1])]
        u, v = sec["U"], sec["V"]
        pu, pv = Poly.from_coefs(dim, g["cu"]), Poly.from_coefs(dim, g["cv"])
        moved = cells_moved(dim, fam, g["level"], r["verts"])
        nonaffine = moved and fam == "h" and dim > 1
        kh = REFDEG_H[g["space"]] if fam == "h" else DEG[g["space"]]
        rdeg = rule_degree(fam, dim, g["rule"])
        exact_val = rdeg >= 2 * kh + ((dim - 1) if nonaffine else 0)
        exact = {"val": exact_val, "der": exact_val, "grad": (not nonaffine) and rdeg >= 2 * kh}
        names = [n for n in table if n in sec] if g["part"] != "main" else list(table)
        for name in names:
            if name not in sec:
                return "class instance %s was not assembled" % name
            ent = table[name]
            vals = sec[name]
            if g["part"] == "main":
                jv = sec.get("J" + name)
                if jv is None or jv != vals:
                    return "%s: classic assembler and domain-assembler job differ" % name
            if ent[0] == "bil":
                if len(vals) != nnz:
                    return "%s: wrong number of entries" % name
                if exact[ent[2]]:
                    got = sum(u[rowof[k]] * vals[k] * v[ci[k]] for k in range(nnz))
                    exp = alpha * ent[1](pu, pv).integral_unit_cube()
                    if got != exp:
                        return "%s: u^T A v = %s, the documented form gives %s" % (name, got, exp)
            elif ent[0] == "blk":
                hh, ww, form = ent[1], ent[2], ent[3]
                if len(vals) != nnz * hh * ww:
                    return "%s: wrong number of entries" % name
                for a in range(hh):
                    for b in range(ww):
                        comb = form(a, b)
                        for k in range(nnz):
                            exp = sum((cf * sec[nm][k] for cf, nm in comb), F(0))
                            if vals[(k * hh + a) * ww + b] != exp:
                                return "%s: block (%d,%d) of entry (%d,%d) is %s, the scalar operator(s) %s give %s" % (
                                    name, a, b, rowof[k], ci[k], vals[(k * hh + a) * ww + b],
                                    "+".join("%s*%s" % (cf, nm) for cf, nm in comb) or "0", exp)
            else:
                if len(vals) != nd:
                    return "%s: wrong vector length" % name
                if exact["val"]:
                    got = sum(x * y for x, y in zip(u, vals))
                    exp = alpha * ent[1](pu, pv).integral_unit_cube()
                    if got != exp:
                        return "%s: u^T b = %s, the documented form gives %s" % (name, got, exp)
        if g["part"] == "main":
            # vector-valued functionals: component c of the blocked vector = scalar functional of component c
            fb, lb = sec["FORCEB"], sec["LAPFB"]
            for nm2 in ("FORCEB", "LAPFB"):
                if sec[nm2] != sec["J" + nm2]:
                    return "%s: classic assembler and domain-assembler job differ" % nm2
            if [fb[i * dim + 1] for i in range(nd)] != sec["FORCE"]:
                return "FORCEB: component 1 of the blocked force vector differs from the scalar ForceFunctional"
            if [lb[i * dim + 1] for i in range(nd)] != sec["LAPF"]:
                return "LAPFB: component 1 of the blocked vector differs from the scalar LaplaceFunctional"
            if exact["val"]:
                comps = [pu, pv] + ([pu + pv] if dim == 3 else [])
                lin_f, lin_l = table["FORCE"][1], table["LAPF"][1]
                for c_ in range(dim):
                    got = sum(u[i] * fb[i * dim + c_] for i in range(nd))
                    if got != alpha * lin_f(pu, comps[c_]).integral_unit_cube():
                        return "FORCEB: component %d: u^T b differs from the exact integral" % c_
                    got = sum(u[i] * lb[i * dim + c_] for i in range(nd))
                    if got != alpha * lin_l(pu, comps[c_]).integral_unit_cube():
                        return "LAPFB: component %d: u^T b differs from the exact integral" % c_
        return None
    except (IndexError, ValueError, AssertionError, KeyError) as e:
        return "unparsable implementation output (%s): %s" % (repr(e), out[:200])


def describe_ops(case):
    g = parse_ops_case(case)
    return ["shape:" + g["shape"], "space:" + g["space"], "part:" + g["part"], "level:%d" % g["level"],
            "moved" if g["moves"] else "unmoved", "classes:%d" % (len(ops_table(g["dim"])) + 2)]


CORPUS_OPS = [
    "ops quad 1 1 0 1/16 1/16 L2 newton-cotes-closed:5 main 1/1 6 1/1 1/1 1/2 1/1 1/1 1/1 6 3/1 1/1 2/1 1/1 0/1 -1/1",
    "ops tria 0 0 L2 silvester-open:4 main 2/1 6 1/1 1/1 1/2 1/1 1/1 1/1 6 3/1 1/1 2/1 1/1 0/1 -1/1",
    "ops hexa 0 0 L1 newton-cotes-closed:3 main 1/1 10 1/1 1/1 1/2 1/1 0/1 0/1 0/1 0/1 0/1 0/1 10 3/1 1/1 2/1 1/1 0/1 0/1 0/1 0/1 0/1 0/1",
    # F4 (open, c16-edge:F4): StrainRateTensorOperator<3,9> writes K(6,1) twice and never K(6,2)
    "ops hexa 0 0 L1 newton-cotes-closed:3 s9 1/1 10 1/1 1/1 1/2 1/1 0/1 0/1 0/1 0/1 0/1 0/1 10 3/1 1/1 2/1 1/1 0/1 0/1 0/1 0/1 0/1 0/1",
]



# ---------------------------------------------------------------------------------------------
# trace assembler: facet selection state (add_facet / compile / clear)
# ---------------------------------------------------------------------------------------------

def gen_trace_case(rng):
    level = rng.randint(0, 2)
    nf = 2 * 2 ** level * (2 ** level + 1)
    space = rng.choice(["L1", "L2"])
    rule = "newton-cotes-closed:3" if space == "L1" else "newton-cotes-closed:5"
    a = sorted(set(rng.randrange(nf) for _ in range(rng.randint(0, 3))))
    b = sorted(set(rng.randrange(nf) for _ in range(rng.randint(0, 3))))
    if rng.random() < 0.2:
        b = sorted(set(a + b))      # B contains A: clear() makes no observable difference
    return "trace %d %s %s %s %s" % (level, space, rule, fmt_list(a), fmt_list(b))


def frac_sqrt(x):
    import math
    n, d = math.isqrt(x.numerator), math.isqrt(x.denominator)
    assert n * n == x.numerator and d * d == x.denominator
    return F(n, d)


def oracle_trace(case, out):
    try:
        c = Tk(case)
        c.tok()
        level, space, rule = c.nat(), c.tok(), c.tok()
        a, b = c.lst(), c.lst()
        if is_abnormal(out):
            return "trace assembly ended with " + out
        o = Tk(out)
        o.expect("TR")
        t1, t2, f2, fa = o.q(), o.q(), o.q(), o.q()
        nf = o.nat()
        ln = []
        for _ in range(nf):
            l2 = o.q()
            ln.append(frac_sqrt(l2) * o.nat())     # length times number of adjacent cells (the facet is visited per cell)

        def tot(fs_):
            return sum((ln[f % nf] for f in set(x % nf for x in fs_)), F(0))
        if t1 != tot(a):
            return "trace mass matrix on facets %s sums to %s, total facet length is %s" % (a, t1, tot(a))
        if f2 != tot(b):
            return "trace mass matrix on facets %s sums to %s, total facet length is %s" % (b, f2, tot(b))
        if fa != tot(a + b):
            return "trace mass matrix on facets %s sums to %s, total facet length is %s" % (a + b, fa, tot(a + b))
        if t2 != tot(b):
            return "after clear(): facets %s selected, the mass matrix sums to %s instead of %s (facets %s of the " \
                   "previous selection are still assembled)" % (b, t2, tot(b), a)
        return None
    except (IndexError, ValueError, AssertionError, KeyError) as e:
        return "unparsable implementation output (%s): %s" % (repr(e), out[:200])


CORPUS_TRACE = [
    # F5 (open, c16-edge:F5): TraceAssembler::clear() does not reset the facet mask
    "trace 1 L1 newton-cotes-closed:3 1 0 1 1",
    "trace 0 L1 newton-cotes-closed:3 0 1 2",
]



# ---------------------------------------------------------------------------------------------
# history stream: the same request as 2nd, 4th and 5th call of one process, after warm-ups with other rules
# ---------------------------------------------------------------------------------------------

def fe_cfg_tokens(g, rule=None, alpha=None, warm=False):
    """the configuration tokens of an fe-type case (after the shape); warm=True applies harness warm_config()"""
    cu = [x + 1 for x in g["cu"]] if warm else g["cu"]
    cv = [x * 2 - 1 for x in g["cv"]] if warm else g["cv"]
    mv = " ".join("%d %s" % (i, " ".join(fs(x) for x in dl)) for i, dl in g["moves"])
    t = "%d %d %s %s %s %s %d %s %s %s %s" % (g["level"], len(g["moves"]), mv, g["kind"], g["tsp"], g["ssp"], g["d"],
                                              rule or g["rule"], fs(g["alpha"] if alpha is None else alpha),
                                              fmt_qlist(cu), fmt_qlist(cv))
    return " ".join(t.split())


def gen_hist_case(rng, tier):
    """(hist line without REC, [ferec lines for w1, real, w2])"""
    case = gen_fe_case(rng, tier)
    g = parse_fe_case(case)
    rules = [r[0] for r in rules_for(g["fam"], g["dim"]) if r[0] != g["rule"]]
    r1, r2 = rng.choice(rules), rng.choice(rules)
    a1, a2 = g["alpha"] + 1, rand_alpha(rng) or F(3)
    route = rng.choice(["hist", "histj"])
    head = "%s %s %s W %s %s %s %s" % (route, g["shape"], fe_cfg_tokens(g), r1, fs(a1), r2, fs(a2))
    recs = ["ferec %s %s" % (g["shape"], fe_cfg_tokens(g, r1, a1, warm=True)),
            "ferec %s %s" % (g["shape"], fe_cfg_tokens(g)),
            "ferec %s %s" % (g["shape"], fe_cfg_tokens(g, r2, a2, warm=True))]
    return head, recs, g


def hist_line(head, g, rec_outs):
    parts = []
    for out in rec_outs:
        if is_abnormal(out):
            return None
        o = Tk(out)
        o.expect("T")
        nT = o.nat()
        o.expect("S")
        nS = o.nat()
        o.expect("R")
        parts.append((nT, nS, o.calls()))
    w1, re_, w2 = parts
    seq = [w1, re_, w2, re_, re_]
    body = "%d %s" % (len(seq), " ".join(fmt_calls(x[2]) for x in seq))
    if g["kind"] == "force":
        return "%s REC V %d %s" % (head, re_[0], body)
    tag = "M1" if g["kind"] in ("mass", "lapl", "derivt1") else "M2"
    return "%s REC %s %d %d %s" % (head, tag, re_[0], re_[1], body)


def parse_hist_out(out):
    o = Tk(out)
    o.expect("H")
    n = o.nat()
    res = []
    for _ in range(n):
        if o.peek() == "W":
            o.tok()
            res.append(("W", o.qlst()))
        else:
            res.append(("M",) + read_matrix(o))
    return res


def oracle_hist(case, out):
    try:
        if is_abnormal(out):
            return "a sequence of assembler calls on valid configurations ended with " + out
        res = parse_hist_out(out)
        if len(res) != 5:
            return "wrong number of results"
        if not (res[1] == res[3] == res[4]):
            which = "4th" if res[1] != res[3] else "5th"
            return "the same request gives a different result as 2nd and as %s call of the process " \
                   "(the result depends on earlier calls)" % which
        return None
    except (IndexError, ValueError, AssertionError, KeyError) as e:
        return "unparsable implementation output (%s): %s" % (repr(e), out[:200])



# ---------------------------------------------------------------------------------------------
# local stream: the local matrices of affine cells vs. the model's cubature sums over C15's basis polynomials
# ---------------------------------------------------------------------------------------------

FLOCAL_RULES = {"h": ["barycentre", "trapezoidal", "simpson", "newton-cotes-closed:2", "newton-cotes-closed:3",
                      "newton-cotes-closed:4", "newton-cotes-closed:5"],
                "s": ["barycentre", "trapezoidal", "lauffer-degree-2"]}


def gen_flocal_cfg(rng):
    shape = rng.choice(["line", "quad", "quad", "tria", "tria"])
    dim, fam = SHAPES[shape]
    kind = rng.choice(["mass", "mass", "lapl", "force", "force", "dudv"])
    if kind == "dudv":
        kind = "dudv%d" % rng.randrange(dim * dim)
    sp = rng.choice(["L1", "L2"])
    level = rng.randint(0, {"line": 3, "quad": 1, "tria": 1}[shape]) if sp == "L1" else rng.randint(0, 1 if shape != "tria" else 0)
    h = F(1, 2 ** level) if fam == "h" else F(1, 2 ** (level + 1))
    moves = []
    # moved triangles / intervals stay affine; moved quadrilaterals are multilinear: identity and force only
    if (shape != "quad" or (kind in ("mass", "force") and level >= 1)) and rng.random() < 0.7:
        for _ in range(rng.randint(1, 3)):
            moves.append((rng.randrange(64), [F(rng.randint(-5, 5), 40) * h for _ in range(dim)]))
    rule = rng.choice(FLOCAL_RULES[fam])
    cu = rand_poly_coefs(rng, dim, DEG[sp])
    cv = rand_poly_coefs(rng, dim, rng.choice([0, 1, 2]) if kind == "force" else DEG[sp])
    g = dict(shape=shape, dim=dim, fam=fam, level=level, moves=moves, kind=kind, tsp=sp, ssp=sp, d=0, rule=rule,
             alpha=rand_alpha(rng) or F(1), cu=cu, cv=cv)
    return g


def flocal_line(g, fe_out):
    if is_abnormal(fe_out):
        return None
    r = parse_fe_out(fe_out)
    if not mesh_valid(g["dim"], g["fam"], r["verts"], r["cells"]):
        return None
    geo = " ".join("%d %s" % (len(c), " ".join(fs(x) for v in c for x in r["verts"][v])) for c in r["cells"])
    # claim of exactness (per-variable degree on hypercubes incl. the determinant polynomial, total degree on simplices);
    # the model evaluates the decidable hypotheses of C16.local_integral_exact(_multilinear) and must confirm the claim
    k = DEG[g["tsp"]]
    degf = Poly.from_coefs(g["dim"], g["cv"]).degree()
    rdeg = {"barycentre": 1, "trapezoidal": 1, "simpson": 3, "newton-cotes-closed:2": 1, "newton-cotes-closed:3": 3,
            "newton-cotes-closed:4": 3, "newton-cotes-closed:5": 5, "lauffer-degree-2": 2}[g["rule"]]
    ex = 1 if (g["fam"] == "h" and g["dim"] == 2 and cells_moved(g["dim"], g["fam"], g["level"], r["verts"])) else 0
    if g["kind"] == "mass":
        need = 2 * k + ex
    elif g["kind"] == "force":
        need = k + degf + ex
    else:
        need = 2 * k if g["fam"] == "h" else 2 * k - 2
    return "flocal %s %s GEO %s %s %s %s %d %d %s XP %d" % (g["shape"], fe_cfg_tokens(g), g["kind"], g["tsp"], g["rule"],
                                                          fmt_qlist(g["cv"]), g["dim"], len(r["cells"]), geo,
                                                          1 if rdeg >= need else 0)


def oracle_flocal(case, out):
    try:
        if is_abnormal(out):
            return "recording the local matrices ended with " + out
        t = case.split()
        shape = t[1]
        dim, fam = SHAPES[shape]
        c = Tk(t[t.index("GEO") + 1:])
        kind, sp, rule = c.tok(), c.tok(), c.tok()
        c.qlst()
        d, nc = c.nat(), c.nat()
        cells = [[[c.q() for _ in range(d)] for _ in range(c.nat())] for _ in range(nc)]
        o = Tk(out)
        o.expect("L")
        if o.nat() != nc:
            return "wrong number of local matrices"
        k = DEG[sp]
        deg = {"barycentre": 1, "trapezoidal": 1, "simpson": 3, "newton-cotes-closed:2": 1, "newton-cotes-closed:3": 3,
               "newton-cotes-closed:4": 3, "newton-cotes-closed:5": 5, "lauffer-degree-2": 2}[rule]
        for V in cells:
            vals = o.qlst()
            if kind == "force":
                continue
            n = int(round(len(vals) ** 0.5))
            if n * n != len(vals):
                return "local matrix is not square"
            for i in range(n):
                for j in range(n):
                    if kind in ("mass", "lapl") and vals[i * n + j] != vals[j * n + i]:
                        return "local matrix of a symmetric form is not symmetric"
                if kind != "mass" and sum(vals[i * n:(i + 1) * n]) != 0:
                    return "local matrix of an operator with constants in its kernel does not annihilate constants"
            if kind == "mass" and deg >= 2 * k + (1 if (fam == "h" and dim == 2) else 0):   # (+1: safe for moved quads)
                if dim == 1:
                    vol = abs(V[1][0] - V[0][0])
                elif fam == "s":
                    vol = abs((V[1][0] - V[0][0]) * (V[2][1] - V[0][1]) - (V[1][1] - V[0][1]) * (V[2][0] - V[0][0])) / 2
                else:
                    pg = [V[0], V[1], V[3], V[2]]
                    vol = abs(sum(pg[i][0] * pg[(i + 1) % 4][1] - pg[(i + 1) % 4][0] * pg[i][1] for i in range(4))) / 2
                if sum(vals) != vol:
                    return "entries of the local mass matrix sum to %s, the cell volume is %s" % (sum(vals), vol)
        return None
    except (IndexError, ValueError, AssertionError, KeyError) as e:
        return "unparsable implementation output (%s): %s" % (repr(e), out[:200])



# ---------------------------------------------------------------------------------------------
# voxel stream (double precision, SUPPORTING EVIDENCE only): voxel assemblers vs classic vs job routes
# ---------------------------------------------------------------------------------------------

VOXEL_UNITS = ["kernel/voxel_assembly/arch/poisson_assembler.cpp", "kernel/voxel_assembly/arch/burgers_assembler.cpp",
               "kernel/voxel_assembly/arch/defo_assembler.cpp"]


def gen_vox_case(rng, tier):
    dim = rng.choice([2, 2, 3])
    level = rng.randint(0, 2) if dim == 2 else rng.randint(0, 1 if tier != "quick" or rng.random() < 0.3 else 0)
    rule = rng.choice(["auto-degree:3", "auto-degree:4", "auto-degree:5", "auto-degree:6", "gauss-legendre:3",
                       "newton-cotes-closed:5"])
    kind = rng.choice(["poisson", "defo", "burgers", "burgers"])
    dec = lambda lst: rng.choice(lst)
    if kind == "poisson":
        return "vox poisson %d %d %s" % (dim, level, rule)
    if kind == "defo":
        return "vox defo %d %d %s %s" % (dim, level, rule, dec(["0.78", "1", "0.01", "2.5"]))
    return "vox burgers %d %d %s %s %s %s %s %s %d %s %d" % (
        dim, level, rule, dec(["0.78", "1", "0.01"]), dec(["0", "1.3", "1"]), dec(["0", "0.3", "1"]), dec(["0", "1", "0.5"]),
        dec(["0", "0.57", "0.1", "1"]), rng.randrange(2), dec(["1", "0.66", "2"]), rng.randrange(1000))


def oracle_vox(case, out):
    """all three routes agree within an a-priori rounding bound (double precision; supporting evidence)"""
    try:
        if is_abnormal(out):
            return "voxel / classic / job assembly on a voxel-compatible mesh ended with " + out
        t = out.split()
        assert t[0] == "VX"
        dim = int(t[2])
        p = 3
        assert t[p] == "R"
        n = int(t[p + 1])
        rp = [int(x) for x in t[p + 2:p + 2 + n]]
        p += 2 + n
        sec = {}
        for tag in ("A", "B", "V"):
            assert t[p] == tag
            m = int(t[p + 1])
            sec[tag] = [float.fromhex(x) for x in t[p + 2:p + 2 + m]]
            p += 2 + m
        bs = len(sec["A"]) // max(1, rp[-1])
        u = 2.0 ** -52
        for i in range(len(rp) - 1):
            lo, hi = rp[i] * bs, rp[i + 1] * bs
            scale = max(1.0, sum(abs(x) for x in sec["A"][lo:hi]))
            tol = 1.0e5 * u * scale       # <= 8 cells x 216 points x ~50 operations per entry, gamma_n * |row|
            for k in range(lo, hi):
                for other, name in ((sec["B"], "domain-assembler job"), (sec["V"], "voxel assembler")):
                    if not (abs(other[k] - sec["A"][k]) <= tol):
                        return "row %d: %s gives %r, classic assembler %r (rounding bound %.3g)" % (
                            i, name, other[k], sec["A"][k], tol)
        return None
    except (IndexError, ValueError, AssertionError, KeyError) as e:
        return "unparsable implementation output (%s): %s" % (repr(e), out[:200])



# ---------------------------------------------------------------------------------------------
# trace assembler in 3-D: facets stored in permuted vertex orders
# ---------------------------------------------------------------------------------------------

def p1_coefs3(rng):
    return [rand_q(rng, small=True) or F(1)] + [F(rng.choice([1, 2, -1, 3, -2])) for _ in range(3)] + [F(0)] * 6


def gen_trace3_case(rng, tier):
    shape = rng.choice(["hexa", "hexa", "tetra"])
    if shape == "hexa":
        level = rng.choice([0, 0, 1])
        nf = 6 if level == 0 else 36
        moves = []
        if level == 0 and rng.random() < 0.7:
            # planar non-parallelogram top face (z = 1): move top vertices inside the plane
            base = {4: (F(0), F(0)), 5: (F(1), F(0)), 6: (F(0), F(1)), 7: (F(1), F(1))}
            while True:
                moves = [(v, [F(rng.randint(-2, 3), 4), F(rng.randint(-2, 3), 4), F(0)])
                         for v in rng.sample([4, 5, 6, 7], rng.randint(1, 2))]
                pos = dict(base)
                for v, d in moves:
                    pos[v] = (pos[v][0] + d[0], pos[v][1] + d[1])
                poly = [pos[4], pos[5], pos[7], pos[6]]
                crs = []
                for i in range(4):
                    a, b, c2 = poly[i], poly[(i + 1) % 4], poly[(i + 2) % 4]
                    crs.append((b[0] - a[0]) * (c2[1] - b[1]) - (b[1] - a[1]) * (c2[0] - b[0]))
                if all(x > 0 for x in crs):     # strictly convex, positively oriented top face
                    break
            sel = [1] + ([0] if rng.random() < 0.3 else [])
        else:
            sel = [rng.randrange(nf) for _ in range(rng.randint(1, 3))]
        rule = rng.choice(["simpson", "newton-cotes-closed:3", "newton-cotes-closed:4"])
        perms = [rng.randrange(8) for _ in range(rng.randint(1, 6))]
    else:
        level = rng.choice([0, 0, 1]) if tier != "quick" else rng.choice([0, 0, 0, 1])
        moves = []
        sel = [rng.randrange(1000) for _ in range(rng.randint(1, 2))]
        rule = "lauffer-degree-2"
        perms = [rng.randrange(6) for _ in range(rng.randint(1, 6))]
    mv = " ".join("%d %s" % (v, " ".join(fs(x) for x in d)) for v, d in moves)
    line = "trace3 %s %d %d %s %s %s %s %s %s" % (shape, level, len(moves), mv, rule, fmt_list(perms), fmt_list(sel),
                                               fmt_qlist(p1_coefs3(rng)), fmt_qlist(p1_coefs3(rng)))
    return " ".join(line.split())


def poly3_eval(coef, x):
    r = coef[0] + sum(coef[1 + i] * x[i] for i in range(3))
    k = 4
    for i in range(3):
        for j in range(i, 3):
            r += coef[k] * x[i] * x[j]
            k += 1
    return r


def planar_facet_integral(verts, f):
    """integral of the quadratic f over a facet lying in an axis-parallel plane; None if it does not"""
    const = [d for d in range(3) if all(v[d] == verts[0][d] for v in verts)]
    if not const:
        return None
    keep = [d for d in range(3) if d != const[0]]
    tris = [verts] if len(verts) == 3 else [[verts[0], verts[1], verts[3]], [verts[0], verts[3], verts[2]]]
    tot = F(0)
    for t in tris:
        a = [[v[d] for d in keep] for v in t]
        area = abs((a[1][0] - a[0][0]) * (a[2][1] - a[0][1]) - (a[1][1] - a[0][1]) * (a[2][0] - a[0][0])) / 2
        mids = [[(t[i][d] + t[(i + 1) % 3][d]) / 2 for d in range(3)] for i in range(3)]
        tot += area / 3 * sum(f(m) for m in mids)      # edge-midpoint rule: exact for degree 2
    return tot


def oracle_trace3(case, out):
    try:
        if is_abnormal(out):
            return "3-D trace assembly ended with " + out
        c = Tk(case)
        c.tok()
        shape, level = c.tok(), c.nat()
        nm = c.nat()
        for _ in range(nm):
            c.nat(), c.q(), c.q(), c.q()
        rule = c.tok()
        c.lst(), c.lst()
        cu, cv = c.qlst(), c.qlst()
        o = Tk(out)
        o.expect("T3")
        nsel = o.nat()
        facets = []
        for _ in range(nsel):
            nvf = o.nat()
            vs = [[o.q() for _ in range(3)] for _ in range(nvf)]
            facets.append((vs, o.nat()))
        rows, cols, rp, ci, vals = read_matrix(o)
        o.expect("F")
        fvec = o.qlst()
        o.expect("U")
        u = o.qlst()
        o.expect("V")
        v = o.qlst()
        o.expect("J")
        o.nat()
        nz = o.qlst()
        if nz:
            return "jump operator of the continuous Lagrange-1 space on the inner facets has %d non-zero entries (e.g. %s)" % (
                len(nz), nz[0])
        # distinct facets (the assembler works with a mask)
        seen, dist = set(), []
        for vs, deg in facets:
            key = tuple(sorted(tuple(x) for x in vs))
            if key not in seen:
                seen.add(key)
                dist.append((vs, deg))
        exp = F(0)
        for vs, deg in dist:
            val = planar_facet_integral(vs, lambda x: poly3_eval(cu, x) * poly3_eval(cv, x))
            if val is None:
                return None     # a facet in a skew plane: its area is irrational, no exact claim
            exp += deg * val
        d = dense_of(rows, rp, ci, vals)
        got = sum(u[i] * x * v[j] for (i, j), x in d.items())
        if got != exp:
            return "facet mass matrix: u^T M v = %s, exact integral of u v over the selected facets is %s" % (got, exp)
        got = sum(x * y for x, y in zip(u, fvec))
        if got != exp:
            return "facet functional: u^T b = %s, exact integral of u v over the selected facets is %s" % (got, exp)
        return None
    except (IndexError, ValueError, AssertionError, KeyError) as e:
        return "unparsable implementation output (%s): %s" % (repr(e), out[:200])


def trpt_cases():
    pts = ["1/3 1/5", "-1/2 3/4", "0/1 1/1"]
    cases = []
    for shape, nfc, nsy in (("hexa", 6, 8), ("tetra", 4, 6)):
        for lf in range(nfc):
            for p_ in range(nsy):
                for k, pt_ in enumerate(pts):
                    if shape == "tetra" and k == 1:
                        pt_ = "1/2 1/4"
                    cases.append("trpt %s %d %d %s" % (shape, lf, p_, pt_))
    return cases


def oracle_trpt(case, out):
    try:
        if is_abnormal(out):
            return "facet point map ended with " + out
        t = case.split()
        shape, lf = t[1], int(t[2])
        o = Tk(out)
        o.expect("TP")
        code = o.tok()
        x = [o.q() for _ in range(3)]
        if code == "-1":
            return "no orientation code for an admissible vertex order"
        if shape == "hexa":
            if x[[2, 2, 1, 1, 0, 0][lf]] != [-1, 1, -1, 1, -1, 1][lf]:
                return "mapped facet point %s is not on local face %d of the reference hexahedron" % (x, lf)
        else:
            bary = [1 - sum(x)] + x
            if bary[lf] != 0:
                return "mapped facet point %s is not on local face %d of the reference tetrahedron" % (x, lf)
        return None
    except (IndexError, ValueError, AssertionError, KeyError) as e:
        return "unparsable implementation output (%s): %s" % (repr(e), out[:200])


# one hexahedron with a planar non-parallelogram top face (z = 1: (0,0) (1,0) (0,2) (1,3/2)) in each of its 8 vertex orders
CORPUS_TRACE3 = ["trace3 hexa 0 2 6 0/1 1/1 0/1 7 0/1 1/2 0/1 simpson 2 0 %d 1 1 10 1/1 1/1 2/1 -1/1 0/1 0/1 0/1 0/1 0/1 0/1 "
                 "10 2/1 -1/1 1/1 3/1 0/1 0/1 0/1 0/1 0/1 0/1" % p_ for p_ in range(8)] + \
                ["trace3 tetra 0 0 lauffer-degree-2 4 1 2 5 3 2 0 1 10 1/1 1/1 2/1 -1/1 0/1 0/1 0/1 0/1 0/1 0/1 "
                 "10 2/1 -1/1 1/1 3/1 0/1 0/1 0/1 0/1 0/1 0/1"]



# ---------------------------------------------------------------------------------------------
# hooks stream: user-defined operators / functionals whose prepare() / finish() hooks do real work, on every route
# ---------------------------------------------------------------------------------------------

def gen_hk_case(rng):
    level = rng.randint(0, 2)
    h = F(1, 2 ** level)
    moves = []
    if level >= 1 and rng.random() < 0.6:
        for _ in range(rng.randint(1, 3)):
            moves.append((rng.randrange(64), [F(rng.randint(-5, 5), 40) * h for _ in range(2)]))
    rule = rng.choice(["newton-cotes-closed:3", "simpson", "newton-cotes-closed:4", "newton-cotes-closed:5"])
    mv = " ".join("%d %s" % (i, " ".join(fs(x) for x in dl)) for i, dl in moves)
    return " ".join(("hk %d %d %s %s" % (level, len(moves), mv, rule)).split())


def parse_hk_out(out):
    o = Tk(out)
    o.expect("FE")
    dim, nv = o.nat(), o.nat()
    verts = [[o.q() for _ in range(dim)] for _ in range(nv)]
    nc, nvpc = o.nat(), o.nat()
    cells = [[o.nat() for _ in range(nvpc)] for _ in range(nc)]
    sec = {}
    while o.peek() is not None:
        tag = o.tok()
        vals = o.qlst()
        o.expect("LOG")
        n = o.nat()
        log = [(int(o.tok()), o.nat(), o.nat()) for _ in range(n)]
        sec[tag] = (vals, log)
    return verts, cells, sec


def hk_coefs(verts, cells):
    return [1 + t + verts[c[0]][0] for t, c in enumerate(cells)]


def quad_area(verts, c):
    pg = [verts[c[0]], verts[c[1]], verts[c[3]], verts[c[2]]]
    return abs(sum(pg[i][0] * pg[(i + 1) % 4][1] - pg[(i + 1) % 4][0] * pg[i][1] for i in range(4))) / 2


def oracle_hk(case, out):
    try:
        if is_abnormal(out):
            return "assembly of a user-defined operator ended with " + out
        verts, cells, sec = parse_hk_out(out)
        if not mesh_valid(2, "h", verts, cells):
            return None
        nc = len(cells)
        coef = hk_coefs(verts, cells)
        exp = sum(coef[t] * quad_area(verts, cells[t]) for t in range(nc))
        for a, b, what in (("C1", "J1", "assemble_matrix1 and BilinearOperatorMatrixAssemblyJob1"),
                           ("C2", "J2", "assemble_matrix2 and BilinearOperatorMatrixAssemblyJob2"),
                           ("CF", "JF", "LinearFunctionalAssembler and LinearFunctionalAssemblyJob")):
            if sec[a][0] != sec[b][0]:
                return "%s give different results for an operator with a per-cell coefficient" % what
        for tag in ("C1", "J1", "C2", "J2", "CF", "JF"):
            vals, log = sec[tag]
            if len(log) != nc:
                return "%s: %d prepare() calls for %d cells" % (tag, len(log), nc)
            if sorted(x[0] for x in log) != list(range(nc)):
                return "%s: prepare() saw the cell indices %s (unprepared trafo evaluator = -1)" % (tag, [x[0] for x in log][:8])
            if tag[0] == "C" and [x[0] for x in log] != list(range(nc)):
                return "%s: cells are not visited in order" % tag
            if any(x[1] == 0 or x[2] != 1 for x in log) or len(set(x[1] for x in log)) != 1:
                return "%s: hook sequence is not prepare, evals, finish for every cell" % tag
            if sum(vals) != exp:
                return "%s: entries sum to %s, sum_T c_T |T| = %s" % (tag, sum(vals), exp)
        # trace assembler: boundary facets, the hook must see the adjacent cell
        vals, log = sec["TR"]
        edges = {}
        for t, c in enumerate(cells):
            for a, b in ((0, 1), (2, 3), (0, 2), (1, 3)):
                edges.setdefault(frozenset((c[a], c[b])), []).append(t)
        expt = F(0)
        nb = 0
        for e, ts in edges.items():
            if len(ts) == 1:
                a, b = [verts[v] for v in e]
                expt += coef[ts[0]] * (abs(a[0] - b[0]) + abs(a[1] - b[1]))    # boundary edges are axis-parallel
                nb += 1
        if len(log) != nb or any(not (0 <= x[0] < nc) or x[2] != 1 for x in log):
            return "TR: hook sequence of the trace assembler is wrong (%d entries for %d boundary facets)" % (len(log), nb)
        if sum(vals) != expt:
            return "TR: entries sum to %s, sum over the boundary facets of c_T |f| = %s" % (sum(vals), expt)
        return None
    except (IndexError, ValueError, AssertionError, KeyError) as e:
        return "unparsable implementation output (%s): %s" % (repr(e), out[:200])


def hkasm_lines(case, out, rec1, rec2):
    """four model-compared lines (routes c1, j1, c2, j2) from the mesh of the hk run and the identity recordings"""
    if is_abnormal(out) or is_abnormal(rec1) or is_abnormal(rec2):
        return []
    verts, cells, _ = parse_hk_out(out)
    coef = fmt_qlist(hk_coefs(verts, cells))
    cfg = " ".join(case.split()[1:])
    res = []
    for route, rec, tag in (("c1", rec1, "M1"), ("j1", rec1, "M1"), ("c2", rec2, "M2"), ("j2", rec2, "M2")):
        o = Tk(rec)
        o.expect("T")
        nT = o.nat()
        o.expect("S")
        nS = o.nat()
        o.expect("R")
        calls = [(F(1), r, c, v) for (_, r, c, v) in o.calls()]
        res.append("hkasm %s %s REC %s %d %d %s COEF %s" % (route, cfg, tag, nT, nS, fmt_calls(calls), coef))
    return res


CORPUS_HK = ["hk 1 1 0 1/10 -1/20 newton-cotes-closed:3", "hk 2 0 simpson", "hk 0 0 newton-cotes-closed:3"]


CORPUS_SYNTH = [
    "asmb 1 2 2 2 2 2 2 0 1 1 1 2 0 1 1 1 2 0 1 1/1 16 1/1 0/1 0/1 1/1 1/1 2/1 0/1 1/1 1/1 1/1 0/1 1/1 1/1 3/1 0/1 1/1 2/1 4 1/1 5/1 0/1 1/1",
    # F3 (open, c16-edge:F3): no cell has both a test and a trial dof -> entry-free matrix -> null row_ptr dereferenced
    "asm 2 1 3 1 1 0 0 1 0 0/1 0",
    # F12 (fixed by a38ae1004): band entries in columns >= rows of a 2x3 matrix / rows > cols
    "banded 2 3 2 1 3 4 0/1 0/1 0/1 0/1 1 1/1 1 0 1 2 1 5/1",
    "bgather 2 3 2 1 3 4 1/1 2/1 3/1 4/1 1 2/1 1 0 1 2 1 5/1",
    "banded 3 1 2 1 2 6 0/1 0/1 0/1 0/1 0/1 0/1 1 1/1 2 1 2 1 0 2 1/1 2/1",
    # stale _col_ptr slot: column 2 is not in row 1, the slot still points into row 0 (excluded point of scatter_sound)
    "scatter 2 3 3 0 2 3 3 0 2 1 3 1/1 2/1 3/1 1 1/1 2 0 1 1 2 2 4/1 6/1",
    "gather 2 3 3 0 2 3 3 0 2 1 3 1/1 2/1 3/1 1 2/1 2 0 1 1 0 2 1/1 1/1",
    "asm 2 3 2 2 2 0 1 2 1 2 1 0 2 1 0 2 1 0 1/1 2 1/1 2/1 2/1 4 1/1 2/1 3/1 4/1",
    "asm 1 3 3 2 2 0 1 2 1 2 0 0 2 0 1 1/1 4 1/1 2/1 3/1 4/1 2/1 4 1/1 2/1 3/1 4/1",
    "banded 3 3 2 1 2 6 0/1 0/1 0/1 0/1 0/1 0/1 1 1/1 2 1 2 1 0 2 1/1 2/1",
]

CORPUS_FE = [
    "fe quad 1 1 0 1/10 -1/20 mass L1 L1 0 newton-cotes-closed:3 1/1 6 1/1 1/1 0/1 0/1 0/1 0/1 6 0/1 1/1 2/1 0/1 0/1 0/1",
    "fe quad 1 1 0 1/10 -1/20 lapl L2 L2 0 newton-cotes-closed:5 1/1 6 1/1 1/1 0/1 1/1 0/1 0/1 6 0/1 1/1 2/1 0/1 1/1 0/1",
    "fe tria 0 1 0 1/10 1/20 mass L2 L2 0 silvester-open:4 2/1 6 1/1 1/1 0/1 1/2 0/1 0/1 6 0/1 1/1 2/1 0/1 1/1 1/1",
    "fe quad 1 1 0 1/16 1/16 derivt L2 D0 1 newton-cotes-closed:5 1/1 6 1/1 1/1 1/2 1/1 1/1 1/1 6 3/1 0/1 0/1 0/1 0/1 0/1",
    # past finding (fixed by cd650c66b): TrialDerivativeOperator evaluated the test-function derivative (113/12);
    # the documented form int u d_y v is 16/3
    "fe quad 1 1 0 1/16 1/16 deriv L2 L1 1 newton-cotes-closed:5 1/1 6 1/1 1/1 1/2 1/1 1/1 1/1 6 3/1 1/1 2/1 0/1 0/1 0/1",
]

def main(argv):
    args = vlib.std_args(argv)
    t0 = time.time()
    rng = random.Random(args.seed * 1000003 + 16)
    lean = None if args.no_lean else vlib.lean_check(PROP, leanchecker=(args.tier == "thorough"))
    hdir = os.path.join(vlib.VERIF, "harness", "c16")
    binary, err = vlib.build_harness("c16", os.path.join(hdir, "main.cpp"),
                                     extra_srcs=[os.path.join(hdir, "fe_%s.cpp" % s) for s in ("line", "quad", "tria", "hexa", "tetra")] +
                                     [os.path.join(hdir, "bg_%s.cpp" % s) for s in ("quad", "tria", "hexa")] +
                                     [os.path.join(hdir, "ops_%s.cpp" % s) for s in ("quad", "tria", "hexa")] +
                                     [os.path.join(hdir, "trace_quad.cpp"), os.path.join(hdir, "trace3d.cpp"), os.path.join(hdir, "hooks.cpp")])
    if binary is None:
        v = [{"property": PROP, "kind": "harness-build-failure", "detail": err, "failing_input": None,
              "broken": "harness c16 does not compile against the current tree"}]
        return vlib.finish(PROP, args.tier, args.seed, t0, lean, [], [], v, [])
    quick = args.tier == "quick"
    if args.replay:
        rc = json.load(open(args.replay))["input"]
        synth = [rc] if rc.split()[0] not in ("fe", "feasm", "bg", "bgsd", "ops", "trace", "trace3", "trpt", "hist", "histj", "flocal", "vox", "hk", "hkasm") else []
        hk = [rc] if rc.split()[0] == "hk" else []
        hkasm = [rc] if rc.split()[0] == "hkasm" else []
        vox = [rc] if rc.split()[0] == "vox" else []
        hist = [rc] if rc.split()[0] in ("hist", "histj") else []
        flocal = [rc] if rc.split()[0] == "flocal" else []
        ops = [rc] if rc.split()[0] in ("ops", "trace", "trace3") else []
        trpt = [rc] if rc.split()[0] == "trpt" else []
        fe = [rc] if rc.split()[0] == "fe" else []
        feasm_extra = [rc] if rc.split()[0] == "feasm" else []
        bg = [rc] if rc.split()[0] == "bg" else []
        bgsd_extra = [rc] if rc.split()[0] == "bgsd" else []
    else:
        bg = CORPUS_BG + [gen_bg_case(rng, args.tier) for _ in range(300 if quick else 4000)]
        bgsd_extra = []
        synth = CORPUS_SYNTH + gen_synth(rng, 4000 if quick else 60000)
        fe = CORPUS_FE + [gen_fe_case(rng, args.tier) for _ in range(350 if quick else 4000)]
        feasm_extra = []
        ops = CORPUS_OPS + [gen_ops_case(rng, args.tier, k) for k in range(50 if quick else 400)]
        ops += CORPUS_TRACE + [gen_trace_case(rng) for _ in range(60 if quick else 600)]
        ops += CORPUS_TRACE3 + [gen_trace3_case(rng, args.tier) for _ in range(50 if quick else 700)]
        trpt = trpt_cases()
        hk = CORPUS_HK + [gen_hk_case(rng) for _ in range(40 if quick else 400)]
        hkasm = None
        hist = None
        flocal = None
        vox = ["vox poisson 2 1 auto-degree:5", "vox defo 2 1 auto-degree:5 0.78",
               "vox burgers 2 1 auto-degree:5 0.78 1.3 0.3 1.0 0.57 1 0.66 3",
               # F6 (open, c16-edge:F6): only the Frechet term needs the convection field
               "vox burgers 2 1 auto-degree:5 1 1 0 0.5 0 0 1 324"] + \
              [gen_vox_case(rng, args.tier) for _ in range(40 if quick else 400)]
    env = {"VERIF_CASE_TIMEOUT": "120"}
    # pre-run of the fe cases: the recorded cell contributions become the input of the model
    feasm = list(feasm_extra)
    try:
        pre = vlib.run_lines([binary], fe, env=env)
        for cse, out in zip(fe, pre):
            try:
                l = feasm_line(cse, out)
            except Exception:
                l = None
            if l is not None:
                feasm.append(l)
    except Exception as e:  # reported by the fe stream below
        vlib.log("pre-run failed: %s" % e)
    bgsd = list(bgsd_extra)
    try:
        pre = vlib.run_lines([binary], bg, env=env)
        for cse, out in zip(bg, pre):
            try:
                l = bgsd_line(cse, out)
            except Exception:
                l = None
            if l is not None:
                bgsd.append(l)
    except Exception as e:  # reported by the burgers stream below
        vlib.log("pre-run failed: %s" % e)
    if hist is None:
        # recordings: one process per request, the recording call is the first call of its process
        hist = []
        gens = [gen_hist_case(rng, args.tier) for _ in range(120 if quick else 1200)]
        try:
            rec_lines = [l for _, recs, _ in gens for l in recs]
            rec_outs = vlib.run_lines([binary], rec_lines, env=env)
            for k, (head, recs, g) in enumerate(gens):
                try:
                    l = hist_line(head, g, rec_outs[3 * k:3 * k + 3])
                except Exception:
                    l = None
                if l is not None:
                    hist.append(l)
        except Exception as e:
            vlib.log("history pre-run failed: %s" % e)
            hist = [g_[0] + " REC M1 0 0 0" for g_ in gens]
    if flocal is None:
        flocal = []
        cfgs = [gen_flocal_cfg(rng) for _ in range(70 if quick else 1000)]
        try:
            geo_outs = vlib.run_lines([binary], ["fe %s %s" % (g_["shape"], fe_cfg_tokens(g_)) for g_ in cfgs], env=env)
            for g_, out in zip(cfgs, geo_outs):
                try:
                    l = flocal_line(g_, out)
                except Exception:
                    l = None
                if l is not None:
                    flocal.append(l)
        except Exception as e:
            vlib.log("local pre-run failed: %s" % e)
    if hkasm is None:
        hkasm = []
        try:
            def cfg_of(cse, kind, tsp, ssp):
                t = cse.split()
                return "ferec quad %s %s %s %s 0 %s 1/1 1 0/1 1 0/1" % (" ".join(t[1:-1]), kind, tsp, ssp, t[-1])
            pre = vlib.run_lines([binary], hk + [cfg_of(c_, "mass", "L1", "L1") for c_ in hk] +
                                 [cfg_of(c_, "mass2", "L2", "D0") for c_ in hk], env=env)
            n_ = len(hk)
            for k_, cse in enumerate(hk):
                try:
                    hkasm += hkasm_lines(cse, pre[k_], pre[n_ + k_], pre[2 * n_ + k_])
                except Exception:
                    pass
        except Exception as e:
            vlib.log("hooks pre-run failed: %s" % e)
    vbinary, verr = vlib.build_harness("c16v", os.path.join(vlib.VERIF, "harness", "c16v", "main.cpp"),
                                       units=vlib.BASE_UNITS + VOXEL_UNITS)
    if vbinary is None:
        v = [{"property": PROP, "kind": "harness-build-failure", "detail": verr, "failing_input": None,
              "broken": "harness c16v does not compile against the current tree"}]
        return vlib.finish(PROP, args.tier, args.seed, t0, lean, [], [], v, [])
    streams = [
        vlib.Stream("voxel(double,supporting)", vox, [vbinary], None, oracle=oracle_vox, nontrivial=lambda c: int(c.split()[3]) >= 1,
                    describe=lambda c: ["kind:" + c.split()[1], "dim:" + c.split()[2], "level:" + c.split()[3]],
                    signature=signature, env=env),
        vlib.Stream("local", flocal, [binary], vlib.driver_cmd(PROP), oracle=oracle_flocal, nontrivial=lambda c: True,
                    describe=lambda c: ["shape:" + c.split()[1], "kind:" + c.split()[c.split().index("GEO") + 1],
                                        "space:" + c.split()[c.split().index("GEO") + 2],
                                        "rule:" + c.split()[c.split().index("GEO") + 3],
                                        "exactness-hypotheses-confirmed-by-model" if c.split()[-1] == "1" else "no-exactness-claim"],
                    signature=signature, env=env),
        vlib.Stream("history", hist, [binary], vlib.driver_cmd(PROP), oracle=oracle_hist, nontrivial=lambda c: True,
                    describe=lambda c: ["route:" + ("classic" if c.split()[0] == "hist" else "job"), "shape:" + c.split()[1]],
                    signature=signature, env=env),
        vlib.Stream("scatter", synth, [binary], vlib.driver_cmd(PROP), oracle=oracle_synth, nontrivial=nontrivial_synth,
                    describe=describe_synth, signature=signature, env=env,
                    model_filter=lambda c: not asm_zero_couplings(c)),
        vlib.Stream("fe", fe, [binary], None, oracle=oracle_fe, nontrivial=nontrivial_fe, describe=describe_fe,
                    signature=signature, env=env),
        vlib.Stream("fe-model", feasm, [binary], vlib.driver_cmd(PROP), oracle=oracle_feasm,
                    nontrivial=lambda c: True, describe=lambda c: ["shape:" + c.split()[1]], signature=signature, env=env),
        vlib.Stream("burgers", bg, [binary], None, oracle=oracle_bg,
                    nontrivial=lambda c: parse_bg_case(c)["level"] >= 1 or parse_bg_case(c)["fam"] == "s",
                    describe=describe_bg, signature=signature, env=env),
        vlib.Stream("operators", ops, [binary], None,
                    oracle=lambda c, o: oracle_trace3(c, o) if c.startswith("trace3") else
                    (oracle_trace(c, o) if c.startswith("trace") else oracle_ops(c, o)),
                    nontrivial=lambda c: True,
                    describe=lambda c: (["op:trace3", "shape:" + c.split()[1], "moved" if c.split()[3] != "0" else "unmoved"]
                                        if c.startswith("trace3") else ["op:trace"] if c.startswith("trace") else describe_ops(c)),
                    signature=signature, env=env),
        vlib.Stream("hooks", hk, [binary], None, oracle=oracle_hk, nontrivial=lambda c: int(c.split()[1]) >= 1,
                    describe=lambda c: ["level:" + c.split()[1], "moved" if c.split()[2] != "0" else "unmoved"],
                    signature=signature, env=env),
        vlib.Stream("hooks-model", hkasm, [binary], vlib.driver_cmd(PROP), oracle=oracle_feasm, nontrivial=lambda c: True,
                    describe=lambda c: ["route:" + c.split()[1]], signature=signature, env=env),
        vlib.Stream("trace-point", trpt, [binary], vlib.driver_cmd(PROP), oracle=oracle_trpt, nontrivial=lambda c: True,
                    describe=lambda c: ["shape:" + c.split()[1], "symmetry:" + c.split()[3]], signature=signature, env=env),
        vlib.Stream("burgers-model", bgsd, [binary], vlib.driver_cmd(PROP), oracle=oracle_bgsd,
                    nontrivial=lambda c: True, describe=lambda c: ["shape:" + c.split()[1]], signature=signature, env=env),
    ]
    rule = ("scatter: random CSR patterns (1..6 x 1..7, empty rows, unsorted rows, duplicate columns), 1..4 calls on one "
            "scatter object incl. stale-slot calls, banded square and rectangular matrices (scatter and gather), dense vectors, symbolic+numeric assembly from "
            "random DOF tables (repeated dofs, empty cells, unused dofs, shuffled / repeated cell order); non-trivial = "
            ">= 2 cells (asm) or a non-empty call. fe: line/quad/tria/hexa/tetra unit-cube meshes, levels 0..3, interior "
            "vertices moved (non-affine quads/hexas), spaces L1/L2/P0dc/CR-RT and pairs, identity/Laplace/test-derivative/"
            "force, rational cubature rules of sufficient and insufficient degree; non-trivial = >= 2 cells or moved vertex. "
            "burgers: classic BurgersAssembler vs BurgersBlocked/ScalarMatrixAssemblyJob (all cells, sum of one-cell runs, "
            "permuted cell order, per-cell local_delta and SD part) on quad/tria/hexa, L1/L2, BCSR<dim,dim> and scalar CSR, "
            "all term combinations, constant / polynomial / stagnation-at-a-cell-centre fields, fields zeroed on whole "
            "cells; burgers-model: the task's local_delta sequence vs the Lean model; non-trivial = >= 2 cells. "
            "operators: every class of common_operators.hpp / common_functionals.hpp per case (table ops_table: class -> "
            "documented form), u^T A v against the exact integral with polynomials not vanishing on the boundary for all "
            "(ir,ic), every block of every blocked operator entry by entry against the scalar operators, classic vs job; "
            "trace assembler facet selection incl. clear(); trace assembler in 3-D (hexa incl. planar non-parallelogram "
            "faces, tetra levels 0-1) with every facet stored in an independently chosen admissible vertex order: facet "
            "mass matrix / facet functional against exact polygon integrals, jump operator of the continuous space = 0; "
            "hooks: user-defined mass operator / functional whose Evaluator::prepare() reads the cell index and a cell "
            "vertex into a per-cell coefficient (finish() poisons it) on assemble_matrix1/2, Job1/Job2, functional routes and "
            "the trace assembler: route equality, sum_T c_T |T|, hook log; hooks-model: each route vs the model's hook loop; "
            "trace-point: orientation code and mapped facet point for all faces x all symmetries vs the model. every fe/burgers/operators/trace case runs a discarded "
            "warm-up request of the same template instantiations (other rule, other coefficients) before the judged one; "
            "history: requests [warm-up, real, warm-up, real, real] in one process, classic and job route, all five "
            "results against the model's assembleSeq, the three real ones equal. local: the local matrices / vectors the "
            "real cell loop produces on affine cells (intervals, squares, arbitrary triangles; L1/L2; identity, Laplace, "
            "force; rational rules) against the model's cubature sums over C15's basis polynomials")
    rc = vlib.run_pipeline(PROP, args.tier, args.seed, lean, streams, t0, assumptions=[
        "Index modelled as unbounded Nat (no 64-bit overflow at the sizes FEAT can allocate)",
        "reading a never written _col_ptr slot (coupling outside the pattern, first touch) is undefined behaviour: "
        "modelled as failure, not generated",
        "exactness of a cubature rule at Q means rational points and weights: Newton-Cotes, Lauffer, trapezoidal, "
        "barycentre rules (Gauss rules are stored as rounded doubles and are not exact at Q)",
        "voxel assemblers are float/double only: stream voxel(double,supporting) compares voxel / classic / job routes in "
        "double precision within an a-priori rounding bound (1e5 * 2^-52 * row sum of |A|) - supporting evidence, not exact",
        "sqrt at Q is the deterministic rational q_sqrt of exact_q.hpp on every route (Burgers |v|, directed mesh width)"],
        extra_cov={"rule": rule})
    return rc
