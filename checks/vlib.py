#!/usr/bin/env python3
"""Shared machinery for all /verif checks (pipeline A-F of DESIGN.md section 2.3).

Everything is derived from this file's location, so a snapshot of /verif elsewhere works too.
The repository under test is REPO (default /repo, override with VERIF_REPO for scratch worktrees).
"""
import fcntl
import hashlib
import json
import os
import random
import re
import subprocess
import sys
import time
from concurrent.futures import ThreadPoolExecutor

VERIF = os.path.dirname(os.path.dirname(os.path.abspath(__file__)))
REPO = os.environ.get("VERIF_REPO", "/repo")
LEAN_DIR = os.path.join(VERIF, "lean")
BUILD = os.path.join(VERIF, "build")
OBJ_CACHE = os.path.join(BUILD, "obj")
EVIDENCE = os.environ.get("VERIF_EVIDENCE_DIR", os.path.join(VERIF, "evidence"))  # overridden by tools/try_seed.py only
REPLAYS = os.path.join(VERIF, "replays")
CORPUS = os.path.join(VERIF, "corpus")
NCPU = max(1, min(16, os.cpu_count() or 1))
GUARD = "FEAT_VERIF_HOOKS"

ALLOWED_AXIOMS = {"propext", "Classical.choice", "Quot.sound"}
FORBIDDEN = re.compile(
    r"\bsorry\b|\badmit\b|^\s*axiom\s|\bnative_decide\b|\bbv_decide\b|implemented_by|\bunsafe\s|maxHeartbeats\s+0\b",
    re.M)

# FEAT translation units every harness links (compiled from REPO's working tree, cached by
# the hash of their *preprocessed* text, so any change in the tree that reaches them rebuilds).
BASE_UNITS = [
    "kernel/runtime.cpp", "kernel/backend.cpp",
    "kernel/util/dist.cpp", "kernel/util/dist_file_io.cpp", "kernel/util/kahan_summation.cpp",
    "kernel/util/memory_pool.cpp", "kernel/util/property_map.cpp", "kernel/util/statistics.cpp",
    "kernel/util/xml_scanner.cpp",
    "kernel/adjacency/coloring.cpp", "kernel/adjacency/cuthill_mckee.cpp", "kernel/adjacency/graph.cpp",
    "kernel/adjacency/permutation.cpp",
]


def log(*a):
    print(*a, file=sys.stderr, flush=True)


def _die_with_parent():
    """child processes must not outlive a killed check (PR_SET_PDEATHSIG = 1, SIGKILL = 9)"""
    try:
        import ctypes
        ctypes.CDLL("libc.so.6", use_errno=True).prctl(1, 9)
    except Exception:
        pass


def sh(cmd, **kw):
    return subprocess.run(cmd, stdout=subprocess.PIPE, stderr=subprocess.PIPE, text=True, preexec_fn=_die_with_parent, **kw)


# ------------------------------------------------------------------------------------------------
# C++ side
# ------------------------------------------------------------------------------------------------

def cxx_base_flags(extra=()):
    return ["-std=c++17", "-D" + GUARD, "-I" + os.path.join(VERIF, "harness", "config"), "-I" + REPO,
            "-I" + os.path.join(VERIF, "harness", "common"), "-I" + os.path.join(VERIF, "harness"),
            "-w"] + list(extra)


def _compile_unit(src, flags, cxx="g++"):
    """compile src -> cached object; the key is the hash of the preprocessed text + flags"""
    os.makedirs(OBJ_CACHE, exist_ok=True)
    pre = subprocess.run([cxx] + flags + ["-E", "-P", src], stdout=subprocess.PIPE, stderr=subprocess.PIPE)
    if pre.returncode != 0:
        return None, pre.stderr.decode(errors="replace")
    h = hashlib.sha256()
    h.update(pre.stdout)
    h.update(" ".join([cxx] + [f for f in flags if not f.startswith("-I")]).encode())
    obj = os.path.join(OBJ_CACHE, h.hexdigest()[:32] + ".o")
    if not os.path.exists(obj):
        tmp = obj + ".%d.tmp" % os.getpid()
        r = subprocess.run([cxx] + flags + ["-c", src, "-o", tmp], stdout=subprocess.PIPE, stderr=subprocess.PIPE)
        if r.returncode != 0:
            return None, r.stderr.decode(errors="replace")
        os.replace(tmp, obj)
    return obj, ""


def build_harness(name, src, opt=("-O1",), extra_flags=(), units=None, libs=("-lgmpxx", "-lgmp"), cxx="g++",
                  extra_srcs=()):
    """Build harness `src` against REPO's current working tree. Returns (binary, error_text)."""
    t0 = time.time()
    flags = cxx_base_flags(list(opt) + list(extra_flags))
    units = BASE_UNITS if units is None else units
    srcs = [src] + list(extra_srcs) + [os.path.join(REPO, u) for u in units]
    with ThreadPoolExecutor(max_workers=NCPU) as ex:
        res = list(ex.map(lambda s: _compile_unit(s, flags, cxx), srcs))
    for (obj, err), s in zip(res, srcs):
        if obj is None:
            return None, "compile failed: %s\n%s" % (s, err[-4000:])
    outdir = os.path.join(BUILD, "bin")
    os.makedirs(outdir, exist_ok=True)
    h = hashlib.sha256((" ".join(o for o, _ in res) + " ".join(flags)).encode()).hexdigest()[:16]
    binary = os.path.join(outdir, "%s-%s" % (name, h))
    if not os.path.exists(binary):
        link_flags = [f for f in flags if f.startswith("-fsanitize") or f in ("-pthread", "-fopenmp")]
        r = sh([cxx] + link_flags + [o for o, _ in res] + ["-o", binary + ".tmp%d" % os.getpid()] + list(libs) + ["-pthread"])
        if r.returncode != 0:
            return None, "link failed:\n" + r.stderr[-4000:]
        os.replace(binary + ".tmp%d" % os.getpid(), binary)
    log("[build] %s ready in %.1fs" % (name, time.time() - t0))
    return binary, ""


def run_lines(cmd, lines, jobs=NCPU, env=None, timeout=3600):
    """Feed `lines` (one case each) to `cmd <file>`; the work is split over `jobs` processes.
    Returns list of output lines (same length) or raises RuntimeError."""
    if not lines:
        return []
    jobs = max(1, min(jobs, len(lines)))
    tmpdir = os.path.join(BUILD, "tmp")
    os.makedirs(tmpdir, exist_ok=True)
    chunks = [lines[i::jobs] for i in range(jobs)]
    files = []
    tag = "%d-%d" % (os.getpid(), random.getrandbits(32))
    for k, ch in enumerate(chunks):
        p = os.path.join(tmpdir, "cases-%s-%d.txt" % (tag, k))
        with open(p, "w") as f:
            f.write("\n".join(ch) + "\n")
        files.append(p)
    e = dict(os.environ)
    e["ASAN_OPTIONS"] = e.get("ASAN_OPTIONS", "detect_leaks=0:abort_on_error=1:allocator_may_return_null=1")
    e["UBSAN_OPTIONS"] = e.get("UBSAN_OPTIONS", "halt_on_error=1:print_stacktrace=0")
    if env:
        e.update(env)

    def one(p):
        r = subprocess.run(cmd + [p], stdout=subprocess.PIPE, stderr=subprocess.PIPE, env=e, timeout=timeout,
                           preexec_fn=_die_with_parent)
        return r

    with ThreadPoolExecutor(max_workers=jobs) as ex:
        rs = list(ex.map(one, files))
    outs = [None] * len(lines)
    for k, (r, ch) in enumerate(zip(rs, chunks)):
        o = r.stdout.decode(errors="replace").split("\n")
        if o and o[-1] == "":
            o.pop()
        if r.returncode != 0 or len(o) != len(ch):
            raise RuntimeError("runner %s failed (rc=%s, %d/%d lines)\nstderr: %s" % (
                cmd, r.returncode, len(o), len(ch), r.stderr.decode(errors="replace")[-3000:]))
        for j, line in enumerate(o):
            outs[k + j * jobs] = line.strip()
    for p in files:
        try:
            os.remove(p)
        except OSError:
            pass
    return outs


# ------------------------------------------------------------------------------------------------
# Lean side
# ------------------------------------------------------------------------------------------------

class LeanResult:
    def __init__(self):
        self.ok = True
        self.errors = []          # human readable
        self.theorems = []        # names in Props file
        self.axioms = {}          # theorem -> [axioms]
        self.obligations = 0
        self.discharged = 0
        self.build_s = 0.0
        self.failed_names = []    # theorems / modules that no longer check


def _lake(args, timeout=3000):
    os.makedirs(BUILD, exist_ok=True)
    lock = open(os.path.join(BUILD, "lake.lock"), "w")
    fcntl.flock(lock, fcntl.LOCK_EX)
    try:
        return sh(["lake"] + args, cwd=LEAN_DIR, timeout=timeout)
    finally:
        fcntl.flock(lock, fcntl.LOCK_UN)
        lock.close()


def strip_lean_comments(text):
    # remove nested block comments and line comments (string literals with "--" are not used in our files)
    out = []
    i, depth, n = 0, 0, len(text)
    while i < n:
        if text.startswith("/-", i):
            depth += 1
            i += 2
        elif depth > 0 and text.startswith("-/", i):
            depth -= 1
            i += 2
        elif depth > 0:
            i += 1
        elif text.startswith("--", i):
            j = text.find("\n", i)
            i = n if j < 0 else j
        else:
            out.append(text[i])
            i += 1
    return "".join(out)


def lean_module_files(module):
    """transitive in-project imports of `module` (FeatModel.*)"""
    seen, todo = [], [module]
    while todo:
        m = todo.pop()
        if m in seen:
            continue
        p = os.path.join(LEAN_DIR, m.replace(".", "/") + ".lean")
        if not os.path.exists(p):
            continue
        seen.append(m)
        for mm in re.findall(r"^\s*(?:public\s+)?import\s+(FeatModel[\w.]*)", open(p).read(), re.M):
            todo.append(mm)
    return seen


def lean_check(prop, extra_targets=(), leanchecker=False):
    """lake-build the property's theorems and audit them. prop like 'C19'."""
    res = LeanResult()
    t0 = time.time()
    mod = "FeatModel.Props.%s" % prop
    targets = [mod, "drv_%s" % prop.lower()] + list(extra_targets)
    r = _lake(["build"] + targets)
    res.build_s = time.time() - t0
    if r.returncode != 0:
        res.ok = False
        txt = r.stdout + r.stderr
        res.errors.append("lake build failed:\n" + txt[-6000:])
        res.failed_names = sorted(set(re.findall(r"error: (\S+\.lean:\d+:\d+)", txt)))[:20] or [mod]
    # forbidden tokens over all in-project modules reachable from the Props module and the driver
    mods = set(lean_module_files(mod)) | set(lean_module_files("FeatModel.Driver.%s" % prop))
    for m in sorted(mods):
        p = os.path.join(LEAN_DIR, m.replace(".", "/") + ".lean")
        body = strip_lean_comments(open(p).read())
        for mt in FORBIDDEN.finditer(body):
            res.ok = False
            res.errors.append("forbidden token %r in %s" % (mt.group(0).strip(), m))
            res.failed_names.append(m)
    # theorem names of the Props file
    ptxt = strip_lean_comments(open(os.path.join(LEAN_DIR, mod.replace(".", "/") + ".lean")).read())
    ns = None
    names = []
    for line in ptxt.split("\n"):
        m = re.match(r"\s*namespace\s+(\S+)", line)
        if m:
            ns = m.group(1) if ns is None else ns + "." + m.group(1)
        m = re.match(r"\s*end\s+(\S+)", line)
        if m and ns:
            parts = ns.split(".")
            k = len(m.group(1).split("."))
            ns = ".".join(parts[:-k]) or None
        m = re.match(r"\s*(?:@\[[^\]]*\]\s*)?(?:private\s+|protected\s+)?theorem\s+([^\s:({\[]+)", line)
        if m:
            names.append((ns + "." if ns else "") + m.group(1))
    res.theorems = names
    res.obligations = len(names)
    if res.ok or r.returncode == 0:
        audit = os.path.join(BUILD, "tmp", "audit_%s_%d.lean" % (prop, os.getpid()))
        os.makedirs(os.path.dirname(audit), exist_ok=True)
        with open(audit, "w") as f:
            f.write("import %s\n" % mod)
            for nme in names:
                f.write("#print axioms %s\n" % nme)
        a = sh(["lake", "env", "lean", audit], cwd=LEAN_DIR, timeout=1200)
        os.remove(audit)
        out = a.stdout + a.stderr
        if a.returncode != 0:
            res.ok = False
            res.errors.append("axiom audit failed:\n" + out[-3000:])
        # parse: "'name' depends on axioms: [a, b]" or "'name' does not depend on any axioms"
        flat = re.sub(r"\s+", " ", out)
        for nme in names:
            m = re.search(r"'%s' depends on axioms: \[([^\]]*)\]" % re.escape(nme), flat)
            if m:
                axs = [x.strip() for x in m.group(1).split(",") if x.strip()]
            elif re.search(r"'%s' does not depend on any axioms" % re.escape(nme), flat):
                axs = []
            else:
                res.ok = False
                res.errors.append("no axiom report for theorem %s" % nme)
                res.failed_names.append(nme)
                continue
            res.axioms[nme] = axs
            bad = [x for x in axs if x not in ALLOWED_AXIOMS]
            if bad:
                res.ok = False
                res.errors.append("theorem %s depends on non-allowed axioms %s" % (nme, bad))
                res.failed_names.append(nme)
            else:
                res.discharged += 1
    if leanchecker and res.ok:
        c = sh(["lake", "env", "leanchecker", mod], cwd=LEAN_DIR, timeout=3000)
        if c.returncode != 0:
            res.ok = False
            res.errors.append("leanchecker rejected %s:\n%s" % (mod, (c.stdout + c.stderr)[-2000:]))
            res.failed_names.append(mod)
    if res.obligations == 0:
        res.ok = False
        res.errors.append("no theorems found in %s" % mod)
    return res


def driver_cmd(prop):
    return [os.path.join(LEAN_DIR, ".lake", "build", "bin", "drv_%s" % prop.lower())]


# ------------------------------------------------------------------------------------------------
# known findings
# ------------------------------------------------------------------------------------------------

def load_known(prop):
    p = os.path.join(VERIF, "KNOWN_FINDINGS.json")
    if not os.path.exists(p):
        return []
    data = json.load(open(p))
    return [e for e in data.get("findings", []) if e.get("property") == prop and e.get("status") == "open"]


# ------------------------------------------------------------------------------------------------
# the generic pipeline
# ------------------------------------------------------------------------------------------------

class Stream:
    """one correspondence stream: cases -> impl outputs, model outputs, oracle"""

    def __init__(self, name, cases, impl_cmd, model_cmd=None, oracle=None, nontrivial=None, canon=None,
                 env=None, signature=None, describe=None, model_filter=None):
        self.name = name
        self.cases = cases              # list of str (one line each)
        self.impl_cmd = impl_cmd
        self.model_cmd = model_cmd      # None => oracle only
        self.oracle = oracle            # f(case_line, impl_out) -> None | str (why the property fails)
        self.nontrivial = nontrivial    # f(case_line) -> bool
        self.canon = canon              # f(out_line) -> canonical out line (both sides)
        self.env = env
        self.signature = signature      # f(case_line, impl_out, why) -> str (for known findings)
        self.describe = describe        # f(case_line) -> dict of histogram keys
        self.model_filter = model_filter  # f(case_line) -> bool: compare with model only if True


def finish(prop, tier, seed, t0, lean, streams_stats, samples, violations, known_hits, extra_cov=None,
           assumptions=(), level="proof"):
    """write evidence, print verdict lines, return exit code"""
    os.makedirs(EVIDENCE, exist_ok=True)
    cov = {
        "obligations": lean.obligations if lean else 0,
        "discharged": lean.discharged if lean else 0,
        "checker_cmd": "cd lean && lake build FeatModel.Props.%s && lake env lean <#print axioms of every theorem>" % prop,
        "trusted_base": [
            "Lean 4.33.0 kernel",
            "axioms used: " + (", ".join(sorted({a for v in (lean.axioms.values() if lean else []) for a in v})) or "none"),
            "hand-written Lean model tied to /repo by differential execution (this run's correspondence streams)",
            "exact rational scalar Q over GMP; g++ 12 compiling FEAT templates from /repo's working tree",
        ],
        "theorems": lean.theorems if lean else [],
        "axioms_per_theorem": lean.axioms if lean else {},
        "lean_build_s": round(lean.build_s, 1) if lean else 0,
        "evaluations": sum(s["evaluations"] for s in streams_stats),
        "distinct_nontrivial": sum(s["distinct_nontrivial"] for s in streams_stats),
        "disagreements_checked": sum(s["disagreements"] for s in streams_stats),
        "traces_validated_against_impl": sum(s["compared"] for s in streams_stats),
        "rule": "; ".join("%s: %s" % (s["name"], s.get("rule", "")) for s in streams_stats),
        "streams": streams_stats,
        "samples": samples[:8] if samples else ["<none>"],
        "known_findings_reproduced": known_hits,
    }
    if extra_cov:
        cov.update(extra_cov)
    ev = {
        "property_id": prop, "tier": tier, "seed": int(seed), "level": level, "coverage": cov,
        "assumptions": list(assumptions), "wall_s": round(time.time() - t0, 2), "violations": len(violations),
    }
    with open(os.path.join(EVIDENCE, "%s.json" % prop), "w") as f:
        json.dump(ev, f, indent=1, sort_keys=True)
    for kh in known_hits:
        print("KNOWN-FINDING: property=%s %s" % (prop, kh))
    if violations:
        os.makedirs(REPLAYS, exist_ok=True)
        shown = violations[:5]
        for v in violations[5:]:   # a broken proof obligation is always reported, whatever else was found
            if v.get("kind") == "proof-obligation-broken":
                shown = shown[:4] + [v]
                break
        for k, v in enumerate(shown):
            path = os.path.join(REPLAYS, "%s-%s-%d.json" % (prop, seed, k))
            with open(path, "w") as f:
                json.dump(v, f, indent=1, sort_keys=True)
            tail = "" if v.get("failing_input") else " no-failing-input-found"
            print("VIOLATION property=%s replay=%s%s" % (prop, path, tail))
        return 1
    print("OK property=%s tier=%s obligations=%d discharged=%d evaluations=%d wall=%.1fs" % (
        prop, tier, cov["obligations"], cov["discharged"], cov["evaluations"], time.time() - t0))
    return 0


def run_pipeline(prop, tier, seed, lean, streams, t0, assumptions=(), extra_cov=None, replay_mode=False):
    """lean: LeanResult (already computed); streams: list of Stream."""
    known = load_known(prop)
    violations, known_hits, samples, stats = [], [], [], []
    lean_broken = (lean is not None) and (not lean.ok)
    found_input = False
    for st in streams:
        s = {"name": st.name, "evaluations": len(st.cases), "distinct_nontrivial": 0, "disagreements": 0,
             "compared": 0, "oracle_failures": 0, "outcome_hist": {}, "input_hist": {}}
        t1 = time.time()
        try:
            impl = run_lines(st.impl_cmd, st.cases, env=st.env)
        except Exception as e:  # harness failure is a broken check, reported loudly
            violations.append({"property": prop, "kind": "harness-failure", "stream": st.name, "detail": str(e)[-3000:],
                               "failing_input": None, "broken": "correspondence stream %s could not run" % st.name})
            stats.append(s)
            continue
        model = None
        if st.model_cmd is not None:
            try:
                model = run_lines(st.model_cmd, st.cases, env=st.env)
            except Exception as e:
                violations.append({"property": prop, "kind": "model-driver-failure", "stream": st.name,
                                   "detail": str(e)[-3000:], "failing_input": None,
                                   "broken": "Lean model driver for stream %s could not run" % st.name})
        s["impl_model_s"] = round(time.time() - t1, 2)
        distinct = set()
        for i, case in enumerate(st.cases):
            io = impl[i]
            if st.canon:
                io = st.canon(io)
            key = io.split(":")[0] if io[:4] in ("ABOR", "EXC:", "TIME", "SIGN", "SANI", "EXIT") else "ok"
            s["outcome_hist"][key] = s["outcome_hist"].get(key, 0) + 1
            if st.describe:
                for k in st.describe(case):
                    s["input_hist"][k] = s["input_hist"].get(k, 0) + 1
            if st.nontrivial is None or st.nontrivial(case):
                distinct.add(case)
            try:
                why = st.oracle(case, io) if st.oracle else None
            except Exception as ex:  # an implementation output the oracle cannot even read is a failure, not a crash of the check
                why = "oracle could not interpret the implementation's output (%s: %s): %s" % (type(ex).__name__, str(ex)[:120], io[:200])
            dis = False
            if model is not None and (st.model_filter is None or st.model_filter(case)):
                mo = model[i]
                if st.canon:
                    mo = st.canon(mo)
                s["compared"] += 1
                if mo != io:
                    dis = True
                    s["disagreements"] += 1
            if why is not None:
                s["oracle_failures"] += 1
            if why is not None or dis:
                sig = st.signature(case, io, why) if st.signature else None
                kf = None
                if why is not None:
                    for e in known:
                        if sig is not None and e.get("signature") == sig:
                            kf = e
                            break
                if kf is not None:
                    msg = "%s [%s]" % (kf.get("what", sig), sig)
                    if msg not in known_hits:
                        known_hits.append(msg)
                    continue
                v = {"property": prop, "stream": st.name, "input": case, "impl_output": io,
                     "model_output": (model[i] if model is not None else None),
                     "oracle": why, "signature": sig,
                     "kind": ("property-fails-on-input" if why is not None else "model-impl-disagreement"),
                     "failing_input": case if why is not None else None}
                if why is None:
                    v["broken"] = "correspondence stream %s: model and implementation differ; the independent oracle " \
                                  "does not refute the property on this input" % st.name
                else:
                    found_input = True
                violations.append(v)
        s["distinct_nontrivial"] = len(distinct)
        if st.cases:
            k = 0
            for i, case in enumerate(st.cases):
                if st.nontrivial is None or st.nontrivial(case):
                    samples.append({"stream": st.name, "input": case[:600], "impl_output": impl[i][:600]})
                    k += 1
                    if k >= 2:
                        break
        stats.append(s)
    # order: concrete failing inputs first
    violations.sort(key=lambda v: 0 if v.get("failing_input") else 1)
    # keep at most one no-input violation per stream
    seen, vv = set(), []
    for v in violations:
        k = (v.get("stream"), bool(v.get("failing_input")), v.get("signature"))
        if k in seen:
            continue
        seen.add(k)
        vv.append(v)
    violations = vv
    if lean_broken:
        v = {"property": prop, "kind": "proof-obligation-broken", "failing_input": None,
             "broken": "theorem(s)/module(s) that no longer check: %s" % ", ".join(lean.failed_names[:20]),
             "detail": "\n".join(lean.errors)[-6000:]}
        if found_input:
            violations.append(v)
        else:
            violations.insert(0, v)
    return finish(prop, tier, seed, t0, lean, stats, samples, violations, known_hits, extra_cov=extra_cov,
                  assumptions=assumptions)


def std_args(argv=None):
    import argparse
    ap = argparse.ArgumentParser()
    ap.add_argument("--tier", default=os.environ.get("VERIF_TIER", "quick"), choices=["quick", "thorough"])
    ap.add_argument("--seed", type=int, default=int(os.environ.get("VERIF_SEED", "1")))
    ap.add_argument("--replay", default=None)
    ap.add_argument("--no-lean", action="store_true", help="skip the Lean build/audit (debugging only)")
    return ap.parse_args(argv)


def frac_str(fr):
    return "%d/%d" % (fr.numerator, fr.denominator)


def parse_frac(s):
    from fractions import Fraction
    if "/" in s:
        a, b = s.split("/")
        return Fraction(int(a), int(b))
    return Fraction(int(s))
