---------------------------- MODULE C17Colored ----------------------------
(* Hand translation of the Lean transition system `CCfg` (Fence.lean, section "colored"), see C17Layered.tla. *)
EXTENDS Naturals, Sequences
CONSTANTS n, Comb, Ce            \* Ce: colour offsets, entry k of the Lean list is element k+1
VARIABLES fence, ph, pos, col, mph, mi, mutex
vars == <<fence, ph, pos, col, mph, mi, mutex>>

ce(k) == Ce[k + 1]
nc == Len(Ce) - 1
cbeg(ic, w) == ce(ic) + ((ce(ic + 1) - ce(ic)) * (w - 1)) \div n
cend(ic, w) == ce(ic) + ((ce(ic + 1) - ce(ic)) * w) \div n
AfterElem(w, p) == IF p < cend(col[w], w) THEN "idle" ELSE "toOpen"
AfterColours == IF Comb THEN "preComb" ELSE "done"

Init == /\ fence = [f \in 0..(n + 1) |-> FALSE]
        /\ ph = [w \in 1..n |-> IF 0 < nc THEN "front" ELSE AfterColours]
        /\ pos = [w \in 1..n |-> 0]
        /\ col = [t \in 0..n |-> 0]
        /\ mph = IF 0 < nc THEN "openFront" ELSE "join"
        /\ mi = 1
        /\ mutex = FALSE

\* master
MOpenFront == /\ mph = "openFront"
              /\ fence' = [fence EXCEPT ![0] = TRUE] /\ mph' = "wait1" /\ mi' = 1
              /\ UNCHANGED <<ph, pos, col, mutex>>
MWait1 == /\ mph = "wait1" /\ fence[mi] /\ mph' = "close1" /\ UNCHANGED <<fence, ph, pos, col, mi, mutex>>
MClose1 == /\ mph = "close1"
           /\ fence' = [fence EXCEPT ![mi] = FALSE]
           /\ IF mi < n THEN mph' = "wait1" /\ mi' = mi + 1 ELSE mph' = "closeFront" /\ mi' = mi
           /\ UNCHANGED <<ph, pos, col, mutex>>
MCloseFront == /\ mph = "closeFront"
               /\ fence' = [fence EXCEPT ![0] = FALSE] /\ mph' = "openBack"
               /\ UNCHANGED <<ph, pos, col, mi, mutex>>
MOpenBack == /\ mph = "openBack"
             /\ fence' = [fence EXCEPT ![n + 1] = TRUE] /\ mph' = "wait2" /\ mi' = 1
             /\ UNCHANGED <<ph, pos, col, mutex>>
MWait2 == /\ mph = "wait2" /\ fence[mi] /\ mph' = "close2" /\ UNCHANGED <<fence, ph, pos, col, mi, mutex>>
MClose2 == /\ mph = "close2"
           /\ fence' = [fence EXCEPT ![mi] = FALSE]
           /\ IF mi < n THEN mph' = "wait2" /\ mi' = mi + 1 ELSE mph' = "closeBack" /\ mi' = mi
           /\ UNCHANGED <<ph, pos, col, mutex>>
MCloseBack == /\ mph = "closeBack"
              /\ fence' = [fence EXCEPT ![n + 1] = FALSE]
              /\ col' = [col EXCEPT ![0] = col[0] + 1]
              /\ mph' = IF col[0] + 1 < nc THEN "openFront" ELSE "join"
              /\ UNCHANGED <<ph, pos, mi, mutex>>
MJoin == /\ mph = "join" /\ \A w \in 1..n : ph[w] = "done"
         /\ mph' = "done" /\ UNCHANGED <<fence, ph, pos, col, mi, mutex>>

\* workers
WFront(w) == /\ ph[w] = "front" /\ fence[0]
             /\ pos' = [pos EXCEPT ![w] = cbeg(col[w], w)]
             /\ ph' = [ph EXCEPT ![w] = AfterElem(w, cbeg(col[w], w))]
             /\ UNCHANGED <<fence, col, mph, mi, mutex>>
WEnter(w) == /\ ph[w] = "idle" /\ ph' = [ph EXCEPT ![w] = "insc"]
             /\ UNCHANGED <<fence, pos, col, mph, mi, mutex>>
WLeave(w) == /\ ph[w] = "insc"
             /\ pos' = [pos EXCEPT ![w] = pos[w] + 1]
             /\ ph' = [ph EXCEPT ![w] = AfterElem(w, pos[w] + 1)]
             /\ UNCHANGED <<fence, col, mph, mi, mutex>>
WOpen1(w) == /\ ph[w] = "toOpen"
             /\ fence' = [fence EXCEPT ![w] = TRUE] /\ ph' = [ph EXCEPT ![w] = "back"]
             /\ UNCHANGED <<pos, col, mph, mi, mutex>>
WBack(w) == /\ ph[w] = "back" /\ fence[n + 1]
            /\ ph' = [ph EXCEPT ![w] = "toOpen2"]
            /\ UNCHANGED <<fence, pos, col, mph, mi, mutex>>
WOpen2(w) == /\ ph[w] = "toOpen2"
             /\ fence' = [fence EXCEPT ![w] = TRUE]
             /\ col' = [col EXCEPT ![w] = col[w] + 1]
             /\ ph' = [ph EXCEPT ![w] = IF col[w] + 1 < nc THEN "front" ELSE AfterColours]
             /\ UNCHANGED <<pos, mph, mi, mutex>>
Center(w) == /\ ph[w] = "preComb" /\ ~mutex
             /\ ph' = [ph EXCEPT ![w] = "inComb"] /\ mutex' = TRUE
             /\ UNCHANGED <<fence, pos, col, mph, mi>>
Cleave(w) == /\ ph[w] = "inComb"
             /\ ph' = [ph EXCEPT ![w] = "done"] /\ mutex' = FALSE
             /\ UNCHANGED <<fence, pos, col, mph, mi>>
Terminated == mph = "done" /\ UNCHANGED vars

Step == \/ MOpenFront \/ MWait1 \/ MClose1 \/ MCloseFront \/ MOpenBack \/ MWait2 \/ MClose2 \/ MCloseBack \/ MJoin
        \/ \E w \in 1..n : WFront(w) \/ WEnter(w) \/ WLeave(w) \/ WOpen1(w) \/ WBack(w) \/ WOpen2(w)
                            \/ Center(w) \/ Cleave(w)
Next == Step \/ Terminated
Spec == Init /\ [][Next]_vars /\ WF_vars(Step)

Safe == \A a \in 1..n : \A b \in 1..n :
          (ph[a] = "insc" /\ ph[b] = "insc") =>
            /\ col[a] = col[b]
            /\ cbeg(col[a], a) <= pos[a] /\ pos[a] < cend(col[a], a)
CombineMutex == /\ \A a \in 1..n : \A b \in 1..n : (ph[a] = "inComb" /\ ph[b] = "inComb") => a = b
                /\ mutex = (\E a \in 1..n : ph[a] = "inComb")
Terminates == <>(mph = "done")
=============================================================================
