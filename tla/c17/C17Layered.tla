---------------------------- MODULE C17Layered ----------------------------
(* Hand translation of the Lean transition system `LCfg` (lean/FeatModel/Model/DA/Fence.lean, section "layered")
   for a cross-check with TLC: same phases, same guards, one action per Lean event.  checks/props/c17.py compares
   the number of distinct states / transitions with the exhaustive exploration of the Lean model (driver op
   `explore L`) and lets TLC confirm the invariants.  Supporting evidence, not a proof. *)
EXTENDS Naturals, Sequences
CONSTANTS n, Comb, Le, Tl        \* Le, Tl: sequences; entry k of the Lean lists is element k+1
VARIABLES fence, ph, pos, mutex
vars == <<fence, ph, pos, mutex>>

le(k) == Le[k + 1]
tl(k) == Tl[k + 1]
beg(w) == le(tl(w - 1))
fin(w) == le(tl(w))
HasOpen(w) == w > 1
openAt(w) == le(tl(w - 1) + 1) - 1
HasWait(w) == w < n
waitAt(w) == le(tl(w) - 1)
After(w, p) == IF p < fin(w) THEN "idle" ELSE IF Comb THEN "preComb" ELSE "done"
MustWait(w) == HasWait(w) /\ waitAt(w) = pos[w]

Init == /\ fence = [f \in 0..(n + 1) |-> FALSE]
        /\ ph = [t \in 0..n |-> "front"]
        /\ pos = [w \in 1..n |-> beg(w)]
        /\ mutex = FALSE

MOpen == /\ ph[0] = "front"
         /\ fence' = [fence EXCEPT ![0] = TRUE]
         /\ ph' = [ph EXCEPT ![0] = "back"]
         /\ UNCHANGED <<pos, mutex>>
Join == /\ ph[0] = "back"
        /\ \A w \in 1..n : ph[w] = "done"
        /\ ph' = [ph EXCEPT ![0] = "done"]
        /\ UNCHANGED <<fence, pos, mutex>>
WFront(w) == /\ ph[w] = "front" /\ fence[0]
             /\ ph' = [ph EXCEPT ![w] = After(w, pos[w])]
             /\ UNCHANGED <<fence, pos, mutex>>
WWait(w) == /\ ph[w] = "idle" /\ MustWait(w) /\ fence[w + 1]
            /\ ph' = [ph EXCEPT ![w] = "ready"]
            /\ UNCHANGED <<fence, pos, mutex>>
WEnter(w) == /\ (ph[w] = "idle" /\ ~MustWait(w)) \/ ph[w] = "ready"
             /\ ph' = [ph EXCEPT ![w] = "insc"]
             /\ UNCHANGED <<fence, pos, mutex>>
WLeave(w) == /\ ph[w] = "insc"
             /\ IF HasOpen(w) /\ openAt(w) = pos[w]
                  THEN ph' = [ph EXCEPT ![w] = "toOpen"] /\ pos' = pos
                  ELSE ph' = [ph EXCEPT ![w] = After(w, pos[w] + 1)] /\ pos' = [pos EXCEPT ![w] = pos[w] + 1]
             /\ UNCHANGED <<fence, mutex>>
WOpen(w) == /\ ph[w] = "toOpen"
            /\ fence' = [fence EXCEPT ![w] = TRUE]
            /\ ph' = [ph EXCEPT ![w] = After(w, pos[w] + 1)]
            /\ pos' = [pos EXCEPT ![w] = pos[w] + 1]
            /\ UNCHANGED mutex
Center(w) == /\ ph[w] = "preComb" /\ ~mutex
             /\ ph' = [ph EXCEPT ![w] = "inComb"] /\ mutex' = TRUE
             /\ UNCHANGED <<fence, pos>>
Cleave(w) == /\ ph[w] = "inComb"
             /\ ph' = [ph EXCEPT ![w] = "done"] /\ mutex' = FALSE
             /\ UNCHANGED <<fence, pos>>
Terminated == ph[0] = "done" /\ UNCHANGED vars   \* so that TLC's deadlock check flags only real deadlocks

Step == \/ MOpen \/ Join
        \/ \E w \in 1..n : WFront(w) \/ WWait(w) \/ WEnter(w) \/ WLeave(w) \/ WOpen(w) \/ Center(w) \/ Cleave(w)
Next == Step \/ Terminated
Spec == Init /\ [][Next]_vars /\ WF_vars(Step)

\* the invariants proved in Lean
Safe == \A a \in 1..n : \A b \in 1..n :
          (a < b /\ ph[a] = "insc" /\ ph[b] = "insc") =>
            \E l \in 0..(Len(Le) - 2) : pos[a] < le(l) /\ le(l + 1) <= pos[b]
CombineMutex == /\ \A a \in 1..n : \A b \in 1..n : (ph[a] = "inComb" /\ ph[b] = "inComb") => a = b
                /\ mutex = (\E a \in 1..n : ph[a] = "inComb")
Terminates == <>(ph[0] = "done")
=============================================================================
