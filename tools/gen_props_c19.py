#!/usr/bin/env python3
"""Assemble lean/FeatModel/Props/C19.lean from the statement file and the lemma files that exist."""
import os, re, sys
ROOT = os.path.dirname(os.path.dirname(os.path.abspath(__file__)))
stm = open(ROOT + "/lean/FeatModel/Props/C19.statements").read()
groups = {"renders": ["injectify_spec", "transpose_spec", "injectifyTranspose_spec", "compose_spec", "sortIndices_spec", "arrays_faithful"],
          "perms": ["swapFromPerm_terminates", "swap_perm_agree", "inverse_swaps_undo", "applyPermInv_undoes", "invPerm_spec", "concat_composes", "permFromSwap_bijection"],
          "color": ["coloring_proper", "coloring_bounds", "coloring_proper_scanned", "coloring_nonsymmetric_witness", "coloringOrdered_proper", "partitionGraph_spec"],
          "cm": ["cm_bijection"],
          "walk": ["adjactor_ofGraph_spec", "adjactor_composite_spec", "walk_spec"],
          "rowk": ["renderRows_spec", "sortSegments_spec"],
          "colk": ["renderCols_spec"],
          "kernels": ["kernel_render_eq", "kernel_render2_eq"],
          "api": ["degree_spec", "permuteIndices_spec", "permuteIndices_relabels", "clone_spec", "numDistinct_spec", "greedy_colors_contiguous",
                  "compositeIterator_spec", "compositeIterator_empty_head", "compositeIterator_fixed_spec", "degree_is_max"],
          "dyn": ["dyn_insert_spec", "dyn_erase_spec", "dyn_ofAdjactor_spec", "dyn_ofAdjactor_transpose_spec",
                  "dyn_render_spec", "dyn_compose_spec"],
          "layers": ["cm_layers_are_bfs_levels"],
          "csr": ["graph_csr_permute_consistent"],
          "cmroot": ["findRoot_spec", "sortLevel_stable", "cm_empty_aborts"],
          "cmexact": ["cm_ordering_spec", "cm_reverse_exact"],
          "color2": ["coloringOrdered_bounds", "coloringOrdered_proper_scanned", "coloringOrdered_colors_contiguous",
                     "partition_transpose_roundtrip"],
          "mask": ["walkM_spec", "walk_is_walkM", "walkTag_narrow_fails", "walkTag_wide_ok"],
          "perms3": ["identity_ctor_spec", "swap_ctor_spec", "invSwap_ctor_is_inverse", "invPerm_ctor_spec"],
          "wf": ["render_wf", "renderComposite_wf", "permuted_wf", "permuteIndices_wf", "partitionGraph_wf", "dynGraph_wf"],
          "cmuniq": ["cm_root_unique", "cm_chain_unique", "cm_components_unique", "cm_ordering_unique"],
          "blk": ["blocked_apply_spec", "indexSetPermute_is_graph_permuted"],
          "perms2": ["inverse_inverse", "concat_inverse", "self_concat", "self_concat_aliased", "random_ctor_bijection", "graph_permuted_spec"]}
# lemma whose name differs from the property theorem (old signature kept for other properties' imports)
ALIAS = {"coloring_bounds": "coloring_bounds_free"}
HYP_NOTES = """Remaining hypotheses of the C19 theorems and why they stay (everything else was removed or turned into a conclusion):
* `g.wf = true` (all image indices < `nImg`): class invariant of `Adjacency::Graph`. It is ESTABLISHED by every operation
  of the model that produces a graph (`render_wf`, `renderComposite_wf`, `permuted_wf`, `permuteIndices_wf`,
  `partitionGraph_wf`, `dynGraph_wf`, `C19L.walk.compose_wf`), so it only has to hold for graphs that enter through the
  Copy-Array / Copy-Vector constructors, which copy what they get without any assertion: there it is a caller obligation
  (the kernels index `idx_mask[*it]`, `_domain_ptr[*it + 1]`, `image_ptr[*it]` with the indices; undefined behaviour
  otherwise). The driver EVALUATES `g.wf` on every input graph (an ill-formed one is rejected as `BAD-OP`), so every
  model output compared with the implementation is covered by the theorems. `permuteIndices_spec` needs no hypothesis.
* `g.nImg = g.nDom`: `Coloring(graph)` and `CuthillMcKee::compute` take a node-to-node graph (both index node arrays with
  image indices).
* `hsym` (`coloring_proper`, `coloringOrdered_proper`): coloring.hpp documents "adjacent nodes do not have the same color"
  for a *graph* in the undirected sense; both constructors only look at neighbours that are already coloured. What holds
  for ANY graph: `coloring_proper_scanned`, `coloringOrdered_proper_scanned` (a node differs from every out-neighbour
  coloured before it); `coloring_nonsymmetric_witness` shows symmetry cannot be dropped. The colour bounds
  (`coloring_bounds`, `coloringOrdered_bounds`) and contiguity need no hypothesis on the graph.
* `Perm.isBijection p` / swap-range hypotheses: class invariant of `Adjacency::Permutation`; constructors do not validate
  (`swapFromPerm_terminates`: termination is only guaranteed for bijections). `order` of `Coloring(graph, order)` is
  documented as a permutation array.
* `A.Lawful`, `A.toGraph.wf`: hold for every adjactor the driver builds (`adjactor_ofGraph_spec`,
  `adjactor_composite_spec`, `C19L.walk.compose_wf`).
* Permutation constructor types: identity `identity_ctor_spec`, perm `swap_perm_agree` + `swapFromPerm_terminates`, swap
  `swap_ctor_spec`, inv_perm `invPerm_ctor_spec` + `invPerm_spec`, inv_swap `invSwap_ctor_is_inverse` (inverse of the swap
  constructor for EVERY swap array), random `random_ctor_bijection`; `none` leaves both arrays uninitialised (nothing to state).
* `hn : 0 < g.nDom` (Cuthill-McKee): `cm_empty_aborts` shows the other case aborts (`Permutation(0)`); logically implied by
  `compute = some _` where that is a hypothesis.
* sortedness of `DynGraph` rows: `std::set` invariant, established by `empty` and preserved by every operation
  (`dyn_insert_spec`, `dyn_erase_spec`, `dyn_ofAdjactor*_spec`, `dyn_compose_spec`).
* index-range hypotheses (`i < g.nImg`, `i < g.nDom`, `hj : j < col.length`, `h : c ∈ col → c < nc`): the quantifier
  range of the statement (rows that exist / colours that are below `num_colors`).
* MODELLING ASSUMPTION: `Index` and the element type of the duplicate mask (`std::vector<char>`) are modelled unbounded
  (Nat / Bool). The kernels are proved for every mask element type with two distinct values (`walkM_spec`,
  `walk_is_walkM`); `walkTag_narrow_fails` shows what a `w`-bit tag compared against a full-width index does from node
  `2^w - 1` on. C++ narrowing is invisible to the model, so the correspondence stream `large` crosses the
  2^7 / 2^8 (quick) and 2^15 / 2^16 (thorough) node-count boundaries with duplicates in the last rows.
* `compositeIterator_spec` / `_empty_head` describe the pre-1c006df21 begin constructor; the current one is
  `compositeIterator_fixed_spec` (no hypothesis).
Per theorem (hypothesis binders as written below):"""
have = {}
for k, names in groups.items():
    p = ROOT + "/lean/FeatModel/Lemmas/C19_%s.lean" % k
    if os.path.exists(p):
        txt = open(p).read()
        for n in names:
            if re.search(r"theorem (C19L\.)?%s\b" % n, txt):
                have[n] = k
blocks = re.split(r"\n(?=theorem )", stm)
out = ["import FeatModel.Model.Adjacency", "import FeatModel.Model.AdjKernels"] + ["import FeatModel.Lemmas.C19_%s" % k for k in sorted(set(have.values()))]
HEADER_AT = len(out)
out += ["open FeatModel.Adj", "",
        "theorem C19.render_asIs_spec (g : Graph) : g.render 0 = some g := rfl", ""]
missing = []
hyp_list = []
for b in blocks:
    m = re.match(r"theorem C19\.(\w+)", b)
    if not m or m.group(1) == "render_asIs_spec":
        continue
    name = m.group(1)
    if name not in have:
        missing.append(name)
        continue
    head = b[:b.index(":= by")]
    # explicit binders before the top-level colon
    sig = head[len("theorem C19." + name):]
    depth, i, binders = 0, 0, []
    while i < len(sig):
        c = sig[i]
        if c in "({[":
            j, d = i, 0
            while True:
                if sig[j] in "({[": d += 1
                if sig[j] in ")}]": d -= 1
                if d == 0: break
                j += 1
            if c == "(":
                inner = sig[i + 1:j]
                vars_ = inner.split(":")[0].split()
                binders += vars_
            i = j + 1
        elif c == ":":
            break
        else:
            i += 1
    hyps = [b for b in binders if re.match(r"h\w*$", b)]
    hyp_list.append("* `%s`: %s" % (name, ", ".join(hyps) if hyps else "none"))
    out.append(head.rstrip() + " :=\n  C19L.%s.%s %s\n" % (have[name], ALIAS.get(name, name), " ".join(binders)))
out.insert(HEADER_AT, "/-! # C19 — property theorems (statements only; proofs live in Lemmas/C19_*.lean)\n\n" + HYP_NOTES + "\n" +
           "\n".join(hyp_list) + "\n-/")
open(ROOT + "/lean/FeatModel/Props/C19.lean", "w").write("\n".join(out))
print("proved:", sorted(have), "\nmissing:", missing)
