#!/usr/bin/env python3
"""Assemble lean/FeatModel/Props/C19.lean from the statement file and the lemma files that exist."""
import os, re, sys
ROOT = os.path.dirname(os.path.dirname(os.path.abspath(__file__)))
stm = open(ROOT + "/lean/FeatModel/Props/C19.statements").read()
groups = {"renders": ["injectify_spec", "transpose_spec", "injectifyTranspose_spec", "compose_spec", "sortIndices_spec", "arrays_faithful"],
          "perms": ["swapFromPerm_terminates", "swap_perm_agree", "inverse_swaps_undo", "applyPermInv_undoes", "invPerm_spec", "concat_composes", "permFromSwap_bijection"],
          "color": ["coloring_proper", "coloring_bounds", "coloringOrdered_proper", "partitionGraph_spec"],
          "cm": ["cm_bijection"],
          "walk": ["adjactor_ofGraph_spec", "adjactor_composite_spec", "walk_spec"],
          "rowk": ["renderRows_spec", "sortSegments_spec"],
          "colk": ["renderCols_spec"],
          "kernels": ["kernel_render_eq", "kernel_render2_eq"],
          "api": ["degree_spec", "permuteIndices_spec", "permuteIndices_relabels", "clone_spec", "numDistinct_spec", "greedy_colors_contiguous",
                  "compositeIterator_spec", "compositeIterator_empty_head", "compositeIterator_fixed_spec", "degree_is_max"],
          "dyn": ["dyn_insert_spec", "dyn_erase_spec", "dyn_ofAdjactor_spec", "dyn_ofAdjactor_transpose_spec",
                  "dyn_render_spec", "dyn_compose_spec"],
          "layers": ["cm_layers_are_bfs_levels"],
          "csr": ["graph_csr_permute_consistent"],
          "perms2": ["inverse_inverse", "concat_inverse", "self_concat", "self_concat_aliased", "random_ctor_bijection", "graph_permuted_spec"]}
have = {}
for k, names in groups.items():
    p = ROOT + "/lean/FeatModel/Lemmas/C19_%s.lean" % k
    if os.path.exists(p):
        txt = open(p).read()
        for n in names:
            if re.search(r"theorem (C19L\.)?%s\b" % n, txt):
                have[n] = k
blocks = re.split(r"\n(?=theorem )", stm)
out = ["import FeatModel.Model.Adjacency", "import FeatModel.Model.AdjKernels"] + ["import FeatModel.Lemmas.C19_%s" % k for k in sorted(set(have.values()))]
out += ["/-! # C19 — property theorems (statements only; proofs live in Lemmas/C19_*.lean) -/", "open FeatModel.Adj", "",
        "theorem C19.render_asIs_spec (g : Graph) : g.render 0 = some g := rfl", ""]
missing = []
for b in blocks:
    m = re.match(r"theorem C19\.(\w+)", b)
    if not m or m.group(1) == "render_asIs_spec":
        continue
    name = m.group(1)
    if name not in have:
        missing.append(name)
        continue
    head = b[:b.index(":= by")]
    # explicit binders before the top-level colon
    sig = head[len("theorem C19." + name):]
    depth, i, binders = 0, 0, []
    while i < len(sig):
        c = sig[i]
        if c in "({[":
            j, d = i, 0
            while True:
                if sig[j] in "({[": d += 1
                if sig[j] in ")}]": d -= 1
                if d == 0: break
                j += 1
            if c == "(":
                inner = sig[i + 1:j]
                vars_ = inner.split(":")[0].split()
                binders += vars_
            i = j + 1
        elif c == ":":
            break
        else:
            i += 1
    out.append(head.rstrip() + " :=\n  C19L.%s.%s %s\n" % (have[name], name, " ".join(binders)))
open(ROOT + "/lean/FeatModel/Props/C19.lean", "w").write("\n".join(out))
print("proved:", sorted(have), "\nmissing:", missing)
