#!/usr/bin/env python3
"""Assemble lean/FeatModel/Props/C19.lean from the statement file and the lemma files that exist."""
import os, re, sys
stm = open("/verif/lean/FeatModel/Props/C19.statements").read()
groups = {"renders": ["injectify_spec", "transpose_spec", "injectifyTranspose_spec", "compose_spec", "sortIndices_spec", "arrays_faithful"],
          "perms": ["swapFromPerm_terminates", "swap_perm_agree", "inverse_swaps_undo", "applyPermInv_undoes", "invPerm_spec", "concat_composes", "permFromSwap_bijection"],
          "color": ["coloring_proper", "coloring_bounds", "coloringOrdered_proper", "partitionGraph_spec"],
          "cm": ["cm_bijection"]}
have = {}
for k, names in groups.items():
    p = "/verif/lean/FeatModel/Lemmas/C19_%s.lean" % k
    if os.path.exists(p):
        txt = open(p).read()
        for n in names:
            if re.search(r"theorem (C19L\.)?%s\b" % n, txt):
                have[n] = k
blocks = re.split(r"\n(?=theorem )", stm)
out = ["import FeatModel.Model.Adjacency"] + ["import FeatModel.Lemmas.C19_%s" % k for k in sorted(set(have.values()))]
out += ["/-! # C19 — property theorems (statements only; proofs live in Lemmas/C19_*.lean) -/", "open FeatModel.Adj", "",
        "theorem C19.render_asIs_spec (g : Graph) : g.render 0 = some g := rfl", ""]
missing = []
for b in blocks:
    m = re.match(r"theorem C19\.(\w+)", b)
    if not m or m.group(1) == "render_asIs_spec":
        continue
    name = m.group(1)
    if name not in have:
        missing.append(name)
        continue
    head = b[:b.index(":= by")]
    # explicit binders before the top-level colon
    sig = head[len("theorem C19." + name):]
    depth, i, binders = 0, 0, []
    while i < len(sig):
        c = sig[i]
        if c in "({[":
            j, d = i, 0
            while True:
                if sig[j] in "({[": d += 1
                if sig[j] in ")}]": d -= 1
                if d == 0: break
                j += 1
            if c == "(":
                inner = sig[i + 1:j]
                vars_ = inner.split(":")[0].split()
                binders += vars_
            i = j + 1
        elif c == ":":
            break
        else:
            i += 1
    out.append(head.rstrip() + " :=\n  C19L.%s.%s %s\n" % (have[name], name, " ".join(binders)))
open("/verif/lean/FeatModel/Props/C19.lean", "w").write("\n".join(out))
print("proved:", sorted(have), "\nmissing:", missing)
