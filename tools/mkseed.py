#!/usr/bin/env python3
"""Prepare a scratch git worktree of /repo and a task file for an independent 'seeding' agent (gets the property text only)."""
import json, os, subprocess, sys

prop = sys.argv[1].upper()
tag = sys.argv[2] if len(sys.argv) > 2 else "a"
wt = "/tmp/seed_%s_%s" % (prop.lower(), tag)
subprocess.call(["git", "-C", "/repo", "worktree", "remove", "--force", wt], stderr=subprocess.DEVNULL)
subprocess.check_call(["git", "-C", "/repo", "worktree", "add", "--detach", wt, "HEAD"], stdout=subprocess.DEVNULL)
rec = [json.loads(l) for l in open("/verif/properties.jsonl") if json.loads(l)["id"] == prop][0]
hint = sys.argv[3] if len(sys.argv) > 3 else ""
task = f"""# Task: seed one realistic, hard-to-notice defect into a C++ library (for testing a verification tool)

You have your own scratch git worktree of the FEAT3 finite-element library at `{wt}` (C++17, header-heavy;
top-level `readme.md`, sources under `kernel/`). Work ONLY inside `{wt}` and `/tmp/seed_build_{prop.lower()}_{tag}`.
Never touch /repo, /verif or any other directory; do not read anything under /verif.

The library is supposed to satisfy this semantic property:

> **{rec['title']}**
>
> {rec['statement']}
>
> Quantified over: {rec['quantifier']['text']}
>
> Main source files involved: {', '.join(rec['anchors']['files'][:10])}

Your job: make ONE small source change (a few lines, in library code — not in tests) that **breaks this property** but
- still compiles,
- still passes the library's existing unit tests that exercise the touched code (see below how to build/run them),
- needs something *specific* to manifest: a particular multi-step sequence of operations, an unusual input (an empty
  row, a rectangular shape, a particular orientation code, a size that is not a multiple of an internal stride, a
  particular option combination, a boundary count, …), a particular interleaving, or two cooperating sites that each look
  fine alone. NOT something ordinary use would expose at once, and not a change that makes everything fail.
  It should look like a plausible programmer mistake or an "optimisation" gone wrong. {hint}

Then write a small demonstration program `demo.cpp` (standalone, links against the library sources) that exits 0 on
the unchanged tree and non-zero (with a message explaining what went wrong) with your change.

## How to build things (no network; do not run cmake configure from scratch — too slow)
- Header-only parts need no build. A standalone program compiles with
  `g++ -std=c++17 -O1 -I{wt} -I{wt}/_cfg demo.cpp <needed .cpp units> -o demo` where the usually needed units are
  `{wt}/kernel/runtime.cpp {wt}/kernel/backend.cpp {wt}/kernel/util/{{dist,dist_file_io,kahan_summation,memory_pool,property_map,statistics,xml_scanner}}.cpp {wt}/kernel/adjacency/{{coloring,cuthill_mckee,graph,permutation}}.cpp`
  (`{wt}/_cfg/feat_config.hpp` is the generated configuration header; it is untracked — keep it out of your patch).
  Add `-pthread` if needed.
- Existing unit tests: every `kernel/**/*-test.cpp` is a test program using `test_system/test_system.hpp`. Build the
  relevant ones directly, e.g.
  `g++ -std=c++17 -O1 -I{wt} -I{wt}/_cfg {wt}/kernel/lafem/sparse_matrix_csr-test.cpp {wt}/test_system/test_system.cpp <units as above> -o t && ./t`
  (look at `test_system/test_system.cpp` / a neighbouring CMakeLists.txt to see what a test needs; tests print PASSED/FAILED
  per test and return non-zero on failure). Run every existing test file that includes or exercises the file(s) you
  changed, before and after your change; all must still pass after.
- Put build products in `/tmp/seed_build_{prop.lower()}_{tag}` and delete that directory when you are done.

## Deliverables (in `{wt}/SEED/`)
- `patch.diff` — `git -C {wt} diff` of your source change (library code only),
- `demo.cpp` and `demo_build.sh` (exact compile+run commands; must work with the tree path given as `$1`),
- `NOTES.md` — what the change is, why it breaks the property, what exactly is needed to trigger it, which existing
  tests you ran (commands + results before/after), and the demo output before/after.
Leave the source change applied in the worktree. NEVER use `git stash` (the stash is shared between worktrees): to test the unchanged tree use `git apply -R SEED/patch.diff` and afterwards `git apply SEED/patch.diff`. In demo_build.sh list source files explicitly (no brace expansion). Reply with a short summary (≤ 25 lines).
"""
os.makedirs(os.path.join(wt, "SEED"), exist_ok=True)
os.makedirs(os.path.join(wt, "_cfg"), exist_ok=True)
cfg = open("/repo/_build/feat_config.hpp").read().replace("#define FEAT_HAVE_OMP", "// #undef FEAT_HAVE_OMP")
open(os.path.join(wt, "_cfg", "feat_config.hpp"), "w").write(cfg)
open(os.path.join(wt, "SEED_TASK.md"), "w").write(task)
print(wt)
