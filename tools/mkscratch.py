#!/usr/bin/env python3
"""Create a scratch copy of /verif for a builder agent working on one property and write its task file."""
import json, os, shutil, subprocess, sys

prop = sys.argv[1].upper()
extra = sys.argv[2] if len(sys.argv) > 2 else ""
dst = "/var/tmp/w_%s" % prop.lower()
if os.path.exists(dst):
    shutil.rmtree(dst)
subprocess.check_call(["rsync", "-a", "--exclude", "seeded/", "--exclude", "build/", "--exclude", ".git/", "--exclude", "replays/", "/verif/", dst + "/"])
rec = [json.loads(l) for l in open("/verif/properties.jsonl") if json.loads(l)["id"] == prop][0]
task = f"""# Task: build the verification package for property {prop} of tudo-math-ls3/feat3

You are working in a private scratch copy of the verification tree: `{dst}` (a copy of /verif).
Edit files ONLY under `{dst}`. `/repo` (the FEAT3 source tree, C++17, header-heavy) is READ-ONLY for you: never edit,
build in, or run git commands that modify /repo; never touch /verif. Other people work in parallel in their own copies.

## The property (given and fixed — do not reword it)

```json
{json.dumps(rec, indent=1)}
```

## What to deliver (technique: machine-checked proof in Lean 4 + checked model/code correspondence)

Read, in this order: `{dst}/CONTRIBUTING.md` (structure and rules — binding), the section `### {prop}` of
`{dst}/DESIGN.md` (the plan for this property: model, theorems, tie, generator, oracle; §2–§3 for conventions), then the
worked example C19: `lean/FeatModel/Model/Adjacency.lean`, `lean/FeatModel/Driver/C19.lean`, `harness/c19/main.cpp`,
`checks/props/c19.py`, `checks/vlib.py`. Then read the anchored FEAT source files of the property in /repo.

Deliver, for {prop}:
1. `lean/FeatModel/Model/...` executable model(s) of the code (core Lean only), faithful to what the C++ does;
2. `lean/FeatModel/Driver/{prop}.lean` (exe `drv_{prop.lower()}` is already declared in `lean/lakefile.toml`);
3. `harness/{prop.lower()}/main.cpp` calling the REAL FEAT code from /repo (numerics at the exact rational type `Q`);
4. `checks/props/{prop.lower()}.py` with seeded generator, independent Python oracle, non-triviality rule, evidence
   statistics (`describe`), using `vlib.Stream` / `vlib.run_pipeline` exactly like `c19.py` (supports `--tier`,
   `--seed`, `--replay`, corpus of past failures first);
5. `lean/FeatModel/Props/{prop}.lean`: the property theorems (tier "A" of the DESIGN section, trimmed to what you can
   genuinely prove), proved with **no sorry/admit/axiom/native_decide/bv_decide**, for all sizes (no bounds), plus
   helper lemmas in `lean/FeatModel/Lemmas/{prop}*.lean`. Prefer fewer, genuinely proved, non-vacuous theorems over many
   weak ones; each theorem must be about the same model functions the driver executes (so that the correspondence run
   ties the theorem to the code).
6. Run `python3 checks/check.py {prop} --tier quick` with at least seeds 1, 2, 3 and `--tier thorough` once: all must
   print `OK` and exit 0 on the unchanged /repo. Quick ≤ ~3 min, thorough ≤ ~20 min wall.
7. A mutation sanity test of your own check: make a private copy of the one or two FEAT files you model
   (e.g. under `{dst}/build/mut/...`, with `VERIF_REPO` pointing to an rsync'ed copy of /repo **without `_build`** —
   `rsync -a --exclude _build --exclude .git /repo/ /var/tmp/mut_{prop.lower()}/` — delete it afterwards), inject 2–3 subtle
   bugs one at a time (off-by-one in a boundary case, wrong branch for an edge input, a swapped index) and confirm that
   `VERIF_REPO=/var/tmp/mut_{prop.lower()} python3 checks/check.py {prop} --no-lean` reports a VIOLATION with a concrete failing
   input for each. Strengthen the generator/oracle where it misses. Remove the copy when done.

Priorities if time is short: (a) a correct harness+driver+generator+oracle whose correspondence passes on the
unchanged tree and catches mutations; (b) the core theorems; (c) breadth. Work for at most about 2.5 hours.

## Hard rules
- The harness must call the real FEAT functions; do not re-implement the code under test in the harness.
- The oracle judges the implementation output against the *property statement* with independent Python — never by
  calling the Lean model.
- When model and implementation disagree on the unchanged tree: the model is wrong — fix the model — unless the
  property itself fails on that input (then it is a FEAT defect: do NOT change /repo; write the exact input, observed
  and expected behaviour into `{dst}/FINDINGS_{prop}.md`, make the generator avoid or tag that input so the check stays
  green, and tell me in your report).
- /repo already contains some `fix:` commits for defects found earlier (see `KNOWN_FINDINGS.json`, DESIGN §5); model
  the code as it is now.
- Keep all file names/paths as specified; do not edit `checks/vlib.py`, `harness/common/*`, `lean/FeatModel/Model/Proto.lean`,
  `lean/lakefile.toml`, other properties' files, MANIFEST.json or DESIGN.md. If you need a change in a shared file, describe
  it in your report instead (you may add new helper files of your own, e.g. `harness/{prop.lower()}/*.hpp`,
  `lean/FeatModel/Model/<New>.lean`).
- No network. Tools: lean/lake 4.33 (Mathlib available as single-module imports for Lemmas/Props only), g++ 12, GMP,
  python3 (`python3-vt` has numpy/sympy if needed for development, but checks must run with plain `python3`).
- Harness build recipe is `vlib.build_harness` (see c19.py); extra FEAT `.cpp` units via `units=vlib.BASE_UNITS + [...]`.
{extra}

## Final report (your last message; keep it under 60 lines)
- files you created/changed (paths relative to `{dst}`),
- the theorems proved (names + one-line meaning) and `#print axioms` result; what is only `_partial`,
- what the correspondence covers (ops, input classes, counts), timings of quick/thorough,
- mutations tried and whether each was caught,
- FEAT defects found (exact inputs), model/shared-file change requests, anything left undone.
"""
open(os.path.join(dst, "AGENT_TASK.md"), "w").write(task)
print(dst)
