#!/bin/sh
# run every claimed check at the given tier and seed; print one verdict line per property
tier=${1:-quick}; seed=${2:-1}
cd "$(dirname "$0")/.."
sh checks/setup.sh >/dev/null 2>&1
for p in C01 C02 C03 C04 C05 C06 C07 C08 C09 C10 C11 C12 C13 C14 C15 C16 C17 C18 C19 C20; do
  s=$(date +%s)
  out=$(python3 checks/check.py $p --tier $tier --seed $seed 2>&1 | grep "^OK\|^VIOLATION" | head -3 | tr '\n' ' ')
  echo "$p [$(( $(date +%s) - s ))s] $out"
done
