#!/usr/bin/env python3
"""manifest_add.py Cxx "<level text>" "<level note>" "<technique>" — claim a property in MANIFEST.json"""
import json, sys
pid, text, note, tech = sys.argv[1].upper(), sys.argv[2], sys.argv[3], sys.argv[4]
p = "/verif/MANIFEST.json"
m = json.load(open(p))
m["not_applicable"] = [e for e in m["not_applicable"] if e["property_id"] != pid]
m["checks"] = [c for c in m["checks"] if c["property_id"] != pid]
m["checks"].append({
    "property_id": pid,
    "quick_cmd": "python3 checks/check.py %s --tier quick" % pid,
    "thorough_cmd": "python3 checks/check.py %s --tier thorough" % pid,
    "evidence_file": "evidence/%s.json" % pid,
    "replay_cmd_template": "python3 checks/check.py %s --replay {path}" % pid,
    "engine": "lean-proof+correspondence",
    "level_claimed": {"category": "proof", "text": text, "design_ref": "DESIGN.md section 4 (%s) and section 8" % pid},
    "level_note": note,
    "technique": tech})
m["checks"].sort(key=lambda c: c["property_id"])
m["engines"][0]["serves_properties"] = sorted(c["property_id"] for c in m["checks"])
json.dump(m, open(p, "w"), indent=1)
print("claimed:", m["engines"][0]["serves_properties"])
