#!/usr/bin/env python3
"""Refresh MANIFEST.json level_claimed.text from docs/status_rows.json and the theorem counts of the last evidence files."""
import json
V = "/verif"
m = json.load(open(V + "/MANIFEST.json"))
rows = json.load(open(V + "/docs/status_rows.json"))
for c in m["checks"]:
    pid = c["property_id"]
    r = rows[pid]
    n = json.load(open(V + "/evidence/%s.json" % pid))["coverage"].get("obligations")
    c["level_claimed"]["category"] = "proof"
    c["level_claimed"]["text"] = ("Machine-checked Lean 4 theorems (%s in Props/%s.lean, re-built and axiom-audited on every run) about an executable model of "
        "the code, tied to /repo's current source on every run. PROVED for all inputs: %s  PARTIAL / only observed by the correspondence and the "
        "independent oracle / not covered: %s  TIE: %s") % (n, pid, r["proved"], r["partial"], r["tie"])
    c["level_claimed"]["design_ref"] = "DESIGN.md section 4 (%s), section 8.5 (as built)" % pid
json.dump(m, open(V + "/MANIFEST.json", "w"), indent=1)
print("ok")
