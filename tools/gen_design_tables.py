#!/usr/bin/env python3
"""Regenerate the machine-made tables of DESIGN.md section 8 (between <!-- BEGIN x --> / <!-- END x --> markers)."""
import json, os, re, subprocess, glob
V = "/verif"
s = open(V + "/DESIGN.md").read()
kf = json.load(open(V + "/KNOWN_FINDINGS.json"))["findings"]
log = subprocess.check_output(["git", "-C", "/repo", "log", "--reverse", "--format=%h|%s"]).decode().splitlines()
prop_of = {e.get("commit", "")[:9]: e["property"] for e in kf if e["status"] == "fixed"}
rows = ["| commit | property | defect repaired (commit subject) |", "|---|---|---|"]
for l in log:
    h, sub = l.split("|", 1)
    if sub.startswith("fix:"):
        rows.append("| %s | %s | %s |" % (h, prop_of.get(h, "?"), sub[5:].replace("|", "/")))
fixes = "\n".join(rows)
op = sorted([e for e in kf if e["status"] == "open"], key=lambda e: (e["property"], e["signature"]))
opn = "\n".join(["| property | signature | what fails |", "|---|---|---|"] +
                ["| %s | `%s` | %s |" % (e["property"], e["signature"], e["what"].replace("|", "/")[:260]) for e in op])
# per-property numbers from evidence
ev = ["| id | theorems | correspondence streams | cases (quick, seed of last run) | distinct non-trivial | wall s |", "|---|---|---|---|---|---|"]
for f in sorted(glob.glob(V + "/evidence/C*.json")):
    e = json.load(open(f)); c = e["coverage"]
    ev.append("| %s | %s | %s | %s | %s | %s |" % (e["property_id"], c.get("obligations"), ", ".join(x["name"] for x in c.get("streams", [])),
              c.get("evaluations"), c.get("distinct_nontrivial"), e["wall_s"]))
evt = "\n".join(ev)
sd = ["| seed | property | first run | now |", "|---|---|---|---|"]
for d in sorted(os.listdir(V + "/seeded")):
    m = json.load(open(V + "/seeded/%s/meta.json" % d))
    first = "caught" if m["ran"].get("caught_by_quick") else "MISSED"
    now = "caught" if (m["ran"].get("caught_by_quick") or m["ran"].get("caught_by_quick_after_strengthening")) else "being strengthened"
    if m.get("neutralised_by_fix"):
        now = "class caught; the seed itself became harmless after /repo fix %s" % m["neutralised_by_fix"]["commit"]
    sd.append("| %s | %s | %s | %s |" % (d, m["breaks_property"], first, now))
seeds = "\n".join(sd)
srows = json.load(open(V + "/docs/status_rows.json"))
st = []
for pid in sorted(srows):
    r = srows[pid]
    try:
        e = json.load(open(V + "/evidence/%s.json" % pid)); c = e["coverage"]
        head = "**%s** — %s theorems; %s cases in the last quick run" % (pid, c.get("obligations"), c.get("evaluations"))
    except Exception:
        head = "**%s**" % pid
    st.append(head + "\n\n* *proved for all inputs:* " + r["proved"] + "\n* *partial / observed only / not covered:* " + r["partial"]
              + "\n* *tie to /repo:* " + r["tie"] + ("\n* *planned but not built:* " + r["not_done"] if r.get("not_done") else "") + "\n")
status = "\n".join(st)
for name, body in (("FIXES", fixes), ("OPEN", opn), ("EVIDENCE", evt), ("SEEDS", seeds), ("STATUS", status), ("NOTDONE", open(V + "/docs/notdone_global.md").read().rstrip())):
    pat = re.compile(r"(<!-- BEGIN %s -->).*?(<!-- END %s -->)" % (name, name), re.S)
    assert pat.search(s), name
    s = pat.sub(lambda m: m.group(1) + "\n" + body + "\n" + m.group(2), s)
open(V + "/DESIGN.md", "w").write(s)
print(len(rows) - 2, "fixes;", len(op), "open;", len(sd) - 2, "seeds")
