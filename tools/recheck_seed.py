#!/usr/bin/env python3
"""Re-run stored seeded changes against the current checks:  recheck_seed.py [-j N] [--tier quick] <seed-id>... | --all

For each seeded/<id>/: a scratch git worktree of /repo's HEAD is created under /tmp, patch.diff is applied there (never in
/repo), the property's check runs with VERIF_REPO=<worktree> and a private evidence directory, the verdict is appended
to seeded/<id>/meta.json (`recheck` list; `caught_by_quick_after_strengthening` is set when a formerly missed seed is
caught) and the worktree is removed.  A patch that no longer applies (the code was repaired meanwhile) is reported as
STALE.  Exit code 0 iff every seed given was caught (or stale)."""
import json, os, subprocess, sys, tempfile, time
from concurrent.futures import ThreadPoolExecutor

V = os.path.dirname(os.path.dirname(os.path.abspath(__file__)))


def one(sid, tier):
    d = os.path.join(V, "seeded", sid)
    meta = json.load(open(os.path.join(d, "meta.json")))
    prop = meta["breaks_property"]
    wt = "/tmp/reseed_%s" % sid
    subprocess.call(["git", "-C", "/repo", "worktree", "remove", "--force", wt], stderr=subprocess.DEVNULL, stdout=subprocess.DEVNULL)
    subprocess.check_call(["git", "-C", "/repo", "worktree", "add", "--detach", wt, "HEAD"], stdout=subprocess.DEVNULL, stderr=subprocess.DEVNULL)
    verdict, lines = "ERROR", []
    try:
        r = subprocess.run(["git", "-C", wt, "apply", os.path.join(d, "patch.diff")], capture_output=True, text=True)
        if r.returncode != 0:
            r3 = subprocess.run(["git", "-C", wt, "apply", "-3", os.path.join(d, "patch.diff")], capture_output=True, text=True)
            if r3.returncode != 0:
                verdict = "STALE"
                lines = [(r.stderr or "")[:300]]
                return sid, prop, verdict, lines
        ev = tempfile.mkdtemp(prefix="ev_", dir="/tmp")
        env = dict(os.environ, VERIF_REPO=wt, VERIF_EVIDENCE_DIR=ev)
        t0 = time.time()
        p = subprocess.run([sys.executable, os.path.join(V, "checks", "check.py"), prop, "--tier", tier, "--seed", "1"],
                           capture_output=True, text=True, env=env, cwd=V)
        lines = [l for l in p.stdout.splitlines() if l.startswith(("VIOLATION", "OK "))][:4]
        verdict = "CAUGHT" if (p.returncode == 1 and any(l.startswith("VIOLATION") for l in lines)) else \
                  ("MISSED" if p.returncode == 0 else "ERROR rc=%d" % p.returncode)
        if verdict == "MISSED" and meta.get("neutralised_by_fix"):
            verdict = "NEUTRALISED"  # the change no longer breaks the property on the repaired tree (see meta.json)
        lines.append("wall=%.0fs" % (time.time() - t0))
        subprocess.call(["rm", "-rf", ev])
    finally:
        subprocess.call(["git", "-C", "/repo", "worktree", "remove", "--force", wt], stderr=subprocess.DEVNULL, stdout=subprocess.DEVNULL)
    meta.setdefault("recheck", []).append({"repo_head": subprocess.check_output(["git", "-C", "/repo", "rev-parse", "--short", "HEAD"], text=True).strip(),
                                           "verif_head": subprocess.check_output(["git", "-C", V, "rev-parse", "--short", "HEAD"], text=True).strip(),
                                           "tier": tier, "verdict": verdict, "lines": lines})
    if verdict == "CAUGHT" and not meta["ran"].get("caught_by_quick") and tier == "quick":
        meta["ran"]["caught_by_quick_after_strengthening"] = True
    json.dump(meta, open(os.path.join(d, "meta.json"), "w"), indent=1)
    return sid, prop, verdict, lines


def main():
    a = sys.argv[1:]
    j, tier = 3, "quick"
    if "-j" in a:
        j = int(a[a.index("-j") + 1]); del a[a.index("-j"):a.index("-j") + 2]
    if "--tier" in a:
        tier = a[a.index("--tier") + 1]; del a[a.index("--tier"):a.index("--tier") + 2]
    ids = sorted(os.listdir(os.path.join(V, "seeded"))) if "--all" in a else a
    bad = 0
    with ThreadPoolExecutor(j) as ex:
        for sid, prop, verdict, lines in ex.map(lambda s: one(s, tier), ids):
            print("%-55s %s %s  %s" % (sid, prop, verdict, " | ".join(lines)[:200]), flush=True)
            bad += verdict not in ("CAUGHT", "STALE", "NEUTRALISED")
    subprocess.call(["git", "-C", "/repo", "worktree", "prune"])
    return 1 if bad else 0


if __name__ == "__main__":
    sys.exit(main())
