#!/usr/bin/env python3
"""Merge a builder agent's property package from its scratch copy into /verif (no shared files are overwritten)."""
import filecmp, os, shutil, subprocess, sys

prop = sys.argv[1].upper()
pos = [a for a in sys.argv[2:] if not a.startswith("--")]
src = pos[0] if pos else "/var/tmp/w_%s" % prop.lower()
dst = "/verif"
SHARED = {"checks/vlib.py", "checks/check.py", "checks/setup.sh", "lean/lakefile.toml", "lean/FeatModel/Model/Proto.lean",
          "harness/common/exact_q.hpp", "harness/common/forkcase.hpp", "MANIFEST.json", "DESIGN.md", "CONTRIBUTING.md",
          "properties.jsonl", "KNOWN_FINDINGS.json", "lean/FeatModel.lean", ".gitignore", "harness/config/feat_config.hpp",
          "tools/mkscratch.py", "tools/merge_prop.py", "lean/lake-manifest.json"}
SKIP_DIRS = ("seeded/", "build/", "lean/.lake/", "evidence/", "replays/", "__pycache__", ".git/")
new, changed, shared_changed = [], [], []
for root, dirs, files in os.walk(src):
    rel_root = os.path.relpath(root, src)
    for f in files:
        rel = os.path.normpath(os.path.join(rel_root, f))
        if any(rel.startswith(s) or ("/" + s) in ("/" + rel) for s in SKIP_DIRS) or rel.endswith(".pyc"):
            continue
        if rel in ("AGENT_TASK.md", "PROOF_TASK.md", "C19_statements.lean") or rel.startswith("proposed_fix"):
            continue
        a, b = os.path.join(src, rel), os.path.join(dst, rel)
        if not os.path.exists(b):
            new.append(rel)
        elif not filecmp.cmp(a, b, shallow=False):
            (shared_changed if rel in SHARED else changed).append(rel)
print("NEW:", *new, sep="\n  ")
print("CHANGED (non-shared):", *changed, sep="\n  ")
print("CHANGED SHARED (not copied, review by hand):", *shared_changed, sep="\n  ")
if "--apply" in sys.argv:
    own = [r for r in changed if prop.lower() in r.lower() or os.path.getmtime(os.path.join(src, r)) > os.path.getmtime(os.path.join(dst, r))]
    print("changed files applied (own):", own)
    for rel in new + own:
        os.makedirs(os.path.dirname(os.path.join(dst, rel)) or ".", exist_ok=True)
        shutil.copy2(os.path.join(src, rel), os.path.join(dst, rel))
    print("applied %d files" % len(new + own))
