#!/bin/sh
# false-alarm hunt on the unchanged tree: quick tier at several seeds, then thorough at two seeds
cd "$(dirname "$0")/.."
sh checks/setup.sh >/dev/null 2>&1
for seed in 11 12 13 14 15; do
  for p in C01 C02 C03 C04 C05 C06 C07 C08 C09 C10 C11 C12 C13 C14 C15 C16 C17 C18 C19 C20; do
    out=$(python3 checks/check.py $p --tier quick --seed $seed 2>&1 | grep "^OK\|^VIOLATION" | head -2 | tr '\n' ' ')
    echo "quick seed=$seed $p $out"
  done
done
for seed in 21 22; do
  for p in C01 C02 C03 C04 C05 C06 C07 C08 C09 C10 C11 C12 C13 C14 C15 C16 C17 C18 C19 C20; do
    out=$(python3 checks/check.py $p --tier thorough --seed $seed 2>&1 | grep "^OK\|^VIOLATION" | head -2 | tr '\n' ' ')
    echo "thorough seed=$seed $p $out"
  done
done
