#!/usr/bin/env python3
"""Validate a seeded change living in a scratch worktree and run the property's checks against it.
usage: try_seed.py <worktree> <PROP> <seed-id> [test.cpp ...]
 1. demo must fail with the change and pass without it (git stash in the worktree),
 2. the given existing test files (relative to the tree) must still pass with the change,
 3. `VERIF_REPO=<worktree> check.py PROP --tier quick` must report a VIOLATION,
 4. on success the seed is stored under /verif/seeded/<seed-id>/.
"""
import json, os, shutil, subprocess, sys, time

wt, prop, sid = sys.argv[1], sys.argv[2].upper(), sys.argv[3]
tests = [a for a in sys.argv[4:] if not a.startswith("+")]
import glob
EXTRA = [f for a in sys.argv[4:] if a.startswith("+") for f in glob.glob(os.path.join(sys.argv[1], a[1:]))]
UNITS = ["kernel/runtime.cpp", "kernel/backend.cpp"] + ["kernel/util/%s.cpp" % u for u in
         ("dist", "dist_file_io", "kahan_summation", "memory_pool", "property_map", "statistics", "xml_scanner")] + \
        ["kernel/adjacency/%s.cpp" % u for u in ("coloring", "cuthill_mckee", "graph", "permutation")]

def sh(cmd, **kw):
    return subprocess.run(cmd, shell=isinstance(cmd, str), stdout=subprocess.PIPE, stderr=subprocess.STDOUT, text=True, **kw)

res = {"seed": sid, "property": prop, "worktree": wt}
# the patch is what the agent left applied
patch = sh("git -C %s diff -- kernel control tools applications" % wt).stdout
assert patch.strip(), "no source change in worktree"
r1 = sh("bash %s/SEED/demo_build.sh %s" % (wt, wt), timeout=1800)
res["demo_with_change_rc"] = r1.returncode
pfile = "/tmp/try_seed_%s.diff" % sid
open(pfile, "w").write(patch)
rr = sh("git -C %s apply -R %s" % (wt, pfile))
assert rr.returncode == 0, rr.stdout
try:
    r0 = sh("bash %s/SEED/demo_build.sh %s" % (wt, wt), timeout=1800)
    res["demo_without_change_rc"] = r0.returncode
finally:
    rr = sh("git -C %s apply %s" % (wt, pfile))
    assert rr.returncode == 0, rr.stdout
    os.remove(pfile)
print("demo: with change rc=%d, without rc=%d" % (r1.returncode, r0.returncode))
print(r1.stdout[-600:])
bdir = "/tmp/try_seed_build_%s" % sid
os.makedirs(bdir, exist_ok=True)
res["tests"] = {}
for t in tests:
    exe = os.path.join(bdir, os.path.basename(t).replace(".cpp", ""))
    cmd = "g++ -std=c++17 -O1 -w -I%s -I%s/_cfg %s/%s %s/test_system/test_system.cpp %s -o %s -pthread" % (
        wt, wt, wt, t, wt, " ".join([os.path.join(wt, u) for u in UNITS] + EXTRA), exe)
    c = sh(cmd, timeout=3600)
    if c.returncode != 0:
        res["tests"][t] = "COMPILE-FAIL"
        print(c.stdout[-1500:])
        continue
    r = sh([exe], timeout=3600)
    res["tests"][t] = "rc=%d" % r.returncode
    print("test %s -> rc=%d %s" % (t, r.returncode, r.stdout.strip().split("\n")[-1][:100]))
shutil.rmtree(bdir, ignore_errors=True)
os.makedirs("/tmp/try_seed_evidence", exist_ok=True)
env = dict(os.environ, VERIF_REPO=wt, VERIF_EVIDENCE_DIR="/tmp/try_seed_evidence")
t0 = time.time()
c = subprocess.run(["python3", "/verif/checks/check.py", prop, "--tier", "quick"], stdout=subprocess.PIPE, stderr=subprocess.STDOUT, text=True, env=env, cwd="/verif")
res["check_rc"] = c.returncode
res["check_tail"] = c.stdout.strip().split("\n")[-6:]
res["check_wall_s"] = round(time.time() - t0, 1)
print("\n".join(res["check_tail"]))
caught = c.returncode == 1 and "VIOLATION" in c.stdout
res["caught"] = caught
valid = r1.returncode != 0 and r0.returncode == 0 and all(v == "rc=0" for v in res["tests"].values())
res["valid_seed"] = valid
print("VALID" if valid else "INVALID", "CAUGHT" if caught else "MISSED")
if valid:
    d = "/verif/seeded/%s" % sid
    os.makedirs(d, exist_ok=True)
    open(os.path.join(d, "patch.diff"), "w").write(patch)
    for f in ("demo.cpp", "demo_build.sh", "NOTES.md"):
        if os.path.exists(os.path.join(wt, "SEED", f)):
            shutil.copy(os.path.join(wt, "SEED", f), d)
    # replay of the violation, if any
    rp = [l for l in c.stdout.split("\n") if l.startswith("VIOLATION")]
    meta = {"id": sid, "breaks_property": prop, "needs": "see NOTES.md", "ran": {
        "demo_with_change_rc": r1.returncode, "demo_without_change_rc": r0.returncode, "existing_tests": res["tests"],
        "check_cmd": "VERIF_REPO=<tree with patch> python3 checks/check.py %s --tier quick" % prop,
        "check_rc": c.returncode, "check_output_tail": res["check_tail"], "caught_by_quick": caught,
        "violation_lines": rp[:3]}}
    if rp:
        try:
            path = rp[0].split("replay=")[1].split()[0]
            meta["replay_excerpt"] = json.load(open(path))
            for k in ("detail",):
                meta["replay_excerpt"].pop(k, None)
        except Exception as e:
            meta["replay_excerpt"] = str(e)
    json.dump(meta, open(os.path.join(d, "meta.json"), "w"), indent=1)
