import FeatModel.Model.Proto
import FeatModel.Model.Solver.History
import FeatModel.Model.Solver.IluSpec
import FeatModel.Model.Solver.IluLevels
import FeatModel.Model.Solver.Blocked
import FeatModel.Model.LA.Filter
import FeatModel.Model.Solver.TinyInv
import FeatModel.Model.Solver.Expand
/-!
line-protocol driver for the C08 models (stationary preconditioners)

  hist KIND P OMEGA n L(rowPtr) L(colInd) L(val) L(fidx) nsteps STEP*
        KIND ∈ jac | sor | ssor | poly | ilu | mat;  P = m (poly) / fill level p (ilu) / ignored
        STEP ∈ S (init_symbolic) | N (init_numeric) | D (done_symbolic) | A L(x) (apply) | U L(val) (new values)
        → one "R n y_1 .. y_n U1" per apply step (or "NONE"), "ABORT" / "EXC" when the history ends abnormally
  iluf P n L(rowPtr) L(colInd) L(val) L(b)
        → "F L(rpL) L(ciL) L(rpU) L(ciU) L(dataL) L(dataU) L(dataD) Y L(y) Z L(z)"  (y = solve_il b, z = solve_du y)
  scale OMEGA L(fidx) L(x)          → "R .. U1"
  histb BS KIND P OMEGA n L(rowPtr) L(colInd) L(val) L(fidx) nsteps STEP*   (BCSR, blocks row-major, vectors in pod order)
        → as `hist` for KIND ∈ sor | ssor (generic blocked sweeps at bs×bs rational matrices), "NOMODEL" otherwise
  diag L(d) L(fidx) L(x)            → "R .. U1" | ABORT
-/
open FeatModel FeatModel.Proto FeatModel.LA FeatModel.Solver

namespace FeatModel.DrvC08

def csrP : P (Csr Rat) := do
  let n ← nat
  let rp ← natList
  let ci ← natList
  let v ← ratList
  pure { rows := n, cols := n, rowPtr := rp.toArray, colInd := ci.toArray, val := v.toArray }

def stepP : P (Step Rat) := do
  let t ← tok
  match t with
  | "S" => pure .initSymbolic
  | "N" => pure .initNumeric
  | "D" => pure .done
  | "E" => pure .doneNumeric
  | "I" => do let x ← ratList; pure (.applyIn x.toArray)
  | "A" => do let x ← ratList; pure (.apply x.toArray)
  | "U" => do let v ← ratList; pure (.update v.toArray)
  | _ => throw s!"unknown step {t}"

/-- filter descriptor of a history line -/
inductive FDesc where
  | unit (idx : List Nat) | none | mean (prim dual : List Rat) | slip (es : List (Nat × List Rat))

def filtP (bs : Nat) : P FDesc := do
  match (← get) with
  | t :: _ =>
    if t.toNat?.isSome then (FDesc.unit <$> natList)
    else do
      let w ← tok
      match w with
      | "unit" => FDesc.unit <$> natList
      | "none" => pure FDesc.none
      | "mean" => do let p ← ratList; let d ← ratList; pure (FDesc.mean p d)
      | "slip" => do
        let k ← nat
        let es ← many k (do let i ← nat; let nu ← many bs rat; pure (i, nu))
        pure (FDesc.slip es)
      | _ => throw s!"unknown filter {w}"
  | [] => throw "token underrun"

/-- the filter as (unit-filter block indices, `filter_cor` of the other filter types on the pod array);
    `none` = the filter constructor aborts.  Mean / slip filters are the C06 models `LA.Filter.MeanF` / `SlipF`. -/
def filtOf (bs n : Nat) : FDesc →
    Option (List Nat × (Array Rat → Option (Array Rat)) × (Array Rat → Option (Array Rat)))
  | .unit idx => some (idx, some, some)
  | .none => some ([], some, some)
  | .mean prim dual =>
    match LA.Filter.MeanF.mk3 (fun v => decide (epsQ < v)) prim dual 0 with
    | none => none
    | some f => some ([], (fun y => (f.filterCor y.toList).map List.toArray),
        (fun y => (f.filterRhs y.toList).map List.toArray))
  | .slip es =>
    let f : LA.Filter.SlipF Rat := { bs := bs, size := n, es := LA.Filter.normalize es }
    some ([], (fun y => (f.filter y.toList).map List.toArray), (fun y => (f.filter y.toList).map List.toArray))

def showR (v : Array Rat) : String := s!"R {showRatsL v.toList} U1"

def tiny : Rat → Bool := tinyRat epsQ

/-! bs×bs rational blocks for the generic blocked sweeps -/
def matVec (bs : Nat) (m v : Array Rat) : Array Rat :=
  Array.ofFn (n := bs) fun i => (List.range bs).foldl (fun acc j => acc + m.getD (i.val * bs + j) 0 * v.getD j 0) 0

/-- exact inverse by Gauss–Jordan elimination (the inverse is unique, so any exact method models `set_inverse`) -/
def gaussJordan (bs : Nat) (m : Array Rat) : Array Rat := Id.run do
  let mut a : Array (Array Rat) := Array.ofFn (n := bs) fun i => Array.ofFn (n := 2 * bs) fun j =>
    if j.val < bs then m.getD (i.val * bs + j.val) 0 else if j.val - bs = i.val then 1 else 0
  for c in [0:bs] do
    let mut piv := c
    for r in [c:bs] do
      if (a.getD piv #[]).getD c 0 == 0 && (a.getD r #[]).getD c 0 != 0 then piv := r
    let rowP := a.getD piv #[]
    let rowC := a.getD c #[]
    a := (a.setIfInBounds piv rowC).setIfInBounds c rowP
    let p := rowP.getD c 0
    if p == 0 then return Array.replicate (bs * bs) 0
    let rowN := rowP.map (· / p)
    a := a.setIfInBounds c rowN
    for r in [0:bs] do
      if r != c then
        let old := a.getD r #[]
        let f := old.getD c 0
        a := a.setIfInBounds r (Array.ofFn (n := 2 * bs) fun j => old.getD j.val 0 - f * rowN.getD j.val 0)
  return Array.ofFn (n := bs * bs) fun k => (a.getD (k.val / bs) #[]).getD (bs + k.val % bs) 0

/-- `Tiny::Matrix::set_inverse`: the closed formulas of the source for bs ≤ 3 (`Model/Solver/TinyInv`), exact
    Gauss–Jordan for the larger block sizes -/
def matInv (bs : Nat) (m : Array Rat) : Array Rat := tinyInv bs (gaussJordan bs) m

def blkOps (bs : Nat) : Blk.Ops Rat (Array Rat) (Array Rat) :=
  { zero := Array.replicate bs 0, zeroB := Array.replicate (bs * bs) 0,
    add := fun a b => Array.ofFn (n := bs) fun i => a.getD i.val 0 + b.getD i.val 0,
    sub := fun a b => Array.ofFn (n := bs) fun i => a.getD i.val 0 - b.getD i.val 0,
    act := matVec bs, inv := matInv bs, smul := fun w v => v.map (w * ·) }

def chunks (k : Nat) (v : Array Rat) : Array (Array Rat) :=
  Array.ofFn (n := v.size / k) fun i => Array.ofFn (n := k) fun j => v.getD (i.val * k + j.val) 0


/-! ### blocked ILU: the scalar ILU model (`copyDataCsr`, `factorizeNumeric`, `iluSolve`, `runSteps`) instantiated at the
non-commutative ring of bs×bs rational matrices (`ILUCoreBlocked`: `L_ij ← L_ij · D_jj⁻¹`, `D_ii ← D_ii⁻¹`); vector
blocks are embedded as matrices whose first column is the vector. -/
structure BMat (bs : Nat) where
  a : Array Rat
deriving DecidableEq

def BMat.mul {bs : Nat} (x y : BMat bs) : BMat bs :=
  ⟨Array.ofFn (n := bs * bs) fun k =>
    (List.range bs).foldl (fun acc t => acc + x.a.getD (k.val / bs * bs + t) 0 * y.a.getD (t * bs + k.val % bs) 0) 0⟩

instance {bs : Nat} : Zero (BMat bs) := ⟨⟨Array.replicate (bs * bs) 0⟩⟩
instance {bs : Nat} : One (BMat bs) := ⟨⟨Array.ofFn (n := bs * bs) fun k => if k.val / bs = k.val % bs then 1 else 0⟩⟩
instance {bs : Nat} : Add (BMat bs) := ⟨fun x y => ⟨Array.ofFn (n := bs * bs) fun k => x.a.getD k.val 0 + y.a.getD k.val 0⟩⟩
instance {bs : Nat} : Sub (BMat bs) := ⟨fun x y => ⟨Array.ofFn (n := bs * bs) fun k => x.a.getD k.val 0 - y.a.getD k.val 0⟩⟩
instance {bs : Nat} : Neg (BMat bs) := ⟨fun x => ⟨x.a.map (- ·)⟩⟩
instance {bs : Nat} : Mul (BMat bs) := ⟨BMat.mul⟩
/-- `x / y = x · y⁻¹` (so `1 / d` is `set_inverse`; a singular block yields the zero matrix = "zero pivot") -/
instance {bs : Nat} : Div (BMat bs) := ⟨fun x y => BMat.mul x ⟨matInv bs y.a⟩⟩
instance {bs : Nat} : OfNat (BMat bs) 777 := ⟨⟨Array.replicate (bs * bs) 777⟩⟩

/-- vector block → matrix with that first column -/
def vecToMat (bs : Nat) (v : Array Rat) : BMat bs :=
  ⟨Array.ofFn (n := bs * bs) fun k => if k.val % bs = 0 then v.getD (k.val / bs) 0 else 0⟩

def matToVec (bs : Nat) (m : BMat bs) : Array Rat := Array.ofFn (n := bs) fun i => m.a.getD (i.val * bs) 0

def toBlockCsr (bs : Nat) (A : Csr Rat) : Csr (BMat bs) :=
  { rows := A.rows, cols := A.cols, rowPtr := A.rowPtr, colInd := A.colInd,
    val := (chunks (bs * bs) A.val).map BMat.mk }

def flat (v : Array (Array Rat)) : Array Rat := v.foldl (· ++ ·) #[]

def runBlocked (bs : Nat) (ssor : Bool) (ω : Rat) (fidx : List Nat) (post : Array Rat → Option (Array Rat)) :
    Csr (Array Rat) → List (Step Rat) → List String → Option (List String)
  | _, [], acc => some acc.reverse
  | A, .update v :: r, acc => runBlocked bs ssor ω fidx post { A with val := chunks (bs * bs) v } r acc
  | A, .apply x :: r, acc =>
    if x.size != A.rows * bs then none
    else
      let xb := chunks bs x
      let y := if ssor then Blk.ssorApply (blkOps bs) ω fidx A xb else Blk.sorApply (blkOps bs) ω fidx A xb
      match post (flat y) with
      | none => none
      | some z => runBlocked bs ssor ω fidx post A r (showR z :: acc)
  | A, .applyIn x :: r, acc =>
    if x.size != A.rows * bs then none
    else
      let xb := chunks bs x
      let o := blkOps bs
      let y := if ssor then
          Blk.filterCor o fidx ((Blk.ssorBwd o ω A (Blk.ssorFwdIn o ω A xb)).map (o.smul (ω * ((1 + 1) - ω))))
        else Blk.filterCor o fidx (Blk.sorSweepIn o ω A xb)
      match post (flat y) with
      | none => none
      | some z => runBlocked bs ssor ω fidx post A r (showR z :: acc)
  | A, _ :: r, acc => runBlocked bs ssor ω fidx post A r acc

-- BCSR → scalar CSR: `expandCsr` / `expandVals` of Model/Solver/Expand.lean (proved to commute with apply)

/-- arrays of the right sizes with arbitrary non-zero content -/
def garbage (s : IluSym) : IluNum Rat :=
  { dataL := Array.replicate s.ciL.size 777, dataU := Array.replicate s.ciU.size 777, dataD := Array.replicate s.n 777 }

def handle : P String := do
  let op ← tok
  match op with
  | "hist" =>
    let kindS ← tok
    let p ← int
    let ω ← rat
    let A ← csrP
    let fd ← filtP 1
    let steps ← listOf stepP
    let kind? : Option Kind := match kindS with
      | "jac" => some .jacobi | "sor" => some .sor | "ssor" => some .ssor | "poly" => some (.poly p.toNat)
      | "ilu" => some (.ilu p) | "mat" => some .matrix | "scale" => some .scale | "diag" => some .diagonal
      | _ => none
    match kind?, filtOf 1 A.rows fd with
    | none, _ => throw s!"unknown kind {kindS}"
    | some _, none => pure "ABORT"
    | some kind, some (fidx, post, postDef) =>
      let c : Cfg Rat := { kind := kind, ω := ω, fidx := fidx, post := post, postDef := postDef }
      match runSteps tiny c A PState.empty steps [] with
      | .error .abort => pure "ABORT"
      | .error .exc => pure "EXC"
      | .ok [] => pure "NONE"
      | .ok outs => pure (" ".intercalate (outs.map showR))
  | "histb" =>
    let bs ← nat
    let kindS ← tok
    let pB ← int
    let ω ← rat
    let A ← csrP
    let fd ← filtP bs
    let steps ← listOf stepP
    match filtOf bs A.rows fd with
    | none => pure "ABORT"
    | some (fidx, post, _) =>
    if kindS == "ilu" then
      let Ab : Csr (BMat bs) := toBlockCsr bs A
      let stepsB : List (Step (BMat bs)) := steps.map fun st => match st with
        | .initSymbolic => .initSymbolic | .initNumeric => .initNumeric | .done => .done
        | .doneNumeric => .doneNumeric
        | .apply x => .apply ((chunks bs x).map (vecToMat bs))
        | .applyIn x => .applyIn ((chunks bs x).map (vecToMat bs))
        | .update v => .update ((chunks (bs * bs) v).map BMat.mk)
      let postB : Array (BMat bs) → Option (Array (BMat bs)) := fun y =>
        (post (flat (y.map (matToVec bs)))).map fun z => (chunks bs z).map (vecToMat bs)
      let c : Cfg (BMat bs) := { kind := .ilu pB, ω := 1, fidx := fidx, post := postB }
      -- the hypothesis of `C08.ilu_factor_blocked`: every stored inverted pivot block v of the factorisation of the
      -- initial matrix is invertible and `1 / ·` inverts it (evaluated here on every case)
      let pivOk : Bool := match setStructCsr Ab.rows Ab.rowPtr Ab.colInd with
        | none => true
        | some s0 =>
          let s := factorizeSymbolic s0 pB
          let f := factorizeNumeric s (copyDataCsr s Ab (allocData s))
          f.dataD.any (· = 0) || f.dataD.all fun v => decide (v * (1 / v) = 1 ∧ (1 / v) * v = 1)
      if !pivOk then pure "MODEL-SPLIT" else
      match runSteps (fun _ => false) c Ab PState.empty stepsB [] with
      | .error .abort => pure "ABORT"
      | .error .exc => pure "EXC"
      | .ok [] => pure "NONE"
      | .ok outs => pure (" ".intercalate (outs.map fun y => showR (flat (y.map (matToVec bs)))))
    else if kindS == "sor" || kindS == "ssor" then
      let Ab : Csr (Array Rat) :=
        { rows := A.rows, cols := A.cols, rowPtr := A.rowPtr, colInd := A.colInd, val := chunks (bs * bs) A.val }
      match runBlocked bs (kindS == "ssor") ω fidx post Ab steps [] with
      | none => pure "ABORT"
      | some [] => pure "NONE"
      | some outs => pure (" ".intercalate outs)
    else
      -- Jacobi / matrix / scale / diagonal on BCSR = the scalar object on the expanded matrix
      let kind? : Option Kind := match kindS with
        | "jac" => some .jacobi | "mat" => some .matrix | "scale" => some .scale | "diag" => some .diagonal
        | _ => none
      match kind? with
      | none => pure "NOMODEL"
      | some kind =>
        let isDiag := kindS == "diag"
        let Ae : Csr Rat := if isDiag then { A with val := A.val.extract 0 (A.rows * bs) } else expandCsr bs A
        let stepsE := steps.map fun st => match st with
          | .update v => if isDiag then Step.update (v.extract 0 (A.rows * bs)) else Step.update (expandVals bs A v)
          | st => st
        let fidxE := fidx.flatMap fun i => (List.range bs).map fun a => i * bs + a
        let c : Cfg Rat := { kind := kind, ω := ω, fidx := fidxE, post := post }
        match runSteps tiny c Ae PState.empty stepsE [] with
        | .error .abort => pure "ABORT"
        | .error .exc => pure "EXC"
        | .ok [] => pure "NONE"
        | .ok outs => pure (" ".intercalate (outs.map showR))
  | "iluf" =>
    let p ← int
    let A ← csrP
    let b ← ratList
    match setStructCsr A.rows A.rowPtr A.colInd with
    | none => pure "EXC"
    | some s0 =>
      let s := factorizeSymbolic s0 p
      -- `alloc_data` arrays pre-filled with garbage: `copy_data` must overwrite every position
      let f := factorizeNumeric s (copyDataCsr s A (garbage s))
      let g := factorizeNumericS s (copyDataCsrS s A)
      if f.dataD.any (· = 0) then pure "ABORT"
      else if !(f.dataL == g.dataL && f.dataU == g.dataU && f.dataD == g.dataD && s.wf && s.sorted && s.covers A && patternMatches p.toNat s0 s) then
        pure "MODEL-SPLIT"   -- the two formulations of the numeric factorisation differ / structure not well-shaped
      else
        let y := solveIl (s.matL f) b.toArray (sentinel b.length)
        let z := solveDu (s.matU f) f.dataD y
        pure s!"F {showNatsL s.rpL.toList} {showNatsL s.ciL.toList} {showNatsL s.rpU.toList} {showNatsL s.ciU.toList} {showRatsL f.dataL.toList} {showRatsL f.dataU.toList} {showRatsL f.dataD.toList} Y {showRatsL y.toList} Z {showRatsL z.toList}"
  | "ilulev" =>
    -- per-entry levels observed through the nested patterns of factorize_symbolic(0..P)
    let pMax ← nat
    let n ← nat
    let rp ← natList
    let ci ← natList
    match setStructCsr n rp.toArray ci.toArray with
    | none => pure "EXC"
    | some s0 =>
      let pats := (List.range (pMax + 1)).map fun (p : Nat) => factorizeSymbolic s0 (Int.ofNat p)
      let rowOut := fun (i : Nat) =>
        let ents : List (Nat × Nat) := (List.range n).filterMap fun c =>
          if c == i then none
          else
            match (List.range (pMax + 1)).find? (fun p =>
              let t := pats.getD p s0
              (List.range' (t.rpL.getD i 0) (t.rpL.getD (i + 1) 0 - t.rpL.getD i 0)).any (fun k => t.ciL.getD k 0 == c)
                || (List.range' (t.rpU.getD i 0) (t.rpU.getD (i + 1) 0 - t.rpU.getD i 0)).any (fun k => t.ciU.getD k 0 == c)) with
            | some p => some (c, p)
            | none => none
        s!"{showNatsL (ents.map (·.1))} {showNatsL (ents.map (·.2))}"
      pure (" ".intercalate ("V" :: (List.range n).map rowOut))
  | "scale" =>
    let ω ← rat
    let fidx ← natList
    let x ← ratList
    pure (showR (scaleApply ω fidx x.toArray))
  | "diag" =>
    let d ← ratList
    let fidx ← natList
    let x ← ratList
    if d.length != x.length then pure "ABORT"
    else pure (showR (diagonalApply fidx d.toArray x.toArray))
  | _ => throw s!"unknown op {op}"

def step (ts : Toks) : String :=
  match run handle ts with
  | .ok s => s
  | .error e => s!"BAD-OP {e}"

end FeatModel.DrvC08

def main (args : List String) : IO Unit := FeatModel.Proto.mainWith FeatModel.DrvC08.step args
