import FeatModel.Model.Proto
import FeatModel.Model.Solver.History
/-!
line-protocol driver for the C08 models (stationary preconditioners)

  hist KIND P OMEGA n L(rowPtr) L(colInd) L(val) L(fidx) nsteps STEP*
        KIND ∈ jac | sor | ssor | poly | ilu | mat;  P = m (poly) / fill level p (ilu) / ignored
        STEP ∈ S (init_symbolic) | N (init_numeric) | D (done_symbolic) | A L(x) (apply) | U L(val) (new values)
        → one "R n y_1 .. y_n U1" per apply step (or "NONE"), "ABORT" / "EXC" when the history ends abnormally
  iluf P n L(rowPtr) L(colInd) L(val) L(b)
        → "F L(rpL) L(ciL) L(rpU) L(ciU) L(dataL) L(dataU) L(dataD) Y L(y) Z L(z)"  (y = solve_il b, z = solve_du y)
  scale OMEGA L(fidx) L(x)          → "R .. U1"
  diag L(d) L(fidx) L(x)            → "R .. U1" | ABORT
-/
open FeatModel FeatModel.Proto FeatModel.LA FeatModel.Solver

namespace FeatModel.DrvC08

def csrP : P (Csr Rat) := do
  let n ← nat
  let rp ← natList
  let ci ← natList
  let v ← ratList
  pure { rows := n, cols := n, rowPtr := rp.toArray, colInd := ci.toArray, val := v.toArray }

def stepP : P (Step Rat) := do
  let t ← tok
  match t with
  | "S" => pure .initSymbolic
  | "N" => pure .initNumeric
  | "D" => pure .done
  | "A" => do let x ← ratList; pure (.apply x.toArray)
  | "U" => do let v ← ratList; pure (.update v.toArray)
  | _ => throw s!"unknown step {t}"

def showR (v : Array Rat) : String := s!"R {showRatsL v.toList} U1"

def tiny : Rat → Bool := tinyRat epsQ

def handle : P String := do
  let op ← tok
  match op with
  | "hist" =>
    let kindS ← tok
    let p ← int
    let ω ← rat
    let A ← csrP
    let fidx ← natList
    let steps ← listOf stepP
    let kind? : Option Kind := match kindS with
      | "jac" => some .jacobi | "sor" => some .sor | "ssor" => some .ssor | "poly" => some (.poly p.toNat)
      | "ilu" => some (.ilu p) | "mat" => some .matrix | _ => none
    match kind? with
    | none => throw s!"unknown kind {kindS}"
    | some kind =>
      let c : Cfg Rat := { kind := kind, ω := ω, fidx := fidx }
      match runSteps tiny c A PState.empty steps [] with
      | .error .abort => pure "ABORT"
      | .error .exc => pure "EXC"
      | .ok [] => pure "NONE"
      | .ok outs => pure (" ".intercalate (outs.map showR))
  | "iluf" =>
    let p ← int
    let A ← csrP
    let b ← ratList
    match setStructCsr A.rows A.rowPtr A.colInd with
    | none => pure "EXC"
    | some s0 =>
      let s := factorizeSymbolic s0 p
      let f := factorizeNumeric s (copyDataCsr s A)
      if f.dataD.any (· = 0) then pure "ABORT"
      else
        let y := solveIl (s.matL f) b.toArray (sentinel b.length)
        let z := solveDu (s.matU f) f.dataD y
        pure s!"F {showNatsL s.rpL.toList} {showNatsL s.ciL.toList} {showNatsL s.rpU.toList} {showNatsL s.ciU.toList} {showRatsL f.dataL.toList} {showRatsL f.dataU.toList} {showRatsL f.dataD.toList} Y {showRatsL y.toList} Z {showRatsL z.toList}"
  | "scale" =>
    let ω ← rat
    let fidx ← natList
    let x ← ratList
    pure (showR (scaleApply ω fidx x.toArray))
  | "diag" =>
    let d ← ratList
    let fidx ← natList
    let x ← ratList
    if d.length != x.length then pure "ABORT"
    else pure (showR (diagonalApply fidx d.toArray x.toArray))
  | _ => throw s!"unknown op {op}"

def step (ts : Toks) : String :=
  match run handle ts with
  | .ok s => s
  | .error e => s!"BAD-OP {e}"

end FeatModel.DrvC08

def main (args : List String) : IO Unit := FeatModel.Proto.mainWith FeatModel.DrvC08.step args
