import FeatModel.Model.Proto
import FeatModel.Model.VecOps
/-! line-protocol driver for the C04 models (LAFEM vector operations on dense / blocked / sparse / tuple /
power vectors).

    <op> <pattern> <cl> <ns s1..sns> <shape> <nl n1..nnl> <data of class a> <data of class b> ...
    sv  <sub> [v] <size> <n> (idx val)*n
    svb <b> <sub> [v] <size> <n> (idx val*b)*n

output `R <nres res..> <nclasses> (<len> data..)*` (+ ` U <used>` for sparse vectors), `ABORT`, `UNDEF`. -/
open FeatModel FeatModel.Proto FeatModel.Vec

namespace FeatModel.DrvC04

inductive Shape where
  | dense | blocked (b : Nat)
  | tupleOne (f : Shape) | tupleCons (f r : Shape)
  | powerOne (f : Shape) | powerCons (f r : Shape)

def mkTuple : List Shape → Option Shape
  | [] => none
  | [s] => some (.tupleOne s)
  | s :: t => (mkTuple t).map (.tupleCons s)

def mkPower (s : Shape) : Nat → Option Shape
  | 0 => none
  | 1 => some (.powerOne s)
  | n + 1 => (mkPower s n).map (.powerCons s)

def shapeP : Nat → P Shape
  | 0 => throw "shape too deep"
  | fuel + 1 => do
    let t ← tok
    match t with
    | "D" => pure .dense
    | "B" => do let b ← nat; pure (.blocked b)
    | "T" => do
      let k ← nat
      let l ← many k (shapeP fuel)
      match mkTuple l with
      | some s => pure s
      | none => throw "empty tuple"
    | "P" => do
      let k ← nat
      let s ← shapeP fuel
      match mkPower s k with
      | some s => pure s
      | none => throw "empty power"
    | _ => throw s!"bad shape token {t}"

/-- container of the given shape from leaf sizes and flat data -/
def build : Shape → List Nat → List Rat → MVec Rat × List Nat × List Rat
  | .dense, n :: ns, d => (.dense (d.take n), ns, d.drop n)
  | .blocked b, n :: ns, d => (.blocked b (d.take (n * b)), ns, d.drop (n * b))
  | .dense, [], d => (.dense [], [], d)
  | .blocked b, [], d => (.blocked b [], [], d)
  | .tupleOne f, ns, d => let (v, ns, d) := build f ns d; (.tupleOne v, ns, d)
  | .tupleCons f r, ns, d =>
    let (v, ns, d) := build f ns d
    let (w, ns, d) := build r ns d
    (.tupleCons v w, ns, d)
  | .powerOne f, ns, d => let (v, ns, d) := build f ns d; (.powerOne v, ns, d)
  | .powerCons f r, ns, d =>
    let (v, ns, d) := build f ns d
    let (w, ns, d) := build r ns d
    (.powerCons v w, ns, d)

def classesOf (pat : List Char) : List Char :=
  pat.foldl (fun acc c => if acc.contains c then acc else acc ++ [c]) []

def showRes (res : List Rat) (objs : List (List Rat)) : String :=
  s!"R {showRatsL res} {objs.length} " ++ " ".intercalate (objs.map showRatsL)

def optList : List (Option Rat) → Option (List Rat)
  | [] => some []
  | none :: _ => none
  | some x :: t => (optList t).map (x :: ·)

abbrev SB := List Rat   -- one stored value: a scalar (`[v]`) or a block

def sFill (w : Nat) : SB := List.replicate w (4711 : Rat)
def sZero (w : Nat) : SB := List.replicate w (0 : Rat)
def sSet (v : Rat) : SB → SB := fun b => b.map fun _ => v

/-- dense read-out through `operator()(i)` for all `i`, then `used_elements()` -/
def sReadout (w : Nat) (res : List Rat) (s : SVec SB) : String :=
  let (vals, s) := runScript (sFill w) (sZero w) id ((List.range s.size).map SOp.read) s
  s!"R {showRatsL res} 1 {showRatsL vals.flatten} U {s.usedElements.1}"

/-- the member calls go through `runScript`, the function the theorem `C04.sparse_denotes` is about -/
def sStep (w : Nat) (setv : SB → SB) (op : SOp SB) (s : SVec SB) : List Rat × SVec SB :=
  let (vals, s') := runScript (sFill w) (sZero w) setv [op] s
  (vals.flatten, s')

def kindOf (kind : String) : Option SVec.ExtKind :=
  match kind with
  | "maxabs" => some .maxAbs
  | "minabs" => some .minAbs
  | "max" => some .max
  | "min" => some .min
  | _ => none

def sparseP (b : Nat) : P String := do
  let w := max b 1
  let sub ← tok
  let fv ← if sub == "format" then rat else pure 0
  let size ← nat
  let n ← nat
  let writes ← many n (do let i ← nat; let v ← many w rat; pure (i, v))
  let s : SVec SB := (runScript (sFill w) (sZero w) id (writes.map fun p => SOp.write p.1 p.2) (SVec.empty size)).2
  if sub == "get" then pure (sReadout w [] s)
  else if sub == "format" then pure (sReadout w [] (sStep w (sSet fv) SOp.format s).2)
  else match kindOf sub with
    | some kind =>
      let (v, s') := s.extremeCoded kind id w
      pure (sReadout w [v] s')
    | none => throw s!"unknown sparse op {sub}"

/-- `svs`: a script of member calls -/
def scriptP : P String := do
  let b0 ← nat
  -- 32 / 322: the same containers with the 32-bit index type (`IT_ = unsigned int`), scalar / blocks of 2
  let b := if b0 == 32 then 0 else if b0 == 322 then 2 else b0
  if b > 3 then throw "unsupported block size"
  let w := max b 1
  let size ← nat
  let n ← nat
  let rec go (k : Nat) (res : List Rat) (s : SVec SB) : P (Option (List Rat × SVec SB)) :=
    match k with
    | 0 => pure (some (res, s))
    | k + 1 => do
      let what ← tok
      match what with
      | "w" => do
        let i ← nat; let v ← many w rat
        go k res (sStep w id (SOp.write i v) s).2
      | "r" => do
        let i ← nat
        let (v, s') := sStep w id (SOp.read i) s
        go k (res ++ v) s'
      | "f" => do
        let v ← rat
        go k res (sStep w (sSet v) SOp.format s).2
      | "u" =>
        let (u, s') := s.usedElements
        go k (res ++ [(u : Rat)]) s'
      | "m" => do
        let kind ← tok
        match kindOf kind with
        | some kd =>
          let (v, s') := s.extremeCoded kd id w
          go k (res ++ [v]) s'
        | none => throw s!"unknown member {kind}"
      | _ => throw s!"unknown script step {what}"
  match (← go n [] (SVec.empty size)) with
  | some (res, s) => pure (sReadout w res s)
  | none => pure "UNDEF"

def handle : P String := do
  let op ← tok
  if op == "sv" then return (← sparseP 0)
  if op == "svb" then
    let b ← nat
    if b == 0 || b > 3 then throw "unsupported block size"
    return (← sparseP b)
  if op == "svs" then return (← scriptP)
  let pat := (← tok).toList
  let _cl ← nat
  let scal ← ratList
  let shape ← shapeP 64
  let sizes ← natList
  let classes := classesOf pat
  let ccopy := ["ccopy", "ccopyto", "flatcopy", "flatcopyinv", "flatrtinv"].contains op
  let datas ← many classes.length ratList
  -- objects per class (for component_copy the second class is a plain DenseVector)
  let objs : List (MVec Rat) := datas.zipIdx.map fun (d, ci) =>
    if ccopy && ci == 1 then MVec.dense d else (build shape sizes d).1
  let cls (i : Nat) : Nat := classes.idxOf (pat.getD i 'a')
  let obj (i : Nat) : MVec Rat := objs.getD (cls i) (MVec.dense [])
  let same (i j : Nat) : Bool := cls i == cls j
  let a : Rat := scal.headD 0
  let finish (res : List Rat) (r0 : MVec Rat) : String :=
    showRes res ((objs.set (cls 0) r0).map MVec.flatten)
  let noChange (res : List Rat) : String := showRes res (objs.map MVec.flatten)
  let optScalar (o : Option Rat) : String := match o with
    | some v => noChange [v]
    | none => "UNDEF"
  let optVec (o : Option (List Rat)) : String := match o with
    | some v => noChange v
    | none => "UNDEF"
  match op with
  | "axpy" => pure (finish [] (MVec.axpy (same 0 1) a (obj 0) (obj 1)))
  | "scale" => pure (finish [] (MVec.scale (same 0 1) a (obj 0) (obj 1)))
  | "cinv" =>
    -- the exact scalar type aborts on a division by zero
    if (obj 1).flatten.any (· == 0) then pure "ABORT"
    else pure (finish [] (MVec.componentInvert (same 0 1) a (obj 0) (obj 1)))
  | "cprod" => pure (finish [] (MVec.componentProduct (same 0 1) (same 0 2) (obj 0) (obj 1) (obj 2)))
  | "copy" => pure (finish [] (MVec.copy (same 0 1) (obj 0) (obj 1)))
  | "format" => pure (finish [] (MVec.format a (obj 0)))
  | "dot" => pure (noChange [MVec.dot (same 0 1) (obj 0) (obj 1)])
  | "tdot" => pure (noChange [MVec.tripleDot (same 0 1) (same 0 2) (same 1 2) (obj 0) (obj 1) (obj 2)])
  | "norm2" => pure (noChange [MVec.norm2 qsqrt (obj 0)])
  | "norm2sqr" => pure (noChange [MVec.norm2sqr qsqrt (obj 0)])
  | "maxabs" => pure (optScalar (MVec.maxAbsElement (obj 0)))
  | "minabs" => pure (optScalar (MVec.minAbsElement (obj 0)))
  | "max" => pure (optScalar (MVec.maxElement (obj 0)))
  | "min" => pure (optScalar (MVec.minElement (obj 0)))
  | "flatcopy" =>
    pure (showRes [] ((objs.set (cls 1) (MVec.dense (MVec.flatCopy (obj 0) (obj 1).flatten))).map MVec.flatten))
  | "flatcopyinv" => pure (finish [] (MVec.flatCopyInv (obj 0) (obj 1).flatten))
  | "flatconvert" => pure (noChange (MVec.flatConvert 0 (obj 0)))
  | "flatrt" =>
    let f := MVec.flatCopy (obj 0) (List.replicate (obj 0).podSize 0)
    pure (showRes f ((objs.set (cls 1) (MVec.flatCopyInv (obj 1) f)).map MVec.flatten))
  | "flatrtinv" =>
    let a' := MVec.flatCopyInv (obj 0) (obj 1).flatten
    pure (finish (MVec.flatCopy a' (List.replicate a'.podSize 0)) a')
  | _ =>
    match shape with
    | .blocked b =>
      let x0 := (obj 0).flatten
      let x1 := (obj 1).flatten
      let x2 := (obj 2).flatten
      match op with
      | "axpyb" => pure (finish [] (.blocked b (axpyBlockedK b scal x0 x1)))
      | "scaleb" => pure (finish [] (.blocked b (scaleBlockedK (same 0 1) b scal x0 x1)))
      | "dotb" => pure (noChange (dotBlockedK (same 0 1) b x0 x1))
      | "tdotb" => pure (noChange (tdotBlockedK (same 0 1) (same 0 2) (same 1 2) b x0 x1 x2))
      | "norm2b" => pure (noChange (norm2BlockedK qsqrt b x0))
      | "norm2sqrb" => pure (noChange (norm2sqrBlockedK b x0))
      | "maxabsb" => pure (optVec (maxAbsBlockedK b x0))
      | "minabsb" => pure (optVec (minAbsBlockedK b x0))
      | "maxb" => pure (optVec (maxBlockedK b x0))
      | "minb" => pure (optVec (minBlockedK b x0))
      | "denseblocked" =>
        -- convert between DenseVector and DenseVectorBlocked re-interprets the same pod array
        let n : Rat := (x0.length : Nat)
        let nb : Rat := (x0.length / b : Nat)
        pure (noChange (x0 ++ x0 ++ x0 ++ x0 ++ [n, nb]))
      | "ccopy" =>
        match componentCopyK b a.num.toNat x0 x1 with
        | some r => pure (finish [] (.blocked b r))
        | none => pure "ABORT"
      | "ccopyto" =>
        match componentCopyToK b a.num.toNat x0 x1 with
        | some x => pure (showRes [] [x0, x])
        | none => pure "ABORT"
      | _ => throw s!"unknown op {op}"
    | _ => throw s!"unknown op {op}"

def step (ts : Toks) : String :=
  match run handle ts with
  | .ok s => s
  | .error e => s!"BAD-OP {e}"

end FeatModel.DrvC04

def main (args : List String) : IO Unit := FeatModel.Proto.mainWith FeatModel.DrvC04.step args
