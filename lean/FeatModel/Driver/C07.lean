import FeatModel.Model.Proto
import FeatModel.Model.Solver.Control
import FeatModel.Model.Solver.Krylov
import FeatModel.Model.Solver.BiCGStab
import FeatModel.Model.Solver.Session
import FeatModel.Model.Solver.RGCR
import FeatModel.Model.Solver.RatVec
/-! line-protocol driver for the C07 models (convergence control; PCG / Richardson / PCR / PMR / BiCGStab sessions) -/
open FeatModel FeatModel.Proto FeatModel.Solver

namespace FeatModel.DrvC07

/-- a defect token: `nan` / `inf` (non-finite) or a rational -/
def defTok : P (Bool × Rat) := do
  let t ← tok
  if t = "nan" ∨ t = "inf" then pure (false, 0)
  else
    match run rat [t] with
    | .ok q => pure (true, q)
    | .error e => throw e

def boolP : P Bool := do
  let n ← nat
  pure (n != 0)

def mkCfg (tolRel tolAbs tolAbsLow divRel divAbs stagRate : Rat) (minIter maxIter minStag : Nat)
    (skip plotIter : Bool) (plotInterval : Nat) : Config Rat where
  tolRel := tolRel
  tolAbs := tolAbs
  tolAbsLow := tolAbsLow
  divRel := divRel
  divAbs := divAbs
  stagRate := stagRate
  eps2 := epsSqQ
  minIter := minIter
  maxIter := maxIter
  minStag := minStag
  skipDefCalc := skip
  plotIter := plotIter
  plotInterval := plotInterval

def showDef (fin : Bool) (q : Rat) : String := if fin then showRat q else "nonfinite"

def ctlOp : P String := do
  let variant ← nat
  let tolRel ← rat; let tolAbs ← rat; let tolAbsLow ← rat
  let divRel ← rat; let divAbs ← rat; let stagRate ← rat
  let minIter ← nat; let maxIter ← nat; let minStag ← nat
  let skip ← boolP
  let plotMode ← nat; let plotInt ← nat
  let ds ← listOf defTok
  let c := mkCfg tolRel tolAbs tolAbsLow divRel divAbs stagRate minIter maxIter minStag skip
    (plotMode == 1 || plotMode == 3) plotInt
  match runControl c (variant != 0) freshState ds with
  | (_, none) => pure "S 0 0 0 0/1 0/1 0/1 0"
  | (sts, some (s, _)) =>
    let initFin := match ds with
      | (f, _) :: _ => f
      | [] => true
    let codes := sts.map Status.code
    pure s!"S {showNatsL codes} {s.numIter} {s.numStag} {showDef initFin s.defInit} {showDef s.curFin s.defCur} {showDef initFin s.defPrev} 0"

def vecP (n : Nat) : P (RVec n) := do
  let l ← many n rat
  pure (Vector.ofFn fun i => l.getD i.val 0)

def matP (n : Nat) : P (RMat n) := do
  let rows ← many n (vecP n)
  pure (Vector.ofFn fun i => rows.getD i.val (vzero n))

def showResult {n : Nat} (r : Result (RVec n) Rat) : String :=
  s!"R {r.status.code} {r.st.numIter} {showRat r.st.defInit} {showRat r.st.defCur} {showRatsL r.x.toList} 1 {r.status.code} H {showRatsL r.hist.reverse}"

def solveOp : P String := do
  let kind ← tok
  let n ← nat
  let A ← matP n
  let fk ← tok
  let mask : Vector Bool n ← (do
    if fk = "none" then pure (Vector.ofFn fun _ => false)
    else
      let idx ← natList
      pure (Vector.ofFn fun i => idx.contains i.val))
  let pk ← tok
  let pre : Option (RMat n × Nat) ← (do
    if pk = "mat" then
      let M ← matP n
      let failAt ← nat
      pure (some (M, failAt))
    else pure none)
  let fpre : Option (FeatPre × Rat) ← (do
    if pk = "jac" then pure (some (FeatPre.jac, ← rat))
    else if pk = "sor" then pure (some (FeatPre.sor, ← rat))
    else if pk = "ssor" then pure (some (FeatPre.ssor, ← rat))
    else pure none)
  let tolRel ← rat; let tolAbs ← rat; let tolAbsLow ← rat
  let divRel ← rat; let divAbs ← rat; let stagRate ← rat
  let minIter ← nat; let maxIter ← nat; let minStag ← nat
  let skip ← boolP
  let omega ← rat
  let c := mkCfg tolRel tolAbs tolAbsLow divRel divAbs stagRate minIter maxIter minStag skip false 1
  let S := match fpre with
    | some (k, w) => ratSysF A mask k w
    | none => ratSys A mask pre
  let ns ← nat
  let mut steps : List (SessionStep (RVec n)) := []
  let mut rsteps : List (Nat × Bool × RVec n × RVec n) := []
  for _ in List.range ns do
    let mode ← tok
    let x0 ← vecP n
    let b ← vecP n
    let re ← nat
    rsteps := rsteps ++ [(re, decide (mode = "a"), x0, b)]
    -- the harness re-initialises BEFORE the solve: 1 = done_numeric+init_numeric, 2 = done()+init()
    if re = 1 then steps := steps ++ [SessionStep.reinitNumeric]
    if re = 2 then steps := steps ++ [SessionStep.reinitFull]
    steps := steps ++ [SessionStep.solve (decide (mode = "a")) x0 b]
  let k : Option Kind := match kind with
    | "pcg" => some .pcg | "rich" => some .rich | "pcr" => some .pcr | "pmr" => some .pmr
    | "pcgnr" => some .pcgnr | "bicgstab" => some .bicgstab | "cheb" => some .cheb | _ => none
  if kind = "rgcr" then
    -- RGCR recycles direction vectors from solve to solve: its own session function
    match rgcrSession S c freshState [] rsteps with
    | none => return "ABORT"
    | some rs => return (" | ".intercalate (rs.map showResult))
  match k with
  | none => throw s!"unknown solver {kind}"
  | some k =>
    -- one persistent solver object; its control members start as the IterativeSolver constructor leaves them
    match runSteps k S c omega freshState steps with
    | none => pure "ABORT"
    | some rs => pure (" | ".intercalate (rs.map showResult))

def handle : P String := do
  let op ← tok
  match op with
  | "ctl" => ctlOp
  | "solve" => solveOp
  | _ => throw s!"unknown op {op}"

def step (ts : Toks) : String :=
  match run handle ts with
  | .ok s => s
  | .error e => s!"BAD-OP {e}"

end FeatModel.DrvC07

def main (args : List String) : IO Unit := FeatModel.Proto.mainWith FeatModel.DrvC07.step args
