import FeatModel.Model.Proto
import FeatModel.Model.Assembly
import FeatModel.Model.Burgers
import FeatModel.Model.Blocked
import FeatModel.Model.LocalFE
import FeatModel.Model.TraceOrient
import FeatModel.Model.Hooks
/-! line-protocol driver for the C16 models (CSR/banded/vector scatter and gather, symbolic assembly, cell-loop assembly) -/
open FeatModel FeatModel.Proto FeatModel.Adj FeatModel.Asm

namespace FeatModel.DrvC16

structure Call where
  alpha : Rat
  rows : List Nat
  cols : List Nat
  vals : List Rat

def callP : P Call := do
  let a ← rat; let r ← natList; let c ← natList; let v ← ratList
  pure ⟨a, r, c, v⟩

def Call.loc (c : Call) : Nat → Nat → Rat := fun i j => c.vals.getD (i * c.cols.length + j) 0
def Call.locVec (c : Call) : Nat → Rat := fun i => c.vals.getD i 0
def Call.toCell (c : Call) : CellCall Rat := ⟨c.alpha, c.rows, c.cols, c.loc⟩

def patternP : P Pattern := do
  let r ← nat; let c ← nat; let rp ← natList; let ci ← natList
  pure ⟨r, c, rp, ci⟩

def showPattern (p : Pattern) : String :=
  s!"{p.rows} {p.cols} {showNatsL p.rowPtr} {showNatsL p.colIdx}"

def showMatrix (p : Pattern) (d : Array Rat) : String := s!"M {showPattern p} {showRatsL d.toList}"

/-- skip the finite-element configuration of a `feasm` line (only the real code needs it) -/
def skipToRec : P Unit := do
  let ts ← get
  set ((ts.dropWhile (· != "REC")).drop 1)

def scatterAll (p : Pattern) : List Call → ScatterSt Rat → Option (ScatterSt Rat)
  | [], st => some st
  | c :: t, st =>
    match scatterAxpy p st c.loc c.rows c.cols c.alpha with
    | none => none
    | some st' => scatterAll p t st'

def gatherAll (p : Pattern) (data : Array Rat) : List Call → Array (Option Nat) → Option (List (List Rat))
  | [], _ => some []
  | c :: t, cp =>
    match gatherAxpy p data cp c.loc c.rows c.cols c.alpha with
    | none => none
    | some (cp', m) =>
      match gatherAll p data t cp' with
      | none => none
      | some r => some (m.flatten :: r)

def bandedAll (rows cols : Nat) (offs : List Nat) : List Call → ScatterSt Rat → Option (ScatterSt Rat)
  | [], st => some st
  | c :: t, st =>
    match bandedScatterAxpy rows cols offs st c.loc c.rows c.cols c.alpha with
    | none => none
    | some st' => bandedAll rows cols offs t st'

def bandedGatherAll (rows cols : Nat) (offs : List Nat) (data : Array Rat) :
    List Call → Array (Option Nat) → Option (List (List Rat))
  | [], _ => some []
  | c :: t, cp =>
    match bandedGatherAxpy rows cols offs data cp c.loc c.rows c.cols c.alpha with
    | none => none
    | some (cp', m) =>
      match bandedGatherAll rows cols offs data t cp' with
      | none => none
      | some r => some (m.flatten :: r)

def showLocs (l : List (List Rat)) : String :=
  " ".intercalate (s!"L {l.length}" :: l.map showRatsL)

def assembleOut (g : Option Graph) (calls : List Call) : String :=
  match g with
  | none => "ABORT"
  | some g =>
    let p := Pattern.ofGraph g
    match assemble p (calls.map Call.toCell) with
    | none => "UNINIT"
    | some st => showMatrix p st.data

def handle : P String := do
  let op ← tok
  match op with
  | "scatter" =>
    let p ← patternP; let vals ← ratList; let calls ← listOf callP
    match scatterAll p calls (ScatterSt.fresh p vals.toArray) with
    | none => pure "UNINIT"
    | some st => pure s!"V {showRatsL st.data.toList}"
  | "gather" =>
    let p ← patternP; let vals ← ratList; let calls ← listOf callP
    match gatherAll p vals.toArray calls (Array.replicate p.cols none) with
    | none => pure "UNINIT"
    | some l => pure (showLocs l)
  | "vscatter" =>
    let vals ← ratList; let calls ← listOf callP
    let d := calls.foldl (fun d c => vecScatterAxpy d c.locVec c.rows c.alpha) vals.toArray
    pure s!"W {showRatsL d.toList}"
  | "vgather" =>
    let vals ← ratList; let calls ← listOf callP
    pure (showLocs (calls.map fun c => vecGatherAxpy vals.toArray c.locVec c.rows c.alpha))
  | "banded" =>
    let r ← nat; let c ← nat; let offs ← natList; let vals ← ratList; let calls ← listOf callP
    match bandedAll r c offs calls ⟨Array.replicate c none, vals.toArray⟩ with
    | none => pure "UNINIT"
    | some st => pure s!"V {showRatsL st.data.toList}"
  | "bgather" =>
    let r ← nat; let c ← nat; let offs ← natList; let vals ← ratList; let calls ← listOf callP
    match bandedGatherAll r c offs vals.toArray calls (Array.replicate c none) with
    | none => pure "UNINIT"
    | some l => pure (showLocs l)
  | "asm" =>
    -- synthetic assembly: arbitrary DOF tables, arbitrary local matrices, arbitrary cell order
    let kind ← nat; let nT ← nat; let nS ← nat; let nc ← nat
    let tm ← many nc natList; let sm ← many nc natList
    let order ← natList
    let locs ← many nc (do let a ← rat; let v ← ratList; pure (a, v))
    let g := if kind == 1 then symbolicGraph1 nT tm else symbolicGraph2 nT nS tm sm
    let sm' := if kind == 1 then tm else sm
    let calls := order.map fun c =>
      let (a, v) := locs.getD c (0, [])
      (⟨a, tm.getD c [], sm'.getD c [], v⟩ : Call)
    pure (assembleOut g calls)
  | "asmb" =>
    -- blocked (BCSR h x w) assembly: arbitrary DOF tables, arbitrary local block matrices, arbitrary cell order
    let kind ← nat; let nT ← nat; let nS ← nat; let bh ← nat; let bw ← nat; let nc ← nat
    let tm ← many nc natList; let sm ← many nc natList
    let order ← natList
    let locs ← many nc (do let a ← rat; let v ← ratList; pure (a, v))
    let g := if kind == 1 then symbolicGraph1 nT tm else symbolicGraph2 nT nS tm sm
    let sm' := if kind == 1 then tm else sm
    let n := bh * bw
    let calls : List (CellCallB Rat) := order.map fun c =>
      let (a, v) := locs.getD c (0, [])
      let ncol := (sm'.getD c []).length
      ⟨a, tm.getD c [], sm'.getD c [], fun i j => (v.drop ((i * ncol + j) * n)).take n⟩
    match g with
    | none => pure "ABORT"
    | some g =>
      let p := Pattern.ofGraph g
      match assembleB p n calls with
      | none => pure "UNINIT"
      | some st => pure s!"MB {showPattern p} {bh} {bw} {showRatsL st.data.toList.flatten}"
  | "hist" | "histj" =>
    -- five requests [warm-up, real, warm-up, real, real] served by one process
    skipToRec
    let kind ← tok
    match kind with
    | "V" =>
      let n ← nat; let reqs ← listOf (listOf callP)
      let outs := reqs.map fun calls =>
        let d := assembleVec n (calls.map fun c => (c.alpha, c.rows, c.locVec))
        s!"W {showRatsL d.toList}"
      pure (" ".intercalate (s!"H {reqs.length}" :: outs))
    | _ =>
      let nT ← nat; let nS ← nat; let reqs ← listOf (listOf callP)
      let first := reqs.headD []
      let tm := first.map (·.rows); let sm := first.map (·.cols)
      let g := if kind == "M1" then symbolicGraph1 nT tm else symbolicGraph2 nT nS tm sm
      match g with
      | none => pure "ABORT"
      | some g =>
        let p := Pattern.ofGraph g
        let res := assembleSeq #[] (reqs.map fun calls => (⟨p, calls.map Call.toCell⟩ : Request Rat))
        let outs := res.map fun r => match r with
          | none => "UNINIT"
          | some d => showMatrix p d
        pure (" ".intercalate (s!"H {reqs.length}" :: outs))
  | "hkasm" =>
    -- user-defined operator with a per-cell coefficient read in prepare(): base local matrices (recorded with the
    -- identity operator) times the coefficient of the cell, through the stateful hook loop
    skipToRec
    let kind ← tok; let nT ← nat; let nS ← nat; let calls ← listOf callP
    let _ ← tok; let coefs ← ratList
    let tm := calls.map (·.rows); let sm := calls.map (·.cols)
    let g := if kind == "M1" then symbolicGraph1 nT tm else symbolicGraph2 nT nS tm sm
    let cells : List (HookCell Rat) := calls.zipIdx.map fun (c, t) => ⟨t, c.rows, c.cols, c.loc⟩
    match g with
    | none => pure "ABORT"
    | some g =>
      let p := Pattern.ofGraph g
      match assemble p (hookLoop (fun t => coefs.getD t 0) (-1000) (-1000) cells) with
      | none => pure "UNINIT"
      | some st => pure (showMatrix p st.data)
  | "trpt" =>
    -- orientation code and mapped facet point of the 3-D trace assembler
    let shape ← tok; let lf ← nat; let p ← nat; let s0 ← rat; let s1 ← rat
    let k := if shape == "tetra" then FE.Kind.S else FE.Kind.H
    let sy := TraceOrient.syms k
    let r := FE.storedRow k 3 2 lf (sy.getD (p % sy.length) [])
    match TraceOrient.orientCode k r (TraceOrient.canonFace k lf) with
    | none => pure "TP -1"
    | some c =>
      match TraceOrient.facetPoint k lf c [s0, s1] with
      | none => pure "BAD-OP no trafo"
      | some x => pure s!"TP {c} {showRats x}"
  | "flocal" =>
    -- local matrices / vectors of affine cells from C15's basis polynomials, the rational rule and the cell geometry
    let shape ← tok
    let ts ← get
    set ((ts.dropWhile (· != "GEO")).drop 1)
    let kind ← tok; let fam ← tok; let rule ← tok; let fcoef ← ratList
    let d ← nat; let nc ← nat
    let cells ← many nc (do let nv ← nat; many nv (many d rat))
    let k := if shape == "tria" then FE.Kind.S else FE.Kind.H
    let f := if fam == "L2" then FE.Fam.L2 else FE.Fam.L1
    let xp ← (do let ts ← get; match ts with | "XP" :: v :: _ => pure (v == "1") | _ => pure false)
    let dudv := kind.startsWith "dudv"
    let ab := (kind.drop 4).toString.toNat?.getD 0
    match FE.tabOf f k d, LocalFE.ruleOf (shape == "tria") d rule with
    | some t, some r =>
      -- the integrand polynomials of one cell (for identity / force: times the determinant polynomial)
      let polysOf := fun (V : List (List Rat)) =>
        let g := LocalFE.geoOf k d V
        let dp := if k == FE.Kind.S then Poly.const g.detJ else LocalFE.detPoly k d V
        if kind == "force" then
          let fr := LocalFE.pullBack k d V fcoef
          (dp, true, (List.range t.nloc).map fun i => LocalFE.forceIntegrand t fr i)
        else if kind == "mass" then
          (dp, true, (List.range t.nloc).flatMap fun i => (List.range t.nloc).map fun j => LocalFE.massIntegrand t i j)
        else if dudv then
          (Poly.const g.detJ, false, (List.range t.nloc).flatMap fun i => (List.range t.nloc).map fun j =>
            LocalFE.dudvIntegrand t d g (ab / d) (ab % d) i j)
        else
          (Poly.const g.detJ, false, (List.range t.nloc).flatMap fun i => (List.range t.nloc).map fun j =>
            LocalFE.laplIntegrand t d g i j)
      -- (integrands are normalised: zero terms dropped, like monomials merged - the same polynomial function)
      let outs := cells.map fun V =>
        let (dp, var, fs) := polysOf V
        let g := LocalFE.geoOf k d V
        showRatsL (fs.map fun F =>
          if var then LocalFE.localEntryVar r (Poly.normalize dp) (Poly.normalize F)
          else LocalFE.localEntry r g.detJ (Poly.normalize F))
      -- the decidable hypotheses of `local_integral_exact(_multilinear)`: some entry of the exactness table for this rule
      -- contains every monomial of every integrand, and the determinant does not change sign in the cubature points
      let exact := cells.all fun V =>
        let (dp, var, fs) := polysOf V
        (r.detNonneg (Poly.normalize dp) || !var) &&
        LocalFE.exactTable.any fun e => e.1 == (shape == "tria") && e.2.1 == d && e.2.2.1 == rule &&
          fs.all fun F => LocalFE.monosIn
            (if var then Poly.normalize (Poly.mul (Poly.normalize F) (Poly.normalize dp)) else Poly.normalize F) e.2.2.2
      if xp && !exact then pure "EXACTNESS-HYPOTHESES-FAIL"
      else pure (" ".intercalate (s!"L {cells.length}" :: outs))
    | _, _ => pure "BAD-OP unsupported"
  | "bgsd" =>
    -- one Burgers job task over the cells in natural order: the sequence of `local_delta` values
    skipToRec
    let tol ← rat; let sdDelta ← rat; let sdNu ← rat; let vn ← rat; let need ← nat
    let n ← nat
    let cells ← many n (do let nv ← rat; let h ← rat; pure (nv, h))
    let ds := Burgers.deltaSeq ⟨tol, sdDelta, sdNu, vn, need != 0⟩ 0 cells
    pure s!"D {showRatsL ds}"
  | "feasm" =>
    skipToRec
    let kind ← tok
    match kind with
    | "V" =>
      let n ← nat; let calls ← listOf callP
      let d := assembleVec n (calls.map fun c => (c.alpha, c.rows, c.locVec))
      pure s!"W {showRatsL d.toList}"
    | _ =>
      let nT ← nat; let nS ← nat; let calls ← listOf callP
      let tm := calls.map (·.rows); let sm := calls.map (·.cols)
      let g := if kind == "M1" then symbolicGraph1 nT tm else symbolicGraph2 nT nS tm sm
      pure (assembleOut g calls)
  | _ => throw s!"unknown op {op}"

def step (ts : Toks) : String :=
  match run handle ts with
  | .ok s => s
  | .error e => s!"BAD-OP {e}"

end FeatModel.DrvC16

def main (args : List String) : IO Unit := FeatModel.Proto.mainWith FeatModel.DrvC16.step args
