import FeatModel.Model.Proto
import FeatModel.Model.Pool
/-! line-protocol driver for the C20 model: one lifetime history per line; after every operation the complete
    pool / container / layout state is printed, chunks renamed by first appearance.

    ops:  new a kind dt it n v | mat a kind dt it r c p v variant | band a dt it r noff v | adopt a b |
          range a b n off | clone a b mode fill | conv a b dt it | xconv a b | move a b | clear a | destroy a |
          format a v | write a w j i v | lay l a | mlay a l kind dt fill | ldrop l | mk a kind dt it n v | copy a b full | lmove d src | lvec k |
          T2 t <op> <op> (tuple operation = two component operations) | end
-/
open FeatModel FeatModel.Proto FeatModel.Pool

namespace FeatModel.DrvC20

def opP (name : String) : P Op := do
  match name with
  | "new" => let a ← nat; let k ← nat; let dt ← nat; let it ← nat; let n ← nat; let v ← int
             pure (.new a k dt it n v)
  | "mat" => let a ← nat; let k ← nat; let dt ← nat; let it ← nat; let r ← nat; let c ← nat; let p ← nat
             let v ← int; let var ← nat
             pure (.mat a k dt it r c p v var)
  | "band" => let a ← nat; let dt ← nat; let it ← nat; let r ← nat; let noff ← nat; let v ← int
              pure (.band a dt it r noff v)
  | "adopt" => let a ← nat; let b ← nat; pure (.adopt a b)
  | "range" => let a ← nat; let b ← nat; let n ← nat; let off ← nat; pure (.range a b n off)
  | "clone" => let a ← nat; let b ← nat; let m ← nat; let f ← int; pure (.clone a b m f)
  | "conv" => let a ← nat; let b ← nat; let dt ← nat; let it ← nat; pure (.conv a b dt it)
  | "xconv" => let a ← nat; let b ← nat; pure (.xconv a b)
  | "move" => let a ← nat; let b ← nat; pure (.move a b)
  | "clear" => let a ← nat; pure (.clear a)
  | "destroy" => let a ← nat; pure (.destroy a)
  | "format" => let a ← nat; let v ← int; pure (.format a v)
  | "write" => let a ← nat; let w ← nat; let j ← nat; let i ← nat; let v ← int; pure (.write a w j i v)
  | "lay" => let l ← nat; let a ← nat; pure (.lay l a)
  | "mlay" => let a ← nat; let l ← nat; let k ← nat; let dt ← nat; let f ← int; pure (.mlay a l k dt f)
  | "ldrop" => let l ← nat; pure (.ldrop l)
  | "lmove" => let d ← nat; let src ← nat; pure (.lmove d src)
  | "lvec" => let k ← nat; pure (.lvec k)
  | "copy" => let a ← nat; let b ← nat; let f ← nat; pure (.copy a b f)
  | "mk" => let a ← nat; let k ← nat; let dt ← nat; let it ← nat; let n ← nat; let v ← int
            pure (.mk a k dt it n v)
  | _ => throw s!"unknown op {name}"

/-- canonical chunk names: ids in order of first appearance -/
abbrev Names := List Nat

def nameOf (nm : Names) (id : Nat) : Names × Nat :=
  match nm.idxOf? id with
  | some k => (nm, k)
  | none => (nm ++ [id], nm.length)

def showInts (l : List Int) : String := " ".intercalate (l.map toString)

def showArr (p : Pool) (nm : Names) (q : Ptr) (size esz : Nat) : Names × String :=
  match q with
  | .null => (nm, s!" - {size} 0")
  | .at id off =>
    match Pool.get p id with
    | none => (nm, s!" ? {size} 0")
    | some c =>
      if off * esz ≥ c.bytes then (nm, s!" ? {size} 0")
      else
        let (nm', k) := nameOf nm id
        let head := s!" #{k}+{off}:{c.count}:{c.bytes} {size}"
        if off * esz + size * esz ≤ c.bytes then
          let vs := (c.vals.drop off).take size
          (nm', head ++ s!" {size}" ++ (if size = 0 then "" else " " ++ showInts vs))
        else (nm', head ++ " 0")

def showArrs (p : Pool) (esz : Nat) : Names → List (Ptr × Nat) → Names × String
  | nm, [] => (nm, "")
  | nm, (q, n) :: rest =>
    let (nm1, s1) := showArr p nm q n esz
    let (nm2, s2) := showArrs p esz nm1 rest
    (nm2, s1 ++ s2)

def showIdx (l : List Nat) : String := " " ++ showNatsL l

def showConts (p : Pool) : Names → Nat → List (Option Cont) → Names × String
  | nm, _, [] => (nm, "")
  | nm, i, none :: rest => showConts p nm (i + 1) rest
  | nm, i, some c :: rest =>
    let (nm1, se) := showArrs p (esz c.dt) nm (c.elems.zip c.elemsSize)
    let (nm2, si) := showArrs p (isz c.it) nm1 (c.inds.zip c.indsSize)
    let f := if c.foreign then 1 else 0
    let me := s!" C {i} {c.kind} {c.dt} {c.it} {f}{showIdx c.sidx} E {c.elems.length}{se} I {c.inds.length}{si}"
    let (nm3, r) := showConts p nm2 (i + 1) rest
    (nm3, me ++ r)

def showLays (p : Pool) : Names → Nat → List (Option Layout) → Names × String
  | nm, _, [] => (nm, "")
  | nm, i, none :: rest => showLays p nm (i + 1) rest
  | nm, i, some L :: rest =>
    let (nm1, si) := showArrs p (isz L.it) nm (L.inds.zip L.indsSize)
    let me := s!" L {i} {L.lk} {L.it}{showIdx L.sidx} I {L.inds.length}{si}"
    let (nm2, r) := showLays p nm1 (i + 1) rest
    (nm2, me ++ r)

def insertPair (x : Nat × Nat) : List (Nat × Nat) → List (Nat × Nat)
  | [] => [x]
  | y :: ys => if x.1 < y.1 || (x.1 = y.1 && x.2 ≤ y.2) then x :: y :: ys else y :: insertPair x ys

def orphans (p : Pool) (nm : Names) : List (Nat × Nat) :=
  let rec go : Nat → List (Option Chunk) → List (Nat × Nat)
    | _, [] => []
    | i, none :: rest => go (i + 1) rest
    | i, some c :: rest => if nm.contains i then go (i + 1) rest else insertPair (c.count, c.bytes) (go (i + 1) rest)
  go 0 p

def totalBytes (p : Pool) : Nat := p.foldl (fun acc oc => match oc with | some c => acc + c.bytes | none => acc) 0

def snapshot (s : State) : String :=
  let (nm1, sc) := showConts s.pool [] 0 s.slots
  let (nm2, sl) := showLays s.pool nm1 0 s.lays
  let orph := orphans s.pool nm2
  let so := orph.foldl (fun acc x => acc ++ s!" {x.1} {x.2}") ""
  s!" ; S {liveChunks s.pool} {totalBytes s.pool}{sc}{sl} O {orph.length}{so}"

def showAbort : Abort → String
  | .abort => "ABORT" | .exc => "EXC" | .exit1 => "EXIT:1" | .badop => "BAD-OP"

/-- interpret the token stream; the accumulated output is dropped when the history ends abnormally
    (forkcase.hpp then prints only the outcome class) -/
partial def go (s : State) (acc : String) (ts : Toks) : String :=
  match ts with
  | [] => acc
  | "end" :: _ =>
    match finalize s with
    | .ok _ => acc ++ s!" ; END {totalBytes s.pool} {liveChunks s.pool} FIN"
    | .error e => showAbort e
  | "T2" :: _t :: name1 :: rest =>
    -- one operation of a real TupleVector<DenseVector, DenseVector>, spelled out as the two component operations it
    -- must be equivalent to: the model runs exactly these two steps (`run`), one snapshot afterwards
    match (opP name1) rest with
    | .error e => s!"BAD-OP {e}"
    | .ok (op1, rest1) =>
      match rest1 with
      | name2 :: rest2 =>
        match (opP name2) rest2 with
        | .error e => s!"BAD-OP {e}"
        | .ok (op2, rest') =>
          match run s [op1, op2] with
          | .error .badop => acc ++ " ; BAD-OP"
          | .error e => showAbort e
          | .ok s' => go s' (acc ++ snapshot s') rest'
      | [] => "BAD-OP token underrun"
  | name :: rest =>
    match (opP name) rest with
    | .error e => s!"BAD-OP {e}"
    | .ok (op, rest') =>
      match step s op with
      | .error .badop => acc ++ " ; BAD-OP"
      | .error e => showAbort e
      | .ok s' => go s' (acc ++ snapshot s') rest'

def stepLine (ts : Toks) : String :=
  match ts with
  | "SLOTS" :: n :: rest => go (State.initN (n.toNat?.getD 8) 4) "H" rest   -- boundary stream: more container slots
  | _ => go State.init "H" ts

end FeatModel.DrvC20

def main (args : List String) : IO Unit := FeatModel.Proto.mainWith FeatModel.DrvC20.stepLine args
