import FeatModel.Model.Proto
import FeatModel.Model.Poly
import FeatModel.Model.FE
import FeatModel.Model.FECfg
import FeatModel.Model.FEHermite
import FeatModel.Model.FEVolume
import FeatModel.Model.FEUnmap
import FeatModel.Model.FERT
/-! line-protocol driver for the C15 models (reference bases, trafo, chain rule, DOF mappings, interpolation)

    `<op> <fam> <S|H> <dim> <mesh body> <op arguments>`, ops `ev`, `ref`, `dofs`, `interp`, `vol`, `tabcheck` -/
open FeatModel FeatModel.Proto FeatModel.Poly FeatModel.FE

namespace FeatModel.DrvC15

def famOf : String → Option Fam
  | "L1" => some .L1 | "L2" => some .L2 | "L3" => some .L3 | "D0" => some .D0 | "D1" => some .D1
  | "CR" => some .CR | "B2" => some .B2 | "PB" => some .PB | "HE" => some .HE | "BF" => some .BF | _ => none

def binom : Nat → Nat → Nat
  | _, 0 => 1
  | 0, _ + 1 => 0
  | n + 1, k + 1 => binom n k + binom n (k + 1)

def faceCount (k : Kind) (d f : Nat) : Nat :=
  match k with
  | .S => binom (d + 1) (f + 1)
  | .H => 2 ^ (d - f) * binom d f

def meshP : P Mesh := do
  let ks ← tok
  let kind := if ks = "S" then Kind.S else Kind.H
  let dim ← nat
  let nv ← nat
  let coords ← many nv (many dim rat)
  let mut num := [nv]
  let mut idx : List (List (List (List Nat))) := [[]]
  for d in List.range' 1 dim do
    let n ← nat
    let mut sets : List (List (List Nat)) := []
    for f in List.range d do
      let rows ← many n (many (faceCount kind d f) nat)
      sets := sets ++ [rows]
    num := num ++ [n]
    idx := idx ++ [sets]
  pure { kind := kind, dim := dim, coords := coords, num := num, idx := idx }

def polyP (dim : Nat) : P Poly := do
  let n ← nat
  many n (do let c ← rat; let e ← many dim nat; pure (c, e))

def showMat (M : List (List Rat)) : String := " ".intercalate (M.map showRats)

def b2s (b : Bool) : String := if b then "1" else "0"

def showPhi (ce : CellEval) (b : BasisEval) : String :=
  " ".intercalate ([showRat b.value] ++ (if ce.hasGrad then [showRats b.grad] else [])
    ++ (if ce.hasHess then [showMat b.hess] else []))

/-- the C++ aborts (division by zero in `Q`) when the Jacobian of the cell is singular at the point -/
def singular (m : Mesh) (c : Nat) (x : List Rat) : Bool :=
  det m.dim (jacMat m.kind m.dim (m.entVerts m.dim c) x) = 0

def supported (f : Fam) (m : Mesh) : Bool := (tabOf f m.kind m.dim).isSome

def showNp (r : Rat × List Rat) (mask : Nat) : String :=
  " ".intercalate ((if hasBit mask 1 then [showRat r.1] else []) ++ (if hasBit mask 2 then [showRats r.2] else []))

/-- ops of the non-parametric evaluators (Rannacher–Turek, discontinuous P1 on hypercubes) -/
def npHandle (op : String) (f : Fam) (m : Mesh) : P String := do
  let d := m.dim
  let nl := if f = Fam.CR then rtN d else d + 1
  match op with
  | "caps" => pure "K 3 3 127"
  | "dofs" =>
    let nc := m.n d
    let all := (List.range nc).flatMap fun c => localDofs f m c
    pure s!"D {numDofs f m} {nc} {nl} {showNats all}"
  | "ev" =>
    let c ← nat
    let x ← many d rat
    let V := m.entVerts d c
    if det d (jacMat m.kind d V (List.replicate d 0)) = 0 then return "ABORT"
    match npEval f m c x with
    | none => pure "ABORT"
    | some rows =>
      let J := jacMat m.kind d V x
      pure s!"E {nl} 1 0 {" ".intercalate (rows.map fun r => showNp r 3)} T {showRats (mapPoint m.kind d V x)} {showMat J} {showRat (rabs (det d J))}"
  | "evpts" =>
    let c ← nat
    let np ← nat
    let pts ← many np (many d rat)
    let mut out := s!"P {nl} 1 0"
    for x in pts do
      match npEval f m c x with
      | none => return "ABORT"
      | some rows => out := out ++ " " ++ " ".intercalate (rows.map fun r => showNp r 3)
    pure out
  | "evcfg" =>
    let c ← nat
    let x ← many d rat
    let mask ← nat
    let _poison ← nat
    if mask = 0 ∨ mask > 3 then return "UNSUPPORTED-MASK"
    match npEval f m c x with
    | none => pure "ABORT"
    | some rows =>
      pure s!"C {nl} {mask} {" ".intercalate (rows.map fun r => showNp r mask)} F 3 {" ".intercalate (rows.map fun r => showNp r 3)}"
  | "interp" =>
    let p ← polyP d
    let nq ← nat
    let qs ← many nq (do let c ← nat; let x ← many d rat; pure (c, x))
    let u := npInterp f m p
    let mut out := s!"I {showRatsL u} {nq} 1 0"
    for (c, x) in qs do
      match npEval f m c x with
      | none => return "ABORT"
      | some rows =>
        let dofs := localDofs f m c
        let coef := fun (i : Nat) => u.getD (dofs.getD i 0) 0
        let v := sumR ((List.range nl).map fun i => coef i * (rows.getD i (0, [])).1)
        let g := (List.range d).map fun a => sumR ((List.range nl).map fun i => coef i * (rows.getD i (0, [])).2.getD a 0)
        out := out ++ s!" {showRats (mapPoint m.kind d (m.entVerts d c) x)} {showRat v} {showRats g}"
    pure out
  | _ => pure "UNSUPPORTED"

def handle : P String := do
  let op ← tok
  let fs ← tok
  let m ← meshP
  if op = "vol" then
    let vols := (List.range (m.n m.dim)).map fun c => cellVolume m.kind m.dim (m.entVerts m.dim c)
    return s!"V {showRatsL vols}"
  if op = "volq" then
    let sums := (List.range (m.n m.dim)).map fun c => volQuad m.kind m.dim (m.entVerts m.dim c)
    return s!"W {showRatsL sums}"
  if op = "newton" then
    -- the implementation runs in double precision: both outputs are rounded by the check before they are compared
    let c ← nat
    let x ← many m.dim rat
    let V := m.entVerts m.dim c
    let r := unmapNewton m.kind m.dim V (mapPoint m.kind m.dim V x)
    return s!"N {b2s r.1} {showRats r.2}"
  if op = "trcfg" then
    let c ← nat
    let x ← many m.dim rat
    let mask ← nat
    let _poison ← nat
    if mask < 2 ∨ mask > 126 ∨ mask % 2 = 1 then return "UNSUPPORTED-MASK"
    if singular m c x ∧ (hasBit mask 8 ∨ hasBit mask 64) then return "ABORT"
    return s!"G {mask} {showRats (trafoCfg m c x mask)}"
  match famOf fs with
  | none => pure "UNSUPPORTED"
  | some f =>
    if npSupported f m then npHandle op f m else
    if !supported f m then pure "UNSUPPORTED" else
    match op with
    | "ev" =>
      let c ← nat
      let x ← many m.dim rat
      if singular m c x ∧ f ≠ Fam.D0 then pure "ABORT" else
      match evalCellAny f m c x with
      | none => pure "UNSUPPORTED"
      | some ce =>
        let phis := " ".intercalate (ce.phi.map (showPhi ce))
        pure s!"E {ce.phi.length} {b2s ce.hasGrad} {b2s ce.hasHess} {phis} T {showRats ce.img} {showMat ce.jac} {showRat ce.jdet}"
    | "ref" =>
      let c ← nat
      let np ← nat
      let pts ← many np (many m.dim rat)
      match tabOf f m.kind m.dim with
      | none => pure "UNSUPPORTED"
      | some tab =>
        if f = Fam.D0 then pure "UNSUPPORTED" else
        let perm := slotPerm f m c
        let sc := slotScale f m c
        let rows := pts.map fun x => " ".intercalate ((List.range tab.nloc).map fun i =>
          showRats ((tab.row x (perm.getD i i)).map (sc.getD i 1 * ·)))
        pure s!"R {tab.nloc} {b2s tab.hasGrad} {b2s tab.hasHess} {" ".intercalate rows}"
    | "evpts" =>
      let c ← nat
      let np ← nat
      let pts ← many np (many m.dim rat)
      let mut out := ""
      let mut hdr := ""
      for x in pts do
        if singular m c x ∧ f ≠ Fam.D0 then return "ABORT"
        match evalCellAny f m c x with
        | none => return "UNSUPPORTED"
        | some ce =>
          hdr := s!"P {ce.phi.length} {b2s ce.hasGrad} {b2s ce.hasHess}"
          out := out ++ " " ++ " ".intercalate (ce.phi.map (showPhi ce))
      pure (hdr ++ out)
    | "dofs" =>
      let nc := m.n m.dim
      let all := (List.range nc).flatMap fun c => localDofs f m c
      pure s!"D {numDofs f m} {nc} {numLocal f m.kind m.dim} {showNats all}"
    | "interp" =>
      if f = Fam.BF then return "UNSUPPORTED"
      let p ← polyP m.dim
      let nq ← nat
      let qs ← many nq (do let c ← nat; let x ← many m.dim rat; pure (c, x))
      let u := interpolateAny f m p
      let mut out := s!"I {showRatsL u} {nq}"
      let mut first := true
      for (c, x) in qs do
        if singular m c x ∧ f ≠ Fam.D0 then return "ABORT"
        match feEvalAny f m u c x with
        | none => return "UNSUPPORTED"
        | some (ce, v, g, h) =>
          if first then
            out := out ++ s!" {b2s ce.hasGrad} {b2s ce.hasHess}"
            first := false
          out := out ++ s!" {showRats ce.img} {showRat v}"
          if ce.hasGrad then out := out ++ s!" {showRats g}"
          if ce.hasHess then out := out ++ s!" {showMat h}"
      if first then
        match tabOf f m.kind m.dim with
        | some tab => out := out ++ s!" {b2s tab.hasGrad} {b2s tab.hasHess}"
        | none => pure ()
      pure out
    | "evcfg" =>
      let c ← nat
      let x ← many m.dim rat
      let mask ← nat
      let _poison ← nat
      match tabOf f m.kind m.dim with
      | none => pure "UNSUPPORTED"
      | some tab =>
        let caps := deliverCaps f tab
        if !(evcfgMasks.contains mask) ∨ (List.range 6).any (fun b => hasBit mask (2 ^ b) && !hasBit caps (2 ^ b)) then
          pure "UNSUPPORTED-MASK"
        else if singular m c x ∧ f ≠ Fam.D0 then pure "ABORT" else
        match evalCellCfgAny f m c x mask, evalCellCfgAny f m c x caps with
        | some (nl, r), some (_, full) => pure s!"C {nl} {mask} {showRats r} F {caps} {showRats full}"
        | _, _ => pure "UNSUPPORTED"
    | "caps" =>
      match tabOf f m.kind m.dim with
      | none => pure "UNSUPPORTED"
      | some tab => pure s!"K {advertisedCaps f m.kind tab} {deliverCaps f tab} 127"
    | "tabcheck" =>
      match tabOf f m.kind m.dim with
      | none => pure "UNSUPPORTED"
      | some tab => pure s!"TAB {b2s tab.shapeOk} {b2s tab.samplesOk} {b2s tab.gradOk} {b2s tab.hessOk}"
    | _ => throw s!"unknown op {op}"

def step (ts : Toks) : String :=
  match run handle ts with
  | .ok s => s
  | .error e => s!"BAD-OP {e}"

end FeatModel.DrvC15

def main (args : List String) : IO Unit := FeatModel.Proto.mainWith FeatModel.DrvC15.step args
