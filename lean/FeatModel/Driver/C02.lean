import FeatModel.Model.Proto
import FeatModel.Model.LA.Rebuild
/-! line-protocol driver for the C02 models (chains of conversion / clone / transpose / permute / rebuild);
    the line format is documented in harness/c02/main.cpp -/
open FeatModel FeatModel.Proto FeatModel.LA

namespace FeatModel.DrvC02

abbrev Mat := LA.Mat Rat

def showDense (d : List (List Rat)) : String := " ".intercalate ("D" :: d.flatten.map showRat)

def dumpWith (v : String) : Mat → String
  | .csr A => " ".intercalate ["csr", toString A.rows, toString A.cols, toString A.usedElements,
      showNatsL A.colInd.toList, showNatsL A.rowPtr.toList, showRatsL A.val.toList, v, showDense A.toDense]
  | .cscr A => " ".intercalate ["cscr", toString A.rows, toString A.cols, toString A.usedElements, toString A.usedRows,
      showNatsL A.colInd.toList, showNatsL A.rowPtr.toList, showNatsL A.rowNumbers.toList, showRatsL A.val.toList, v,
      showDense A.toDense]
  | .banded A => " ".intercalate ["banded", toString A.rows, toString A.cols, toString A.usedElements, toString A.noo,
      showNatsL A.offsets.toList, showRatsL A.val.toList, v, showDense A.toDense]
  | .dense A => " ".intercalate ["dense", toString A.rows, toString A.cols, showRatsL A.val.toList, v, showDense A.toDense]
  | .bcsr A => " ".intercalate ["bcsr", toString A.bh, toString A.bw, toString A.rows, toString A.cols,
      toString A.usedElements, showNatsL A.colInd.toList, showNatsL A.rowPtr.toList, showRatsL A.val.toList, v,
      showDense A.toDense]

/-- every dump carries the structural validity `Mat.valid` of the container (`V1` / `V0`) -/
def dump (m : Mat) : String := dumpWith (if m.valid then "V1" else "V0") m

/-- the arrays of a container as a heap + handle (ids in `_elements` / `_indices` order); a container without
    (non-null) arrays has empty id lists -/
def heapOf : Mat → Heap Rat × Handle
  | .csr A => (⟨#[A.val], #[A.colInd, A.rowPtr]⟩,
      ⟨if A.val.size > 0 then [0] else [], if A.colInd.size > 0 && A.rowPtr.size > 0 then [0, 1] else []⟩)
  | .cscr A => (⟨#[A.val], #[A.colInd, A.rowPtr, A.rowNumbers]⟩,
      ⟨if A.val.size > 0 then [0] else [], if A.colInd.size > 0 && A.rowPtr.size > 0 then [0, 1, 2] else []⟩)
  | .banded A => (⟨#[A.val], #[A.offsets]⟩, ⟨if A.val.size > 0 then [0] else [], if A.offsets.size > 0 then [0] else []⟩)
  | .dense A => (⟨#[A.val], #[]⟩, ⟨if A.val.size > 0 then [0] else [], []⟩)
  | .bcsr A => (⟨#[A.val], #[A.colInd, A.rowPtr]⟩,
      ⟨if A.val.size > 0 then [0] else [], if A.colInd.size > 0 && A.rowPtr.size > 0 then [0, 1] else []⟩)

/-- the write-through marker of the harness -/
def mark : Rat := mkRat 987654321 7

def showK (m : Mat) (mode : CloneMode) : String :=
  let hc := heapOf m
  let o := cloneObservation hc.1 hc.2 mode mark 0
  let b := fun (x : Bool) => if x then "1" else "0"
  s!"K {b o.1} {b o.2.1} {b o.2.2.1} {b o.2.2.2} "

def initP : P Mat := do
  let fmt ← tok
  match fmt with
  | "csr" =>
    let r ← nat; let c ← nat; let rp ← natList; let ci ← natList; let v ← ratList
    if v.isEmpty then pure (.csr (Csr.entryFree r c))
    else pure (.csr ⟨r, c, rp.toArray, ci.toArray, v.toArray⟩)
  | "cscr" =>
    let r ← nat; let c ← nat; let rp ← natList; let ci ← natList; let v ← ratList; let rn ← natList
    if v.isEmpty then pure (.cscr ⟨r, c, #[], #[], #[], #[]⟩)
    else pure (.cscr ⟨r, c, rp.toArray, ci.toArray, v.toArray, rn.toArray⟩)
  | "banded" =>
    let r ← nat; let c ← nat; let off ← natList; let v ← ratList
    pure (.banded ⟨r, c, off.toArray, v.toArray⟩)
  | "dense" =>
    let r ← nat; let c ← nat; let v ← ratList
    pure (.dense ⟨r, c, v.toArray⟩)
  | "bcsr" =>
    let bh ← nat; let bw ← nat
    let r ← nat; let c ← nat; let rp ← natList; let ci ← natList; let v ← ratList
    if !([(2, 2), (2, 3), (3, 2)].contains (bh, bw)) then throw "bad block size"
    if v.isEmpty then pure (.bcsr ⟨bh, bw, r, c, #[], #[], #[]⟩)
    else pure (.bcsr ⟨bh, bw, r, c, rp.toArray, ci.toArray, v.toArray⟩)
  | _ => throw s!"unknown format {fmt}"

/-- parse one operation token (with its arguments) -/
def opP : P (Option Op) := do
  let op ← tok
  match op with
  | "tocsr" => pure (some .tocsr)
  | "tobanded" => pure (some .tobanded)
  | "tocscr" => pure (some .tocscr)
  | "clone" =>
    let k ← nat
    match k with
    | 0 => pure (some (.clone .shallow))
    | 1 => pure (some (.clone .layout))
    | 2 => pure (some (.clone .weak))
    | 3 => pure (some (.clone .deep))
    | 4 => pure (some (.clone .allocate))
    | _ => pure none
  | "layout" => pure (some .layout)
  | "graph" => pure (some .graph)
  | "tr" => pure (some .tr)
  | "tri" => pure (some .tri)
  | "perm" =>
    let p ← natList; let q ← natList
    pure (some (.perm p.toArray q.toArray))
  | "it" => pure (some .it)
  | "dt" => pure (some .dt)
  | _ => pure none

def modeP : P (Option CloneMode) := do
  match (← nat) with
  | 0 => pure (some .shallow)
  | 1 => pure (some .layout)
  | 2 => pure (some .weak)
  | 3 => pure (some .deep)
  | _ => pure none

def fmtOf : String → Option Fmt
  | "csr" => some .csr | "banded" => some .banded | "cscr" => some .cscr | "dense" => some .dense | "bcsr" => some .bcsr
  | _ => none

/-- operations with an aliased / pre-existing target; `none` = the token is not one of them -/
def aopP (op : String) : P (Option (Option AOp)) := do
  match op with
  | "trs" => pure (some (some .trs))
  | "trt" => let k ← nat; pure (some (some (.trt k)))
  | "convs" => pure (some (some .convs))
  | "convt" =>
    let k ← nat; let f ← tok
    pure (some ((fmtOf f).map (AOp.convt k)))
  | "clones" => pure (some ((← modeP).map AOp.clones))
  | "clonet" => let k ← nat; pure (some ((← modeP).map (AOp.clonet k)))
  | "copys" => pure (some (some .copys))
  | "copyt" => let k ← nat; pure (some (some (.copyt k)))
  | _ => pure none

/-- old content of a prepared target (the harness fills it with 7) -/
def fill : Rat := 7

/-- the aliasing observation printed in front of the dump of a clone / layout rebuild -/
def prefixOf (m : Mat) : Op → String
  | .clone mode => showK m mode
  | .layout => showK m .layout
  | _ => ""

/-- extension operations (`Mat.stepX`); `perm` on a blocked matrix and `tri` on a dense one are routed here -/
def xopP (m : Mat) (op : String) : P (Option XOp) := do
  match op, m with
  | "it", _ => pure (some .itx)
  | "dt", _ => pure (some .dtx)
  | "dtw", _ => pure (some .dtw)
  | "layoutz", _ => pure (some .layoutz)
  | "layouta", _ => let k ← nat; pure (some (.layouta k))
  | "graphz", _ => pure (some .graphz)
  | "perm", .bcsr _ => let p ← natList; let q ← natList; pure (some (.bperm p.toArray q.toArray))
  | "tri", .dense _ => pure (some .triDense)
  | "xclone", _ =>
    let d ← nat; let i ← nat
    if d > 1 || i > 1 || (d == 0 && i == 0) then pure none else pure (some (.xclone (d == 1) (i == 1)))
  | _, _ => pure none

/-- the 13 aliasing observations of a cross-type clone chain a -> b -> c: (sv si w w) for a/b, b/c, a/c, then
    "formatting the source changes the final clone" -/
def showX (m : Mat) (dDiff iDiff : Bool) (mode : CloneMode) : String :=
  let hc := heapOf m
  let r1 := hc.1.xclone (truncBits 53) hc.2 dDiff iDiff mode
  let r2 := r1.1.xclone (truncBits 53) r1.2 dDiff iDiff mode
  let h := r2.1
  let b := fun (x : Bool) => if x then "1" else "0"
  let one := fun (o : Bool × Nat × Bool × Bool) => s!"{b o.1} {o.2.1} {b o.2.2.1} {b o.2.2.2}"
  let ac := pairObservation h hc.2 r2.2 mark 0
  s!"X {one (pairObservation h hc.2 r1.2 mark 0)} {one (pairObservation h r1.2 r2.2 mark 0)} {one ac} {b ac.2.2.1} "

def prefixX (m : Mat) : XOp → String
  | .layoutz | .layouta _ => "AL1 " ++ showK m .layout
  | _ => ""

def stepsP : Nat → Mat → String → P String
  | 0, _, acc => pure acc
  | n + 1, m, acc => do
    let ts ← get
    let name := ts.headD ""
    match (← (do let _ ← tok; xopP m name)) with
    | some (.xclone d i) =>
      let k ← nat
      let mode? : Option CloneMode := match k with
        | 0 => some .shallow | 1 => some .layout | 2 => some .weak | 3 => some .deep | 4 => some .allocate | _ => none
      match mode? with
      | some mode =>
        match m.stepX (truncBits 53) (.xclone d i) with
        | .ok t _ => stepsP n t (acc ++ "| " ++ showX m d i mode ++ dump t ++ " ")
        | _ => pure "BAD-OP"
      | none => pure "BAD-OP"
    | some x =>
      if m.crashesX x then pure "CRASH" else
      match m.stepX roundDt x with
      | .ok t (some src) => stepsP n t (acc ++ "| " ++ prefixX m x ++ "S " ++ dump src ++ " " ++ dump t ++ " ")
      | .ok t none => stepsP n t (acc ++ "| " ++ prefixX m x ++ dump t ++ " ")
      | .abort => pure "ABORT"
      | .bad => pure "BAD-OP"
    | none =>
    set ts
    match (← (do let _ ← tok; aopP name)) with
    | some none => pure "BAD-OP"
    | some (some a) =>
      match m.stepAlias fill a with
      | .ok t src =>
        let pre := match a with
          | .clonet _ mode => showK m mode
          | _ => ""
        stepsP n t (acc ++ "| " ++ pre ++ "S " ++ dump src ++ " " ++ dump t ++ " ")
      | .self t => stepsP n t (acc ++ "| " ++ dump t ++ " ")
      | .abort => pure "ABORT"
      | .bad => pure "BAD-OP"
    | none =>
      set ts
      match (← opP) with
      | none => pure "BAD-OP"
      | some o =>
        match m.stepCode o with
        | .ok m' => stepsP n m' (acc ++ "| " ++ prefixOf m o ++ dump m' ++ " ")
        | .abort => pure "ABORT"
        | .crash => pure "CRASH"
        | .bad => pure "BAD-OP"

/-- vectors (`vecx` lines): (kind, size, index array, value array) -/
structure VecX where
  kind : String
  size : Nat
  idx : Array Nat
  val : Array Rat

def dumpVecX (v : VecX) : String :=
  " ".intercalate [v.kind, toString v.size, showNatsL v.idx.toList, showRatsL v.val.toList]

/-- cross-type clone / convert chain of a vector: the same `Container` code path, i.e. the same heap model -/
def showXVec (v : VecX) (useClone : Bool) (dDiff iDiff : Bool) (mode : CloneMode) : String :=
  let h0 : Heap Rat := ⟨#[v.val], #[v.idx]⟩
  let c0 : Handle := ⟨if v.val.size > 0 then [0] else [], if v.idx.size > 0 then [0] else []⟩
  -- DenseVector(Blocked)::convert = assign; SparseVector::convert = "a deep copy in any case"
  let stepH := fun (h : Heap Rat) (c : Handle) =>
    if useClone then h.xclone (truncBits 53) c dDiff iDiff mode
    else if v.kind == "sv" then h.xclone (truncBits 53) c dDiff iDiff .deep
    else h.assign (truncBits 53) c dDiff iDiff
  let r1 := stepH h0 c0
  let r2 := stepH r1.1 r1.2
  let b := fun (x : Bool) => if x then "1" else "0"
  let one := fun (o : Bool × Nat × Bool × Bool) => s!"{b o.1} {o.2.1} {b o.2.2.1} {b o.2.2.2}"
  let ac := pairObservation r2.1 c0 r2.2 mark 0
  s!"X {one (pairObservation r2.1 c0 r1.2 mark 0)} {one (pairObservation r2.1 r1.2 r2.2 mark 0)} {one ac} {b ac.2.2.1} "

def vecxStepsP : Nat → VecX → String → P String
  | 0, _, acc => pure acc
  | n + 1, v, acc => do
    let op ← tok
    let d ← nat; let i ← nat
    let useClone := op == "xclone"
    if !useClone && op != "xconv" then pure "BAD-OP" else
    let k ← (if useClone then nat else pure 0)
    let mode? : Option CloneMode := match k with
      | 0 => some .shallow | 1 => some .layout | 2 => some .weak | 3 => some .deep | 4 => some .allocate | _ => none
    match mode? with
    | none => pure "BAD-OP"
    | some mode =>
      if d > 1 || i > 1 || (d == 0 && i == 0) then pure "BAD-OP" else
      let v' : VecX := { v with val := if d == 1 then v.val.map (truncBits 53) else v.val,
                                idx := if i == 1 then narrow32 (narrow32 v.idx) else v.idx }
      vecxStepsP n v' (acc ++ "| " ++ showXVec v useClone (d == 1) (i == 1) mode ++ dumpVecX v' ++ " ")

def vecxP : P String := do
  let kind ← tok
  let v ← (match kind with
    | "dv" => do let x ← ratList; pure (some (⟨"dv", x.length, #[], x.toArray⟩ : VecX))
    | "dvb" => do let x ← ratList; pure (some (⟨"dvb", x.length / 2, #[], x.toArray⟩ : VecX))
    | "sv" => do
      let n ← nat; let ix ← natList; let x ← ratList
      pure (some (if x.isEmpty then ⟨"sv", n, #[], #[]⟩ else ⟨"sv", n, ix.toArray, x.toArray⟩ : VecX))
    | _ => pure none)
  match v with
  | none => pure "BAD-OP"
  | some v =>
    let n ← nat
    vecxStepsP n v ("| " ++ dumpVecX v ++ " ")

def vecStepsP : Nat → Array Rat → String → P String
  | 0, _, acc => pure acc
  | n + 1, x, acc => do
    let op ← tok
    if op != "vperm" then pure "BAD-OP" else
    let p ← natList
    match vecPermute x p.toArray with
    | some y => vecStepsP n y (acc ++ "| vec " ++ showRatsL y.toList ++ " ")
    | none => pure "ABORT"

def handle : P String := do
  let it ← nat
  if it != 32 && it != 64 then throw "bad index type"
  if (← get).headD "" == "vecx" then
    let _ ← tok
    vecxP
  else if (← get).headD "" == "vec" then
    let _ ← tok
    let x ← ratList
    let n ← nat
    vecStepsP n x.toArray ("| vec " ++ showRatsL x ++ " ")
  else
  let m ← initP
  let n ← nat
  stepsP n m ("| " ++ dump m ++ " ")

def step (ts : Toks) : String :=
  match run handle ts with
  | .ok s => s
  | .error _ => "BAD-OP"

end FeatModel.DrvC02

def main (args : List String) : IO Unit := FeatModel.Proto.mainWith FeatModel.DrvC02.step args
