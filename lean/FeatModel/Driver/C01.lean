import FeatModel.Model.Proto
import FeatModel.Model.LA.Csr
import FeatModel.Model.LA.Cscr
import FeatModel.Model.LA.Bcsr
import FeatModel.Model.LA.Banded
import FeatModel.Model.LA.Dense
import FeatModel.Model.LA.Meta
/-! line-protocol driver for the C01 models (matrix-vector products of every LAFEM storage format);
    the line format is documented in harness/c01/main.cpp -/
open FeatModel FeatModel.Proto FeatModel.LA

namespace FeatModel.DrvC01

def tiny : Rat → Bool := tinyRat epsQ

/-- initial content of `r` in the harness when `r` is a separate vector -/
def sentinel : Rat := 777

structure Tail where
  alpha : Rat
  x : Array Rat
  y : Array Rat
  alias : Bool

def tailP : P Tail := do
  let alpha ← rat; let x ← ratList; let y ← ratList; let al ← nat
  pure { alpha := alpha, x := x.toArray, y := y.toArray, alias := al != 0 }

def showR : Option (Array Rat) → String
  | none => "ABORT"
  | some r => s!"R {showRatsL r.toList} U1"

def showD (rows cols : Nat) (d : List (List Rat)) : String :=
  " ".intercalate (["D", toString rows, toString cols] ++ (d.flatten.map showRat))

/-- generic dispatch of the four vector operations: `ap x r transposed`, `ax x y r alpha alias transposed` -/
def runOp (op : String) (t : Tail) (nr nrT : Nat)
    (ap : Array Rat → Array Rat → Bool → Option (Array Rat))
    (ax : Array Rat → Array Rat → Array Rat → Rat → Bool → Bool → Option (Array Rat)) : Except String String :=
  match op with
  | "apply" => pure (showR (ap t.x (Array.replicate nr sentinel) false))
  | "applyT" => pure (showR (ap t.x (Array.replicate nrT sentinel) true))
  | "axpy" => pure (showR (ax t.x t.y (if t.alias then t.y else Array.replicate nr sentinel) t.alpha t.alias false))
  | "axpyT" => pure (showR (ax t.x t.y (if t.alias then t.y else Array.replicate nrT sentinel) t.alpha t.alias true))
  | _ => throw s!"unknown op {op}"

/-- prefix tree expression of a meta-matrix (see harness/c01/meta.cpp) -/
partial def treeP : P (MetaMat Rat) := do
  let t ← tok
  match t with
  | "R" => let f ← treeP; let r ← treeP; pure (.row f r)
  | "C" => let f ← treeP; let r ← treeP; pure (.col f r)
  | "D" => let f ← treeP; let r ← treeP; pure (.diag f r)
  | "S" => let a ← treeP; let b ← treeP; let d ← treeP; pure (.saddle a b d)
  | "csr" =>
    let rows ← nat; let cols ← nat; let rp ← natList; let ci ← natList; let v ← ratList
    pure (.csr { rows := rows, cols := cols, rowPtr := rp.toArray, colInd := ci.toArray, val := v.toArray })
  | "bcsr" =>
    let bh ← nat; let bw ← nat; let rows ← nat; let cols ← nat; let rp ← natList; let ci ← natList; let v ← ratList
    pure (.bcsr { bh := bh, bw := bw, rows := rows, cols := cols, rowPtr := rp.toArray, colInd := ci.toArray,
                  val := v.toArray })
  | "dense" =>
    let rows ← nat; let cols ← nat; let v ← ratList
    pure (.dense { rows := rows, cols := cols, val := v.toArray })
  | "cscr" =>
    let rows ← nat; let cols ← nat; let rp ← natList; let ci ← natList; let v ← ratList; let rn ← natList
    pure (.cscr { rows := rows, cols := cols, rowPtr := rp.toArray, colInd := ci.toArray, val := v.toArray,
                  rowNumbers := rn.toArray })
  | "banded" =>
    let rows ← nat; let cols ← nat; let off ← natList; let v ← ratList
    pure (.banded { rows := rows, cols := cols, offsets := off.toArray, val := v.toArray })
  | _ => throw s!"bad tree token {t}"

def itP : P Unit := do
  let it ← nat
  if it != 32 && it != 64 then throw "bad index type"

def handle : P String := do
  let fmt ← tok
  match fmt with
  | "csr" =>
    itP
    let op ← tok; let rows ← nat; let cols ← nat
    let rp ← natList; let ci ← natList; let v ← ratList
    let t ← tailP
    let A : Csr Rat := { rows := rows, cols := cols, rowPtr := rp.toArray, colInd := ci.toArray, val := v.toArray }
    if op == "dense" then pure (showD rows cols A.toDense) else
    match runOp op t rows cols (fun x r tr => A.applyQ x r tr) (fun x y r al ali tr => A.applyAxpyQ x y r al ali tr) with
    | .ok s => pure s
    | .error e => throw e
  | "csrsb" =>
    itP
    let bs ← nat
    let op ← tok; let rows ← nat; let cols ← nat
    let rp ← natList; let ci ← natList; let v ← ratList
    let t ← tailP
    if bs < 1 || bs > 3 then throw "bad block size"
    let A : Csr Rat := { rows := rows, cols := cols, rowPtr := rp.toArray, colInd := ci.toArray, val := v.toArray }
    match op with
    | "apply" => pure (showR (A.applySBQ bs t.x (Array.replicate (rows * bs) sentinel)))
    | "axpy" => pure (showR (A.applyAxpySBQ bs t.x t.y (if t.alias then t.y else Array.replicate (rows * bs) sentinel) t.alpha t.alias))
    | _ => throw s!"unknown op {op}"
  | "cscr" =>
    itP
    let op ← tok; let rows ← nat; let cols ← nat
    let rp ← natList; let ci ← natList; let v ← ratList; let rn ← natList
    let t ← tailP
    let A : Cscr Rat := { rows := rows, cols := cols, rowPtr := rp.toArray, colInd := ci.toArray, val := v.toArray,
                          rowNumbers := rn.toArray }
    if op == "dense" then pure (showD rows cols A.toDense) else
    match runOp op t rows cols (fun x r tr => A.applyQ x r tr) (fun x y r al ali tr => A.applyAxpyQ x y r al ali tr) with
    | .ok s => pure s
    | .error e => throw e
  | "bcsr" =>
    itP
    let bh ← nat; let bw ← nat; let vk ← nat
    let op ← tok; let rows ← nat; let cols ← nat
    let rp ← natList; let ci ← natList; let v ← ratList
    let t ← tailP
    if !([(1,1),(2,2),(2,3),(3,2),(3,1),(1,3)].contains (bh, bw)) then throw "bad block size"
    if vk > 4 || (vk == 4 && op != "axpy" && op != "axpyT") then throw "bad vector kind"
    let A : Bcsr Rat := { bh := bh, bw := bw, rows := rows, cols := cols, rowPtr := rp.toArray, colInd := ci.toArray,
                          val := v.toArray }
    if op == "dense" then pure (showD (rows * bh) (cols * bw) A.toDense) else
    -- the mixed overload (vk = 4) has no aliased form: r and y have different types
    let t := if vk == 4 then { t with alias := false } else t
    match runOp op t (rows * bh) (cols * bw) (fun x r tr => A.applyQ x r tr)
        (fun x y r al ali tr => A.applyAxpyQ x y r al ali tr) with
    | .ok s => pure s
    | .error e => throw e
  | "banded" =>
    itP
    let op ← tok; let rows ← nat; let cols ← nat
    let off ← natList; let v ← ratList
    let t ← tailP
    let A : Banded Rat := { rows := rows, cols := cols, offsets := off.toArray, val := v.toArray }
    if op == "dense" then pure (showD rows cols A.toDense) else
    match runOp op t rows cols (fun x r tr => A.applyQ x r tr) (fun x y r al ali tr => A.applyAxpyQ x y r al ali tr) with
    | .ok s =>
      -- `banded_transposed_generic` is XABORTM("not implemented") (sizes always match here; an empty result returns early)
      if s == "ABORT" && (op == "applyT" || op == "axpyT") then pure "ABORT:not-offered"
      else pure s
    | .error e => throw e
  | "dense" =>
    let op ← tok; let rows ← nat; let cols ← nat
    let v ← ratList
    let t ← tailP
    let A : Dense Rat := { rows := rows, cols := cols, val := v.toArray }
    if op == "dense" then pure (showD rows cols A.toDense) else
    match runOp op t rows cols (fun x r tr => A.applyQ x r tr) (fun x y r al ali tr => A.applyAxpyQ x y r al ali tr) with
    | .ok s => pure s
    | .error e => throw e
  | "meta" =>
    let ty ← tok; let op ← tok
    let M ← treeP
    let t ← tailP
    let _ := ty
    -- the overloads with flat DenseVector operands (op suffix F) act on the same pod arrays as the Tuple/PowerVector ones
    let flat := op.endsWith "F"
    let op := if flat then (op.dropRight 1) else op
    let tr := op == "applyT" || op == "axpyT"
    let nOut := if tr then M.cols else M.rows
    -- Tuple/PowerVector operands: the tree model `goSQ` on the unflattened vectors; flat operands: `goQ` with offsets
    let run := fun (ax : Option Rat) (x y r : Array Rat) (ali : Bool) =>
      if flat then M.goQ tr ax x y r ali
      else
        let xs := M.unflatten tr x; let ys := M.unflatten (!tr) y; let rs := M.unflatten (!tr) r
        -- the shape hypotheses of C01.meta_structured_tied are evaluated on every case
        if !(M.fits tr xs && M.fits (!tr) ys && M.fits (!tr) rs) then none
        else (M.goSQ tr ax xs ys rs ali).map MetaVec.flatten
    match op with
    | "apply" | "applyT" =>
      let r := Array.replicate nOut sentinel
      pure (showR (run none t.x r r true))
    | "axpy" | "axpyT" =>
      let r := if t.alias then t.y else Array.replicate nOut sentinel
      pure (showR (run (some t.alpha) t.x t.y r t.alias))
    | _ => throw s!"unknown op {op}"
  | _ => throw s!"unknown format {fmt}"

def step (ts : Toks) : String :=
  match run handle ts with
  | .ok s => s
  | .error e => s!"BAD-OP {e}"

end FeatModel.DrvC01

def main (args : List String) : IO Unit := FeatModel.Proto.mainWith FeatModel.DrvC01.step args
