import FeatModel.Model.Proto
import FeatModel.Model.Adjacency
/-! line-protocol driver for the C19 models (graph renders, permutations, colouring, Cuthill–McKee) -/
open FeatModel FeatModel.Proto FeatModel.Adj

namespace FeatModel.DrvC19

def graphP : P Graph := do
  let nImg ← nat
  let nDom ← nat
  let adj ← many nDom natList
  pure { nImg := nImg, adj := adj }

def showGraph (g : Graph) : String :=
  s!"G {g.nImg} {showNatsL g.domainPtr} {showNatsL g.imageIdx}"

def showPerm (p : Perm.Permutation) : String := s!"P {showNatsL p.perm} {showNatsL p.swap}"

def rootOf : Nat → CM.RootType
  | 1 => .minDeg | 2 => .maxDeg | _ => .standard
def sortOf : Nat → CM.SortType
  | 1 => .asc | 2 => .desc | _ => .standard

def handle : P String := do
  let op ← tok
  match op with
  | "render" =>
    let rt ← nat; let g ← graphP
    match g.render rt with
    | some r => pure (showGraph r)
    | none => pure "ABORT"
  | "render2" =>
    let rt ← nat; let a ← graphP; let b ← graphP
    match Graph.renderComposite rt a b with
    | some r => pure (showGraph r)
    | none => pure "ABORT"
  | "sort" =>
    let g ← graphP
    pure (showGraph g.sortIndices)
  | "gperm" =>
    let g ← graphP; let dp ← natList; let ip ← natList
    pure (showGraph (g.permuted dp ip))
  | "perm" =>
    let kind ← nat; let v ← natList
    match Perm.construct kind v with
    | some p => pure (showPerm p)
    | none => pure "HANG"
  | "apply" =>
    -- construct, then apply in-situ / in-situ inverse / out-of-place / out-of-place inverse to x
    let kind ← nat; let v ← natList; let x ← natList
    match Perm.construct kind v with
    | none => pure "HANG"
    | some p =>
      let a := (Perm.applySwaps p.swap x.toArray).toList
      let b := (Perm.applySwapsInv p.swap x.toArray).toList
      let c := Perm.applyPerm p.perm x
      let d := Perm.applyPermInv p.perm x
      pure s!"A {showNatsL a} {showNatsL b} {showNatsL c} {showNatsL d}"
  | "concat" =>
    let p1 ← natList; let p2 ← natList
    match Perm.concat p1 p2 with
    | some p => pure (showPerm p)
    | none => pure "HANG"
  | "inverse" =>
    let p ← natList
    match Perm.construct 4 p with
    | some q => pure (showPerm q)
    | none => pure "HANG"
  | "color" =>
    let g ← graphP
    let st := Coloring.greedy g
    let col := st.coloring.toList
    pure s!"C {st.numColors} {showNatsL col} {showGraph (Coloring.partitionGraph st.numColors col)}"
  | "colororder" =>
    let g ← graphP; let order ← natList
    let st := Coloring.greedyOrdered g order
    let col := st.coloring.toList
    pure s!"C {st.numColors} {showNatsL col} {showGraph (Coloring.partitionGraph st.numColors col)}"
  | "cm" =>
    let rev ← nat; let rt ← nat; let st ← nat; let g ← graphP
    match CM.compute g (rev != 0) (rootOf rt) (sortOf st) with
    | none => pure "ABORT"
    | some (perm, layers) =>
      match Perm.swapFromPerm perm with
      | none => pure "HANG"
      | some s => pure s!"CM {showNatsL perm} {showNatsL s} {showNatsL layers}"
  | _ => throw s!"unknown op {op}"

def step (ts : Toks) : String :=
  match run handle ts with
  | .ok s => s
  | .error e => s!"BAD-OP {e}"

end FeatModel.DrvC19

def main (args : List String) : IO Unit := FeatModel.Proto.mainWith FeatModel.DrvC19.step args
