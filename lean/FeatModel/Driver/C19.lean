import FeatModel.Model.Proto
import FeatModel.Model.Adjacency
import FeatModel.Model.AdjKernels
/-! line-protocol driver for the C19 models (graph renders, permutations, colouring, Cuthill–McKee) -/
open FeatModel FeatModel.Proto FeatModel.Adj

namespace FeatModel.DrvC19

def graphP : P Graph := do
  let nImg ← nat
  let nDom ← nat
  let adj ← many nDom natList
  let g : Graph := { nImg := nImg, adj := adj }
  -- the hypothesis `g.wf = true` of the kernel theorems is evaluated on every input graph
  if g.wf then pure g else throw "graph not well-formed (image index >= num_nodes_image)"

/-- a graph as the harness shows it: the two vectors and the scalar observers
(`get_num_nodes_domain`, `get_num_indices`, `degree()`, `degree(i)` for every domain node) -/
def showArrays (a : Arrays) : String :=
  let n := a.ptr.size - 1
  s!"G {a.nImg} {showNatsL a.ptr.toList} {showNatsL a.idx.toList} Q {n} {a.idx.size} {Kern.degreeAll a} {showNatsL ((List.range n).map (Kern.degreeAt a))}"

def showGraph (g : Graph) : String := showArrays (Arrays.ofGraph g)

/-- the lazy `CompositeAdjactor<Graph,Graph>` as an adjactor: images through the iterator model.
`image_begin` skips leading empty adjactor-2 lists (1c006df21, FINDINGS_C19.md F-C19-5);
`C19.compositeIterator_fixed_spec`: the images are the lazy `flatMap`, for every input. -/
def lazyComposite (a b : Graph) : Adjactor :=
  { nDom := a.nDom, nImg := b.nImg,
    fold := fun i f s => ((CompIt.imagesOfFixed a b i).getD []).foldl f s }

def showBool (b : Bool) : String := if b then "1" else "0"

/-- the `dyn` script interpreter (one token group per operation) -/
def dynLoop : Nat → DynGraph → List String → P (List String)
  | 0, _, out => pure out
  | fuel + 1, g, out => do
    let ts ← get
    if ts.isEmpty then pure out
    else
      let k ← tok
      match k with
      | "i" => let d ← nat; let im ← nat; let r := g.insert d im; dynLoop fuel r.1 (out ++ [showBool r.2])
      | "e" => let d ← nat; let im ← nat; let r := g.erase d im; dynLoop fuel r.1 (out ++ [showBool r.2])
      | "x" => let d ← nat; let im ← nat; dynLoop fuel g (out ++ [showBool (g.exists d im)])
      | "c" => dynLoop fuel g.clear (out ++ ["c"])
      | "l" => dynLoop fuel g (out ++ ["l"])
      | "g" =>
        let degs := (List.range g.nDom).map g.degreeAt
        dynLoop fuel g (out ++ [s!"{g.degreeAll} {g.numIndices} {showNatsL degs}"])
      | "r" =>
        let rt ← nat
        match Kern.render rt (Adjactor.ofGraph g.toGraph) with
        | some a => dynLoop fuel g (out ++ [showArrays a])
        | none => pure (out ++ ["ABORT"])
      | _ => throw s!"unknown dyn op {k}"

def showPerm (p : Perm.Permutation) : String := s!"P {showNatsL p.perm} {showNatsL p.swap}"

def rootOf : Nat → CM.RootType
  | 1 => .minDeg | 2 => .maxDeg | _ => .standard
def sortOf : Nat → CM.SortType
  | 1 => .asc | 2 => .desc | _ => .standard

def handle : P String := do
  let op ← tok
  match op with
  | "render" =>
    let rt ← nat; let g ← graphP
    -- array-level kernel (proved equal to `g.render rt`, C19.kernel_render_eq)
    match Kern.render rt (Adjactor.ofGraph g) with
    | some r => pure (showArrays r)
    | none => pure "ABORT"
  | "render2" =>
    let rt ← nat; let a ← graphP; let b ← graphP
    -- array-level two-adjactor kernel (proved equal to `renderComposite`, C19.kernel_render2_eq)
    match Kern.render2 rt a b with
    | some r => pure (showArrays r)
    | none => pure "ABORT"
  | "sort" =>
    let g ← graphP
    match Kern.sortSegments (Arrays.ofGraph g) with
    | some r => pure (showArrays r)
    | none => pure "ABORT"
  | "gperm" =>
    let g ← graphP; let dp ← natList; let ip ← natList
    pure (showGraph (g.permuted dp ip))
  | "perm" =>
    let kind ← nat; let v ← natList
    match Perm.construct kind v with
    | some p => pure (showPerm p)
    | none => pure "HANG"
  | "apply" =>
    -- construct, then apply in-situ / in-situ inverse / out-of-place / out-of-place inverse to x
    let kind ← nat; let v ← natList; let x ← natList
    match Perm.construct kind v with
    | none => pure "HANG"
    | some p =>
      let a := (Perm.applySwaps p.swap x.toArray).toList
      let b := (Perm.applySwapsInv p.swap x.toArray).toList
      let c := Perm.applyPerm p.perm x
      let d := Perm.applyPermInv p.perm x
      pure s!"A {showNatsL a} {showNatsL b} {showNatsL c} {showNatsL d}"
  | "concat" =>
    let p1 ← natList; let p2 ← natList
    match Perm.concat p1 p2 with
    | some p => pure (showPerm p)
    | none => pure "HANG"
  | "inverse" =>
    let p ← natList
    match Perm.construct 4 p with
    | some q => pure (showPerm q)
    | none => pure "HANG"
  | "color" =>
    let g ← graphP
    let st := Coloring.greedy g
    let col := st.coloring.toList
    let pg := Coloring.partitionGraph st.numColors col
    pure s!"C {st.numColors} {showNatsL col} {showGraph pg} T {showGraph pg.transpose}"
  | "colororder" =>
    let g ← graphP; let order ← natList
    let st := Coloring.greedyOrdered g order
    let col := st.coloring.toList
    let pg := Coloring.partitionGraph st.numColors col
    pure s!"C {st.numColors} {showNatsL col} {showGraph pg} T {showGraph pg.transpose}"
  | "cm" =>
    let rev ← nat; let rt ← nat; let st ← nat; let g ← graphP
    match CM.compute g (rev != 0) (rootOf rt) (sortOf st) with
    | none => pure "ABORT"
    | some (perm, layers) =>
      match Perm.swapFromPerm perm with
      | none => pure "HANG"
      | some s => pure s!"CM {showNatsL perm} {showNatsL s} {showNatsL layers}"
  | "degree" =>
    let g ← graphP
    let a := Arrays.ofGraph g
    pure s!"D {Kern.degreeAll a} {showNatsL ((List.range g.nDom).map (Kern.degreeAt a))}"
  | "ctor" =>
    let kind ← nat; let g ← graphP
    let a := Arrays.ofGraph g
    match kind with
    | 0 | 1 | 4 => pure (showArrays a)
    | 2 => pure (showArrays (Kern.clone a))
    | 3 => let e := Kern.clone { nImg := 0, ptr := #[], idx := #[] }
           pure s!"G {e.nImg} {e.ptr.size - 1} {e.idx.size}"
    | _ => throw "unknown ctor kind"
  | "gpermidx" =>
    let g ← graphP; let ip ← natList
    let a := Arrays.ofGraph g
    match Perm.construct 2 ip with
    | none => pure "HANG"
    | some p =>
      match Kern.permuteIndices a p.perm with
      | some r => pure (showArrays r)
      | none => pure (if a.idx.isEmpty || a.nImg != p.perm.length then "ABORT" else "EXC")
  | "randperm" =>
    -- `Permutation(n, Random&)`: swap array drawn by the library RNG (repeated on the case line), then
    -- `calc_perm_from_swap`
    let n ← nat; let _seed ← nat; let sw ← natList
    if n = 0 then pure "ABORT"
    else match Perm.construct 3 sw with
      | some p => pure (showPerm p)
      | none => pure "HANG"
  | "permx" =>
    let v ← natList
    let r := do
      let p ← Perm.construct 2 v
      let i1 ← Perm.construct 4 p.perm
      let i2 ← Perm.construct 4 i1.perm
      let sq ← Perm.concat p.perm p.perm
      let pi ← Perm.concat p.perm i1.perm
      pure s!"X {showPerm i2} {showPerm p} {showPerm sq} {showPerm pi}"
    pure (r.getD "HANG")
  | "permself" =>
    let v ← natList
    let q := Perm.concatAliased v
    match Perm.swapFromPerm q with
    | some sw => pure (showPerm ⟨q, sw⟩)
    | none => pure "HANG"
  | "colorctor" =>
    let kind ← nat; let nc ← nat; let col ← natList
    let k := if kind == 1 then nc else Coloring.numDistinct col
    pure s!"K {k} {Coloring.maxColor k} {showNatsL col}"
  | "adjcomp" =>
    let a ← graphP; let b ← graphP
    if a.nImg > b.nDom then pure "ABORT"
    else
      let rows := (List.range a.nDom).map fun i => CompIt.imagesOfFixed a b i
      if rows.any (·.isNone) then pure "UB"
      else pure (" ".intercalate (s!"J {a.nDom} {b.nImg}" :: rows.map fun r => showNatsL (r.getD [])))
  | "adjrender" =>
    let rt ← nat; let a ← graphP; let b ← graphP
    if a.nImg > b.nDom then pure "ABORT"
    else if (List.range a.nDom).any (fun i => (CompIt.imagesOfFixed a b i).isNone) then pure "UB"
    else match Kern.render rt (lazyComposite a b) with
      | some r => pure (showArrays r)
      | none => pure "ABORT"
  | "dyn" =>
    let nImg ← nat; let nDom ← nat
    let ts ← get
    let out ← dynLoop (ts.length + 1) (DynGraph.empty nDom nImg) []
    pure (" ".intercalate ("Y" :: out))
  | "dynrender" =>
    let kind ← nat; let rt ← nat; let a ← graphP
    let tr := rt ≥ 4
    let fin (d : DynGraph) : String :=
      match Kern.render 0 (Adjactor.ofGraph d.toGraph) with
      | some r => showArrays r
      | none => "ABORT"
    match kind with
    | 1 => pure (fin (DynGraph.ofAdjactor (Adjactor.ofGraph a) tr))
    | 2 =>
      let b ← graphP
      if a.nImg != b.nDom then pure "ABORT"
      else pure (fin (DynGraph.ofAdjactor (Adjactor.composite a b) tr))
    | 3 =>
      let b ← graphP
      match (DynGraph.ofAdjactor (Adjactor.ofGraph a) tr).compose b with
      | some d => pure (fin d)
      | none => pure "ABORT"
    | _ => throw "unknown dynrender kind"
  | "applyblk" =>
    let kind ← nat; let v ← natList; let bs ← nat; let x ← natList
    match Perm.construct kind v with
    | none => pure "HANG"
    | some p =>
      let blocks := Perm.chunk bs p.perm.length x
      let a := (Perm.applySwaps p.swap blocks.toArray).toList
      let b := (Perm.applySwapsInv p.swap blocks.toArray).toList
      let c := Perm.applyPerm p.perm blocks
      let d := Perm.applyPermInv p.perm blocks
      pure s!"AB {showNatsL a.flatten} {showNatsL b.flatten} {showNatsL c.flatten} {showNatsL d.flatten}"
  | "dvperm" =>
    -- `DenseVector(Blocked)::permute(perm)`: nothing for the empty permutation, size check, `perm.apply(elements)`
    let blocked ← nat; let pv ← natList; let x ← natList
    let bs := if blocked == 0 then 1 else 2
    let n := x.length / bs
    if pv.isEmpty then pure s!"DV {showNatsL x}"
    else if pv.length != n then pure "ABORT"
    else match Perm.construct 2 pv with
      | none => pure "HANG"
      | some p =>
        let r := (Perm.applySwaps p.swap (Perm.chunk bs n x).toArray).toList
        pure s!"DV {showNatsL r.flatten}"
  | "isperm" =>
    -- `IndexSet<3>::permute(perm, inv_perm_face)`
    let pv ← natList; let qv ← natList; let bound ← nat; let x ← natList
    let n := x.length / 3
    let tuples := Perm.chunk 3 n x
    let fin (t : List (List Nat)) : String :=
      s!"IS {n} {bound} {showNatsL t.flatten} {showGraph ⟨bound, t⟩}"
    if tuples.isEmpty then pure (fin tuples)
    else if !pv.isEmpty && pv.length != n then pure "ABORT"
    else if !qv.isEmpty && qv.length != bound then pure "ABORT"
    else
      let r := do
        let t1 ← if pv.isEmpty then some tuples
                 else (Perm.construct 2 pv).map fun p => (Perm.applySwaps p.swap tuples.toArray).toList
        if qv.isEmpty then some t1 else some (t1.map fun t => t.map fun k => qv.getD k 0)
      match r with
      | some t => pure (fin t)
      | none => pure "HANG"
  | "vsperm" =>
    let inv ← nat; let pv ← natList; let x ← natList
    let n := x.length / 2
    let blocks := Perm.chunk 2 n x
    if pv.isEmpty || blocks.isEmpty then pure s!"VS {showNatsL blocks.flatten}"
    else if pv.length != n then pure "ABORT"
    else match Perm.construct 2 pv with
      | none => pure "HANG"
      | some p =>
        let r := if inv != 0 then Perm.applySwapsInv p.swap blocks.toArray else Perm.applySwaps p.swap blocks.toArray
        pure s!"VS {showNatsL r.toList.flatten}"
  | "csrperm" =>
    -- `SparseMatrixCSR(graph).permute(p, q)`: pattern = `Graph(graph, p, q⁻¹)` + `sort_indices`
    -- (C19.graph_csr_permute_consistent); the values travel with their entries
    let g0 ← graphP; let pv ← natList; let qv ← natList
    let g := g0.injectify.sortIndices
    let vals (h : Graph) (rowOf : Nat → Nat) (colKey : Nat → Nat) : List Nat :=
      ((List.range h.nDom).map fun i =>
        (Graph.sortList ((g.row (rowOf i)).map fun c => colKey c * 1000000 + (rowOf i * 1000 + c))).map (· % 1000000)).flatten
    if pv.isEmpty && qv.isEmpty then
      pure s!"CP {showGraph g} V {showNatsL (vals g id id)} {showGraph g}"
    else if pv.length != g.nDom || qv.length != g.nImg then pure "ABORT"
    else
      let qi := Perm.invPerm qv
      let r := (g.permuted pv qi).sortIndices
      pure s!"CP {showGraph r} V {showNatsL (vals r (fun i => pv.getD i 0) (fun c => qi.getD c 0))} {showGraph r}"
  | _ => throw s!"unknown op {op}"

def step (ts : Toks) : String :=
  match run handle ts with
  | .ok s => s
  | .error e => s!"BAD-OP {e}"

end FeatModel.DrvC19

def main (args : List String) : IO Unit := FeatModel.Proto.mainWith FeatModel.DrvC19.step args
