import FeatModel.Model.Proto
import FeatModel.Model.Dist
/-! line-protocol driver for the C13 models (mirrors, gate frequencies, type-0/type-1 synchronisation with an
explicit arrival order per patch, global dot product, global matrix-vector product) -/
open FeatModel FeatModel.Proto FeatModel.Dist

namespace FeatModel.DrvC13

/-- `G P maps patches` → (maps, patches); the patch size is the length of its local→global map -/
def decompP : P (List (List Nat) × List Patch) := do
  let _g ← nat
  let np ← nat
  let maps ← many np natList
  let nbrs ← many np (listOf (do let r ← nat; let m ← natList; pure (r, m)))
  pure (maps, (maps.zip nbrs).map fun (m, nb) => { n := m.length, nbrs := nb })

def vecsP (np : Nat) : P (List (List Rat)) := many np ratList

def rowP : P (List (Nat × Rat)) := listOf (do let c ← nat; let a ← rat; pure (c, a))
def matP : P (List (List (Nat × Rat))) := listOf rowP

def showVecs (tag : String) (vs : List (List Rat)) : String :=
  " ".intercalate (tag :: vs.map showRatsL)

/-! ### composite vector kinds (fixed C++ types in the harness): trees of leaves `(block size, mirror slot)` -/

inductive KTree where
  | leaf (bs slot : Nat)
  | pair (a b : KTree)

open KTree in
def kindTree : String → Option KTree
  -- TupleVector<DV, DVB2> / TupleMirror<VM, VM>
  | "t2" => some (pair (leaf 1 0) (leaf 2 1))
  -- TupleVector<DVB2, DV, DVB3>
  | "t3" => some (pair (leaf 2 0) (pair (leaf 1 1) (leaf 3 2)))
  -- TupleVector<DV, DVB2, DV, DV>
  | "t4" => some (pair (leaf 1 0) (pair (leaf 2 1) (pair (leaf 1 2) (leaf 1 3))))
  -- PowerVector<DV, 3> / PowerMirror<VM, 3>: one sub-mirror for all three components
  | "p3" => some (pair (leaf 1 0) (pair (leaf 1 0) (leaf 1 0)))
  -- TupleVector<PowerVector<DVB2, 2>, TupleVector<DV, DVB3>, DV> / TupleMirror<PowerMirror<VM, 2>, TupleMirror<VM, VM>, VM>
  | "nest" => some (pair (pair (leaf 2 0) (leaf 2 0)) (pair (pair (leaf 1 1) (leaf 3 2)) (leaf 1 3)))
  | _ => none

def KTree.leafList : KTree → List (Nat × Nat)
  | .leaf bs slot => [(bs, slot)]
  | .pair a b => a.leafList ++ b.leafList

def KTree.mir (slots : List (List Nat)) : KTree → CMir
  | .leaf _ slot => .leaf (slots.getD slot [])
  | .pair a b => .pair (a.mir slots) (b.mir slots)

/-- build the vector from the leaf data in order; returns the unused leaves -/
def KTree.vec : KTree → List (List Rat) → CVec Rat × List (List Rat)
  | .leaf bs _, ls => (.leaf bs (ls.headD []), ls.tail)
  | .pair a b, ls =>
    let (x, r1) := a.vec ls
    let (y, r2) := b.vec r1
    (.pair x y, r2)

def KTree.tmpl (sizes : List Nat) : KTree → CVec Rat
  | .leaf bs slot => .leaf bs (List.replicate (sizes.getD slot 0 * bs) 0)
  | .pair a b => .pair (a.tmpl sizes) (b.tmpl sizes)

def showLeaves (tag : String) (vs : List (CVec Rat)) : String :=
  " ".intercalate (tag :: (vs.flatMap CVec.leaves).map showRatsL)

/-- `P S [G_s] [maps r s] [nbrs]` → per patch (slot sizes, neighbours with one index list per slot) -/
def cdecompP (k : KTree) : P (List (CPatch Rat)) := do
  let np ← nat
  let ns ← nat
  let _gs ← many ns nat
  let maps ← many np (many ns natList)
  let nbrs ← many np (listOf (do let r ← nat; let ms ← many ns natList; pure (r, ms)))
  pure ((maps.zip nbrs).map fun (m, nb) =>
    { tmpl := k.tmpl (m.map List.length), nbrs := nb.map fun (r, ms) => (r, k.mir ms) })

def cvecsP (k : KTree) (np : Nat) : P (List (CVec Rat)) :=
  many np (do let ls ← many k.leafList.length ratList; pure (k.vec ls).1)

/-- `C S [N_s] [child c: per slot: n pm cm]` -/
def cmuxP (k : KTree) : P (CVec Rat × List (CVec Rat) × List CMir × List CMir) := do
  let nc ← nat
  let ns ← nat
  let psizes ← many ns nat
  let ch ← many nc (many ns (do let n ← nat; let pm ← natList; let cm ← natList; pure (n, pm, cm)))
  pure (k.tmpl psizes, ch.map (fun c => k.tmpl (c.map (·.1))), ch.map (fun c => k.mir (c.map (·.2.1))),
    ch.map (fun c => k.mir (c.map (·.2.2))))


def handle : P String := do
  let op ← tok
  match op with
  | "freqs" =>
    let bs ← nat; let (_, ps) ← decompP
    pure (showVecs "F" (ps.map fun p => freqs (p.expand bs)))
  | "sync0" | "sync1" =>
    let bs ← nat; let (_, ps) ← decompP
    let ords ← many ps.length natList
    let vs ← vecsP ps.length
    let pe := ps.map (Patch.expand bs)
    if !exchangeOk pe then pure "DEADLOCK" else
    pure (showVecs "V" (if op == "sync0" then sync0 pe ords vs else sync1 pe ords vs))
  | "dot" =>
    let bs ← nat; let (_, ps) ← decompP
    let xs ← vecsP ps.length
    let ys ← vecsP ps.length
    pure s!"D {showRat (gdot (ps.map (Patch.expand bs)) xs ys)}"
  | "gapply" =>
    let (_, ps) ← decompP
    let ords ← many ps.length natList
    let mats ← many ps.length matP
    let xs ← vecsP ps.length
    if !exchangeOk ps then pure "DEADLOCK" else
    pure (showVecs "V" (gapply ps ords mats xs))
  | "mgather" =>
    let bs ← nat; let size ← nat; let mir ← natList; let boff ← nat; let buf ← ratList; let v ← ratList
    match mirrorGather bs size mir buf boff v with
    | some b => pure s!"B {showRatsL b}"
    | none => pure "ABORT"
  | "mscatter" =>
    let bs ← nat; let size ← nat; let mir ← natList; let alpha ← rat; let boff ← nat; let buf ← ratList; let v ← ratList
    match mirrorScatter bs size mir v buf alpha boff with
    | some b => pure s!"B {showRatsL b}"
    | none => pure "ABORT"
  | "norm" =>
    let bs ← nat; let (_, ps) ← decompP
    let xs ← vecsP ps.length
    let pe := ps.map (Patch.expand bs)
    pure s!"N {showRat (gnorm2sqr pe xs)} {showRat (gnorm2 qsqrt pe xs)}"
  | "vmax" =>
    let _bs ← nat; let (_, ps) ← decompP
    let xs ← vecsP ps.length
    pure s!"M {showRat (gMaxAbs xs)} {showRat (gMinAbs xs)} {showRat (gMax xs)} {showRat (gMin xs)}"
  | "gred" =>
    -- Gate::sum / min / max / norm2 of one scalar per rank
    let l ← ratList
    pure s!"R {showRat (allSum l)} {showRat (allMin l)} {showRat (allMax l)} {showRat (gateNorm2 qsqrt l)}"
  | "vops" =>
    let bs ← nat; let mode ← nat; let a ← rat; let b ← rat; let (_, ps) ← decompP
    let ords ← many ps.length natList
    let ys ← vecsP ps.length
    let xs ← vecsP ps.length
    let pe := ps.map (Patch.expand bs)
    let r := vopsLocal a b ys xs
    if mode == 0 then pure (showVecs "V" r) else
    if !exchangeOk pe then pure "DEADLOCK" else pure (showVecs "V" (sync1 pe ords r))
  | "gapply2" =>
    let alias ← nat; let transp ← nat
    let alpha ← rat; let (_, ps) ← decompP
    let ords ← many ps.length natList
    let mats ← many ps.length matP
    let xs ← vecsP ps.length
    let ys ← vecsP ps.length
    if !exchangeOk ps then pure "DEADLOCK" else
    pure (showVecs "V" (gapply2A (alias != 0) (transp != 0) ps ords mats xs ys alpha))
  | "valias" =>
    let bs ← nat; let a ← rat; let b ← rat; let (_, ps) ← decompP
    let ords ← many ps.length natList
    let ys ← vecsP ps.length
    let pe := ps.map (Patch.expand bs)
    if !exchangeOk pe then pure "DEADLOCK" else
    let r := valiasLocal a b ys
    pure s!"{showVecs "V" (sync1 pe ords r)} D {showRat (gdot pe r r)}"
  | "gdiag" =>
    let kind ← nat; let (_, ps) ← decompP
    let ords ← many ps.length natList
    let mats ← many ps.length matP
    if !exchangeOk ps then pure "DEADLOCK" else
    pure (showVecs "V" (if kind == 0 then gdiag ps ords mats else glump ps ords mats))
  | "gfilter" =>
    let zf ← nat; let (_, ps) ← decompP
    let fs ← many ps.length (listOf (do let i ← nat; let a ← rat; pure (i, a)))
    let vs ← vecsP ps.length
    pure (showVecs "V" (gfilter (zf != 0) fs vs))
  | "spljoin" | "splsplit" =>
    -- base splitter: patch r has the root mirror rm_r (into its own vector) and the patch mirror bm_r (into the base vector)
    let (maps, ps) ← decompP
    let g := (maps.flatten.foldl max 0) + 1
    let nb ← nat
    let rm ← many ps.length natList
    let bm ← many ps.length natList
    let _ := g
    let b := muxBufSize (bm.map CMir.leaf) (CVec.leaf 1 (List.replicate nb (0 : Rat)))
    if op == "spljoin" then
      let vs ← vecsP ps.length
      pure s!"B {showRatsL (splitterJoin b ps rm bm vs nb)}"
    else
      let base ← ratList
      pure (showVecs "V" (splitterSplit b ps rm bm base))
  | "async" =>
    -- every asynchronous reduction of Gate / Global::Vector on type-1 vectors x, y; see harness op_async for the order
    let bs ← nat; let (_, ps) ← decompP
    let xs ← vecsP ps.length
    let ys ← vecsP ps.length
    let pe := ps.map (Patch.expand bs)
    let loc := (List.range pe.length).map fun r => gdotAsyncLocal (pe.getD r default) (xs.getD r []) (xs.getD r [])
    let scal := xs.map fun x => x.headD 0
    pure (" ".intercalate ["A", showRat (gdotAsync none pe xs ys), showRat (gnorm2sqrAsync pe xs), showRat (gnorm2Async qsqrt pe xs),
      showRat (gdotAsync (some qsqrt) pe xs xs), showRatsL (loc.map qsqrt),
      showRat (gMaxAbs xs), showRat (gMinAbs xs), showRat (gMax xs), showRat (gMin xs),
      showRat (sumAsync none scal), showRat (sumAsync (some qsqrt) (scal.map fun t => t * t)), showRat (allMin scal), showRat (allMax scal),
      showRat (gateNorm2 qsqrt scal)])
  | "casync" =>
    let kn ← tok
    match kindTree kn with
    | none => throw s!"unknown kind {kn}"
    | some k =>
      let ps ← cdecompP k
      let xs ← cvecsP k ps.length
      let ys ← cvecsP k ps.length
      let loc := fun (us vs : List (CVec Rat)) => allSum ((List.range ps.length).map fun r =>
        tripleDot (cfreqs (ps.getD r default)).flat (us.getD r default).flat (vs.getD r default).flat)
      pure s!"A {showRat (loc xs ys)} {showRat (loc xs xs)} {showRat (qsqrt (loc xs xs))}"
  | "ticket" =>
    -- asynchronous ticket on a gate without neighbours: sync_0_async / sync_1_async are the identity, apply_async of
    -- the matrix 2*I doubles the vector (specified behaviour; see FINDINGS_C13.md F1 for what the code does)
    let kind ← nat; let v ← ratList
    let ps : List Patch := [{ n := v.length, nbrs := [] }]
    let r := if kind == 0 then sync0 ps [[]] [v] else if kind == 1 then sync1 ps [[]] [v]
      else gapply ps [[]] [(List.range v.length).map fun i => [(i, (2 : Rat))]] [v]
    pure (showVecs "V" r)
  | "rich" =>
    let jac ← nat; let k ← nat; let omega ← rat; let (_, ps) ← decompP
    let ords ← many ps.length natList
    let mats ← many ps.length matP
    let bs ← vecsP ps.length
    let xs ← vecsP ps.length
    if !exchangeOk ps then pure "DEADLOCK" else
    pure (showVecs "V" (richIter (jac != 0) omega ps ords mats bs k xs))
  | "cg" =>
    let k ← nat; let (_, ps) ← decompP
    let ords ← many ps.length natList
    let mats ← many ps.length matP
    let bs ← vecsP ps.length
    let xs ← vecsP ps.length
    if !exchangeOk ps then pure "DEADLOCK" else
    let st := cgIter ps ords mats k (cgInit ps ords mats bs xs)
    pure s!"{showVecs "V" st.x} R {showRat st.rr}"
  | "pcg" =>
    let k ← nat; let (_, ps) ← decompP
    let ords ← many ps.length natList
    let mats ← many ps.length matP
    let bs ← vecsP ps.length
    let xs ← vecsP ps.length
    if !exchangeOk ps then pure "DEADLOCK" else
    let st := pcgIter ps ords mats k (pcgInit ps ords mats bs xs)
    pure s!"{showVecs "V" st.x} R {showRat st.rz}"
  | "csync0" | "csync1" =>
    let kn ← tok
    match kindTree kn with
    | none => throw s!"unknown kind {kn}"
    | some k =>
      let ps ← cdecompP k
      let ords ← many ps.length natList
      let vs ← cvecsP k ps.length
      if !cexchangeOk ps then pure "DEADLOCK" else
      pure (showLeaves "V" (if op == "csync0" then csync0 ps ords vs else csync1 ps ords vs))
  | "cdot" =>
    let kn ← tok
    match kindTree kn with
    | none => throw s!"unknown kind {kn}"
    | some k =>
      let ps ← cdecompP k
      let xs ← cvecsP k ps.length
      let ys ← cvecsP k ps.length
      pure s!"D {showRat (cgdot ps xs ys)}"
  | "cmuxjoin" | "cmuxsplit" =>
    let kn ← tok
    match kindTree kn with
    | none => throw s!"unknown kind {kn}"
    | some k =>
      let (ptmpl, ctmpls, pm, cm) ← cmuxP k
      -- Muxer::compile: buffer size = largest child mirror buffer; must not be smaller than a parent mirror buffer
      let b := muxBufSize cm ptmpl
      if ((List.range cm.length).any fun c => b < (pm.getD c default).bufSize (ctmpls.getD c default)) then pure "ABORT" else
      if op == "cmuxjoin" then
        let srcs ← cvecsP k cm.length
        pure (showLeaves "V" [muxJoin b pm cm srcs ptmpl])
      else
        let src ← cvecsP k 1
        pure (showLeaves "V" (muxSplit b pm cm (src.headD default) ctmpls))
  | _ => throw s!"unknown op {op}"

def step (ts : Toks) : String :=
  match run handle ts with
  | .ok s => s
  | .error e => s!"BAD-OP {e}"

end FeatModel.DrvC13

def main (args : List String) : IO Unit := FeatModel.Proto.mainWith FeatModel.DrvC13.step args
