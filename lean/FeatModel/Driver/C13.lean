import FeatModel.Model.Proto
import FeatModel.Model.Dist
/-! line-protocol driver for the C13 models (mirrors, gate frequencies, type-0/type-1 synchronisation with an
explicit arrival order per patch, global dot product, global matrix-vector product) -/
open FeatModel FeatModel.Proto FeatModel.Dist

namespace FeatModel.DrvC13

/-- `G P maps patches` → (maps, patches); the patch size is the length of its local→global map -/
def decompP : P (List (List Nat) × List Patch) := do
  let _g ← nat
  let np ← nat
  let maps ← many np natList
  let nbrs ← many np (listOf (do let r ← nat; let m ← natList; pure (r, m)))
  pure (maps, (maps.zip nbrs).map fun (m, nb) => { n := m.length, nbrs := nb })

def vecsP (np : Nat) : P (List (List Rat)) := many np ratList

def rowP : P (List (Nat × Rat)) := listOf (do let c ← nat; let a ← rat; pure (c, a))
def matP : P (List (List (Nat × Rat))) := listOf rowP

def showVecs (tag : String) (vs : List (List Rat)) : String :=
  " ".intercalate (tag :: vs.map showRatsL)

def handle : P String := do
  let op ← tok
  match op with
  | "freqs" =>
    let bs ← nat; let (_, ps) ← decompP
    pure (showVecs "F" (ps.map fun p => freqs (p.expand bs)))
  | "sync0" | "sync1" =>
    let bs ← nat; let (_, ps) ← decompP
    let ords ← many ps.length natList
    let vs ← vecsP ps.length
    let pe := ps.map (Patch.expand bs)
    if !exchangeOk pe then pure "DEADLOCK" else
    pure (showVecs "V" (if op == "sync0" then sync0 pe ords vs else sync1 pe ords vs))
  | "dot" =>
    let bs ← nat; let (_, ps) ← decompP
    let xs ← vecsP ps.length
    let ys ← vecsP ps.length
    pure s!"D {showRat (gdot (ps.map (Patch.expand bs)) xs ys)}"
  | "gapply" =>
    let (_, ps) ← decompP
    let ords ← many ps.length natList
    let mats ← many ps.length matP
    let xs ← vecsP ps.length
    if !exchangeOk ps then pure "DEADLOCK" else
    pure (showVecs "V" (gapply ps ords mats xs))
  | "mgather" =>
    let bs ← nat; let size ← nat; let mir ← natList; let boff ← nat; let buf ← ratList; let v ← ratList
    match mirrorGather bs size mir buf boff v with
    | some b => pure s!"B {showRatsL b}"
    | none => pure "ABORT"
  | "mscatter" =>
    let bs ← nat; let size ← nat; let mir ← natList; let alpha ← rat; let boff ← nat; let buf ← ratList; let v ← ratList
    match mirrorScatter bs size mir v buf alpha boff with
    | some b => pure s!"B {showRatsL b}"
    | none => pure "ABORT"
  | _ => throw s!"unknown op {op}"

def step (ts : Toks) : String :=
  match run handle ts with
  | .ok s => s
  | .error e => s!"BAD-OP {e}"

end FeatModel.DrvC13

def main (args : List String) : IO Unit := FeatModel.Proto.mainWith FeatModel.DrvC13.step args
