import FeatModel.Model.Proto
import FeatModel.Model.GridTransfer
import FeatModel.Model.GlobalTransfer
import FeatModel.Model.TransferNested
/-! line-protocol driver for the C18 models (invert_matrix, grid-transfer assembly on dumped ingredients,
CSR transposition and LAFEM::Transfer) -/
open FeatModel FeatModel.Proto FeatModel.GT

namespace FeatModel.DrvC18

def showVec (v : List Rat) : String := showRatsL v

def showDense (r c : Nat) (m : Mat) : String :=
  " ".intercalate (toString r :: toString c :: ((tab r c (get m)).flatten.map showRat))

def showCsr (m : FeatModel.LA.Csr Rat) : String :=
  s!"{m.rows} {m.cols} {showNatsL m.rowPtr.toList} {showNatsL m.colInd.toList} {showRatsL m.val.toList}"

/-- CSR arrays from the case line; no stored entries = the container without arrays (`SparseMatrixCSR(rows, cols)`) -/
def csrP : P (FeatModel.LA.Csr Rat) := do
  let rows ← nat; let cols ← nat
  let rp ← natList; let ci ← natList; let va ← ratList
  if ci.isEmpty then pure (FeatModel.LA.Csr.entryFree rows cols)
  else pure { rows := rows, cols := cols, rowPtr := rp.toArray, colInd := ci.toArray, val := va.toArray }

def coarseCellP (nchild npts : Nat) : P CoarseCell := do
  let cmap ← natList
  let ncp ← nat
  let cpts ← many ncp (do
    let w ← rat
    let c ← many cmap.length rat
    pure ({ w := w, f := [], c := c } : Pt))
  let ref ← many (nchild * npts) (many cmap.length rat)
  pure { cmap := cmap, cpts := cpts, ref := ref }

def fineCellP (npts : Nat) : P FineCell := do
  let fmap ← natList
  let pts ← many npts (do
    let w ← rat
    let f ← many fmap.length rat
    pure (w, f))
  pure { fmap := fmap, pts := pts }

/-- the mesh-indexed ingredients + the two permutation arrays + the layout of the prolongation matrix -/
def dumpP : P (TwoLevel × List Nat × List Nat × List Rat) := do
  let t ← tok
  if t ≠ "D" then throw "expected D"
  let nf ← nat; let nc ← nat; let ncells ← nat; let nchild ← nat; let nfine ← nat; let npts ← nat
  let _ ← tok; let cp ← natList
  let _ ← tok; let fp ← natList
  let _ ← tok; let ptr ← natList; let ind ← natList
  let _ ← tok; let refc ← ratList
  let coarse ← many ncells (coarseCellP nchild npts)
  let fine ← many nfine (fineCellP npts)
  pure ({ nf := nf, nc := nc, nchild := nchild, npts := npts, coarse := coarse, fine := fine,
          coarsePerm := cp, fineInvPerm := fp }, ptr, ind, refc)

/-- skip the configuration tokens: shape space cubature level perm_c perm_f affine-list offset-list -/
def skipCfg : P Unit := do
  let _ ← tok; let _ ← tok; let _ ← tok; let _ ← nat; let _ ← nat; let _ ← nat
  let _ ← ratList; let _ ← ratList
  pure ()

def five (n : Nat) : Array Rat := Array.replicate n 5

/-- the four vectors the harness prints for one transfer object: prol(x), rest(y), trunc(y), trunc(prol(x)) -/
def quad (prolF : Array Rat → Option (Array Rat)) (restF truncF : Array Rat → Option (Array Rat)) (x y : Array Rat) :
    Option String := do
  let p ← prolF x
  let r ← restF y
  let t ← truncF y
  let tp ← truncF p
  pure s!"{showVec p.toList} {showVec r.toList} {showVec t.toList} {showVec tp.toList}"

def identMir (n : Nat) : FeatModel.Dist.CMir := .leaf (List.range n)

/-- `LT`, `GU`, `GN`, `FLAGS`, `GM` sections of the harness (`global_transfer_sections`) -/
def globalSections (t : Transfer) (x y : Array Rat) : Option String := do
  let nf := y.size; let nc := x.size
  let lt ← quad (fun v => t.applyProl (five nf) v) (fun v => t.applyRest v (five nc)) (fun v => t.applyTrunc v (five nc)) x y
  let gq (g : GTransfer) := quad (fun v => (g.prol [five nf] [five nc] v).map fun l => l.getD 0 #[])
    (fun v => g.rest [v] [five nc] (five nc)) (fun v => g.trunc [v] [five nc] (five nc)) x y
  let gu ← gq { muxer := none, locals := [t] }
  let mNone : MuxerM := { commSize := 0, isParent := false, B := 0, pm := [], cm := [] }
  let gn ← gq { muxer := some mNone, locals := [t] }
  let mOne : MuxerM := { commSize := 1, isParent := true, B := nc, pm := [identMir nc], cm := [identMir nc] }
  let gmT : GTransfer := { muxer := some mOne, locals := [t] }
  let gm ← gq gmT
  let b (x : Bool) := if x then "1" else "0"
  pure s!" LT {lt} GU {gu} GN {gn} FLAGS {b mOne.isChild} {b mOne.isParent} {b mOne.isGhost} GM {gm}"

def showSig (A : FeatModel.LA.Csr Rat) : String :=
  let g := csrSig A
  s!"{g.1} {g.2.1} {g.2.2.1} {showRat g.2.2.2}"

/-- `TW` sections of the harness (`transfer_twins_sections`): original, converted (index type: values unchanged) and
cloned local and global transfer objects -/
def twinSections (t : Transfer) (x y : Array Rat) : Option String := do
  let nf := y.size; let nc := x.size
  let lq (t : Transfer) := do
    let q ← quad (fun v => t.applyProl (five nf) v) (fun v => t.applyRest v (five nc)) (fun v => t.applyTrunc v (five nc)) x y
    pure s!"{q} M {showSig t.prol} {showSig t.rest} {showSig t.trunc}"
  let gq (g : GTransfer) := do
    let q ← quad (fun v => (g.prol [five nf] [five nc] v).map fun l => l.getD 0 #[])
      (fun v => g.rest [v] [five nc] (five nc)) (fun v => g.trunc [v] [five nc] (five nc)) x y
    let l := g.locals.getD 0 default
    pure s!"{q} M {showSig l.prol} {showSig l.rest} {showSig l.trunc}"
  let mOne : MuxerM := { commSize := 1, isParent := true, B := nc, pm := [identMir nc], cm := [identMir nc] }
  let gu : GTransfer := { muxer := none, locals := [t] }
  let gm : GTransfer := { muxer := some mOne, locals := [t] }
  let o ← lq t
  let cv ← lq (t.convert id)
  let cb ← lq ((t.convert id).convert id)
  let cs ← lq (t.clone .shallow)
  let cw ← lq (t.clone .weak)
  let cd ← lq (t.clone .deep)
  let cc ← lq (t.clone .weak)
  let guv ← gq (gu.convert none id)
  let gmv ← gq (gm.convert (some mOne) id)
  let guc ← gq (gu.clone .deep)
  let gmw ← gq (gm.clone .weak)
  let gmd ← gq (gm.clone .deep)
  pure s!" OR {o} CV {cv} CB {cb} CS {cs} CW {cw} CD {cd} CC {cc} GUV {guv} GMV {gmv} GUC {guc} GMW {gmw} GMD {gmd}"

def failStr : Fail → String
  | .abort => "ABORT"
  | .exc => "EXC"

def optAbort (o : Option α) : Except Fail α :=
  match o with
  | some a => .ok a
  | none => .error .abort

/-- everything the harness prints for an `fe` case, in the order the harness computes it -/
def feCase (d : Dump) (ptr ind : List Nat) (x y : List Rat) : Except Fail String := do
  let locs ← localProls d
  let w := prolWeights d locs
  let praw := prolRaw d locs
  let pd ← optAbort (prolDirect d locs)
  let tl ← localTruncs d
  let wt := truncWeights d tl
  let traw := truncRaw d tl
  let td ← optAbort (scaleRows d.nf traw wt)
  let r := transposeDense d.nf d.nc pd
  -- the layout is COMPUTED (C16's symbolic assembly on the dof-mappings); the dumped row_ptr/col_ind of the real
  -- matrix are only compared with it through the printed arrays
  let (ptr, ind) := match layout2lvl d with
    | some g => (g.domainPtr, g.imageIdx)
    | none => (ptr, ind)
  let pc := csrOfDense d.nf d.nc ptr ind pd
  let rc := (Transfer.ofProl pc (FeatModel.LA.Csr.entryFree d.nc d.nf)).rest
  -- layout of the truncation matrix = transposed layout of the prolongation (`loc_trunc.transpose(loc_prol)`)
  let tc := csrOfDense d.nc d.nf rc.rowPtr.toList rc.colInd.toList td
  let g ← optAbort (globalSections (Transfer.ofProl pc tc) x.toArray y.toArray)
  let tw ← optAbort (twinSections (Transfer.ofProl pc tc) x.toArray y.toArray)
  let vf := pvecRaw d locs x
  let vd ← optAbort (scaleVec vf w)
  let xp := matVec d.nf d.nc pd x
  let xr := matVec d.nc d.nf r y
  let xt := matVec d.nc d.nf td y
  pure (s!"W {showVec w} P {showDense d.nf d.nc praw} PD {showDense d.nf d.nc pd} WT {showVec wt} " ++
    s!"T {showDense d.nc d.nf traw} TD {showDense d.nc d.nf td} R {showDense d.nc d.nf r} " ++
    s!"PC {showCsr pc} RC {showCsr rc} " ++
    s!"VF {showVec vf} VW {showVec w} VD {showVec vd} XP {showVec xp} XR {showVec xr} XT {showVec xt} G{g} TW{tw}")

def handle : P String := do
  let op ← tok
  match op with
  | "inv" =>
    let n ← nat; let stride ← nat
    let vals ← many (n * n) rat
    -- the storage array of the harness: n*stride+1 entries, padding value 7, the block at i*stride+j
    let a : List Rat := if stride < n then [] else
      (List.range (n * stride + 1)).map fun idx =>
        if idx / stride < n ∧ idx % stride < n then vals.getD (idx / stride * n + idx % stride) 0 else 7
    match invertFlat n stride a with
    | none => pure "ABORT"
    | some (det, a', p) =>
      let k := if n ≥ 1 ∧ stride ≥ n then n else 0
      let padOk := (List.range k).all fun i => (List.range' n (stride - n)).all fun j => getF stride a' i j == 7
      let flag := if padOk then "PAD-OK" else "PAD-TOUCHED"
      pure s!"I {showRat det} {showRatsL ((extractBlock k stride a').flatten)} {showNatsL p} {flag}"
  | "xfer" =>
    let prol ← csrP; let trunc ← csrP
    let x ← ratList; let y ← ratList
    let t := Transfer.ofProl prol trunc
    -- the harness starts from vectors filled with 5: the operators must overwrite
    let five (n : Nat) : Array Rat := Array.replicate n 5
    match t.applyProl (five y.length) x.toArray, t.applyRest y.toArray (five x.length),
        t.applyTrunc y.toArray (five x.length) with
    | some xp, some xr, some xt =>
      match twinSections t x.toArray y.toArray with
      | some tw => pure s!"R {showCsr t.rest} XP {showVec xp.toList} XR {showVec xr.toList} XT {showVec xt.toList} TW{tw}"
      | none => pure "ABORT"
    | _, _, _ => pure "ABORT"
  | "childmap" =>
    let shape ← tok
    let key : Option (FeatModel.FE.Kind × Nat) :=
      match shape with
      | "line" => some (.H, 1) | "quad" => some (.H, 2) | "hexa" => some (.H, 3) | "tria" => some (.S, 2)
      | _ => none
    match key with
    | none => pure "BAD-OP"
    | some (k, dim) =>
      let xi ← many dim rat
      let nch := numChildren k dim
      let pts := (List.range nch).flatMap fun c => childPoint k dim c xi
      let w : Rat := 1 / (nch : Nat)
      pure s!"CM {showRatsL pts} {showRatsL (List.replicate nch w)}"
  | "gxfer" =>
    let prol ← csrP; let trunc ← csrP
    let x ← ratList; let y ← ratList
    match globalSections (Transfer.ofProl prol trunc) x.toArray y.toArray,
        twinSections (Transfer.ofProl prol trunc) x.toArray y.toArray with
    | some g, some tw => pure s!"G{g} TW{tw}"
    | _, _ => pure "ABORT"
  | "gforbid" =>
    let which ← nat
    let prol ← csrP; let trunc ← csrP
    let _ ← ratList; let _ ← ratList
    let mOne : MuxerM := { commSize := 1, isParent := true, B := prol.cols, pm := [identMir prol.cols], cm := [identMir prol.cols] }
    let g : GTransfer := { muxer := some mOne, locals := [Transfer.ofProl prol trunc] }
    -- trunc_send / rest_send / prol_recv need a ghost process; prol_cancel must never be called
    if which < 3 ∧ g.sendAllowed then pure "RETURNED" else pure "ABORT"
  | "cert" =>
    -- certificates (hypotheses of C18.prolongation_exact / C18.truncation_prolongation_identity) of an `fe` case
    let shapeName ← tok; let spaceName ← tok; let _ ← tok; let _ ← nat; let _ ← nat; let _ ← nat
    let _ ← ratList; let _ ← ratList
    let _ ← tok; let _ ← ratList
    let _ ← tok; let _ ← ratList
    let (m, _, _, refc) ← dumpP
    let d := m.toDump
    let b (x : Bool) := if x then "1" else "0"
    -- parametric Lagrange families whose nestedness is derived from the element polynomials (C18.nested_reference_*):
    -- the dumped basis values must be the table values at the reference points (PARAM)
    let famKey : Option (FeatModel.FE.Fam × FeatModel.FE.Kind × Nat) :=
      match shapeName, spaceName with
      | "quad", "l1" => some (.L1, .H, 2) | "quad", "l2" => some (.L2, .H, 2)
      | "tria", "l1" => some (.L1, .S, 2) | "tria", "l2" => some (.L2, .S, 2)
      | "hexa", "l1" => some (.L1, .H, 3) | "hexa", "l2" => some (.L2, .H, 3)
      | _, _ => none
    let param : String :=
      match famKey with
      | none => "-"
      | some (f, k, dim) =>
        match FeatModel.FE.tabOf f k dim with
        | none => "-"
        | some t =>
          let xis := (List.range m.npts).map fun q => (List.range dim).map fun a => refc.getD (q * dim + a) 0
          b (paramB t k dim xis d)
    match (do let locs ← localProls d; let pd ← optAbort (prolDirect d locs); pure pd : Except Fail Mat) with
    | .error e => pure (failStr e)
    | .ok pd => pure s!"CERT {b (nestedB d)} {b (consB d pd)} {b (intB d)} {b (mapsB d)} {param}"
  | "fe" =>
    skipCfg
    let _ ← tok; let x ← ratList
    let _ ← tok; let y ← ratList
    let (m, ptr, ind, _) ← dumpP
    let d := m.toDump
    if x.length ≠ d.nc ∨ y.length ≠ d.nf then pure "BAD-VECTOR-SIZE"
    else match feCase d ptr ind x y with
    | .ok s => pure s
    | .error e => pure (failStr e)
  | _ => throw s!"unknown op {op}"

def step (ts : Toks) : String :=
  match run handle ts with
  | .ok s => s
  | .error e => s!"BAD-OP {e}"

end FeatModel.DrvC18

def main (args : List String) : IO Unit := FeatModel.Proto.mainWith FeatModel.DrvC18.step args
