import FeatModel.Model.Proto
import FeatModel.Model.GridTransfer
/-! line-protocol driver for the C18 models (invert_matrix, grid-transfer assembly on dumped ingredients,
CSR transposition and LAFEM::Transfer) -/
open FeatModel FeatModel.Proto FeatModel.GT

namespace FeatModel.DrvC18

def showVec (v : List Rat) : String := showRatsL v

def showDense (r c : Nat) (m : Mat) : String :=
  " ".intercalate (toString r :: toString c :: ((tab r c (get m)).flatten.map showRat))

def showCsr (m : Csr) : String :=
  s!"{m.rows} {m.cols} {showNatsL m.rowPtr} {showNatsL m.colInd} {showRatsL m.val}"

def csrP : P Csr := do
  let rows ← nat; let cols ← nat
  let rp ← natList; let ci ← natList; let va ← ratList
  pure { rows := rows, cols := cols, rowPtr := rp, colInd := ci, val := va }

def ptP (nfl ncl : Nat) : P Pt := do
  let w ← rat
  let f ← many nfl rat
  let c ← many ncl rat
  pure { w := w, f := f, c := c }

def childP (ncl : Nat) : P Child := do
  let fmap ← natList
  let np ← nat
  let pts ← many np (ptP fmap.length ncl)
  pure { fmap := fmap, pts := pts }

def cellP (nchild : Nat) : P Cell := do
  let cmap ← natList
  let ncp ← nat
  let cpts ← many ncp (ptP 0 cmap.length)
  let children ← many nchild (childP cmap.length)
  pure { cmap := cmap, cpts := cpts, children := children }

def dumpP : P Dump := do
  let t ← tok
  if t ≠ "D" then throw "expected D"
  let nf ← nat; let nc ← nat; let ncells ← nat; let nchild ← nat
  let cells ← many ncells (cellP nchild)
  pure { nf := nf, nc := nc, cells := cells }

/-- skip the configuration tokens: shape space cubature level perm_c perm_f affine-list offset-list -/
def skipCfg : P Unit := do
  let _ ← tok; let _ ← tok; let _ ← tok; let _ ← nat; let _ ← nat; let _ ← nat
  let _ ← ratList; let _ ← ratList
  pure ()

def failStr : Fail → String
  | .abort => "ABORT"
  | .exc => "EXC"

def optAbort (o : Option α) : Except Fail α :=
  match o with
  | some a => .ok a
  | none => .error .abort

/-- everything the harness prints for an `fe` case, in the order the harness computes it -/
def feCase (d : Dump) (x y : List Rat) : Except Fail String := do
  let locs ← localProls d
  let w := prolWeights d locs
  let praw := prolRaw d locs
  let pd ← optAbort (prolDirect d locs)
  let tl ← localTruncs d
  let wt := truncWeights d tl
  let traw := truncRaw d tl
  let td ← optAbort (scaleRows d.nf traw wt)
  let r := transposeDense d.nf d.nc pd
  let vf := pvecRaw d locs x
  let vd ← optAbort (scaleVec vf w)
  let xp := matVec d.nf d.nc pd x
  let xr := matVec d.nc d.nf r y
  let xt := matVec d.nc d.nf td y
  pure (s!"W {showVec w} P {showDense d.nf d.nc praw} PD {showDense d.nf d.nc pd} WT {showVec wt} " ++
    s!"T {showDense d.nc d.nf traw} TD {showDense d.nc d.nf td} R {showDense d.nc d.nf r} " ++
    s!"VF {showVec vf} VW {showVec w} VD {showVec vd} XP {showVec xp} XR {showVec xr} XT {showVec xt}")

def handle : P String := do
  let op ← tok
  match op with
  | "inv" =>
    let n ← nat; let stride ← nat
    let a ← many (n * n) rat
    let m : Mat := tab n n fun i j => a.getD (i * n + j) 0
    match invertMatrix n stride m with
    | none => pure "ABORT"
    | some (det, inv, p) =>
      let k := if n ≥ 1 ∧ stride ≥ n then n else 0
      pure s!"I {showRat det} {showRatsL ((tab k k (get inv)).flatten)} {showNatsL p} PAD-OK"
  | "xfer" =>
    let prol ← csrP; let trunc ← csrP
    let x ← ratList; let y ← ratList
    let t : Transfer := { prol := prol, rest := prol.transpose, trunc := trunc }
    pure s!"R {showCsr t.rest} XP {showVec (t.applyProl x)} XR {showVec (t.applyRest y)} XT {showVec (t.applyTrunc y)}"
  | "fe" =>
    skipCfg
    let _ ← tok; let x ← ratList
    let _ ← tok; let y ← ratList
    let d ← dumpP
    if x.length ≠ d.nc ∨ y.length ≠ d.nf then pure "BAD-VECTOR-SIZE"
    else match feCase d x y with
    | .ok s => pure s
    | .error e => pure (failStr e)
  | _ => throw s!"unknown op {op}"

def step (ts : Toks) : String :=
  match run handle ts with
  | .ok s => s
  | .error e => s!"BAD-OP {e}"

end FeatModel.DrvC18

def main (args : List String) : IO Unit := FeatModel.Proto.mainWith FeatModel.DrvC18.step args
