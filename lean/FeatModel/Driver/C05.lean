import FeatModel.Model.Proto
import FeatModel.Model.Serialize
import FeatModel.Model.TextIO
/-! line-protocol driver for the C05 models (container serialisation bytes, text file modes, checkpoint) -/
open FeatModel FeatModel.Proto FeatModel.Ser FeatModel.TextIO

namespace FeatModel.DrvC05

def hexDigit (n : Nat) : Char := "0123456789abcdef".toList.getD n '0'

def showHex (b : Bytes) : String :=
  if b.isEmpty then "-" else String.ofList (b.flatMap fun x => [hexDigit (x.toNat / 16), hexDigit (x.toNat % 16)])

def showText (lines : List String) : String :=
  if lines.isEmpty then "-" else
  String.ofList ((lines.flatMap fun l => l.toList ++ ['\n']).map fun ch => if ch = ' ' then '_' else if ch = '\n' then '|' else ch)

/-- dump of a container whose values are bit patterns of width `w` -/
def showDump (w : Nat) (c : Container) : String :=
  let rs (l : List Nat) := showRatsL (l.map (decF w))
  " ".intercalate (["D", showNatsL c.scalarIndex, rs c.scalarDt, toString c.elements.length]
    ++ c.elements.map rs ++ [toString c.indices.length] ++ c.indices.map showNatsL)

/-- `operator==` of the read-back container: modelled as equality of the six members -/
def eqFlag (a b : Container) : Nat := if a = b then 1 else 0

def hashDT (w : Nat) : Nat := 0x600000000 + w
def hashIT (w : Nat) : Nat := 0x100000000 + w

def magicOf : String → Nat
  | "dv" => 1 | "csr" => 4 | "bm" => 6 | "dm" => 7 | "sv" => 8 | "dvb" => 10 | "bcsr" => 11 | "cscr" => 12
  | _ => 13

/-- in-memory container (bit patterns at `dt`/`it`) → `tc` at `dt2`/`it2` -/
def toTc (dt dt2 it2 : Nat) (c : Container) : Container :=
  convert (cvData dt dt2) (cvIndex it2) c

/-- serialize at (dt2, it2), deserialize with `rmagic`, convert back; all abort points of the C++ -/
def binRoundTrip (t : Tag) (rmagic dt it dt2 it2 : Nat) (c : Container) : Except String (Nat × Bytes × Container) :=
  if assignAborts (dt == dt2) (it == it2) c then .error "ABORT" else
  let tc := toTc dt dt2 it2 c
  -- the decidable hypotheses of `C05.binary_roundtrip_across_widths`, evaluated on every case: a case that
  -- violates them can never agree with the implementation, so the check fails instead of leaving the theorem
  -- inapplicable unnoticed
  if !(ImageOK t dt2 it2 tc && Representable (cvData dt dt2) (cvIndex it2) (cvData dt2 dt) id c) then
    .error "HYP-FAIL ImageOK/Representable" else
  match serialize t dt2 it2 tc with
  | none => .error "OVERRUN"
  | some b =>
    match deserialize rmagic dt2 it2 b with
    | none => .error "ABORT"
    | some r =>
      if assignAborts (dt == dt2) (it == it2) r then .error "ABORT" else
      .ok (serializedSize dt2 it2 tc, b, convert (cvData dt2 dt) id r)

def encList (w : Nat) (l : List Rat) : List Nat := l.map (encF w)

/-- parse the arguments of one container kind into its in-memory layout at width `dt` -/
def kindP (kind : String) (dt : Nat) : P Container := do
  match kind with
  | "dv" => let v ← ratList; pure (dvLayout (encList dt v))
  | "dvb" => let v ← ratList; pure (dvbLayout 2 (encList dt v))
  | "sv" =>
    let n ← nat; let _ ← nat; let idx ← natList; let v ← ratList
    pure (svLayout n idx (encList dt v))
  | "dm" => let r ← nat; let c ← nat; let v ← ratList; pure (dmLayout r c (encList dt v))
  | "csr" =>
    let r ← nat; let c ← nat; let variant ← nat; let rp ← natList; let ci ← natList; let v ← ratList
    pure (csrLayout variant { rows := r, cols := c, rowPtr := rp, colInd := ci, vals := encList dt v })
  | "bcsr" =>
    let r ← nat; let c ← nat; let rp ← natList; let ci ← natList; let v ← ratList
    pure (bcsrLayout 2 3 r c rp ci (encList dt v))
  | "bm" => let r ← nat; let c ← nat; let off ← natList; let v ← ratList; pure (bmLayout r c off (encList dt v))
  | "cscr" =>
    let r ← nat; let c ← nat; let rp ← natList; let ci ← natList; let v ← ratList; let rn ← natList
    pure (cscrLayout r c rp ci (encList dt v) rn)
  | _ => throw s!"unknown kind {kind}"

def rawP (dt : Nat) : P Container := do
  let si ← natList
  let sdt ← ratList
  let ne ← nat
  let els ← many ne ratList
  let ni ← nat
  let ixs ← many ni natList
  pure { scalarIndex := si, scalarDt := encList dt sdt, elements := els.map (encList dt), indices := ixs }

def dec (w : Nat) (l : List Nat) : List Rat := l.map (decF w)

/-- text round trip of one kind: (written lines, read-back layout) or an abnormal outcome -/
def txtRoundTrip (exact : Bool) (kind mode : String) (dt : Nat) :
    P (Except String (Container × List String × Container)) := do
  -- `exact`: the decidable hypotheses of the `…_exact` text theorems (`Exact7` for every value, `CsrWF` for CSR)
  -- are evaluated on every case of the exact stream
  let hyp (v : List Rat) : Bool := !exact || v.all Exact7
  let pr := sci6
  let rd := parseSci
  match kind, mode with
  | "dv", "mtx" =>
    let v ← ratList
    if !(hyp v) then pure (.error "HYP-FAIL Exact7") else
    let lines := dvMtxWrite pr v
    match dvMtxRead rd lines with
    | none => pure (.error "ABORT")
    | some r => pure (.ok (dvLayout (encList dt v), lines, dvLayout (encList dt r)))
  | "dv", "exp" =>
    let v ← ratList
    if !(hyp v) then pure (.error "HYP-FAIL Exact7") else
    let lines := expWrite pr v
    let r := expRead rd lines
    -- an empty file gives a vector without array (fix 80716f0b5)
    pure (.ok (dvLayout (encList dt v), lines,
      { scalarIndex := [r.length], scalarDt := [], elements := if r.isEmpty then [] else [encList dt r], indices := [] }))
  | "dvb", "mtx" =>
    let v ← ratList
    if !(hyp v) then pure (.error "HYP-FAIL Exact7") else
    let lines := dvMtxWrite pr v
    match dvMtxRead rd lines with
    | none => pure (.error "ABORT")
    | some r => pure (.ok (dvbLayout 2 (encList dt v), lines, dvbLayout 2 (encList dt r)))
  | "dvb", "exp" =>
    let v ← ratList
    if !(hyp v) then pure (.error "HYP-FAIL Exact7") else
    let lines := expWrite pr v
    let r := expRead rd lines
    -- an empty file gives a vector without array (fix 35c268b8a)
    pure (.ok (dvbLayout 2 (encList dt v), lines,
      { scalarIndex := [r.length / 2], scalarDt := [], elements := if r.isEmpty then [] else [encList dt r], indices := [] }))
  | "sv", "mtx" =>
    let n ← nat; let _ ← nat; let idx ← natList; let v ← ratList
    if !(hyp v) then pure (.error "HYP-FAIL Exact7") else
    let lines := svMtxWrite pr n idx v
    match svMtxRead rd lines with
    | none => pure (.error "ABORT")
    | some (rn, ri, rv) =>
      -- without entries the reader builds `SparseVector(rows)` (fix 977a6be87): `svLayout` with no index
      pure (.ok (svLayout n idx (encList dt v), lines, svLayout rn ri (encList dt rv)))
  | "dm", "mtx" =>
    let r ← nat; let c ← nat; let v ← ratList
    if !(hyp v) then pure (.error "HYP-FAIL Exact7") else
    let lines := dmMtxWrite pr r c v
    match dmMtxRead rd lines with
    | none => pure (.error "ABORT")
    | some (rr, rc, rv) => pure (.ok (dmLayout r c (encList dt v), lines, dmLayout rr rc (encList dt rv)))
  | "csr", "mtx" =>
    let r ← nat; let c ← nat; let variant ← nat; let rp ← natList; let ci ← natList; let v ← ratList
    if !(hyp v) then pure (.error "HYP-FAIL Exact7") else
    if exact && !(decide (CsrWF r rp ci v 0)) then pure (.error "HYP-FAIL CsrWF") else
    let orig := csrLayout variant { rows := r, cols := c, rowPtr := rp, colInd := ci, vals := encList dt v }
    if orig.indices.isEmpty then pure (.error "SIGNAL") else
    let lines := csrMtxWrite pr r c rp ci v 0
    match csrMtxRead rd lines with
    | none => pure (.error "ABORT")
    | some (rr, rc, ue, rrp, rci, rv) =>
      pure (.ok (orig, lines,
        { scalarIndex := [rr * rc, rr, rc, ue], scalarDt := [], elements := [encList dt rv], indices := [rci, rrp] }))
  | "bcsr", "mtx" =>
    -- BCSR has a MatrixMarket writer only; the file is read back as the scalar CSR matrix
    let r ← nat; let c ← nat; let rp ← natList; let ci ← natList; let v ← ratList
    if !(hyp v) then pure (.error "HYP-FAIL Exact7") else
    let orig := bcsrLayout 2 3 r c rp ci (encList dt v)
    if orig.indices.isEmpty then pure (.error "SIGNAL") else
    let lines := bcsrMtxWrite pr 2 3 r c rp ci v 0
    match csrMtxRead rd lines with
    | none => pure (.error "ABORT")
    | some (rr, rc, ue, rrp, rci, rv) =>
      pure (.ok (orig, lines,
        { scalarIndex := [rr * rc, rr, rc, ue], scalarDt := [], elements := [encList dt rv], indices := [rci, rrp] }))
  | _, _ => throw s!"unknown text kind/mode {kind} {mode}"

def hexVal (ch : Char) : Nat :=
  if ch.isDigit then ch.toNat - '0'.toNat else if 'a' ≤ ch ∧ ch ≤ 'f' then ch.toNat - 'a'.toNat + 10
  else if 'A' ≤ ch ∧ ch ≤ 'F' then ch.toNat - 'A'.toNat + 10 else 0

def unhex : List Char → Bytes
  | a :: b :: rest => UInt8.ofNat (16 * hexVal a + hexVal b) :: unhex rest
  | _ => []

/-- checkpoint of `n` named objects: save, load, restore in the given order (the index is an exact,
    case-sensitive map from identifier bytes to record offsets; restores are independent of each other,
    so restoring every object with its own freshly loaded control gives the same output) -/
def cpRun (hexNames : Bool) : P String := do
  let n ← nat
  let objs ← many n (do
    let name ← tok; let kind ← tok
    let c ← kindP kind 8
    pure ((if hexNames then (if name = "-" then [] else unhex name.toList) else strBytes name), c))
  let order ← natList
  let tag : Tag := { magic := 13, hashDT := hashDT 8, hashIT := hashIT 8 }
  if objs.any (fun o => assignAborts true true o.2) then pure "ABORT" else
  let recs := objs.map fun o => (o.1, (serialize tag 8 8 o.2).getD [])
  -- a duplicate identifier is rejected by `add_object`
  if (cpRegisterAll [] recs).isNone then pure "ABORT" else
  let stream := cpSave recs
  let loaded := cpLoad stream
  let outs := order.map fun k =>
    match objs[k]? with
    | none => "BAD-INDEX"
    | some (name, _) =>
      match cpRestore loaded name with
      | none => "ABORT"
      | some data =>
        match deserialize 13 8 8 data with
        | none => "ABORT"
        | some r => s!"{showDump 8 r} EQ {eqFlag ((objs[k]?.map (·.2)).getD default) r}"
  if outs.any (· == "ABORT") then pure "ABORT" else
  pure (" ".intercalate (["B", showHex stream] ++ outs))

def handle : P String := do
  let op ← tok
  match op with
  | "raw" =>
    let wmode ← nat; let rmode ← nat
    let dt ← nat; let it ← nat; let dt2 ← nat; let it2 ← nat
    let c ← rawP dt
    match binRoundTrip { magic := wmode, hashDT := hashDT dt, hashIT := hashIT it } rmode dt it dt2 it2 c with
    | .error e => pure e
    | .ok (gs, b, r) => pure s!"S {gs} B {showHex b} {showDump dt r}"
  | "kind" =>
    let kind ← tok; let via ← nat
    let dt ← nat; let it ← nat; let dt2 ← nat; let it2 ← nat
    let (dt2, it2) := if via = 1 then (8, 8) else (dt2, it2)
    let c ← kindP kind dt
    match binRoundTrip { magic := magicOf kind, hashDT := hashDT dt, hashIT := hashIT it } (magicOf kind) dt it dt2 it2 c with
    | .error e => pure e
    | .ok (_, b, r) => pure s!"L {showDump dt c} B {showHex b} {showDump dt r} EQ {eqFlag c r}"
  | "txt" | "txtr" =>
    let kind ← tok; let mode ← tok
    let dt ← nat; let _ ← nat
    match (← txtRoundTrip (op == "txt") kind mode dt) with
    | .error e => pure e
    | .ok (c, lines, r) =>
      if kind = "bcsr" then pure s!"L {showDump dt c} T {showText lines} {showDump dt r}"
      else pure s!"L {showDump dt c} T {showText lines} {showDump dt r} EQ {eqFlag c r}"
  | "dfio" =>
    let sh ← tok; let bf ← tok
    let shared := if sh = "-" then [] else unhex sh.toList
    let buffer := if bf = "-" then [] else unhex bf.toList
    let file := dfWrite shared buffer
    match dfRead file [] [] with
    | none => pure "ABORT"
    | some (s2, b2) => pure s!"F {showHex file} S {showHex s2} B {showHex b2}"
  | "multi" =>
    -- k containers written back to back into one stream (after `njunk` junk bytes), read back in order
    let _ ← nat; let njunk ← nat; let k ← nat
    let objs ← many k (do
      let kind ← tok; let dt ← nat
      let c ← kindP kind dt
      pure (kind, dt, c))
    if objs.any (fun o => assignAborts (o.2.1 == 8) (o.2.1 == 8) o.2.2) then pure "ABORT" else
    let junk : Bytes := (List.range njunk).map fun i => UInt8.ofNat ((i * 37 + 11) % 256)
    let recs := objs.map fun o =>
      (({ magic := magicOf o.1, hashDT := hashDT o.2.1, hashIT := hashIT o.2.1 } : Tag), toTc o.2.1 8 8 o.2.2)
    let buf := junk ++ writeAll 8 8 recs
    -- sequential reads; every object is converted back to its memory types
    let rec go (os : List (String × Nat × Container)) (pos : Nat) (acc : List String) : Option (List String) :=
      match os with
      | [] => some acc.reverse
      | (kind, dt, orig) :: rest =>
        match readFrom (magicOf kind) 8 8 buf pos with
        | none => none
        | some (r, pos') =>
          let back := convert (cvData 8 dt) id r
          go rest pos' (s!"P {pos'} {showDump dt back} EQ {eqFlag orig back}" :: acc)
    match go objs njunk [] with
    | none => pure "ABORT"
    | some outs => pure (" ".intercalate (["B", showHex buf] ++ outs))
  | "cpmiss" =>
    -- restore an identifier that was never registered: `restore_object` asserts (reported, not silently wrong)
    let missing ← tok; let n ← nat
    let objs ← many n (do
      let name ← tok; let kind ← tok
      let c ← kindP kind 8
      pure ((if name = "-" then [] else unhex name.toList), c))
    let tag : Tag := { magic := 13, hashDT := hashDT 8, hashIT := hashIT 8 }
    let recs := objs.map fun o => (o.1, (serialize tag 8 8 o.2).getD [])
    if (cpRegisterAll [] recs).isNone then pure "ABORT" else
    match cpRestore (cpLoad (cpSave recs)) (if missing = "-" then [] else unhex missing.toList) with
    | none => pure "ABORT"
    | some data => pure s!"RESTORED {showHex data}"
  | "cp" => cpRun false
  | "cpx" => do let _ ← nat; cpRun true
  | _ => throw s!"unknown op {op}"

def step (ts : Toks) : String :=
  match run handle ts with
  | .ok s => s
  | .error e => s!"BAD-OP {e}"

end FeatModel.DrvC05

def main (args : List String) : IO Unit := FeatModel.Proto.mainWith FeatModel.DrvC05.step args
