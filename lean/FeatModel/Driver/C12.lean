import FeatModel.Model.Proto
import FeatModel.Model.Partition
import FeatModel.Model.PartitionRefine
import FeatModel.Model.PartitionSplit
import FeatModel.Model.PartiIterative
/-! line-protocol driver for the C12 models (patch extraction, halos, neighbour ranks, Parti2Lvl) -/
open FeatModel FeatModel.Proto FeatModel.Adj FeatModel.Parti
open FeatModel.Refine (Kind Part)

namespace FeatModel.DrvC12

def dimOf : String → Option Nat
  | "h1" => some 1 | "h2" => some 2 | "s2" => some 2 | "h3" => some 3 | "s3" => some 3 | _ => none

/-- all pairs `(hi, lo)`, `hi = 1..D`, `lo = 0..hi-1` in protocol order -/
def pairs (D : Nat) : List (Nat × Nat) :=
  (List.range D).flatMap fun h => (List.range (h + 1)).map fun lo => (h + 1, lo)

def graphP : P Graph := do
  let nImg ← nat
  let nDom ← nat
  let adj ← many nDom natList
  pure { nImg := nImg, adj := adj }

def setsP (num : List Nat) : List (Nat × Nat) → P (List ((Nat × Nat) × List (List Nat)))
  | [] => pure []
  | (hi, lo) :: rest => do
    let rows ← many (num.getD hi 0) natList
    let more ← setsP num rest
    pure (((hi, lo), rows) :: more)

def meshP (D : Nat) : P Mesh := do
  let num ← many (D + 1) nat
  let sets ← setsP num (pairs D)
  pure { dim := D, num := num, sets := sets }

def showGraph (g : Graph) : String :=
  s!"G {g.nImg} {showNatsL g.domainPtr} {showNatsL g.imageIdx}"

def showRank (m : Mesh) (p : Parti) (r : Nat) : String :=
  let cells := p.row r
  let comm := commRanks m p r
  let dims := List.range (m.dim + 1)
  let ts := dims.map fun d => showNatsL (m.target cells d)
  let nums := dims.map fun d => toString (m.target cells d).length
  let ms := (pairs m.dim).map fun (hi, lo) => showNatsL (m.patchIdx cells hi lo).flatten
  let nbrs := Graph.sortList comm      -- the halo map is a std::map<int,...>: ascending rank
  let built := haloProtocol m p r      -- one factory, rebuilt per neighbour in discovery order
  let hs := nbrs.map fun s =>
    let ts := match built.find? (fun e => e.1 == s) with | some e => e.2 | none => []
    " ".intercalate (toString s :: dims.map fun d => showNatsL (ts.getD d []))
  " ".intercalate (["C", showNatsL comm, "T"] ++ ts ++ ["M"] ++ nums ++ ms ++ ["H", toString nbrs.length] ++ hs)

def kindOf : String → Kind
  | "s2" => .simplex | "s3" => .simplex | _ => .hypercube

def meshXP (D : Nat) : P (Mesh × List (List Rat)) := do
  let num ← many (D + 1) nat
  let verts ← many (num.getD 0 0) (many D rat)
  let sets ← setsP num (pairs D)
  pure ({ dim := D, num := num, sets := sets }, verts)

def showSets (M : FeatModel.Refine.Mesh) : List String :=
  (pairs M.dim).map fun (hi, lo) => showNatsL (M.idx hi lo).flatten

def showCoords (M : FeatModel.Refine.Mesh) : List String :=
  ["X", showRatsL M.verts.flatten]

def showNums (M : FeatModel.Refine.Mesh) : List String :=
  (List.range (M.dim + 1)).map fun d => toString (M.num d)

/-- level dump of rank `r` after `depth` joint refinements -/
def showRankRefined (kind : Kind) (m : Mesh) (verts : List (List Rat)) (p : Parti) (depth r : Nat) : String :=
  let dims := List.range (m.dim + 1)
  let comm := commRanks m p r
  let q0 := initialSide kind m verts p r r
  let bp := partSteps depth (q0.base, q0.part)
  let nbrs := Graph.sortList comm
  let built := haloProtocol m p r
  let mesh := (partSteps depth (q0.mesh, q0.halo)).1
  let hs := nbrs.map fun s =>
    let ts := match built.find? (fun e => e.1 == s) with | some e => e.2 | none => []
    let h := (partSteps depth (q0.mesh, ({ targets := ts, topo := none } : Part))).2
    " ".intercalate (toString s :: dims.map fun d => showNatsL (h.target d))
  " ".intercalate (["C", showNatsL comm, "T"] ++ dims.map (fun d => showNatsL (bp.2.target d)) ++ ["M"] ++
    showNums mesh ++ showSets mesh ++ showCoords mesh ++ ["H", toString nbrs.length] ++ hs)

def handle : P String := do
  let op ← tok
  match op with
  | "extract" =>
    let sh ← tok
    match dimOf sh with
    | none => throw s!"unknown shape {sh}"
    | some D =>
      let m ← meshP D
      let p ← graphP
      if !extractOk m p then pure "ABORT"
      else
        let ranks := (List.range p.nDom).map (showRank m p)
        pure (" ".intercalate (["L", toString p.nDom] ++ ranks))
  | "refine" =>
    let sh ← tok
    match dimOf sh with
    | none => throw s!"unknown shape {sh}"
    | some D =>
      let depth ← nat
      let (m, verts) ← meshXP D
      let p ← graphP
      if !extractOk m p then pure "ABORT"
      else
        let base := (partSteps depth (asRefine (kindOf sh) m verts, patchPart m [])).1
        let ranks := (List.range p.nDom).map (showRankRefined (kindOf sh) m verts p depth)
        pure (" ".intercalate (["B"] ++ showNums base ++ showSets base ++ showCoords base ++
          ["L", toString p.nDom] ++ ranks))
  | "hsplit" =>
    let sh ← tok
    match dimOf sh with
    | none => throw s!"unknown shape {sh}"
    | some D =>
      let m ← meshP D
      let p ← graphP
      let childOf ← natList
      if !extractOk m p then pure "ABORT"
      else
        let dims := List.range (D + 1)
        let pars := List.range p.nDom
        -- computed once: child target sets ct[a][ch][d], neighbour lists, parent halos H[a][b][d]
        let ncs := pars.map fun a => numChildren p childOf a
        let cts := pars.map fun a => (List.range (ncs.getD a 0)).map fun ch =>
          dims.map fun d => childTarget m (p.row a) childOf ch d
        let nbrs := pars.map fun a => Graph.sortList (commRanks m p a)
        let hal := pars.map fun a => (nbrs.getD a []).map fun b => (b, dims.map fun d => halo m p a b d)
        let haloOf := fun (a b d : Nat) =>
          match (hal.getD a []).find? (fun e => e.1 == b) with
          | some e => e.2.getD d []
          | none => halo m p a b d
        let parents := pars.map fun a =>
          let nc := ncs.getD a 0
          let kids := (List.range nc).map fun ch =>
            let ctA := (cts.getD a []).getD ch []
            let ts := ctA.map showNatsL
            let hs := (nbrs.getD a []).flatMap fun b => (List.range (ncs.getD b 0)).filterMap fun dh =>
              let ctB := (cts.getD b []).getD dh []
              let ls := dims.map fun d => childHaloFrom (ctA.getD d []) (ctB.getD d []) (haloOf a b d) (haloOf b a d)
              if ls.all (·.isEmpty) then none
              else some (" ".intercalate ([toString b, toString dh] ++ ls.map showNatsL))
            " ".intercalate (["K"] ++ ts ++ ["H", toString hs.length] ++ hs)
          " ".intercalate (["P", toString nc] ++ kids)
        pure (" ".intercalate (["HS", toString p.nDom] ++ parents))
  | "idist" =>
    let sh ← tok
    match dimOf sh with
    | none => throw s!"unknown shape {sh}"
    | some D =>
      let _np ← nat; let start ← nat; let thr ← nat
      let m ← meshP D
      match FeatModel.Refine.neighbors (asRefine (kindOf sh) m []) with
      | none => pure "ABORT"
      | some nb => pure s!"D {showNatsL (iterDistance nb m.numCells thr start)}"
  | "iterc" =>
    let sh ← tok
    match dimOf sh with
    | none => throw s!"unknown shape {sh}"
    | some D =>
      let _seed ← nat; let np ← nat; let thr ← nat
      let cen ← natList
      let m ← meshP D
      match FeatModel.Refine.neighbors (asRefine (kindOf sh) m []) with
      | none => pure "ABORT"
      | some nb =>
        if np == 0 || m.numCells < np then pure "ABORT"
        else
          let cs := Graph.sortList cen
          match iterIndividual nb m.numCells thr cen with
          | none => pure s!"IC {showNatsL cs} UNINIT {showNatsL (unassigned (assignItems nb m.numCells thr cs))}"
          | some rows => pure (" ".intercalate (["IC", showNatsL cs, "R", toString rows.length] ++ rows.map showNatsL))
  | "split" =>
    let sh ← tok
    match dimOf sh with
    | none => throw s!"unknown shape {sh}"
    | some D =>
      let m ← meshP D
      let p ← graphP
      let part ← many (D + 1) natList
      if !extractOk m p then pure "ABORT"
      else
        let ranks := (List.range p.nDom).map fun r =>
          match splitPart m (p.row r) part with
          | none => "S NONE"
          | some ls => " ".intercalate ("S" :: ls.map showNatsL)
        pure (" ".intercalate (["L", toString p.nDom] ++ ranks))
  | "wf" =>
    -- the decidable hypotheses of the C12 theorems, evaluated on the same input as `extract`
    let sh ← tok
    match dimOf sh with
    | none => throw s!"unknown shape {sh}"
    | some D =>
      let m ← meshP D
      let p ← graphP
      let b := fun (x : Bool) => if x then "1" else "0"
      pure s!"WF {b m.consistent} {b (isPartition p)} {b (p.nImg == m.numCells)} {b m.facetsOk}"
  | "p2l" =>
    let sh ← tok
    let n ← nat
    let ranks ← nat
    match p2lParams sh with
    | none => throw s!"unknown shape {sh}"
    | some (factor, lvlinc, refFac) =>
      if ranks == 0 then pure "ABORT"
      else match parti2lvl factor lvlinc refFac n ranks with
      | none => pure "HANG"
      | some none => pure "F"
      | some (some r) => pure s!"S {r.refLvl} {showGraph (p2lGraph ranks r)}"
  | _ => throw s!"unknown op {op}"

def step (ts : Toks) : String :=
  match run handle ts with
  | .ok s => s
  | .error e => s!"BAD-OP {e}"

end FeatModel.DrvC12

def main (args : List String) : IO Unit := FeatModel.Proto.mainWith FeatModel.DrvC12.step args
