import FeatModel.Model.Proto
import FeatModel.Model.Partition
/-! line-protocol driver for the C12 models (patch extraction, halos, neighbour ranks, Parti2Lvl) -/
open FeatModel FeatModel.Proto FeatModel.Adj FeatModel.Parti

namespace FeatModel.DrvC12

def dimOf : String → Option Nat
  | "h1" => some 1 | "h2" => some 2 | "s2" => some 2 | "h3" => some 3 | "s3" => some 3 | _ => none

/-- all pairs `(hi, lo)`, `hi = 1..D`, `lo = 0..hi-1` in protocol order -/
def pairs (D : Nat) : List (Nat × Nat) :=
  (List.range D).flatMap fun h => (List.range (h + 1)).map fun lo => (h + 1, lo)

def graphP : P Graph := do
  let nImg ← nat
  let nDom ← nat
  let adj ← many nDom natList
  pure { nImg := nImg, adj := adj }

def setsP (num : List Nat) : List (Nat × Nat) → P (List ((Nat × Nat) × List (List Nat)))
  | [] => pure []
  | (hi, lo) :: rest => do
    let rows ← many (num.getD hi 0) natList
    let more ← setsP num rest
    pure (((hi, lo), rows) :: more)

def meshP (D : Nat) : P Mesh := do
  let num ← many (D + 1) nat
  let sets ← setsP num (pairs D)
  pure { dim := D, num := num, sets := sets }

def showGraph (g : Graph) : String :=
  s!"G {g.nImg} {showNatsL g.domainPtr} {showNatsL g.imageIdx}"

def showRank (m : Mesh) (p : Parti) (r : Nat) : String :=
  let cells := p.row r
  let comm := commRanks m p r
  let dims := List.range (m.dim + 1)
  let ts := dims.map fun d => showNatsL (m.target cells d)
  let nums := dims.map fun d => toString (m.target cells d).length
  let ms := (pairs m.dim).map fun (hi, lo) => showNatsL (m.patchIdx cells hi lo).flatten
  let nbrs := Graph.sortList comm      -- the halo map is a std::map<int,...>: ascending rank
  let hs := nbrs.map fun s =>
    " ".intercalate (toString s :: dims.map fun d => showNatsL (halo m p r s d))
  " ".intercalate (["C", showNatsL comm, "T"] ++ ts ++ ["M"] ++ nums ++ ms ++ ["H", toString nbrs.length] ++ hs)

def handle : P String := do
  let op ← tok
  match op with
  | "extract" =>
    let sh ← tok
    match dimOf sh with
    | none => throw s!"unknown shape {sh}"
    | some D =>
      let m ← meshP D
      let p ← graphP
      if !extractOk m p then pure "ABORT"
      else
        let ranks := (List.range p.nDom).map (showRank m p)
        pure (" ".intercalate (["L", toString p.nDom] ++ ranks))
  | "split" =>
    let sh ← tok
    match dimOf sh with
    | none => throw s!"unknown shape {sh}"
    | some D =>
      let m ← meshP D
      let p ← graphP
      let part ← many (D + 1) natList
      if !extractOk m p then pure "ABORT"
      else
        let ranks := (List.range p.nDom).map fun r =>
          match splitPart m (p.row r) part with
          | none => "S NONE"
          | some ls => " ".intercalate ("S" :: ls.map showNatsL)
        pure (" ".intercalate (["L", toString p.nDom] ++ ranks))
  | "wf" =>
    -- the decidable hypotheses of the C12 theorems, evaluated on the same input as `extract`
    let sh ← tok
    match dimOf sh with
    | none => throw s!"unknown shape {sh}"
    | some D =>
      let m ← meshP D
      let p ← graphP
      let b := fun (x : Bool) => if x then "1" else "0"
      pure s!"WF {b m.consistent} {b (isPartition p)} {b (p.nImg == m.numCells)}"
  | "p2l" =>
    let sh ← tok
    let n ← nat
    let ranks ← nat
    match p2lParams sh with
    | none => throw s!"unknown shape {sh}"
    | some (factor, lvlinc, refFac) =>
      if ranks == 0 then pure "ABORT"
      else match parti2lvl factor lvlinc refFac n ranks with
      | none => pure "HANG"
      | some none => pure "F"
      | some (some r) => pure s!"S {r.refLvl} {showGraph (p2lGraph ranks r)}"
  | _ => throw s!"unknown op {op}"

def step (ts : Toks) : String :=
  match run handle ts with
  | .ok s => s
  | .error e => s!"BAD-OP {e}"

end FeatModel.DrvC12

def main (args : List String) : IO Unit := FeatModel.Proto.mainWith FeatModel.DrvC12.step args
