import FeatModel.Model.Proto
import FeatModel.Model.MG
import FeatModel.Model.MGRef
/-! line-protocol driver for the C09 model (multigrid cycles)

    mg|mgr NL n_0 … n_{NL-1}  { A[n*n]  nf idx*  [P[n*nc] R[nc*n] unless last level]  4 × (flag [M[n*n]]) }^NL
       napp { cycle cgc top crs  dlen d* }^napp

    output:  per application  `E k ev_1 … ev_k X n q_1 … q_n S 1`  (call log, vec_cor, status), blank separated;
             `ABORT:range` | `ABORT:sanity` when the real code is specified to abort. -/
open FeatModel FeatModel.Proto FeatModel.MG

namespace FeatModel.DrvC09

def chunk (c : Nat) : Nat → List Rat → List (List Rat)
  | 0, _ => []
  | r + 1, l => l.take c :: chunk c r (l.drop c)

def matP (r c : Nat) : P Mat := do
  let l ← many (r * c) rat
  pure (chunk c r l)

def optMatP (n : Nat) : P (Option Mat) := do
  let f ← nat
  if f = 0 then pure none else do
    let m ← matP n n
    pure (some m)

def levelP (ns : List Nat) (nl l : Nat) : P Level := do
  let n := ns.getD l 0
  let a ← matP n n
  let fidx ← natList
  let (p, r) ← (if l + 1 < nl then do
      let nc := ns.getD (l + 1) 0
      let p ← matP n nc
      let r ← matP nc n
      pure (p, r)
    else pure ([], []))
  let pre ← optMatP n
  let post ← optMatP n
  let peak ← optMatP n
  let crs ← optMatP n
  pure { n := n, A := a, fidx := fidx, P := p, R := r, pre := pre, post := post, peak := peak, crs := crs }

def levelsP (ns : List Nat) (nl : Nat) : Nat → Nat → P (List Level)
  | 0, _ => pure []
  | k + 1, l => do
    let x ← levelP ns nl l
    let xs ← levelsP ns nl k (l + 1)
    pure (x :: xs)

def cycleOf : Nat → Cycle
  | 0 => .V | 1 => .F | _ => .W
def cgcOf : Nat → Cgc
  | 0 => .fixed | 1 => .minEnergy | _ => .minDefect

def appsP (levels : Array Level) (withRef : Bool) : Nat → Obj → List String → P String
  | 0, _, acc => pure (" ".intercalate acc.reverse)
  | k + 1, o, acc => do
    let cy ← nat; let cg ← nat; let top ← int; let crs ← int
    let d ← ratList
    match levelRange levels.size top crs with
    | none => pure "ABORT:range"
    | some (t, c) =>
      match applyOnce levels (cycleOf cy) (cgcOf cg) t c d o with
      | (.ok log cor, o') =>
        let line := s!"E {log.length}" ++ String.join (log.map (" " ++ ·)) ++ s!" X {showRatsL cor} S 1"
        -- `mgx`: additionally the independent textbook operator `mgRef` applied to the defect
        let line := if withRef then
            line ++ s!" Y {showRatsL (applyRef levels (cycleOf cy) (cgcOf cg) t c d)}" else line
        appsP levels withRef k o' (line :: acc)
      | (.abortRange, _) => pure "ABORT:range"
      | (.abortSanity, _) => pure "ABORT:sanity"

def handle : P String := do
  let op ← tok
  match op with
  | "mg" | "mgr" | "mgx" | "mgxr" =>
    let nl ← nat
    let ns ← many nl nat
    let levels ← levelsP ns nl nl 0
    let napp ← nat
    let arr := levels.toArray
    appsP arr (op == "mgx" || op == "mgxr") napp { lv := Array.replicate nl {} } []
  | _ => throw s!"unknown op {op}"

def step (ts : Toks) : String :=
  match run handle ts with
  | .ok s => s
  | .error e => s!"BAD-OP {e}"

end FeatModel.DrvC09

def main (args : List String) : IO Unit := FeatModel.Proto.mainWith FeatModel.DrvC09.step args
