import FeatModel.Model.Proto
import FeatModel.Model.LA.Filter
import FeatModel.Model.LA.FilterMat
/-! line-protocol driver for the C06 models (LAFEM filters); the line format is documented in harness/c06/main.cpp -/
open FeatModel FeatModel.Proto FeatModel.LA FeatModel.LA.Filter

namespace FeatModel.DrvC06

/-- the value that plays the role of NaN in harness/c06/main.cpp (token `nan`) -/
def nanQ : Rat := mkRat (-987654321) 1234567
def isNan (x : Rat) : Bool := x == nanQ
def gtEps (x : Rat) : Bool := decide (epsQ < x)
/-- `Math::abs(x) > Math::eps<Q>()` -/
def absGtEps (x : Rat) : Bool := decide (epsQ < (if x < 0 then -x else x))

def ratN : P Rat := do
  match (← get) with
  | "nan" :: ts => set ts; pure nanQ
  | _ => rat

def showQ (x : Rat) : String := if isNan x then "nan" else showRat x
def showQsL (l : List Rat) : String := " ".intercalate (toString l.length :: l.map showQ)

def expect (s : String) : P Unit := do
  let t ← tok
  if t != s then throw s!"expected {s}, got {t}"

/-- `k` pairs `(index, value^w)` -/
def entriesP (k w : Nat) : P (List (Nat × List Rat)) :=
  many k (do let i ← nat; let xs ← many w ratN; pure (i, xs))

/-- a filter; `none` = its construction aborts -/
partial def filterP : P (Option (Flt Rat)) := do
  let t ← tok
  match t with
  | "U" =>
    let a ← nat; let n ← nat; let k ← nat
    let es ← entriesP k 1
    let es := es.map fun e => (e.1, e.2.headD 0)
    if a == 0 then pure (some (.unit (UnitF.ofAdds n es)))
    else pure ((UnitF.ofArrays n es).map .unit)
  | "UB" =>
    let b ← nat; let a ← nat; let ign ← nat; let n ← nat; let k ← nat
    let es ← entriesP k b
    let skip := fun (x : Rat) => (ign != 0) && isNan x
    if a == 0 then pure (some (.unitB { bs := b, size := n, skip := skip, es := normalize es }))
    else if n == 0 then pure none
    else pure (some (.unitB { bs := b, size := n, skip := skip, es := es }))
  | "S" =>
    let b ← nat; let n ← nat; let k ← nat
    let es ← entriesP k b
    pure (some (.slip { bs := b, size := n, es := normalize es }))
  | "M" =>
    let c ← nat; let n ← nat
    let prim ← many n ratN; let dual ← many n ratN; let sol ← ratN; let vol ← ratN
    if c == 0 then pure ((MeanF.mk3 gtEps prim dual sol).map .mean)
    else if c == 1 then pure ((MeanF.mk4 gtEps prim dual sol vol).map .mean)
    else pure (some (.mean { prim := [], dual := [], vol := 0, sol := 0 }))
  | "MB" =>
    let b ← nat; let c ← nat; let n ← nat
    let prim ← many (n * b) ratN; let dual ← many (n * b) ratN; let sol ← many b ratN; let vol ← many b ratN
    if c == 0 then pure ((MeanBF.mk3 absGtEps b prim dual sol).map .meanB)
    else if c == 1 then pure ((MeanBF.mk4 absGtEps b prim dual sol vol).map .meanB)
    else pure (some (.meanB { bs := b, prim := [], dual := [], vol := List.replicate b 0, sol := List.replicate b 0 }))
  | "N" => pure (some .none)
  | "NB" => let _ ← nat; pure (some .none)
  | "C" | "Q" =>
    let m ← nat
    let fs ← many m filterP
    pure (if fs.all Option.isSome then some (.chain (fs.filterMap id)) else none)
  | "T" | "P" =>
    let m ← nat
    let fs ← many m filterP
    pure (if fs.all Option.isSome then some (.tuple (fs.filterMap id)) else none)
  | _ => throw s!"unknown filter tag {t}"

partial def vecP : P (Vec Rat) := do
  let t ← tok
  match t with
  | "D" => let n ← nat; let xs ← many n ratN; pure (.leaf xs)
  | "B" => let b ← nat; let n ← nat; let xs ← many (n * b) ratN; pure (.leaf xs)
  | "T" | "P" => let m ← nat; let vs ← many m vecP; pure (.node vs)
  | _ => throw s!"unknown vector tag {t}"

def modeP : P Mode := do
  let t ← tok
  match t with
  | "rhs" => pure .rhs
  | "sol" => pure .sol
  | "def" => pure .defect
  | "cor" => pure .cor
  | _ => throw s!"unknown mode {t}"

def showLeaves (v : Vec Rat) : String := " ".intercalate (v.leaves.map showQsL)

/-- apply twice, print both states -/
def twice {β : Type} (f : β → Option β) (x : β) (show1 : β → String) (t1 t2 : String) : String :=
  match f x with
  | none => "ABORT"
  | some y => match f y with
    | none => "ABORT"
    | some z => s!"{t1} {show1 y} {t2} {show1 z}"

/-- the same with the abort class of the call that failed -/
def twiceC {β : Type} (f : β → Option β) (cls : β → String) (x : β) (show1 : β → String) (t1 t2 : String) : String :=
  match f x with
  | none => cls x
  | some y => match f y with
    | none => cls y
    | some z => s!"{t1} {show1 y} {t2} {show1 z}"

def csrP : P (Csr Rat) := do
  let rows ← nat; let cols ← nat
  let rp ← natList; let ci ← natList; let v ← listOf ratN
  pure { rows := rows, cols := cols, rowPtr := rp.toArray, colInd := ci.toArray, val := v.toArray }

def bcsrP (bh bw : Nat) : P (Bcsr Rat) := do
  let rows ← nat; let cols ← nat
  let rp ← natList; let ci ← natList; let v ← listOf ratN
  pure { bh := bh, bw := bw, rows := rows, cols := cols, rowPtr := rp.toArray, colInd := ci.toArray, val := v.toArray }

def vecSigs : List String := [
  "U", "M", "N", "C(U,U)", "C(U,M)", "C(M,U)", "C(N,U)", "C(U,U,U,M)", "Q(U)", "Q(C(U,M))", "C(Q(U),M)",
  "UB2", "UB3", "S2", "S3", "MB2", "MB3", "NB2", "C(S2,UB2)", "C(UB2,S2)", "C(UB3,MB3)", "C(UB2,MB2,S2)",
  "Q(UB2)", "Q(S3)",
  "T(U)", "T(U,UB2)", "T(M,S2,U)", "T(C(U,M),UB3)", "T(Q(U),S2)",
  "P1(M)", "P2(U)", "P3(U)", "P2(UB2)", "P2(C(U,M))", "T(P2(U),M)",
  "C(UB2,MB2)", "T(C(U,M),C(U,M),C(U,M))", "C(C(U,M),C(U,M),C(U,M))", "P3(C(U,M))", "T(C(UB2,MB2),C(U,M))",
  "Q(C(UB2,MB2))", "T(C(U,M))", "P1(C(U,M))"]

def matSigs : List String := ["U", "M", "N", "C(U,U)", "C(U,M)", "C(N,U)", "C(U,U,U,M)", "Q(U)"]

def handle : P String := do
  let op ← tok
  match op with
  | "vec" =>
    let m ← modeP
    let sig ← tok
    if !vecSigs.contains sig then throw "signature not in the menu"
    let f ← filterP
    let v ← vecP
    match f with
    | none => pure "ABORT"
    | some f => pure (twiceC (f.apply m) (f.failClass m) v showLeaves "R" "R2")
  | "gvec" =>
    -- Global::Filter<F, Mirror>::filter_*(v) = F::filter_*(v.local())
    let m ← modeP
    let sig ← tok
    if !["U", "M", "C(U,M)", "UB2", "S2", "C(UB2,MB2)"].contains sig then throw "signature not in the menu"
    let f ← filterP
    let v ← vecP
    match f with
    | none => pure "ABORT"
    | some f => pure (twiceC (f.apply m) (f.failClass m) v showLeaves "R" "R2")
  | "gmean" =>
    let m ← modeP
    let comm ← nat; let n ← nat
    let prim ← many n ratN; let dual ← many n ratN
    let freq ← listOf ratN
    let v ← vecP
    match GMeanF.make (comm != 0) prim dual freq, v with
    | some f, .leaf x => pure (twiceC (f.apply m) (f.failClass m) x showQsL "R" "R2")
    | none, _ => pure "ABORT"
    | _, _ => throw "gmean: dense vector expected"
  | "mat" =>
    let kind ← tok
    let sig ← tok
    if !matSigs.contains sig then throw "signature not in the menu"
    let f ← filterP
    let A ← csrP
    let showA := fun (A : Csr Rat) => showQsL A.val.toList
    match kind, f with
    | "mat", some f => pure (twice f.filterMat A showA "A" "A2")
    | "offdiag", some (.unit f) => pure (twice f.filterOffdiagRowMat A showA "A" "A2")
    | "weak", some (.unit f) =>
      let vm ← listOf ratN
      if vm.length != A.val.size then throw "weak: value count"
      pure (twice (fun A => f.filterWeakMatrixRows A vm.toArray) A showA "A" "A2")
    | _, none => pure "ABORT"
    | _, _ => throw "unknown matrix operation"
  | "matb" =>
    let kind ← tok
    let bs ← nat; let bw ← nat
    let f ← filterP
    let A ← bcsrP bs bw
    let showA := fun (A : Bcsr Rat) => showQsL A.val.toList
    let blockedOk := [(2, 2), (2, 3), (3, 2), (2, 1), (3, 3)].contains (bs, bw)
    match kind, f with
    | "offdiagh", some (.unit _) =>
      if bw != 1 || (bs != 2 && bs != 3) then throw "bad block size"
      pure s!"A {showA A} A2 {showA A}"
    | "offdiag", some (.unit f) =>
      if bs != 1 || (bw != 2 && bw != 3) then throw "bad block size"
      pure (twice f.filterOffdiagRowMatB1 A showA "A" "A2")
    | "mat", some (.unitB f) =>
      if !blockedOk || f.bs != bs then throw "bad block size"
      pure (twice f.filterMat A showA "A" "A2")
    | "offdiag", some (.unitB f) =>
      if !blockedOk || f.bs != bs then throw "bad block size"
      pure (twice f.filterOffdiagRowMat A showA "A" "A2")
    | "weak", some (.unitB f) =>
      if !blockedOk || f.bs != bs then throw "bad block size"
      let vm ← listOf ratN
      if vm.length != A.val.size then throw "weak: value count"
      pure (twice (fun A => f.filterWeakMatrixRows A vm.toArray) A showA "A" "A2")
    | _, none => pure "ABORT"
    | _, _ => throw "unknown matrix operation"
  | _ => throw s!"unknown op {op}"

def step (ts : Toks) : String :=
  match run handle ts with
  | .ok s => s
  | .error e => s!"BAD-OP {e}"

end FeatModel.DrvC06

def main (args : List String) : IO Unit := FeatModel.Proto.mainWith FeatModel.DrvC06.step args
