import FeatModel.Model.Proto
import FeatModel.Model.DA.Layers
import FeatModel.Model.DA.Fence
/-! line-protocol driver for the C17 models: work distribution of `DomainAssembler` (`dist`) and validation of
recorded event logs against the protocol transition systems (`trace`).

The validator itself (`closure`, thread binding, bookkeeping) is driver code; every state change goes through
`LCfg.step` / `CCfg.step`, the functions the theorems of `Props/C17.lean` are about. -/
open FeatModel FeatModel.Proto FeatModel.Adj FeatModel.DA

namespace FeatModel.DrvC17

structure Input where
  strategy : Nat
  maxW : Nat
  nvt : Nat
  cells : List (List Nat)
  sel : List Nat

def inputP : P Input := do
  let s ← nat; let w ← nat; let nvt ← nat
  let nc ← nat
  let cells ← many nc natList
  let sel ← natList
  pure ⟨s, w, nvt, cells, sel⟩

def showDist (d : Dist) : String :=
  s!"D {d.strategy} {d.nW} {d.nFences} {showNatsL d.elemIdx} {showNatsL d.layerElems} {showNatsL d.threadLayers} {showNatsL d.colorElems}"

/-! ### expected deterministic results of a run -/

def insertBy (lt : List Nat → List Nat → Bool) (x : List Nat) : List (List Nat) → List (List Nat)
  | [] => [x]
  | y :: ys => if lt y x then y :: insertBy lt x ys else x :: y :: ys

def sortSeqs (l : List (List Nat)) : List (List Nat) :=
  l.foldl (fun acc x => insertBy (fun a b => a.headD 0 < b.headD 0) x acc) []

/-- per-thread cell sequences, sorted by first cell -/
def expectedSeqs (d : Dist) (needScatter : Bool) : List (List Nat) :=
  sortSeqs (((List.range (d.nW + 1)).map fun w => workerCells d needScatter w).filter (!·.isEmpty))

/-- the instrumented job: cell `c` adds `(c+1)*(k+1)` to the entry of its `k`-th vertex; integral `+= 7*(c+1)` -/
def expectedVec (inp : Input) (needScatter : Bool) : List Nat :=
  if !needScatter then List.replicate inp.nvt 0
  else
    (inp.sel.foldl (fun (v : Array Nat) c =>
      ((inp.cells.getD c []).zipIdx).foldl (fun v (vt, k) => v.setIfInBounds vt (v.getD vt 0 + (c + 1) * (k + 1))) v)
      (Array.replicate inp.nvt 0)).toList

def expectedIntegral (inp : Input) (needCombine : Bool) : Nat :=
  if needCombine then inp.sel.foldl (fun a c => a + 7 * (c + 1)) 0 else 0

/-! ### trace validation -/

structure RawEv where
  kind : Nat
  t : Nat
  a : Nat

def toEv (bind : Nat → Nat) (e : RawEv) : Option Ev :=
  match e.kind with
  | 0 => some (.fopen (bind e.t) e.a)
  | 1 => some (.fwait (bind e.t) e.a)
  | 2 => some (.fclose (bind e.t) e.a)
  | 3 => some (.enter (bind e.t) e.a)
  | 4 => some (.leave (bind e.t) e.a)
  | 5 => some (.center (bind e.t))
  | 6 => some (.cleave (bind e.t))
  | 9 => some .join
  | _ => none

def isInternal : Ev → Bool
  | .fopen .. | .fwait .. | .fclose .. | .join => true
  | _ => false

/-- generic machine interface so that layered and colored share the validator -/
structure Machine (σ : Type) where
  n : Nat
  next : σ → Nat → Option Ev
  step : σ → Ev → Option σ
  final : σ → Bool

/-- advance every thread over its internal (fence / join) events while they are enabled -/
def closure (m : Machine σ) : Nat → σ → σ
  | 0, s => s
  | fuel + 1, s =>
    let r := (List.range (m.n + 1)).foldl (fun (acc : σ × Bool) t =>
      match m.next acc.1 t with
      | some e => if isInternal e then (match m.step acc.1 e with | some s' => (s', true) | none => acc) else acc
      | none => acc) (s, false)
    if r.2 then closure m fuel r.1 else r.1

/-- feed the events; `hooks = true`: every event is explicit; otherwise the internal ones are taken eagerly -/
def feed (m : Machine σ) (hooks : Bool) (fuel : Nat) : List Ev → Nat → σ → Except String σ
  | [], _, s => .ok (if hooks then s else closure m fuel s)
  | e :: es, k, s =>
    let s := if hooks then s else closure m fuel s
    match m.step s e with
    | some s' => feed m hooks fuel es (k + 1) s'
    | none => .error s!"event {k} ({repr e}) is not a transition of the model"

def lMachine (c : LCfg) : Machine LSt := ⟨c.n, c.next, c.step, LCfg.final⟩
def cMachine (c : CCfg) : Machine CSt := ⟨c.n, c.next, c.step, CCfg.final⟩
def nMachine (c : NCfg) : Machine NSt := ⟨c.n, c.next, c.step, NCfg.final⟩

/-- master-only run (`assemble_master`): the events must be `enter c, leave c` for the cells in order, then combine -/
def feedM (c : MCfg) : List EEv → Nat → MSt → Except String MSt
  | [], _, s => .ok s
  | e :: es, k, s =>
    match c.estep s e with
    | some s' => feedM c es (k + 1) s'
    | none => .error s!"event {k} ({repr e}) is not a transition of the master-only model"

/-- master-only run (`assemble_master`), with or without a throwing task: replay on `MCfg.estep`.  Only the job-level
events of the calling thread and its `open(false)` on fence 0 are events of that machine; for jobs without scatter the
elements passed before the failure are not observable and are supplied as `leave` steps. -/
def validateMasterE (d : Dist) (ns ncb : Bool) (raw : List RawEv) : Except String Unit := do
  let c : MCfg := ⟨d.elemIdx.length, fun p => d.elemIdx.getD p 0, ns, ncb⟩
  let evs : List EEv := raw.filterMap fun e =>
    match e.kind with
    | 3 => some (.ok (.enter 0 e.a)) | 4 => some (.ok (.leave 0 e.a))
    | 5 => some (.ok (.center 0)) | 6 => some (.ok (.cleave 0))
    | 13 => some (.fail 0)
    | 11 => if e.a = 0 then some (.fopenF 0 0) else none
    | _ => none
  let try1 := fun (k : Nat) =>
    let pre : List EEv := if ns then [] else (List.range k).map fun p => EEv.ok (.leave 0 (c.cell p))
    match feedM c (pre ++ evs) 0 c.init with
    | .ok s => if MCfg.efinal s then Except.ok () else Except.error "log ends in a non-final state"
    | .error e => Except.error e
  if ns then try1 0
  else
    -- without scatter: the failure (if any) happened at the cell named in the `fail` event, before or after it
    let fc := (raw.find? (·.kind = 13)).map (·.a)
    let k := match fc with | some x => (d.elemIdx.findIdx (· == x)) | none => c.cnt
    match try1 k with
    | .ok () => pure ()
    | .error _ => match try1 (k + 1) with
      | .ok () => pure ()
      | .error _ => try1 c.cnt

def toEEv (bind : Nat → Nat) (e : RawEv) : Option EEv :=
  match e.kind with
  | 11 => some (.fopenF (bind e.t) e.a)
  | 12 => some (.fwaitF (bind e.t) e.a)
  | 13 => some (.fail (bind e.t))
  | _ => (toEv bind e).map EEv.ok

def feedE (step : σ → EEv → Option σ) : List EEv → Nat → σ → Except String σ
  | [], _, s => .ok s
  | e :: es, k, s =>
    match step s e with
    | some s' => feedE step es (k + 1) s'
    | none => .error s!"event {k} ({repr e}) is not a transition of the error-path model"

def isMasterCloseE : EEv → Bool
  | .ok (.fclose 0 _) => true
  | _ => false

/-- a job with an injected task failure (hook H2 log required): the log must be a run of the error-path machines -/
def validateErr (d : Dist) (ns ncb : Bool) (fs : List Bool) (raw : List RawEv) (bind : Nat → Nat) :
    Except String (List Bool) := do
  let evs := raw.filterMap (toEEv bind)
  let pre := evs.takeWhile isMasterCloseE
  let fs1 := pre.foldl (fun fs e => match e with | .ok (.fclose _ k) => resetStep fs k | _ => fs) fs
  let evs := evs.drop pre.length
  if fs1 ≠ resetAll fs then throw "a fence is still open from the previous job when the protocol starts"
  if !ns then
    -- jobs without scatter: the worker's own `open(false)` is the only fence event besides the master's
    let c : NCfg := ⟨d.nW, ncb⟩
    let s ← feedE c.estep evs 0 { c.einit with base := c.initFrom fs1 }
    let opened := evs.filterMap fun e => match e with | .fopenF _ f => some f | _ => none
    let fs2 := opened.foldl (fun fs f => fs.set f true) (fs1.set 0 s.base.front)
    if NCfg.efinal s then return fs2 else throw "log ends in a non-final state"
  else if d.strategy = 4 then
    let c := CCfg.ofDist d ncb
    let s ← feedE c.estep evs 0 { c.einit with base := c.initFrom fs1 }
    if CCfg.efinal s then return persist d.nFences s.base.fence else throw "log ends in a non-final state"
  else
    let c := LCfg.ofDist d ncb
    let s ← feedE c.estep evs 0 { c.einit with base := c.initFrom fs1 }
    if LCfg.efinal s then return persist d.nFences s.base.fence else throw "log ends in a non-final state"

/-- the refined event list (combine phase in detail).  The lock is observed by the instrumented job's mutex probe
(kind 14: `try_lock` on `_thread_mutex` from inside the body of `combine()` must fail, i.e. the mutex is really held):
`combine enter` = lock ; body begins, `combine leave` = body ends ; unlock.  A body that runs without the mutex is
rejected. -/
def toXEvs (bind : Nat → Nat) (raw : List RawEv) : Except String (List XEv) := do
  let mut out : List XEv := []
  for e in raw do
    let t := bind e.t
    match e.kind with
    | 5 => out := out ++ [XEv.lock t, XEv.cbeg t]
    | 6 => out := out ++ [XEv.cend t, XEv.unlock t]
    | 14 => if e.a = 0 then throw s!"worker {t} runs the body of combine() without holding _thread_mutex"
    | _ => match toEv bind e with
      | some ev => out := out ++ [XEv.base ev]
      | none => pure ()
  return out

def feedX (step : σ → XEv → Option σ) : List XEv → Nat → σ → Except String σ
  | [], _, s => .ok s
  | e :: es, k, s =>
    match step s e with
    | some s' => feedX step es (k + 1) s'
    | none => .error s!"event {k} ({repr e}) is not a transition of the model (combine phase in detail)"

def isMasterCloseX : XEv → Bool
  | .base (.fclose 0 _) => true
  | _ => false

/-- every worker must have combined exactly once -/
def checkLog (d : Dist) (ncb : Bool) (log : List Nat) : Except String Unit :=
  let want := if ncb then (List.range d.nW).map (· + 1) else []
  if log.length = want.length ∧ want.all (log.contains ·) then .ok ()
  else .error s!"combine() bodies completed by {log}, expected every worker exactly once"

/-- non-failing job on worker threads with the complete hook-H2 log: replay on the refined machines -/
def validateX (d : Dist) (ns ncb : Bool) (fs : List Bool) (raw : List RawEv) (bind : Nat → Nat) :
    Except String (List Bool) := do
  let evs ← toXEvs bind raw
  let pre := evs.takeWhile isMasterCloseX
  let fs1 := pre.foldl (fun fs e => match e with | .base (.fclose _ k) => resetStep fs k | _ => fs) fs
  let evs := evs.drop pre.length
  match (fs1.zipIdx.find? (fun p => p.1)) with
  | some (_, k) => throw s!"fence {k} is still open from the previous job when the protocol starts"
  | none => pure ()
  if fs1 ≠ resetAll fs then throw "fence vector after the reset loop differs from the model's"
  if !ns then
    let c : NCfg := ⟨d.nW, ncb⟩
    let s ← feedX c.xstep evs 0 (xinit (c.initFrom fs1))
    checkLog d ncb s.log
    if NCfg.final s.base then return fs1.set 0 s.base.front else throw "log ends in a non-final state"
  else if d.strategy = 4 then
    let c := CCfg.ofDist d ncb
    let s ← feedX c.xstep evs 0 (xinit (c.initFrom fs1))
    checkLog d ncb s.log
    if CCfg.final s.base then return persist d.nFences s.base.fence else throw "log ends in a non-final state"
  else
    let c := LCfg.ofDist d ncb
    let s ← feedX c.xstep evs 0 (xinit (c.initFrom fs1))
    checkLog d ncb s.log
    if LCfg.final s.base then return persist d.nFences s.base.fence else throw "log ends in a non-final state"

def isMasterClose : Ev → Bool
  | .fclose 0 _ => true
  | _ => false

/-- validates the log of one job; `fs` = state of `_thread_fences` left by the previous jobs of this assembler;
returns the fence vector this job leaves behind -/
def validate (d : Dist) (ns ncb hooks failing : Bool) (fs : List Bool) (raw : List RawEv) : Except String (List Bool) := do
  -- thread binding: kind 8 events `8 label firstcell`
  let firsts := (List.range (d.nW + 1)).map fun w => ((workerCells d ns w).head?, w)
  let binds := raw.filterMap fun e =>
    if e.kind = 8 then (firsts.find? (fun p => p.1 = some e.a)).map fun p => (e.t, p.2) else none
  let nb := (raw.filter (·.kind = 8)).length
  if binds.length ≠ nb then throw "a thread starts with a cell that is no worker's first cell"
  -- a worker that never got to a cell (error path: the colour loop was left before its first share) is identified
  -- by the fence it opens (workers only ever open their own fence)
  let ownFence := fun (l : Nat) => ((raw.find? (fun e => (e.kind = 0 ∨ e.kind = 11) ∧ e.t = l)).map (·.a)).getD (d.nW + 1)
  let bind := fun (l : Nat) => if l = 0 then 0 else ((binds.find? (·.1 = l)).map (·.2)).getD (ownFence l)
  if failing then
    -- error path: modelled for scatter jobs on worker threads with the complete (hook H2) log; otherwise only the
    -- outcome (termination, results of the following jobs) is checked
    if hooks ∧ d.nW ≠ 0 ∧ !d.elemIdx.isEmpty then return (← validateErr d ns ncb fs raw bind)
    else if d.elemIdx.isEmpty then return fs
    else if d.nW = 0 then
      validateMasterE d ns ncb raw
      return (List.replicate d.nFences true)
    else return (resetAll fs).set 0 true
  if hooks ∧ d.nW ≠ 0 ∧ !d.elemIdx.isEmpty then return (← validateX d ns ncb fs raw bind)
  let evs := raw.filterMap (toEv bind)
  -- without hook H2 only the job-level events are in the log (plus the final join marker)
  let evs := if hooks then evs else evs.filter (!isInternal ·)
  -- `assemble()` returns immediately when there are no elements: the fences are not touched
  if d.elemIdx.isEmpty then
    if evs.all isInternal then return fs else throw "events without elements"
  -- the reset loop: with hook H2 every `close()` is in the log; the fences the job really starts with are the
  -- persisted ones after the LOGGED closes - a fence left open from the previous job is rejected
  let pre := evs.takeWhile isMasterClose
  let fs1 := if hooks then pre.foldl (fun fs e => match e with | .fclose _ k => resetStep fs k | _ => fs) fs
             else resetAll fs
  let evs := if hooks then evs.drop pre.length else evs
  match (fs1.zipIdx.find? (fun p => p.1)) with
  | some (_, k) => throw s!"fence {k} is still open from the previous job when the protocol starts"
  | none => pure ()
  if fs1 ≠ resetAll fs then throw "fence vector after the reset loop differs from the model's"
  let fuel := 4 * (d.nW + 2) * (d.colorElems.length + 2) + 16
  if d.nW = 0 then
    -- `assemble_master`: reset, open front and back, work on the calling thread
    validateMasterE d ns ncb raw
    return (fs1.set 0 true).set (d.nFences - 1) true
  else if !ns then
    -- jobs without scatter: workers touch no fence, the master opens the front fence and joins (every strategy)
    let c : NCfg := ⟨d.nW, ncb⟩
    let s ← feed (nMachine c) hooks fuel evs 0 (c.initFrom fs1)
    if NCfg.final s then return fs1.set 0 s.front else throw "log ends in a non-final state"
  else if d.strategy = 4 then
    let c := CCfg.ofDist d ncb
    let s ← feed (cMachine c) hooks fuel evs 0 (c.initFrom fs1)
    if CCfg.final s then return persist d.nFences s.fence else throw "log ends in a non-final state"
  else
    let c := LCfg.ofDist d ncb
    let s ← feed (lMachine c) hooks fuel evs 0 (c.initFrom fs1)
    if LCfg.final s then return persist d.nFences s.fence else throw "log ends in a non-final state"

def rawEvP : P RawEv := do
  let k ← nat; let t ← nat; let a ← nat
  pure ⟨k, t, a⟩

def showSeqs (l : List (List Nat)) : String :=
  " ".intercalate (toString l.length :: l.map showNatsL)

/-- validates the recorded jobs of one assembler one after the other; `specs` = (scatter, combine, failing) per job -/
def traceBody (inp : Input) (specs : List (Bool × Bool × Bool)) : P String := do
  let r ← tok
  if r ≠ "R" then pure "REJECT abnormal-run"
  else
    let _nw ← nat; let _reps ← nat
    match compile inp.strategy inp.maxW inp.nvt inp.cells inp.sel with
    | none => pure "REJECT model-abort"
    | some d =>
      let mut out := s!"T {d.nW} {specs.length}"
      let mut bad : Option String := none
      -- `compile()` creates the fences closed; from then on their state persists from job to job
      let mut fs : List Bool := List.replicate d.nFences false
      let mut rep := 0
      for (nsr, ncr, failing) in specs do
        -- skip the implementation's deterministic part, read the events
        let nseq ← nat
        let _ ← many nseq natList
        let _ ← natList
        let _ ← nat; let _ ← nat
        let hooks ← nat
        let nev ← nat
        let raw ← many nev rawEvP
        if bad.isNone then
          match validate d nsr ncr (hooks != 0) failing fs raw with
          | .ok fs' => fs := fs'
          | .error e => bad := some s!"REJECT rep {rep}: {e}"
        let ncomb := if ncr ∧ !d.elemIdx.isEmpty then (if d.nW = 0 then 1 else d.nW) else 0
        if failing then out := out ++ " F"
        else out := out ++ s!" {showSeqs (expectedSeqs d nsr)} {showNatsL (expectedVec inp nsr)} {expectedIntegral inp ncr} {ncomb}"
        rep := rep + 1
      match bad with
      | some b => pure b
      | none => pure out

/-! ### exhaustive exploration of a small instance (cross-check with TLC, supporting evidence) -/

def phCode : Ph → Nat
  | .front => 0 | .idle => 1 | .ready => 2 | .insc => 3 | .toOpen => 4 | .back => 5 | .toOpen2 => 6
  | .preComb => 7 | .inComb => 8 | .done => 9

def mphCode : MPh → Nat
  | .openFront => 0 | .wait1 => 1 | .close1 => 2 | .closeFront => 3 | .openBack => 4 | .wait2 => 5 | .close2 => 6
  | .closeBack => 7 | .join => 8 | .done => 9

def b2n (b : Bool) : Nat := if b then 1 else 0

def lKey (c : LCfg) (s : LSt) : List Nat :=
  (List.range (c.n + 2)).map (fun f => b2n (s.fence f)) ++ (List.range (c.n + 1)).map (fun t => phCode (s.ph t)) ++
    (List.range c.n).map (fun k => s.pos (k + 1)) ++ [b2n s.mutex]

def cKey (c : CCfg) (s : CSt) : List Nat :=
  (List.range (c.n + 2)).map (fun f => b2n (s.fence f)) ++ (List.range c.n).map (fun k => phCode (s.ph (k + 1))) ++
    (List.range c.n).map (fun k => s.pos (k + 1)) ++ (List.range (c.n + 1)).map (fun t => s.col t) ++
    [mphCode s.mph, s.mi, b2n s.mutex]

/-- breadth-first search over `step` (every thread's `next` event); returns (#distinct states, #transitions,
#final states, #non-final states without successor) -/
def explore (m : Machine σ) (key : σ → List Nat) (fuel : Nat) (s0 : σ) : Nat × Nat × Nat × Nat :=
  let rec go : Nat → List σ → List (List Nat) → Nat → Nat → Nat → Nat × Nat × Nat × Nat
    | 0, _, seen, tr, fin, dead => (seen.length, tr, fin, dead)
    | _, [], seen, tr, fin, dead => (seen.length, tr, fin, dead)
    | fuel + 1, s :: rest, seen, tr, fin, dead =>
      let succ := (List.range (m.n + 1)).filterMap fun t => (m.next s t).bind (m.step s)
      let (rest', seen') := succ.foldl (fun (acc : List σ × List (List Nat)) s' =>
        let k := key s'
        if acc.2.contains k then acc else (acc.1 ++ [s'], k :: acc.2)) (rest, seen)
      go fuel rest' seen' (tr + succ.length) (fin + (if m.final s then 1 else 0))
        (dead + (if succ.isEmpty ∧ !m.final s then 1 else 0))
  go fuel [s0] [key s0] 0 0 0

def handle : P String := do
  let op ← tok
  match op with
  | "dist" =>
    let inp ← inputP
    match compile inp.strategy inp.maxW inp.nvt inp.cells inp.sel with
    | some d => pure (showDist d)
    | none => pure "ABORT"
  | "trace" =>
    let inp ← inputP
    let ns ← nat; let ncb ← nat; let reps ← nat; let _pseed ← nat
    let bar ← tok
    -- optional failure injection for the first job: `fwhere fcell`
    let (failing, bar) ← (if bar ≠ "|" then do
        let _fcell ← nat
        let b ← tok
        pure (bar ≠ "0", b)
      else pure (false, bar) : P (Bool × String))
    if bar ≠ "|" then throw "missing |"
    -- job types per repetition (2 = alternate: even repetitions scatter / combine)
    let specs := (List.range reps).map fun rep =>
      (if ns = 2 then rep % 2 == 0 else ns != 0, if ncb = 2 then rep % 2 == 0 else ncb != 0, failing && rep == 0)
    traceBody inp specs
  | "explore" =>
    -- explore L n comb <le> <tl>   |   explore C n comb <ce> : full state graph of a small instance
    let kind ← tok
    let n ← nat; let comb ← nat
    if kind = "L" then
      let le ← natList; let tl ← natList
      let c := LCfg.ofFns n (fun k => le.getD k 0) (fun k => tl.getD k 0) (fun p => p) (comb != 0)
      let r := explore (lMachine c) (lKey c) 2000000 c.init
      pure s!"X {r.1} {r.2.1} {r.2.2.1} {r.2.2.2}"
    else
      let ce ← natList
      let d : Dist := ⟨4, n, List.range (ce.getLastD 0), [], [], ce, n + 2⟩
      let c := CCfg.ofDist d (comb != 0)
      let r := explore (cMachine c) (cKey c) 2000000 c.init
      pure s!"X {r.1} {r.2.1} {r.2.2.1} {r.2.2.2}"
  | "strace" =>
    -- an explicit session: `pseed njobs {ns ncb fwhere fcell}*`
    let inp ← inputP
    let _pseed ← nat
    let nj ← nat
    let specs ← many nj (do
      let a ← nat; let b ← nat; let fw ← nat; let _fc ← nat
      pure (a != 0, b != 0, fw != 0))
    let bar ← tok
    if bar ≠ "|" then throw "missing |"
    traceBody inp specs
  | _ => throw s!"unknown op {op}"

def step (ts : Toks) : String :=
  match run handle ts with
  | .ok s => s
  | .error e => s!"BAD-OP {e}"

end FeatModel.DrvC17

def main (args : List String) : IO Unit := FeatModel.Proto.mainWith FeatModel.DrvC17.step args
