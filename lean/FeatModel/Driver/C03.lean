import FeatModel.Model.Proto
import FeatModel.Model.LA.MatAlg
/-! line-protocol driver for the C03 models (matrix algebra of SparseMatrixCSR / SparseMatrixBCSR);
    the line format is documented in harness/c03/main.cpp -/
open FeatModel FeatModel.Proto FeatModel.LA FeatModel.LA.MatAlg FeatModel.Vec

namespace FeatModel.DrvC03

def itP : P Unit := do
  let it ← nat
  if it != 32 && it != 64 then throw "bad index type"

def csrP : P (Csr Rat) := do
  let rows ← nat; let cols ← nat
  let rp ← natList; let ci ← natList; let v ← ratList
  pure { rows := rows, cols := cols, rowPtr := rp.toArray, colInd := ci.toArray, val := v.toArray }

def bcsrP (bh bw : Nat) : P (Bcsr Rat) := do
  let rows ← nat; let cols ← nat
  let rp ← natList; let ci ← natList; let v ← ratList
  pure { bh := bh, bw := bw, rows := rows, cols := cols, rowPtr := rp.toArray, colInd := ci.toArray, val := v.toArray }

def flagP : P Bool := do
  let n ← nat
  pure (n != 0)

/-- the content the harness gives the output vector before the call (`DenseVector r(n, Q(777))`) -/
def sentinel (n : Nat) : Array Rat := Array.replicate n 777

def showV (l : List Rat) : String := s!"V {showRatsL l}"
def showS (q : Rat) : String := s!"S {showRat q}"

def showE (f : β → String) : Except Abort β → String
  | .ok r => f r
  | .error _ => "ABORT"

def showO : Option Rat → String
  | some q => showS q
  | none => "UNDEF"

/-- result of `shrink`: an entry-free result is the array-less matrix `SparseMatrixCSR(rows, columns)` -/
def showShrink (rows cols : Nat) (rs : List (Row Rat)) : String :=
  let vals := valuesOf rs
  if vals.isEmpty then s!"M {rows} {cols} 0 0 0"
  else s!"M {rows} {cols} {showNatsL (rowPtrOf rs)} {showNatsL (rs.flatten.map Prod.fst)} {showRatsL vals}"

def handleCsr : P String := do
  let op ← tok
  match op with
  | "axpy" => let T ← csrP; let X ← csrP; let a ← rat; let al ← flagP
              pure (showE showV (csrAxpy T (if al then T else X) a al))
  | "scale" => let T ← csrP; let X ← csrP; let a ← rat; let al ← flagP
               pure (showE showV (csrScale T (if al then T else X) a al))
  | "scale_rows" => let T ← csrP; let X ← csrP; let s ← ratList; let al ← flagP
                    pure (showE showV (csrScaleRows T (if al then T else X) s.toArray))
  | "scale_cols" => let T ← csrP; let X ← csrP; let s ← ratList; let al ← flagP
                    pure (showE showV (csrScaleCols T (if al then T else X) s.toArray))
  | "mm" => let X ← csrP; let D ← csrP; let B ← csrP; let a ← rat; let allow ← flagP
            pure (showE (fun r => showV (valuesOf r)) (csrAddMatMat allow a X D B))
  | "dmm" => let X ← csrP; let D ← csrP; let A ← csrP; let B ← csrP; let a ← rat; let allow ← flagP
             pure (showE (fun r => showV (valuesOf r)) (csrAddDoubleMatMat allow a X D A B))
  | "dgm" => let X ← csrP; let D ← csrP; let av ← ratList; let B ← csrP; let a ← rat; let allow ← flagP
             pure (showE (fun r => showV (valuesOf r)) (csrAddDoubleDiag allow a X D av.toArray B))
  | "lump" => let A ← csrP; pure (showV (csrLumpInto (sentinel A.rows) A).toList)
  | "diag" => let A ← csrP
              pure (showE (fun (r : List Rat × List Nat) => s!"{showV r.1} I {showNatsL r.2}") (csrExtractDiag A))
  | "frob" => let A ← csrP; pure (showS (qsqrt (csrFrobSq A)))
  | "rownorm2" => let A ← csrP; pure (showV (csrRowNorm2Into qsqrt (sentinel A.rows) A).toList)
  | "rownorm2sqr" => let A ← csrP; pure (showV (csrRowNorm2SqrInto (sentinel A.rows) A).toList)
  | "rownorm2sqr_s" => let A ← csrP; let s ← ratList
                       pure (showV (csrRowNorm2SqrScaledInto (sentinel A.rows) A s.toArray).toList)
  | "maxabs" => let A ← csrP; pure (showO (maxAbsElemK A.val.toList))
  | "minabs" => let A ← csrP; pure (showO (minAbsElemK A.val.toList))
  | "max" => let A ← csrP; pure (showO (maxElemK A.val.toList))
  | "min" => let A ← csrP; pure (showO (minElemK A.val.toList))
  | "shrink" => let A ← csrP; let eps ← rat; pure (showShrink A.rows A.cols (csrShrink A eps))
  | _ => throw s!"unknown op {op}"

def handleBcsr : P String := do
  let bh ← nat; let bw ← nat
  if !([(2,2),(3,3),(2,3),(3,2)].contains (bh, bw)) then throw "bad block size"
  let mP := bcsrP bh bw
  let op ← tok
  match op with
  | "axpy" => let T ← mP; let X ← mP; let a ← rat; let al ← flagP
              pure (showE showV (bcsrAxpy T (if al then T else X) a al))
  | "scale" => let T ← mP; let X ← mP; let a ← rat; let al ← flagP
               pure (showE showV (bcsrScale T (if al then T else X) a al))
  | "scale_rows" => let T ← mP; let X ← mP; let s ← ratList; let al ← flagP
                    pure (showE showV (bcsrScaleRows T (if al then T else X) s.toArray))
  | "scale_cols" => let T ← mP; let X ← mP; let s ← ratList; let al ← flagP
                    pure (showE showV (bcsrScaleCols T (if al then T else X) s.toArray))
  | "dmm" => let X ← mP; let D ← mP; let A ← mP; let B ← mP; let a ← rat; let allow ← flagP
             pure (showE (fun r => showV (podOf r)) (bcsrAddDoubleMatMat allow a X D A B))
  | "dmm_csr" => let X ← mP; let D ← csrP; let A ← mP; let B ← csrP; let a ← rat; let allow ← flagP
                 pure (showE (fun r => showV (podOf r)) (bcsrAddDoubleCsrBcsrCsr allow a X D A B))
  | "lump" => let A ← mP; pure (showV (bcsrLumpInto (sentinel (A.rows * A.bh)) A).toList)
  | "diag" => let A ← mP; pure (showE showV (bcsrExtractDiag A))
  | "frob" => let A ← mP; pure (showS (qsqrt (bcsrFrobSq A)))
  | "rownorm2" => let A ← mP; pure (showV (bcsrRowNorm2Into qsqrt (sentinel (A.rows * A.bh)) A).toList)
  | "rownorm2sqr" => let A ← mP; pure (showV (bcsrRowNorm2SqrInto (sentinel (A.rows * A.bh)) A none).toList)
  | "rownorm2sqr_s" => let A ← mP; let s ← ratList
                       pure (showV (bcsrRowNorm2SqrInto (sentinel (A.rows * A.bh)) A (some s.toArray)).toList)
  | "maxabs" => let A ← mP; pure (showO (maxAbsElemK A.val.toList))
  | "minabs" => let A ← mP; pure (showO (minAbsElemK A.val.toList))
  | "max" => let A ← mP; pure (showO (maxElemK A.val.toList))
  | "min" => let A ← mP; pure (showO (minElemK A.val.toList))
  | _ => throw s!"unknown op {op}"

def handle : P String := do
  let fmt ← tok
  itP
  match fmt with
  | "csr" => handleCsr
  | "bcsr" => handleBcsr
  | _ => throw s!"unknown format {fmt}"

def step (ts : Toks) : String :=
  match run handle ts with
  | .ok s => s
  | .error e => s!"BAD-OP {e}"

end FeatModel.DrvC03

def main (args : List String) : IO Unit := FeatModel.Proto.mainWith FeatModel.DrvC03.step args
