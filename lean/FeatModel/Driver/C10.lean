import FeatModel.Model.Proto
import FeatModel.Model.Refine
/-! line-protocol driver for the C10 models (mesh refinement, neighbours, boundary, mesh parts, orientation codes) -/
open FeatModel FeatModel.Proto FeatModel.Refine FeatModel.Gen.Refine

namespace FeatModel.DrvC10

def kindP : P Kind := do
  let t ← tok
  match t with
  | "s" => pure .simplex
  | "h" => pure .hypercube
  | _ => throw s!"bad shape kind {t}"

def chunks (n : Nat) (k : Nat) (l : List α) : List (List α) :=
  (List.range n).map fun i => (l.drop (i * k)).take k

/-- all index sets `<c,f>`, each as `nums[c] * faceCount` integers -/
def idxDataP (kind : Kind) (dim : Nat) (nums : List Nat) : P (List (List (List (List Nat)))) := do
  let mut data : List (List (List (List Nat))) := [[]]
  for c in List.range' 1 dim do
    let mut row : List (List (List Nat)) := []
    for f in List.range c do
      let n := nums.getD c 0
      let k := faceCount kind c f
      let flat ← many (n * k) nat
      row := row ++ [chunks n k flat]
    data := data ++ [row]
  pure data

def meshP (kind : Kind) (dim : Nat) (withVerts : Bool) : P Mesh := do
  let nums ← many (dim + 1) nat
  let verts ← if withVerts then do
      let flat ← many (nums.getD 0 0 * dim) rat
      pure (chunks (nums.getD 0 0) dim flat)
    else pure []
  let data ← idxDataP kind dim nums
  pure { kind := kind, dim := dim, nums := nums, verts := verts, idxData := data }

/-- one part: `<m|h> <topo> targets [topology] <nattr> [values] <nchildren>`; returns the part and its child count -/
def partP (kind : Kind) (dim : Nat) : P (Part × Nat) := do
  let _ ← tok   -- "m" (mesh part in the node tree) or "h" (halo): the same StandardRefinery<MeshPart> in the end
  let topo ← nat
  let targets ← many (dim + 1) natList
  let tp ← if topo = 0 then pure none
    else do
      let nums := targets.map List.length
      let data ← idxDataP kind dim nums
      pure (some { kind := kind, dim := dim, nums := nums, verts := [], idxData := data : Mesh })
  let na ← nat
  let attr ← if na = 0 then pure none else do
    let v ← many ((targets.getD 0 []).length) rat
    pure (some v)
  let nc ← nat
  pure ({ targets := targets, topo := tp, attr := attr }, nc)

def nodeP (kind : Kind) (dim : Nat) : P PartNode := do
  let (p, nc) ← partP kind dim
  let cs ← many nc (partP kind dim)
  pure { part := p, children := cs.map (·.1) }

def showIdx (M : Mesh) : String :=
  showNats ((List.range' 1 M.dim).flatMap fun c => (List.range c).flatMap fun f => (M.idx c f).flatten)

def showInts (l : List Int) : String := " ".intercalate (l.map toString)

def showPart (dim : Nat) (P : Part) : String :=
  let t := " ".intercalate ((List.range (dim + 1)).map fun d => showNatsL (P.target d))
  let a := match P.attr with
    | none => "A 0"
    | some v => s!"A {showRatsL v}"
  match P.topo with
  | none => s!"S {t} {a}"
  | some T => s!"T {t} {showIdx T} {a}"

def showNode (dim : Nat) (n : PartNode) : String :=
  let cs := " ".intercalate (n.children.map fun c => s!"{showPart dim c} C 0")
  s!"{showPart dim n.part} C {n.children.length} {cs}"

def showLevel (M : Mesh) (parts : List PartNode) : Option String :=
  match neighbors M with
  | none => none
  | some nb =>
    let b := " ".intercalate ((boundary M).map showNatsL)
    let ps := " ".intercalate (parts.map (showNode M.dim))
    some s!"L {showNats M.nums} V {showRats M.verts.flatten} I {showIdx M} N {showInts nb.flatten} B {b} P {parts.length} {ps}"

def levels : Nat → Mesh → List PartNode → List String → Option (List String)
  | 0, _, _, acc => some acc
  | d + 1, M, parts, acc =>
    let ps := parts.map (refineNode M)
    if ps.any Option.isNone then none
    else
      let M' := refine M
      let parts' := ps.filterMap id
      match showLevel M' parts' with
      | none => none
      | some s => levels d M' parts' (acc ++ [s])

def handle : P String := do
  let op ← tok
  match op with
  | "refine" =>
    let kind ← kindP; let dim ← nat; let depth ← nat
    let M ← meshP kind dim true
    let np ← nat
    let parts ← many np (nodeP kind dim)
    match levels depth M parts [] with
    | none => pure "ABORT"
    | some ls => pure (" ".intercalate ls)
  | "sampler" =>
    -- orientation code and the congruency maps for one (source, target) vertex tuple pair
    let kind ← kindP; let cd ← nat
    let src ← natList; let trg ← natList
    let o := compare kind cd (src.getD 0 0) (src.getD 1 0) trg
    let n := trg.length
    let vm := (List.range n).map (congLookup kind cd 0 o)
    let em := if cd = 2 then (List.range (faceCount kind 2 1)).map (congLookup kind cd 1 o) else []
    if o < 0 then pure "O -1 0 0" else pure s!"O {o} {showNatsL vm} {showNatsL em}"
  | _ => throw s!"unknown op {op}"

def step (ts : Toks) : String :=
  match run handle ts with
  | .ok s => s
  | .error e => s!"BAD-OP {e}"

end FeatModel.DrvC10

def main (args : List String) : IO Unit := FeatModel.Proto.mainWith FeatModel.DrvC10.step args
