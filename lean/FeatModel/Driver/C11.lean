import FeatModel.Model.Proto
import FeatModel.Model.C11Text
import FeatModel.Model.Xml
import FeatModel.Model.MeshFile
import FeatModel.Model.Ini
import FeatModel.Model.GraphBytes
/-! line-protocol driver for the C11 models (XML scanner, mesh file reader/writer, property map, graph bytes).
Texts are hex-encoded byte strings `x<hex>`; every byte becomes one `Char`. -/
open FeatModel FeatModel.Proto FeatModel.C11

namespace FeatModel.DrvC11

def hexVal (c : Char) : Nat :=
  if '0' ≤ c && c ≤ '9' then c.toNat - '0'.toNat
  else if 'a' ≤ c && c ≤ 'f' then c.toNat - 'a'.toNat + 10 else 0

def unhexList : List Char → List Char
  | a :: b :: r => Char.ofNat (hexVal a * 16 + hexVal b) :: unhexList r
  | _ => []

def unhex (s : String) : Str :=
  match s.toList with
  | 'x' :: r => unhexList r
  | r => unhexList r

def hexDigit (n : Nat) : Char := if n < 10 then Char.ofNat (48 + n) else Char.ofNat (87 + n)

def hex (s : Str) : String :=
  String.ofList ('x' :: s.flatMap (fun c => [hexDigit (c.toNat / 16 % 16), hexDigit (c.toNat % 16)]))

def showErr (tag : String) (e : Err) : String := s!"{tag} {e.cls.name} {e.line}"

def showEvent : Event → String
  | .create line m =>
    let as := m.attrs.map (fun kv => s!":{hex kv.1}={hex kv.2}")
    s!"C:{line}:{hex m.name}:{if m.closed then 1 else 0}:{m.attrs.length}{String.join as}"
  | .close line => s!"X:{line}"
  | .text line s => s!"T:{line}:{hex s}"

def doScan (text : Str) : String :=
  match scanDoc text with
  | .error e => showErr "ERR" e
  | .ok evs => " ".intercalate ("OK" :: evs.map showEvent)

def showTuples (d numIdx : Nat) (ts : List (List Nat)) : List String :=
  ["T", toString d, toString ts.length, toString numIdx] ++ ts.flatten.map toString

def showTopo (sh : Shape) (topo : List (List (List Nat))) : List String :=
  (topo.zipIdx.map (fun (ts, i) => showTuples (i + 1) (nverts sh (i + 1)) ts)).flatten

def dumpNode (sh : Shape) (n : Node) : String :=
  let meshPart : List String := match n.mesh with
    | none => ["M", "0"]
    | some m =>
      ["M", "1"] ++ m.sizes.map toString ++ ["V", toString m.verts.length] ++ m.verts.flatten.map showRat ++ showTopo sh m.topo
  let parts : List String := (n.parts.map (fun (nm, p) =>
    ["P", hex nm, hex p.chart, if p.hasTopo then "1" else "0"] ++ p.sizes.map toString ++ ["MAP"] ++
    (p.maps.map (fun l => toString l.length :: l.map toString)).flatten ++
    (if p.hasTopo then showTopo sh p.topo else []) ++
    ["NA", toString p.attrs.length] ++
    (p.attrs.map (fun (an, a) => ["A", hex an, toString a.dim, toString a.vals.length] ++ a.vals.flatten.map showRat)).flatten)).flatten
  let pss : List String := (n.partitions.map (fun p =>
    ["PS", hex p.name, toString p.prio, toString p.level, toString p.nr, toString p.ne] ++
    (p.patches.map (fun l => toString l.length :: l.map toString)).flatten)).flatten
  " ".intercalate (meshPart ++ ["NP", toString n.parts.length] ++ parts ++ ["NPS", toString n.partitions.length] ++ pss ++
    ["NC", toString n.charts.length] ++ n.charts.map (fun nc => hex nc.1))

def doMesh (text : Str) : String :=
  match parseMeshFile text with
  | .err e => showErr "ERR" e
  | .notype => "NOTYPE"
  | .unmodelled => "UNMODELLED"
  | .ok sh dim n =>
    let d1 := dumpNode sh n
    let w1 := printMeshFile sh dim n
    let head := s!"OK {d1} W {hex w1}"
    match reparse sh dim n.wdim w1 with
    | .err e => head ++ " " ++ showErr "RTERR" e
    | .ok _ _ n2 =>
      let d2 := dumpNode sh n2
      let w2 := printMeshFile sh dim n2
      s!"{head} RT {if d2 == d1 then 1 else 0} {if w2 == w1 then 1 else 0}"
    | _ => head ++ " RT ? ?"

def dumpPMap (m : PMap) : Nat → Path → List String
  | 0, _ => []
  | fuel + 1, sec =>
    let es := m.entriesOf sec
    let cs := m.childrenOf sec
    ["E", toString es.length] ++ (es.map (fun kv => [hex kv.1, hex kv.2])).flatten ++
    ["S", toString cs.length] ++ (cs.map (fun nm => hex nm :: dumpPMap m fuel (sec ++ [nm]))).flatten

def doIni (replace : Bool) (text : Str) : String :=
  match iniRead replace text with
  | none => "ERR SyntaxError"
  | some m =>
    let d1 := " ".intercalate (dumpPMap m m.depthBound [])
    let w1 := iniWrite m
    let head := s!"OK {d1} W {hex w1}"
    match iniRead replace w1 with
    | none => head ++ " RTERR SyntaxError"
    | some m2 =>
      let d2 := " ".intercalate (dumpPMap m2 m2.depthBound [])
      s!"{head} RT {if d2 == d1 then 1 else 0} {if iniWrite m2 == w1 then 1 else 0}"

def showBytes (w : List Nat) : String := s!"B {w.length * 8} {showNatsL w}"

def showRawGraph (g : RawGraph) : String :=
  let nd := if g.domainPtr.isEmpty then 0 else g.domainPtr.length - 1
  let ptr := if nd == 0 then "0" else showNatsL g.domainPtr
  s!"G {nd} {g.numImage} {g.imageIdx.length} {ptr} {showNatsL g.imageIdx}"

def graphRoundTrip (g : RawGraph) : String :=
  let b1 := g.serialize
  match RawGraph.deserialize b1 with
  | none => "ABORT"
  | some g2 =>
    let b2 := g2.serialize
    s!"{showBytes b1} {showRawGraph g2} RT {if b1 == b2 then 1 else 0} {showBytes b2}"

def handle : P String := do
  let op ← tok
  match op with
  | "scan" => let h ← tok; pure (doScan (unhex h))
  | "mesh" => let _ ← tok; let h ← tok; pure (doMesh (unhex h))
  | "ini" => let r ← tok; let h ← tok; pure (doIni (r == "1") (unhex h))
  | "graph" =>
    let nImg ← nat; let nDom ← nat
    let adj ← many nDom natList
    let ptr := adj.foldl (fun acc l => acc ++ [acc.getLastD 0 + l.length]) [0]
    pure (graphRoundTrip { numImage := nImg, domainPtr := ptr, imageIdx := adj.flatten })
  | "graphdef" => pure (graphRoundTrip { numImage := 0, domainPtr := [], imageIdx := [] })
  | "gbytes" =>
    let w ← natList
    match RawGraph.deserialize w with
    | none => pure "ABORT"
    | some g => pure s!"{showRawGraph g} {showBytes g.serialize}"
  | _ => throw s!"unknown op {op}"

def step (ts : Toks) : String :=
  match run handle ts with
  | .ok s => s
  | .error e => s!"BAD-OP {e}"

end FeatModel.DrvC11

def main (args : List String) : IO Unit := FeatModel.Proto.mainWith FeatModel.DrvC11.step args
