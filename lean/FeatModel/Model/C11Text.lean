/-
C11 — text layer shared by the XML scanner, mesh-file, and property-map models.
A text is a `List Char` in which every character stands for one byte (code < 256); this is how the
driver decodes the hex-encoded inputs.  Everything here mirrors `kernel/util/string.hpp`
(`whitespaces`, `trim`, `split_by_charset`, `split_by_string`, `parse<T>` = `iss >> t`, not failed, and the whole
trimmed string consumed; a leading `-` is rejected for unsigned types).
Core Lean only.
-/
namespace FeatModel.C11

abbrev Str := List Char

/-- `String::whitespaces()` = `" \a\b\f\n\r\t\v"` -/
def isWs (c : Char) : Bool :=
  c == ' ' || c == '\n' || c == '\t' || c == '\r' ||
  c.toNat == 7 || c.toNat == 8 || c.toNat == 11 || c.toNat == 12

def trimFront (s : Str) : Str := s.dropWhile isWs
def trimBack (s : Str) : Str := (s.reverse.dropWhile isWs).reverse
/-- `String::trim()` -/
def trim (s : Str) : Str := trimBack (trimFront s)

/-- one token: the longest prefix without white space, and the rest -/
def spanTok (s : Str) : Str × Str := (s.takeWhile (fun c => !isWs c), s.dropWhile (fun c => !isWs c))

/-- `split_by_whitespaces` with explicit fuel (`s.length + 1` always suffices) -/
def splitWsFuel : Nat → Str → List Str
  | 0, _ => []
  | fuel + 1, s =>
    match s.dropWhile isWs with
    | [] => []
    | c :: cs =>
      let t := (c :: cs).takeWhile (fun c => !isWs c)
      let r := (c :: cs).dropWhile (fun c => !isWs c)
      t :: splitWsFuel fuel r

def splitWs (s : Str) : List Str := splitWsFuel (s.length + 1) s

/-- split at every occurrence of `d`, keeping empty pieces (`a::b` ↦ `a`,``,`b`) -/
def splitChar (d : Char) : Str → List Str
  | [] => [[]]
  | c :: cs =>
    if c == d then [] :: splitChar d cs
    else match splitChar d cs with
      | [] => [[c]]
      | p :: ps => (c :: p) :: ps

/-- `split_by_string(":")`: like `splitChar` but the empty string has no pieces -/
def splitByColon (s : Str) : List Str := if s.isEmpty then [] else splitChar ':' s

/-- lines as `std::getline` delivers them: a trailing `\n` yields a final empty read that still counts -/
def splitLines (s : Str) : List Str := splitChar '\n' s

def startsWith (s p : Str) : Bool := p.isPrefixOf s
def endsWith (s p : Str) : Bool := p.reverse.isPrefixOf s.reverse

def isDigit (c : Char) : Bool := '0' ≤ c && c ≤ '9'
/-- `std::isalpha` / `std::isalnum` in the "C" locale -/
def isAlpha (c : Char) : Bool := ('a' ≤ c && c ≤ 'z') || ('A' ≤ c && c ≤ 'Z')
def isAlnum (c : Char) : Bool := isAlpha c || isDigit c

def digitVal (c : Char) : Nat := c.toNat - '0'.toNat

/-- value of a digit string, most significant first -/
def digitsVal (acc : Nat) : Str → Nat
  | [] => acc
  | c :: cs => digitsVal (acc * 10 + digitVal c) cs

/-- leading digits and the rest -/
def spanDigits (s : Str) : Str × Str := (s.takeWhile isDigit, s.dropWhile isDigit)

/-- optional sign: (negative?, rest) -/
def readSign : Str → Bool × Str
  | '-' :: r => (true, r)
  | '+' :: r => (false, r)
  | s => (false, s)

-- note: `operator>>` first skips `std::isspace` characters; after `trim()` (a superset) there are none left.

/-- `String::parse(Index&)`: `istringstream(trim()) >> unsigned long`, then the whole string must have been
    consumed.  Optional `+`, digits only; a leading `-` is rejected for unsigned types; out of range ⇒ fail. -/
def readIndex (s : Str) : Option Nat :=
  let t := trim s
  let (neg, r) := readSign t
  let (ds, rest) := spanDigits r
  if ds.isEmpty then none
  else if neg then none
  else if !rest.isEmpty then none
  else
    let v := digitsVal 0 ds
    if v ≥ 2 ^ 64 then none else some v

/-- `String::parse(int&)`: 32-bit signed, overflow ⇒ fail, trailing characters ⇒ fail -/
def readInt (s : Str) : Option Int :=
  let t := trim s
  let (neg, r) := readSign t
  let (ds, rest) := spanDigits r
  if ds.isEmpty then none
  else if !rest.isEmpty then none
  else
    let v := digitsVal 0 ds
    if neg then (if v > 2 ^ 31 then none else some (-(v : Int)))
    else (if v ≥ 2 ^ 31 then none else some (v : Int))

/-- `String::parse(Q&)` with `is >> Q` of `harness/c11/q_io.hpp`:
    `[+-]? D+ ( '/' D+ | ('.' D*)? ([eE] [+-]? D+)? )`, |exponent| ≤ 400, nothing may follow -/
def readQ (s : Str) : Option Rat :=
  let t := trim s
  let (neg, r) := readSign t
  let (ds, r1) := spanDigits r
  if ds.isEmpty then none
  else
    let n := digitsVal 0 ds
    let sgn : Int := if neg then -1 else 1
    match r1 with
    | '/' :: r2 =>
      let (dd, rest) := spanDigits r2
      if dd.isEmpty then none
      else if !rest.isEmpty then none
      else
        let d := digitsVal 0 dd
        if d == 0 then none else some (mkRat (sgn * n) d)
    | _ =>
      -- optional fraction
      let (n, den, r3) : Nat × Nat × Str :=
        match r1 with
        | '.' :: r2 =>
          let (fd, r3) := spanDigits r2
          (digitsVal n fd, 10 ^ fd.length, r3)
        | _ => (n, 1, r1)
      match r3 with
      | e :: r4 =>
        if e == 'e' || e == 'E' then
          let (eneg, r5) := readSign r4
          let (ed, rest) := spanDigits r5
          if ed.isEmpty then none
          else if !rest.isEmpty then none
          else
            let ev := digitsVal 0 ed
            if ev > 400 then none
            else if eneg then some (mkRat (sgn * n) (den * 10 ^ ev))
            else some (mkRat (sgn * n * 10 ^ ev) den)
        else none
      | [] => some (mkRat (sgn * n) den)

/-- decimal rendering of a natural number (what `os << Index` prints) -/
def showNat (n : Nat) : Str := (toString n).toList
def showInt (n : Int) : Str := (toString n).toList
/-- `os << Q`: `num/den` -/
def showQ (q : Rat) : Str := showInt q.num ++ '/' :: showNat q.den

/-- byte-wise lexicographic `<` (`std::string::operator<`; all characters are < 256) -/
def strLt : Str → Str → Bool
  | [], [] => false
  | [], _ :: _ => true
  | _ :: _, [] => false
  | a :: as, b :: bs => if a.toNat < b.toNat then true else if a.toNat > b.toNat then false else strLt as bs

/-- `std::map::emplace` on an association list kept sorted by `lt`; an existing key wins -/
def mapInsert (lt : Str → Str → Bool) (k : Str) (v : α) : List (Str × α) → List (Str × α)
  | [] => [(k, v)]
  | (k', v') :: rest =>
    if lt k k' then (k, v) :: (k', v') :: rest
    else if lt k' k then (k', v') :: mapInsert lt k v rest
    else (k', v') :: rest

def mapFind (lt : Str → Str → Bool) (k : Str) : List (Str × α) → Option α
  | [] => none
  | (k', v') :: rest => if !lt k k' && !lt k' k then some v' else mapFind lt k rest

end FeatModel.C11
