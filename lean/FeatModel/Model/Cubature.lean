/-
Model of kernel/cubature (C14): dyadic rule tables, exact moments, the rule transformations
(tensor product, simplex-scalar, refinement) and the rule-name grammar of `DynamicFactory::create`.

Everything numeric is integer arithmetic over *dyadic tables*: a rule with weights `W_i / 2^ew` and coordinates
`X_ij / 2^ec`.  Every `double` is a dyadic rational, so the tables dumped from the real code (Gen/Cubature*.lean)
are exact, and all transformations of FEAT (x ↦ (x+1)/2, products of weights, affine child maps with dyadic
coefficients) stay inside this representation.  Core Lean only.
-/
namespace FeatModel.Cub

abbrev Str := List Char

/-! ## dyadic rule tables -/

/-- weights `w_i / 2^ew`, points `x_ij / 2^ec`; `fac`/`n` identify the driver and its point-count parameter -/
structure DyTable where
  fac : Str
  n : Nat
  ew : Nat
  ec : Nat
  w : List Int
  x : List (List Int)
  deriving Repr, BEq, Inhabited

/-- integer power through `Nat.pow` (one big-number operation for the kernel instead of `k` multiplications) -/
def ipow (x : Int) (k : Nat) : Int :=
  match x with
  | .ofNat a => Int.ofNat (a ^ k)
  | .negSucc a => if k % 2 = 0 then Int.ofNat ((a + 1) ^ k) else -(Int.ofNat ((a + 1) ^ k))

/-- `Π_j x_j ^ e_j` (numerator part) -/
def imono : List Int → List Nat → Int
  | x :: xs, k :: ks => ipow x k * imono xs ks
  | _, _ => 1

/-- `Σ_i w_i · Π_j x_ij ^ e_j` over the integer numerators -/
def isumMono : List Int → List (List Int) → List Nat → Int
  | w :: ws, p :: ps, e => w * imono p e + isumMono ws ps e
  | _, _, _ => 0

def esum : List Nat → Nat
  | [] => 0
  | k :: ks => k + esum ks

/-- numerator of the moment of monomial `e`; the moment itself is `momentNum / 2^(momentExp)` -/
def DyTable.momentNum (t : DyTable) (e : List Nat) : Int := isumMono t.w t.x e
def DyTable.momentExp (t : DyTable) (e : List Nat) : Nat := t.ew + t.ec * esum e

/-! ## reference integrals of monomials: simplex `Π e_j! / (|e|+d)!`, cube `Π [e_j even] 2/(e_j+1)` -/

def fact : Nat → Nat
  | 0 => 1
  | n + 1 => (n + 1) * fact n

def simplexNum : List Nat → Nat
  | [] => 1
  | k :: ks => fact k * simplexNum ks

def cubeNum : List Nat → Nat
  | [] => 1
  | k :: ks => (if k % 2 = 0 then 2 else 0) * cubeNum ks

def cubeDen : List Nat → Nat
  | [] => 1
  | k :: ks => (k + 1) * cubeDen ks

def refNum (simplex : Bool) (e : List Nat) : Nat := if simplex then simplexNum e else cubeNum e
def refDen (simplex : Bool) (e : List Nat) : Nat := if simplex then fact (esum e + e.length) else cubeDen e

/-- tolerance `2^-tolBits` of the exactness statements -/
def tolBits : Nat := 40

/-- `|moment(e) - I(e)| ≤ 2^-40`, cleared of denominators:
    with `S/2^k` the moment and `p/q` the reference integral: `|S·q − p·2^k| · 2^40 ≤ q · 2^k` -/
def DyTable.MomentOK (t : DyTable) (simplex : Bool) (e : List Nat) : Prop :=
  ((t.momentNum e * (refDen simplex e : Int) - (refNum simplex e : Int) * (2 ^ t.momentExp e : Nat)).natAbs
      * 2 ^ tolBits ≤ refDen simplex e * 2 ^ t.momentExp e)

instance (t : DyTable) (s : Bool) (e : List Nat) : Decidable (t.MomentOK s e) := by
  unfold DyTable.MomentOK; exact inferInstance

def DyTable.checkMono (t : DyTable) (simplex : Bool) (e : List Nat) : Bool := decide (t.MomentOK simplex e)

/-- all exponent vectors of length `dim` with `|e| ≤ d` -/
def monos : Nat → Nat → List (List Nat)
  | 0, _ => [[]]
  | dim + 1, d => (List.range (d + 1)).flatMap (fun k => (monos dim (d - k)).map (k :: ·))

/-- the rule integrates every monomial of total degree ≤ d exactly up to `2^-40` (this includes the weight sum) -/
def DyTable.ExactTo (t : DyTable) (simplex : Bool) (dim d : Nat) : Prop :=
  ∀ e : List Nat, e.length = dim → esum e ≤ d → t.MomentOK simplex e

def DyTable.check (t : DyTable) (simplex : Bool) (dim d : Nat) : Bool :=
  (monos dim d).all (t.checkMono simplex)

/-- a rule is well-formed for dimension `dim` -/
def DyTable.wf (t : DyTable) (dim : Nat) : Bool :=
  t.w.length == t.x.length && t.x.all (fun p => p.length == dim)

/-! ## shapes and the specification of the nominal degree (hand-written; NOT generated) -/

inductive Shape | s1 | s2 | s3 | h1 | h2 | h3
  deriving Repr, BEq, DecidableEq, Inhabited

def Shape.dim : Shape → Nat
  | .s1 => 1 | .s2 => 2 | .s3 => 3 | .h1 => 1 | .h2 => 2 | .h3 => 3
def Shape.simplex : Shape → Bool
  | .s1 => true | .s2 => true | .s3 => true | _ => false
def Shape.tag : Shape → String
  | .s1 => "s1" | .s2 => "s2" | .s3 => "s3" | .h1 => "h1" | .h2 => "h2" | .h3 => "h3"
def Shape.ofTag : String → Option Shape
  | "s1" => some .s1 | "s2" => some .s2 | "s3" => some .s3
  | "h1" => some .h1 | "h2" => some .h2 | "h3" => some .h3 | _ => none

/-- nominal degree of the rule `fac[:n]` (the property's specification) -/
def nominal (fac : Str) (n : Nat) : Option Nat :=
  if fac = "gauss-legendre".toList then some (2 * n - 1)
  else if fac = "gauss-lobatto".toList then some (2 * n - 3)
  else if fac = "newton-cotes-closed".toList ∨ fac = "newton-cotes-open".toList ∨ fac = "maclaurin".toList then
    some (n - 1 + n % 2)
  else if fac = "barycentre".toList ∨ fac = "trapezoidal".toList then some 1
  else if fac = "hammer-stroud-degree-2".toList ∨ fac = "lauffer-degree-2".toList then some 2
  else if fac = "hammer-stroud-degree-3".toList then some 3
  else if fac = "lauffer-degree-4".toList then some 4
  else if fac = "hammer-stroud-degree-5".toList then some 5
  else if fac = "dunavant".toList ∨ fac = "silvester-open".toList then some n
  else if fac = "shunn-ham".toList then
    (match n with | 2 => some 2 | 3 => some 3 | 4 => some 5 | 5 => some 6 | 6 => some 8 | _ => none)
  else none

/-- obligation of one generated table: well-formed, covered by the specification `nominal`, and exact to its
    nominal degree (no table is exempt) -/
def tableObligation (s : Shape) (t : DyTable) : Bool :=
  t.wf s.dim &&
  match nominal t.fac t.n with
  | none => false
  | some d => t.check s.simplex s.dim d

/-! ## transformations of rules (TensorProductDriver::fill, SimplexScalarFactoryBase::create, RuleRefinery) -/

/-- `TensorProductDriver<Hypercube<dim>>::fill`: index `l = (i·n + j)·n + k`, weight `w_i w_j w_k`,
    point `(x_i, x_j, x_k)`; the scalar rule has points `[x]` -/
def tensorW : Nat → List Int → List Int
  | 0, _ => [1]
  | d + 1, w => w.flatMap (fun wi => (tensorW d w).map (wi * ·))

def tensorX : Nat → List Int → List (List Int)
  | 0, _ => [[]]
  | d + 1, x => x.flatMap (fun xi => (tensorX d x).map (xi :: ·))

def scalarCoords (t : DyTable) : List Int := t.x.map (fun p => p.headD 0)

def DyTable.tensor (t : DyTable) (dim : Nat) : DyTable :=
  { t with ew := t.ew * dim, w := tensorW dim t.w, x := tensorX dim (scalarCoords t) }

/-- `SimplexScalarFactoryBase::create`: `w ↦ w·½`, `x ↦ (x+1)·½` -/
def DyTable.simplexScalar (t : DyTable) : DyTable :=
  { t with ew := t.ew + 1, ec := t.ec + 1, x := t.x.map (fun p => p.map (fun c => c + 2 ^ t.ec)) }

/-- one child cell of the refinement: weight factor `c / 2^ce`, point map `x ↦ (b + A x) / 2^ae`
    (numerators; generated from the real refinery by probing, see translate/cubature_dump.cpp) -/
structure RefMap where
  c : Int
  b : List Int
  a : List (List Int)
  deriving Repr, Inhabited

structure RefMaps where
  ce : Nat
  ae : Nat
  maps : List RefMap
  deriving Repr, Inhabited

def dot : List Int → List Int → Int
  | a :: as, x :: xs => a * x + dot as xs
  | _, _ => 0

/-- image of the point with numerators `p` (over `2^ec`): numerators over `2^(ec+ae)` -/
def RefMap.apply (m : RefMap) (ec : Nat) (p : List Int) : List Int :=
  List.zipWith (fun bi row => bi * 2 ^ ec + dot row p) m.b m.a

/-- `RuleRefinery::refine`: child-major order (`i·n + j`) -/
def DyTable.refine1 (t : DyTable) (rm : RefMaps) : DyTable :=
  { t with
    ew := t.ew + rm.ce
    ec := t.ec + rm.ae
    w := rm.maps.flatMap (fun m => t.w.map (fun wi => m.c * wi))
    x := rm.maps.flatMap (fun m => t.x.map (fun p => m.apply t.ec p)) }

def DyTable.refine (t : DyTable) (rm : RefMaps) : Nat → DyTable
  | 0 => t
  | k + 1 => (t.refine rm k).refine1 rm

/-! ## strings: the helpers of kernel/util/string.hpp that the factories use -/

/-- `String::whitespaces()` = `" \a\b\f\n\r\t\v"` -/
def isWs (c : Char) : Bool :=
  c == ' ' || c == '\x07' || c == '\x08' || c == '\x0c' || c == '\n' || c == '\r' || c == '\t' || c == '\x0b'

def trimFront (s : Str) : Str := s.dropWhile isWs
def trimBack (s : Str) : Str := (s.reverse.dropWhile isWs).reverse
def trim (s : Str) : Str := trimBack (trimFront s)

def lowerC (c : Char) : Char := if 'A' ≤ c ∧ c ≤ 'Z' then Char.ofNat (c.toNat + 32) else c
def lower (s : Str) : Str := s.map lowerC
/-- `compare_no_case(..) == 0` -/
def eqNoCase (a b : Str) : Bool := lower a == lower b

/-- split at the first occurrence of `d` (`find_first_of` + two `substr`) -/
def splitFirst (d : Char) : Str → Option (Str × Str)
  | [] => none
  | c :: cs => if c == d then some ([], cs) else
      match splitFirst d cs with
      | some (h, t) => some (c :: h, t)
      | none => none

/-- `split_by_string` for a one-character delimiter: the empty string gives no parts at all -/
def splitAll (d : Char) : Str → List Str
  | [] => []
  | s => go s
where
  go : Str → List Str
    | [] => [[]]
    | c :: cs =>
      if c == d then [] :: go cs
      else match go cs with
        | p :: ps => (c :: p) :: ps
        | [] => [[c]]

def joinWith (d : Char) : List Str → Str
  | [] => []
  | [p] => p
  | p :: ps => p ++ d :: joinWith d ps

def digitVal (c : Char) : Option Nat := if '0' ≤ c ∧ c ≤ '9' then some (c.toNat - 48) else none

/-- leading decimal digits: (value, number of digits, unread rest) -/
def takeDigits : Str → Nat → Nat → Nat × Nat × Str
  | [], acc, cnt => (acc, cnt, [])
  | c :: cs, acc, cnt =>
    match digitVal c with
    | some v => takeDigits cs (acc * 10 + v) (cnt + 1)
    | none => (acc, cnt, c :: cs)

/-- `String::parse` since 5a16de52a: `istringstream(trim(s)) >> value` must not fail AND must consume the whole
    trimmed string: optional sign, at least one digit, nothing else.  Returns sign and magnitude. -/
def scanInt (s : Str) : Option (Bool × Nat) :=
  let t := trim s
  let (neg, rest) := match t with
    | '-' :: r => (true, r)
    | '+' :: r => (false, r)
    | r => (false, r)
  let (v, cnt, unread) := takeDigits rest 0 0
  if cnt = 0 || !unread.isEmpty then none else some (neg, v)

/-- `String::parse(int&)` (32-bit; overflow fails) -/
def parseInt (s : Str) : Option Int :=
  match scanInt s with
  | none => none
  | some (neg, v) => if neg then (if v ≤ 2147483648 then some (-(v : Int)) else none)
                     else (if v ≤ 2147483647 then some (v : Int) else none)

/-- `String::parse(Index&)` (unsigned 64-bit; since c82e1d7f9 a leading '-' is rejected; overflow fails) -/
def parseIndex (s : Str) : Option Nat :=
  match scanInt s with
  | none => none
  | some (neg, v) => if neg || v ≥ 2 ^ 64 then none else some v

/-- `stringify(n)` (decimal) -/
def natStr (n : Nat) : Str := Nat.toDigits 10 n

/-! ## factories (generated list, see Gen/CubatureMeta.lean) and the name grammar -/

inductive FKind | driver | tensor | scalar
  deriving Repr, BEq, DecidableEq, Inhabited

structure Factory where
  kind : FKind
  name : Str
  variadic : Bool
  minP : Nat
  maxP : Nat
  aliases : List (Str × Nat)
  deriving Repr, Inhabited

/-- `DriverFactoryAliasMapper`: the first alias equal (no case, untrimmed) to the whole name maps it -/
def Factory.aliasMap (f : Factory) (name : Str) : Str :=
  match f.aliases.find? (fun a => eqNoCase name a.1) with
  | some a => if f.variadic then f.name ++ ':' :: natStr a.2 else f.name
  | none => name

/-- `(Scalar::)DriverFactory<..>::create(rule, name)`: the point-count parameter if the name is accepted -/
def Factory.acceptsCore (f : Factory) (name : Str) : Option Nat :=
  let mapped := f.aliasMap name
  if !f.variadic then
    if eqNoCase (trim mapped) f.name then some f.minP else none
  else
    match splitFirst ':' mapped with
    | none => none
    | some (head, tail) =>
      if eqNoCase (trim head) f.name then
        match parseInt (trim tail) with
        | some k => if (f.minP : Int) ≤ k ∧ k ≤ (f.maxP : Int) then some k.toNat else none
        | none => none
      else none

def FKind.prefixStr : FKind → Str
  | .tensor => "tensor".toList
  | .scalar => "scalar".toList
  | .driver => []

/-- with `FEAT_CUBATURE_TENSOR_PREFIX`/`..SCALAR_PREFIX` (pfx = true) the tensor / simplex-scalar factories
    demand a `tensor:` / `scalar:` head -/
def Factory.accepts (pfx : Bool) (f : Factory) (name : Str) : Option Nat :=
  if pfx && f.kind != .driver then
    match splitFirst ':' name with
    | none => none
    | some (h, t) => if eqNoCase (trim h) f.kind.prefixStr then f.acceptsCore (trim t) else none
  else f.acceptsCore name

/-- name of the created rule -/
def Factory.ruleName (pfx : Bool) (f : Factory) (n : Nat) : Str :=
  (if pfx && f.kind != .driver then f.kind.prefixStr ++ [':'] else []) ++
  f.name ++ (if f.variadic then ':' :: natStr n else [])

/-- first factory of the list that accepts the name (CreateFunctor) -/
def createBase (pfx : Bool) : List Factory → Str → Option (Factory × Nat)
  | [], _ => none
  | f :: fs, name =>
    match f.accepts pfx name with
    | some n => some (f, n)
    | none => createBase pfx fs name

/-- `RefineFactoryBase::create(rule, name)` up to the inner factory call: (number of refinements, inner name) -/
def parseRefine (name : Str) : Option (Nat × Str) :=
  match splitFirst ':' name with
  | none => none
  | some (head, tail) =>
    let hk : Option (Str × Nat) :=
      match splitFirst '*' head with
      | none => some (head, 1)
      | some (h, cnt) => (parseIndex cnt).map (fun k => (h, k))
    match hk with
    | none => none
    | some (h, k) => if eqNoCase (trim h) "refine".toList then some (k, trim tail) else none

/-- 32-bit wrap of `int(degree)` -/
def toInt32 (d : Nat) : Int :=
  let m : Nat := d % 2 ^ 32
  if m < 2 ^ 31 then Int.ofNat m else Int.ofNat m - 2 ^ 32

/-- `Intern::AutoDegree<Shape>::choose(degree)` -/
def autoChoose (pfx : Bool) (s : Shape) (degree : Nat) : Str :=
  let gl (pre : String) : Str :=
    let k := max (degree / 2 + 1) 1
    let k := min k 20
    (if pfx then pre.toList else []) ++ "gauss-legendre:".toList ++ natStr k
  let dun (k : Nat) : Str := "dunavant:".toList ++ natStr k
  let sh (k : Nat) : Str := "shunn-ham:".toList ++ natStr k
  match s with
  | .s1 => gl "scalar:"
  | .h1 | .h2 | .h3 => gl "tensor:"
  | .s2 =>
    match toInt32 degree with
    | 0 | 1 => "barycentre".toList
    | 2 => dun 2
    | 3 | 4 => dun 4
    | 5 => dun 5
    | 6 => dun 6
    | 7 | 8 => dun 8
    | 9 => dun 9
    | 10 => dun 10
    | 11 | 12 => dun 12
    | 13 => dun 13
    | 14 => dun 14
    | 15 | 16 | 17 => dun 17
    | _ => dun 19
  | .s3 =>
    if degree ≤ 1 then "barycentre".toList
    else if degree ≤ 2 then sh 2
    else if degree ≤ 3 then sh 3
    else if degree ≤ 5 then sh 4
    else if degree ≤ 7 then sh 5
    else sh 6

/-- `AutoAlias<Shape>::map(name)`; an empty second-to-last `:`-part splits into no `-`-parts at all and leaves the
    name unchanged (`args.empty() ||` guard) -/
def autoMap (pfx : Bool) (s : Shape) (name : Str) : Str :=
  let parts := splitAll ':' name
  if parts.length < 2 then name else
  let param := parts.getLastD []
  let autoPart := (parts.dropLast).getLastD []
  let rest := parts.dropLast.dropLast
  match splitAll '-' autoPart with
  | [] => name
  | a0 :: as =>
    if !eqNoCase a0 "auto".toList then name
    else if as.length == 1 && eqNoCase (as.getLastD []) "degree".toList then
      match parseIndex param with
      | none => name
      | some d =>
        let alias := autoChoose pfx s d
        if rest.isEmpty then alias else joinWith ':' rest ++ ':' :: alias
    else name

/-- result of `DynamicFactory::create`: the factory, its parameter and the number of refinements -/
structure Desc where
  fac : Factory
  n : Nat
  refines : Nat
  deriving Repr, Inhabited

inductive Outcome
  | refused
  | ok (d : Desc)
  deriving Repr, Inhabited

/-- `DynamicFactory::create(rule, name)` for a shape with factory list `facs`: un-refined factories first, then
    the same list wrapped into `RefineFactory` -/
def create (pfx : Bool) (s : Shape) (facs : List Factory) (name : Str) : Outcome :=
  let m := autoMap pfx s name
  match createBase pfx facs m with
  | some (f, n) => .ok ⟨f, n, 0⟩
  | none =>
    match parseRefine m with
    | none => .refused
    | some (k, inner) =>
      match createBase pfx facs inner with
      | some (f, n) => .ok ⟨f, n, k⟩
      | none => .refused

/-- name of the rule object (`RefineFactoryCore::create` naming) -/
def Desc.ruleName (pfx : Bool) (d : Desc) : Str :=
  let base := d.fac.ruleName pfx d.n
  match d.refines with
  | 0 => base
  | 1 => "refine:".toList ++ base
  | k => "refine*".toList ++ natStr k ++ ':' :: base

/-- number of points of the un-refined rule `fac:n` -/
def dunavantCount : Nat → Nat
  | 2 => 3 | 3 => 4 | 4 => 6 | 5 => 7 | 6 => 12 | 7 => 13 | 8 => 16 | 9 => 19 | 10 => 25 | 11 => 27
  | 12 => 33 | 13 => 37 | 14 => 42 | 15 => 48 | 16 => 52 | 17 => 61 | 18 => 70 | 19 => 73 | 20 => 79 | _ => 0

def shunnHamCount : Nat → Nat
  | 2 => 4 | 3 => 10 | 4 => 20 | 5 => 35 | 6 => 56 | _ => 0

def basePoints (s : Shape) (f : Factory) (n : Nat) : Nat :=
  match f.kind with
  | .tensor => n ^ s.dim
  | .scalar => n
  | .driver =>
    if f.name = "dunavant".toList then dunavantCount n
    else if f.name = "shunn-ham".toList then shunnHamCount n
    else if f.name = "silvester-open".toList then (n + 1) * (n + 2) / 2
    else n

def refineCount : Shape → Nat
  | .s1 => 2 | .s2 => 4 | .s3 => 12 | .h1 => 2 | .h2 => 4 | .h3 => 8

def Desc.numPoints (s : Shape) (d : Desc) : Nat := basePoints s d.fac d.n * refineCount s ^ d.refines

def findTable (tabs : List DyTable) (fac : Str) (n : Nat) : Option DyTable :=
  tabs.find? (fun t => t.fac == fac && t.n == n)

/-- the rule as the `double` instantiation produces it (dumped table), un-refined rules only -/
def denoteD (tabs : List DyTable) (d : Desc) : Option DyTable :=
  if d.refines = 0 then findTable tabs d.fac.name (if d.fac.variadic then d.n else 0) else none

/-- the rule as an exact-arithmetic instantiation produces it from the same literals: tensor / simplex-scalar
    factories transform the scalar table (= the Hypercube<1> table), refinements apply the child maps -/
def denoteQ (s : Shape) (tabs h1tabs : List DyTable) (rm : RefMaps) (d : Desc) : Option DyTable :=
  let key := if d.fac.variadic then d.n else 0
  let base : Option DyTable :=
    match d.fac.kind with
    | .driver => findTable tabs d.fac.name key
    | .tensor => (findTable h1tabs d.fac.name key).map (·.tensor s.dim)
    | .scalar => (findTable h1tabs d.fac.name key).map (·.simplexScalar)
  base.map (·.refine rm d.refines)

end FeatModel.Cub
