import FeatModel.Model.PartitionRefine
/-
C12: the deterministic core of `Geometry::PartiIterative` (kernel/geometry/parti_iterative.hpp):
`Intern::parti_iterative_distance` (Dijkstra over the facet neighbours with `FEAT::mutable_priority_queue`, early exit
at the exploration threshold, 64-bit unsigned arithmetic) and the constructor of `PartiIterativeIndividual` for GIVEN
cluster centres (the RNG draws are an input).
Core Lean only.
-/
namespace FeatModel.Parti
open FeatModel.Adj

/-- `std::numeric_limits<Index>::max()` -/
def idxMax : Nat := 2 ^ 64 - 1

/-! ### `mutable_priority_queue<Index, Index>`: a `std::multimap<key, value, std::greater>` (descending keys, equal keys
in insertion order) glued to a value → key map -/

abbrev PQ := List (Nat × Nat)     -- (key, value)

def pqErase (q : PQ) (v : Nat) : PQ := q.filter fun e => e.2 != v

def pqPut (k v : Nat) : PQ → PQ
  | [] => [(k, v)]
  | (k', v') :: r => if k' < k then (k, v) :: (k', v') :: r else (k', v') :: pqPut k v r

/-- `insert(val, key)` = `update(val, key)`: erase the value, insert after all entries with a key `≥ key` -/
def pqInsert (q : PQ) (v k : Nat) : PQ := pqPut k v (pqErase q v)

def pqCount (q : PQ) (v : Nat) : Bool := q.any fun e => e.2 == v

/-- the `for(j …)` loop over the facet neighbours of the popped node -/
def relaxNeighbors (nbrs : List Int) (node : Nat) (st : Array Nat × PQ) : Array Nat × PQ :=
  nbrs.foldl (fun (st : Array Nat × PQ) o =>
    if o < 0 then st
    else
      let other := o.toNat
      if !pqCount st.2 other then st
      else
        let newDist := (st.1.getD node 0 + 1) % 2 ^ 64          -- unsigned wrap-around
        if st.1.getD other 0 > newDist then
          (st.1.setIfInBounds other newDist, pqInsert st.2 other (idxMax - newDist))
        else st) st

/-- the `while(pending_nodes.size() > 0)` loop -/
def distLoop (nb : List (List Int)) (thr : Nat) : Nat → Array Nat × PQ → Array Nat
  | 0, st => st.1
  | fuel + 1, st =>
    match st.2 with
    | [] => st.1
    | (key, node) :: rest =>
      let nextDist := idxMax - key
      if nextDist != idxMax && nextDist > thr then st.1
      else distLoop nb thr fuel (relaxNeighbors (nb.getD node []) node (st.1, rest))

/-- `parti_iterative_distance(start, mesh, num_patches)`; `thr` = the exploration threshold (computed in floating
point by the C++: an input here), `nb` = `mesh.get_neighbors()` (`-1` = no neighbour) -/
def iterDistance (nb : List (List Int)) (n thr start : Nat) : List Nat :=
  let dist := (Array.replicate n idxMax).setIfInBounds start 0
  let q0 : PQ := (List.range n).map fun i => (0, i)
  (distLoop nb thr (n + 1) (dist, pqInsert q0 start idxMax)).toList

/-! ### `PartiIterativeIndividual` constructor for given centres -/

/-- `(distance, patch)` per cell after the loop over the (ascending) centres; `none` = patch never written -/
def assignItems (nb : List (List Int)) (n thr : Nat) (centres : List Nat) : List (Nat × Option Nat) :=
  centres.zipIdx.foldl (fun items (c, patch) =>
      let dl := iterDistance nb n thr c
      (items.zip dl).map fun ((d, p), dn) => if dn < d then (dn, some patch) else (d, p))
    ((List.range n).map fun _ => (idxMax, none))

/-- cells whose `PartiIterativeItem::patch` stays uninitialised (open finding F1) -/
def unassigned (items : List (Nat × Option Nat)) : List Nat :=
  items.zipIdx.filterMap fun ((_, p), i) => if p.isNone then some i else none

/-- `_cells_per_patch` (one ascending `std::set` per patch) -/
def cellsPerPatch (numPatches : Nat) (items : List (Nat × Option Nat)) : List (List Nat) :=
  (List.range numPatches).map fun k => items.zipIdx.filterMap fun ((_, p), i) => if p == some k then some i else none

/-- outcome of the constructor: `none` = uninitialised read (some cell reached by no centre),
`some rows` = the elements-at-rank rows that `build_elems_at_rank` returns -/
def iterIndividual (nb : List (List Int)) (n thr : Nat) (centres : List Nat) : Option (List (List Nat)) :=
  let items := assignItems nb n thr (Graph.sortList centres)
  if (unassigned items).isEmpty then some (cellsPerPatch centres.length items) else none

end FeatModel.Parti
