import FeatModel.Model.MG
/-!
# Independent textbook multigrid operator on an abstract hierarchy (core Lean only)

`mgRef` is the usual *recursive* definition of one multigrid cycle as a function `rhs ↦ solution` (zero initial
guess), for an abstract vector type `V` with scalars `K`:  every level `l` carries arbitrary maps `A` (system
operator), `Fd`/`Fc` (defect / correction filter), `R` (restriction to level `l+1`), `P` (prolongation from level
`l+1`), optional smoother maps `pre`/`post`/`peak` (defect ↦ correction) and an optional coarse solver `crs`.
Nothing of the control machinery of `FEAT::Solver::MultiGrid` (instruction lists, level-vector store, counters,
call log) occurs here.  `Lemmas/C09Ref.lean` proves that the model of FEAT's cycle computes exactly this operator.

Conventions taken from the documented FEAT cycle (and only those):
* a missing pre-smoother means the zero initial guess, whose residual is the right hand side itself;
* pre- and post-smoother corrections are added as they are, peak-smoother corrections are filtered;
* a missing peak smoother means pre- then post-smoother; a missing coarse solver means the (filtered) identity;
* inner re-visits (W: every level, F: "F then V") use the peak smoother and neither pre- nor post-smoother;
* adaptive coarse grid correction: step length `omegaE d c (Fd (A c))` / `omegaD d (Fd (A c))`; the defect handed
  to the post-smoother is then the updated defect `d - ω·Fd(A c)` (for `Fixed` it is recomputed).
-/
namespace FeatModel.MG

/-- vector operations of the abstract setting -/
structure ROps (V K : Type) where
  sub : V → V → V
  /-- `axpy a x y = y + a x` -/
  axpy : K → V → V → V
  one : K
  neg : K → K
  /-- MinEnergy step length from (defect, correction, filtered `A`·correction) -/
  omegaE : V → V → V → K
  /-- MinDefect step length from (defect, filtered `A`·correction) -/
  omegaD : V → V → K

structure RLevel (V : Type) where
  A : V → V
  Fd : V → V
  Fc : V → V
  zero : V
  R : V → V
  P : V → V
  pre : Option (V → V)
  post : Option (V → V)
  peak : Option (V → V)
  crs : Option (V → V)

inductive RKind where
  | V | W | F | Fi
  deriving DecidableEq, Repr

/-- cycle type used for the first / second visit of the next coarser level -/
def RKind.first : RKind → RKind
  | .V => .V | .W => .W | .F => .Fi | .Fi => .Fi
def RKind.second : RKind → RKind
  | .W => .W | _ => .V
def RKind.twice : RKind → Bool
  | .W => true | .Fi => true | _ => false

section
variable {V K : Type} (ops : ROps V K)

/-- filtered residual `Fd (b - A x)` -/
def rRes (L : RLevel V) (b x : V) : V := L.Fd (ops.sub b (L.A x))

/-- one smoothing step with filtered correction: `x + Fc (S (res b x))` -/
def rSmooth (L : RLevel V) (S : V → V) (b x : V) : V := ops.axpy ops.one (L.Fc (S (rRes ops L b x))) x

/-- peak smoothing -/
def rPeak (L : RLevel V) (b x : V) : V :=
  match L.peak with
  | some S => rSmooth ops L S b x
  | none =>
    let x1 := match L.pre with
      | some S => rSmooth ops L S b x
      | none => x
    match L.post with
    | some S => rSmooth ops L S b x1
    | none => x1

/-- the update `x + ω c` by a (filtered, prolongated) correction `c` of an iterate `x` whose filtered residual is `d`:
    returns the new iterate and its defect -/
def rStep (cgc : Cgc) (L : RLevel V) (b d x c : V) : V × V :=
  match cgc with
  | .fixed =>
    let x' := ops.axpy ops.one c x
    (x', rRes ops L b x')
  | .minEnergy =>
    let t := L.Fd (L.A c)
    let w := ops.omegaE d c t
    (ops.axpy w c x, ops.axpy (ops.neg w) t d)
  | .minDefect =>
    let t := L.Fd (L.A c)
    let w := ops.omegaD d t
    (ops.axpy w c x, ops.axpy (ops.neg w) t d)

/-- coarse grid correction on a level `L` with next coarser level `Lc`: restrict the defect, apply the cycle
    `inner` of the coarser level, prolongate, filter, update -/
def rCorr (cgc : Cgc) (L Lc : RLevel V) (inner : V → V) (b d x : V) : V × V :=
  rStep ops cgc L b d x (L.Fc (L.P (inner (Lc.Fd (L.R d)))))

/-- the cycle on a level that is not the coarse level, given the cycles `inner1` / `inner2` used for the first /
    second visit of the next coarser level; `twice` = W-cycle level or inner F-cycle level -/
def mgBody (cgc : Cgc) (L Lc : RLevel V) (twice : Bool) (inner1 inner2 : V → V) (b : V) : V :=
  let x0 := match L.pre with
    | some S => S b
    | none => L.zero
  let d0 := match L.pre with
    | some _ => rRes ops L b x0
    | none => L.Fd b
  let r1 := rCorr ops cgc L Lc inner1 b d0 x0
  let r2 := if twice then
      let y := rPeak ops L b r1.1
      rCorr ops cgc L Lc inner2 b (rRes ops L b y) y
    else r1
  match L.post with
  | some S => ops.axpy ops.one (S r2.2) r2.1
  | none => r2.1

/-- the coarse level: coarse solver, or the filtered identity -/
def mgCoarse (L : RLevel V) (b : V) : V :=
  match L.crs with
  | some C => C b
  | none => L.Fc b

/-- one multigrid cycle of kind `k` on level `crs - d` as the map right hand side ↦ solution -/
def mgRef (lv : Nat → RLevel V) (cgc : Cgc) (crs : Nat) : RKind → Nat → V → V
  | _, 0, b => mgCoarse (lv crs) b
  | k, d + 1, b =>
    mgBody ops cgc (lv (crs - (d + 1))) (lv (crs - (d + 1) + 1)) k.twice
      (mgRef lv cgc crs k.first d) (mgRef lv cgc crs k.second d) b

end

/-! ## the instance at `Rat` lists built from the data handed to `MultiGridHierarchy::push_level` -/

def ratOps : ROps Vec Rat where
  sub := vsub
  axpy := axpy
  one := 1
  neg := fun w => -w
  omegaE := fun d c t => cgcOmega (dot d c) (dot t c)
  omegaD := fun d t => cgcOmega (dot d t) (dot t t)

def refLevel (L : Level) : RLevel Vec where
  A := mulVec L.A
  Fd := filt L.fidx
  Fc := filt L.fidx
  zero := List.replicate L.n 0
  R := mulVec L.R
  P := mulVec L.P
  pre := L.pre.map mulVec
  post := L.post.map mulVec
  peak := L.peak.map mulVec
  crs := L.crs.map mulVec

def kindOf : Cycle → RKind
  | .V => .V | .F => .F | .W => .W

/-- the textbook result for the application `MultiGrid::apply(vec_cor, d)` with the given cycle and level range -/
def applyRef (levels : Array Level) (k : Cycle) (cgc : Cgc) (top crs : Nat) (d : Vec) : Vec :=
  mgRef ratOps (fun l => refLevel (levels.getD l default)) cgc crs (kindOf k) (crs - top) d

end FeatModel.MG
