import FeatModel.Model.Assembly
/-!
Model of the per-cell streamline-diffusion parameter logic of the Burgers assembly routes (property C16):
`Assembly::BurgersAssembler::assemble_matrix / assemble_scalar_matrix` (kernel/assembly/burgers_assembler.hpp, cell loop
with the local variable `local_delta`) and `BurgersAssemblyTaskBase::prepare` (kernel/assembly/burgers_assembly_job.hpp,
task member `local_delta`, one task object lives over many cells). Core Lean only.

`local_delta` is *state that survives from one cell to the next*; both routes reset it at the start of every cell
(only) when streamline diffusion is switched on, recompute it only if the barycentre velocity is non-zero
(`|v_bary| > tol`), and use it only under `need_streamdiff && local_delta > tol`.
-/
namespace FeatModel.Burgers
open FeatModel.Asm

structure Params (α : Type) where
  tol : α        -- sqrt(eps)
  sdDelta : α
  sdNu : α
  sdVNorm : α
  needSD : Bool  -- |sd_delta| > 0 && sd_v_norm > tol
deriving Repr

/-- what one cell contributes to the parameter: `|v(barycentre)|`, directed mesh width `h_T` (used only if `|v| > tol`),
its DOF map and the cell integrals `M_ij = Σ_q w_q (v·∇φ_i)(v·∇φ_j)` -/
structure Cell (α : Type) where
  normV : α
  h : α
  map : List Nat
  m : Nat → Nat → α

/-- `local_delta` of a cell whose state was reset: `0` if `|v_bary| ≤ tol`, else `δ* · h/‖v‖_Ω · 2Re/(1+Re)`, `Re = |v| h / ν` -/
def localDelta [Add α] [Mul α] [Div α] [OfNat α 0] [OfNat α 1] [OfNat α 2] [LT α] [DecidableLT α]
    (p : Params α) (normV h : α) : α :=
  if normV > p.tol then
    let re := (normV * h) / p.sdNu
    p.sdDelta * (h / p.sdVNorm) * (2 * re) / (1 + re)
  else 0

/-- the statement sequence at the start of a cell: `if(need_streamdiff) { local_delta = 0; … }`, else the variable keeps
whatever the previous cell left in it -/
def prepareDelta [Add α] [Mul α] [Div α] [OfNat α 0] [OfNat α 1] [OfNat α 2] [LT α] [DecidableLT α]
    (p : Params α) (prev : α) (normV h : α) : α :=
  if p.needSD then localDelta p normV h else prev

/-- the values `local_delta` takes over a sequence of cells handled by one task / one call of the cell loop -/
def deltaSeq [Add α] [Mul α] [Div α] [OfNat α 0] [OfNat α 1] [OfNat α 2] [LT α] [DecidableLT α]
    (p : Params α) : α → List (α × α) → List α
  | _, [] => []
  | prev, (nv, h) :: t => let d := prepareDelta p prev nv h; d :: deltaSeq p d t

/-- streamline-diffusion part of the local matrix: `if(need_streamdiff && local_delta > tol) loc[i][j] += local_delta * M_ij` -/
def sdLocal [Mul α] [OfNat α 0] [LT α] [DecidableLT α] (p : Params α) (delta : α) (m : Nat → Nat → α) : Nat → Nat → α :=
  fun i j => if p.needSD ∧ delta > p.tol then delta * m i j else 0

/-- the scatter calls of the streamline-diffusion part, produced by the stateful cell loop (state `prev`) -/
def sdCalls [Add α] [Mul α] [Div α] [OfNat α 0] [OfNat α 1] [OfNat α 2] [LT α] [DecidableLT α]
    (p : Params α) : α → List (Cell α) → List (CellCall α)
  | _, [] => []
  | prev, c :: t =>
    let d := prepareDelta p prev c.normV c.h
    ⟨1, c.map, c.map, sdLocal p d c.m⟩ :: sdCalls p d t

/-- the same contribution computed from the cell alone (no carried state) -/
def sdCellCall [Add α] [Mul α] [Div α] [OfNat α 0] [OfNat α 1] [OfNat α 2] [LT α] [DecidableLT α]
    (p : Params α) (c : Cell α) : CellCall α :=
  ⟨1, c.map, c.map, sdLocal p (localDelta p c.normV c.h) c.m⟩

end FeatModel.Burgers
