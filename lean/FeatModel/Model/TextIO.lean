import FeatModel.Model.Serialize
/-
Line-level model of the text file modes (`fm_mtx`, `fm_exp`) of DenseVector, DenseVectorBlocked,
SparseVector, DenseMatrix and SparseMatrixCSR, the raw array layout of every container kind, and the
IEEE-754 encoding of (normal, dyadic) rationals used to exchange values with the harness.

A text file is a list of lines (every line written by FEAT ends in `\n`).  Number printing
(`stringify_fp_sci` = `operator<<` with `std::scientific`, 6 digits) and parsing (`atof`, `atol`) are the
parameters `pr`/`rd` of the readers/writers; `sci6`/`parseSci` below are the instances the driver uses.
-/
namespace FeatModel.TextIO
open FeatModel.Ser

/-! ### IEEE-754 bit patterns of dyadic rationals (normal range only) -/

def mantBits (w : Nat) : Nat := if w = 4 then 23 else 52
def expBias (w : Nat) : Nat := if w = 4 then 127 else 1023

/-- bit pattern of `x = ± a / 2^k` as a float (`w = 4`) or double (`w = 8`); exact for normal values whose
    significand fits -/
def encF (w : Nat) (x : Rat) : Nat :=
  if x = 0 then 0 else
  let a := x.num.natAbs
  let d := x.den
  let la := a.log2
  let e : Int := (la : Int) - (d.log2 : Int)
  let frac := (a - 2 ^ la) * 2 ^ (mantBits w) / 2 ^ la
  let be := (e + (expBias w : Int)).toNat
  (if x < 0 then 2 ^ (8 * w - 1) else 0) + be * 2 ^ (mantBits w) + frac

def decF (w : Nat) (b : Nat) : Rat :=
  let m := mantBits w
  let sign := b / 2 ^ (8 * w - 1) % 2
  let be := b / 2 ^ m % 2 ^ (8 * w - 1 - m)
  let frac := b % 2 ^ m
  if be = 0 ∧ frac = 0 then 0 else
  let v : Rat := mkRat (((2 ^ m + frac) * 2 ^ be : Nat) : Int) (2 ^ (m + expBias w))
  if sign = 1 then -v else v

/-! ### raw layouts of the container kinds (what the constructors put into the six members) -/

structure Csr where
  rows : Nat
  cols : Nat
  rowPtr : List Nat
  colInd : List Nat
  vals : List Nat
deriving DecidableEq, Repr

def dvLayout (vals : List Nat) : Container :=
  { scalarIndex := [vals.length], scalarDt := [], elements := if vals.length = 0 then [] else [vals], indices := [] }

def dvbLayout (bs : Nat) (vals : List Nat) : Container :=
  { scalarIndex := [vals.length / bs], scalarDt := [],
    elements := if vals.length / bs = 0 then [] else [vals], indices := [] }

def svLayout (size : Nat) (idx : List Nat) (vals : List Nat) : Container :=
  if idx.isEmpty then
    { scalarIndex := [size, 0, 0, min size 1000, 1], scalarDt := [], elements := [], indices := [] }
  else
    { scalarIndex := [size, vals.length, vals.length, min size 1000, 1], scalarDt := [],
      elements := [vals], indices := [idx] }

def dmLayout (r c : Nat) (vals : List Nat) : Container :=
  if r = 0 ∨ c = 0 then { scalarIndex := [0, 0, 0], scalarDt := [], elements := [], indices := [] }
  else { scalarIndex := [r * c, r, c], scalarDt := [], elements := [vals], indices := [] }

/-- `variant = 0`: the array-less "empty matrix" constructor; `1`: allocated with 0 used elements -/
def csrLayout (variant : Nat) (m : Csr) : Container :=
  if m.colInd.isEmpty then
    if variant = 0 ∨ m.rows = 0 ∨ m.cols = 0 then
      { scalarIndex := [m.rows * m.cols, m.rows, m.cols, 0], scalarDt := [], elements := [], indices := [] }
    else
      { scalarIndex := [m.rows * m.cols, m.rows, m.cols, 0], scalarDt := [], elements := [[]],
        indices := [[], List.replicate (m.rows + 1) 0] }
  else
    { scalarIndex := [m.rows * m.cols, m.rows, m.cols, m.vals.length], scalarDt := [], elements := [m.vals],
      indices := [m.colInd, m.rowPtr] }

def bcsrLayout (bh bw : Nat) (r c : Nat) (rowPtr colInd vals : List Nat) : Container :=
  if colInd.isEmpty then
    { scalarIndex := [r * c, r, c, 0], scalarDt := [], elements := [], indices := [] }
  else
    { scalarIndex := [r * c, r, c, vals.length / (bh * bw)], scalarDt := [], elements := [vals],
      indices := [colInd, rowPtr] }

/-- `SparseMatrixBanded(rows, cols, val, offsets)`: used elements summed per offset -/
def bandedUsed (r c : Nat) (offs : List Nat) : Nat :=
  (offs.map fun o => c + min r (c + r - o - 1) - max (c + r - o - 1) c).sum

def bmLayout (r c : Nat) (offs vals : List Nat) : Container :=
  { scalarIndex := [r * c, r, c, bandedUsed r c offs, offs.length], scalarDt := [], elements := [vals],
    indices := [offs] }

def cscrLayout (r c : Nat) (rowPtr colInd vals rowNum : List Nat) : Container :=
  if colInd.isEmpty then
    { scalarIndex := [r * c, r, c, 0, 0], scalarDt := [], elements := [], indices := [] }
  else
    { scalarIndex := [r * c, r, c, vals.length, rowNum.length], scalarDt := [], elements := [vals],
      indices := [colInd, rowPtr, rowNum] }

/-! ### writers / readers (lines)

The line layer works on `List Char`; a line written by FEAT is `String.ofList` of its characters. -/

def isBlank (c : Char) : Bool := c == ' '

/-- `find_first_not_of(" ")`, `erase`, `find_first_of(" ")`: the first blank-separated token and the rest -/
def tok1 (cs : List Char) : List Char × List Char :=
  ((cs.dropWhile isBlank).takeWhile (fun c => !isBlank c), (cs.dropWhile isBlank).dropWhile (fun c => !isBlank c))

/-- `atol` on a token (leading decimal digits; no sign needed here) -/
def atolC (cs : List Char) : Nat :=
  Nat.ofDigitChars 10 (cs.takeWhile Char.isDigit) 0

/-- `operator<<` of an unsigned integer -/
def natChars (n : Nat) : List Char := (toString n).toList

/-! ### number printing / parsing instances (`pr`, `rd` of the driver)

`printf("%.6e")` of a rational: sign, one digit, `.`, six digits, `e`, exponent sign, at least two exponent
digits.  `sciDecomp` is the numeric part (7-digit mantissa `m`, exponent), `fmtSci` the string part. -/

def pow10 (n : Nat) : Rat := ((10 ^ n : Nat) : Rat)

/-- decimal exponent `e` with `10^e ≤ x < 10^(e+1)` for `x ≥ 1` (search bounded by `fuel`) -/
def dexpUp (x : Rat) : Nat → Nat → Nat
  | 0, e => e
  | fuel + 1, e => if x < pow10 (e + 1) then e else dexpUp x fuel (e + 1)

/-- decimal exponent `e` with `10^-e ≤ x` for `0 < x < 1` -/
def dexpDown (x : Rat) : Nat → Nat → Nat
  | 0, e => e
  | fuel + 1, e => if x * pow10 e ≥ 1 then e else dexpDown x fuel (e + 1)

def roundHalfEven (x : Rat) : Nat :=
  let f := x.floor.toNat
  let r := x - (f : Rat)
  if r > 1 / 2 then f + 1 else if r < 1 / 2 then f else if f % 2 = 0 then f else f + 1

/-- mantissa (an integer, 7 digits), exponent sign (`true` = negative), exponent of `a > 0` rounded to 7
    significant decimal digits, half to even -/
def sciDecomp (a : Rat) : Nat × Bool × Nat :=
  let neg := !(a ≥ 1)
  let e := if a ≥ 1 then dexpUp a 400 0 else dexpDown a 400 0
  let scaled : Rat := if neg then a * pow10 e * pow10 6 else a / pow10 e * pow10 6
  let m := roundHalfEven scaled
  let m' := if m ≥ 10 ^ 7 then m / 10 else m
  let neg' := if m ≥ 10 ^ 7 then (if neg ∧ e = 1 then false else neg) else neg
  let e' := if m ≥ 10 ^ 7 then (if neg then e - 1 else e + 1) else e
  (m', neg' && e' != 0, e')

/-- the rational denoted by mantissa/exponent: `m · 10^(±e − 6)` -/
def sciValue (d : Nat × Bool × Nat) : Rat :=
  if d.2.1 then ((d.1 : Rat) / pow10 6) / pow10 d.2.2 else ((d.1 : Rat) / pow10 6) * pow10 d.2.2

/-- `k` decimal digits of `n` (positions `k-1 … 0`), most significant first, zero padded -/
def digitsN (n : Nat) : Nat → List Char
  | 0 => []
  | k + 1 => Nat.digitChar (n / 10 ^ k % 10) :: digitsN n k

/-- at least two exponent digits -/
def expChars (e : Nat) : List Char := if e < 10 then ['0', Nat.digitChar e] else natChars e

def fmtSci (neg : Bool) (d : Nat × Bool × Nat) : List Char :=
  (if neg then ['-'] else []) ++
    (Nat.digitChar (d.1 / 10 ^ 6 % 10) :: '.' :: (digitsN d.1 6 ++ 'e' :: (if d.2.1 then '-' else '+') :: expChars d.2.2))

/-- `printf("%.6e")` of a rational (round-half-even on the exact value) -/
def sci6 (x : Rat) : String :=
  if x = 0 then String.ofList (fmtSci false (0, false, 0))
  else if x < 0 then String.ofList (fmtSci true (sciDecomp (-x)))
  else String.ofList (fmtSci false (sciDecomp x))

/-- the value `%.6e` keeps of `x`: 7 significant decimal digits, half to even -/
def round7 (x : Rat) : Rat :=
  if x = 0 then sciValue (0, false, 0) else if x < 0 then -1 * sciValue (sciDecomp (-x)) else 1 * sciValue (sciDecomp x)

/-- `atol`: leading decimal digits (no sign needed here); junk → 0 -/
def atol (s : String) : Nat := atolC s.toList

/-- `atof` after the sign: `d.dddddde±XX` (the output of `sci6`); other strings: decimal prefix -/
def parseBody (cs : List Char) : Rat :=
  let ip := cs.takeWhile Char.isDigit
  let r1 := cs.dropWhile Char.isDigit
  let fp := match r1 with
    | '.' :: r => r.takeWhile Char.isDigit
    | _ => []
  let r2 := match r1 with
    | '.' :: r => r.dropWhile Char.isDigit
    | _ => r1
  let base : Rat := (Nat.ofDigitChars 10 (ip ++ fp) 0 : Rat) / pow10 fp.length
  match r2 with
    | 'e' :: '-' :: r => base / pow10 (atolC r)
    | 'e' :: '+' :: r => base * pow10 (atolC r)
    | _ => base

def parseSciC (cs0 : List Char) : Rat :=
  match cs0 with
  | '-' :: r => -1 * parseBody r
  | _ => 1 * parseBody cs0

def parseSci (s : String) : Rat := parseSciC s.toList


def firstToken (s : String) : String × String :=
  (String.ofList (tok1 s.toList).1, String.ofList (tok1 s.toList).2)

/-- `line.find(banner) != npos` -/
def isPrefix : List Char → List Char → Bool
  | [], _ => true
  | _ :: _, [] => false
  | a :: as, b :: bs => a == b && isPrefix as bs

def containsSub (pat : List Char) : List Char → Bool
  | [] => isPrefix pat []
  | c :: cs => isPrefix pat (c :: cs) || containsSub pat cs

/-- the loop skipping `%` comment lines; returns the size line and the rest (`none` = abort) -/
def skipComments : List String → Option (String × List String)
  | [] => none
  | l :: ls =>
    match l.toList.dropWhile isBlank with
    | [] => none                      -- `line.at(npos)` throws
    | ch :: _ => if ch = '%' then skipComments ls else some (l, ls)

/-- banner line, then `%` comment lines; returns the size line and the rest (`none` = abort) -/
def mtxHeader (banner : String) (lines : List String) : Option (String × List String) :=
  match lines with
  | [] => none
  | l0 :: rest => if containsSub banner.toList l0.toList then skipComments rest else none

def arrayBanner := "%%MatrixMarket matrix array real general"
def coordBanner := "%%MatrixMarket matrix coordinate real general"

/-- `a b` / `a b c` size lines -/
def sizeLine2 (a b : Nat) : String := String.ofList (natChars a ++ ' ' :: natChars b)
def sizeLine3 (a b c : Nat) : String := String.ofList (natChars a ++ ' ' :: (natChars b ++ ' ' :: natChars c))

/-- first two numbers of a size line -/
def parseSize2 (l : String) : Nat × Nat :=
  (atolC (tok1 l.toList).1, atolC (tok1 (tok1 l.toList).2).1)

def parseSize3 (l : String) : Nat × Nat × Nat :=
  (atolC (tok1 l.toList).1, atolC (tok1 (tok1 l.toList).2).1, atolC (tok1 (tok1 (tok1 l.toList).2).2).1)

variable {α : Type}

/-- a line holding one value: the first token is handed to `atof` -/
def parseVal (rd : String → α) (l : String) : α := rd (String.ofList (tok1 l.toList).1)

/-- `i j value` coordinate line (indices as written, 1-based) -/
def fmtEntry (pr : α → String) (i j : Nat) (v : α) : String :=
  String.ofList (natChars i ++ ' ' :: (natChars j ++ ' ' :: (pr v).toList))

/-- coordinate line → 0-based (row, col, value): `atol`, `--row`, `--col`, `atof` -/
def parseEntry (rd : String → α) (l : String) : Nat × Nat × α :=
  (atolC (tok1 l.toList).1 - 1, atolC (tok1 (tok1 l.toList).2).1 - 1,
   rd (String.ofList (tok1 (tok1 (tok1 l.toList).2).2).1))

def dvMtxWrite (pr : α → String) (vals : List α) : List String :=
  [arrayBanner, sizeLine2 vals.length 1] ++ vals.map pr

/-- returns the `rows` values (a file with a different number of value lines leaves memory uninitialised or
    overruns it in the C++: `none` here) -/
def dvMtxRead (rd : String → α) (lines : List String) : Option (List α) :=
  match mtxHeader arrayBanner lines with
  | none => none
  | some (sz, body) =>
    if (parseSize2 sz).2 ≠ 1 then none else
    if body.length ≠ (parseSize2 sz).1 then none else
    some (body.map (parseVal rd))

def expWrite (pr : α → String) (vals : List α) : List String := vals.map pr

/-- lines containing `#` are skipped; the rest of the line after leading blanks is handed to `atof` -/
def expRead (rd : String → α) (lines : List String) : List α :=
  (lines.filter fun l => !l.toList.contains '#').map fun l => rd (String.ofList (l.toList.dropWhile isBlank))

def svMtxWrite (pr : α → String) (size : Nat) (idx : List Nat) (vals : List α) : List String :=
  [coordBanner, sizeLine3 size 1 vals.length] ++ (idx.zip vals).map fun (i, v) => fmtEntry pr (i + 1) 1 v

def svMtxRead (rd : String → α) (lines : List String) : Option (Nat × List Nat × List α) :=
  match mtxHeader coordBanner lines with
  | none => none
  | some (sz, body) =>
    if (parseSize3 sz).2.1 ≠ 1 then none else
    if body.length ≠ (parseSize3 sz).2.2 then none else
    some ((parseSize3 sz).1, body.map (fun l => (parseEntry rd l).1), body.map (fun l => (parseEntry rd l).2.2))

def dmMtxWrite (pr : α → String) (r c : Nat) (vals : List α) : List String :=
  [arrayBanner, sizeLine3 r c (r * c)] ++ vals.map pr

def dmMtxRead (rd : String → α) (lines : List String) : Option (Nat × Nat × List α) :=
  match mtxHeader arrayBanner lines with
  | none => none
  | some (sz, body) =>
    if (parseSize2 sz).1 = 0 ∨ (parseSize2 sz).2 = 0 then none else
    if body.length ≠ (parseSize2 sz).1 * (parseSize2 sz).2 then none else
    some ((parseSize2 sz).1, (parseSize2 sz).2, body.map (parseVal rd))

/-- the entries in the order `SparseMatrixCSR::write_out(fm_mtx)` visits them (0-based): row loop over
    `row_ptr`, inner loop `i = row_ptr[row] … row_ptr[row+1]` -/
def csrEntries (rows : Nat) (rowPtr colInd : List Nat) (vals : List α) (dflt : α) : List (Nat × Nat × α) :=
  (List.range rows).flatMap fun row =>
    (List.range (rowPtr.getD (row + 1) 0 - rowPtr.getD row 0)).map fun k =>
      (row, colInd.getD (rowPtr.getD row 0 + k) 0, vals.getD (rowPtr.getD row 0 + k) dflt)

/-- `SparseMatrixCSR::write_out(fm_mtx)`, general format -/
def csrMtxWrite (pr : α → String) (rows cols : Nat) (rowPtr colInd : List Nat) (vals : List α) (dflt : α) :
    List String :=
  [coordBanner, sizeLine3 rows cols vals.length] ++
    (csrEntries rows rowPtr colInd vals dflt).map fun e => fmtEntry pr (e.1 + 1) (e.2.1 + 1) e.2.2

/-- `SparseMatrixBCSR::write_out(fm_mtx)`: scalar (pod) dimensions, every entry of every stored block, in the
    order block row / block / row in block / column in block (so not row-major; the CSR reader sorts) -/
def bcsrMtxWrite (pr : α → String) (bh bw rows cols : Nat) (rowPtr colInd : List Nat) (vals : List α) (dflt : α) :
    List String :=
  [coordBanner, sizeLine3 (rows * bh) (cols * bw) (colInd.length * bh * bw)] ++
    (List.range rows).flatMap fun row =>
      (List.range (rowPtr.getD (row + 1) 0 - rowPtr.getD row 0)).flatMap fun k =>
        (List.range bh).flatMap fun y =>
          (List.range bw).map fun x =>
            fmtEntry pr (row * bh + y + 1) (colInd.getD (rowPtr.getD row 0 + k) 0 * bw + x + 1)
              (vals.getD ((rowPtr.getD row 0 + k) * (bh * bw) + y * bw + x) dflt)

/-- insertion into `std::map<IT_, DT_>` (`insert` keeps the first value of a duplicate key) -/
def colInsert (c : Nat) (v : α) : List (Nat × α) → List (Nat × α)
  | [] => [(c, v)]
  | (c', v') :: rest =>
    if c < c' then (c, v) :: (c', v') :: rest
    else if c = c' then (c', v') :: rest
    else (c', v') :: colInsert c v rest

def rowInsert (r c : Nat) (v : α) : List (Nat × List (Nat × α)) → List (Nat × List (Nat × α))
  | [] => [(r, [(c, v)])]
  | (r', m) :: rest =>
    if r < r' then (r, [(c, v)]) :: (r', m) :: rest
    else if r = r' then (r', colInsert c v m) :: rest
    else (r', m) :: rowInsert r c v rest

/-- the row loop of the reader (after the fix `c93b98486`): `row_ptr[row] = idx`, rows missing from the map
    are skipped, present rows are copied; `it` is the map iterator -/
def csrFill (rows : Nat) : Nat → Nat → List (Nat × List (Nat × α)) → List Nat × List Nat × List α
  | 0, _, _ => ([], [], [])
  | n + 1, idx, it =>
    let row := rows - (n + 1)
    match it with
    | (r, m) :: it' =>
      if r = row then
        let (rp, ci, vs) := csrFill rows n (idx + m.length) it'
        (idx :: rp, m.map (·.1) ++ ci, m.map (·.2) ++ vs)
      else
        let (rp, ci, vs) := csrFill rows n idx it
        (idx :: rp, ci, vs)
    | [] =>
      let (rp, ci, vs) := csrFill rows n idx []
      (idx :: rp, ci, vs)

/-- the part of the reader after the lines were parsed: fill `std::map<row, std::map<col, val>>`, then build
    `row_ptr` (last entry = number of lines), `col_ind`, `val` -/
def csrAssemble (rows : Nat) (ents : List (Nat × Nat × α)) : List Nat × List Nat × List α :=
  ((csrFill rows rows 0 (ents.foldl (fun m e => rowInsert e.1 e.2.1 e.2.2 m) [])).1 ++ [ents.length],
   (csrFill rows rows 0 (ents.foldl (fun m e => rowInsert e.1 e.2.1 e.2.2 m) [])).2.1,
   (csrFill rows rows 0 (ents.foldl (fun m e => rowInsert e.1 e.2.1 e.2.2 m) [])).2.2)

/-- result: rows, cols, `ue` (line count), row_ptr, col_ind, val.  `col_ind`/`val` have `ue` slots in the
    C++; the model returns the filled prefix. -/
def csrMtxRead (rd : String → α) (lines : List String) : Option (Nat × Nat × Nat × List Nat × List Nat × List α) :=
  match mtxHeader coordBanner lines with
  | none => none
  | some (sz, body) =>
    some ((parseSize2 sz).1, (parseSize2 sz).2, body.length,
      (csrAssemble (parseSize2 sz).1 (body.map (parseEntry rd))).1,
      (csrAssemble (parseSize2 sz).1 (body.map (parseEntry rd))).2.1,
      (csrAssemble (parseSize2 sz).1 (body.map (parseEntry rd))).2.2)

/-! ### decidable hypotheses of the text theorems (evaluated by the driver on every case) -/

/-- the rounded mantissa has 7 digits (always true for `0 < |x| < 10^400`; kept as a decidable side condition
    because the exponent search of the model is bounded) -/
def sciOK (x : Rat) : Bool :=
  if x = 0 then true else if x < 0 then decide ((sciDecomp (-x)).1 < 10 ^ 7) else decide ((sciDecomp x).1 < 10 ^ 7)

/-- **precision clause**: `x` is its own rounding to 7 significant decimal digits -/
def Exact7 (x : Rat) : Bool := sciOK x && decide (round7 x = x)

abbrev Row (α : Type) := List (Nat × α)

/-- column indices strictly increasing within the row (sorted, no duplicates) -/
def StrictCols (row : Row α) : Prop := List.Pairwise (· < ·) (row.map (·.1))

/-- the rows of a CSR matrix: slices of `col_ind`/`val` between consecutive `row_ptr` entries -/
def rowsOf (ci : List Nat) (vs : List α) (d : α) : List Nat → List (Row α)
  | p :: q :: rest =>
    ((List.range (q - p)).map fun k => (ci.getD (p + k) 0, vs.getD (p + k) d)) :: rowsOf ci vs d (q :: rest)
  | _ => []

/-- well-formed CSR arrays: `row_ptr` has `rows + 1` non-decreasing entries from 0 to the number of stored
    entries, and the column indices of every row are strictly increasing -/
def CsrWF (rows : Nat) (rowPtr ci : List Nat) (vs : List α) (d : α) : Prop :=
  rowPtr.length = rows + 1 ∧ rowPtr.head? = some 0 ∧ List.Pairwise (· ≤ ·) rowPtr ∧
  rowPtr.getLast? = some ci.length ∧ ci.length = vs.length ∧ ∀ row ∈ rowsOf ci vs d rowPtr, StrictCols row

instance {α : Type} (rows : Nat) (rowPtr ci : List Nat) (vs : List α) (d : α) : Decidable (CsrWF rows rowPtr ci vs d) := by
  unfold CsrWF StrictCols
  infer_instance

/-- the conversions of `Container::assign` between float/double and u32/u64 as the driver models them -/
def cvData (wFrom wTo : Nat) (b : Nat) : Nat := encF wTo (decF wFrom b)
def cvIndex (wTo : Nat) (i : Nat) : Nat := i % 256 ^ wTo


end FeatModel.TextIO
