/-
Executable model of `FEAT::Solver::MultiGrid` (kernel/solver/multigrid.hpp), core Lean only.

The C++ cycles have no data-dependent control flow (the status of `_apply_coarse` is ignored, the smoother status
checks are commented out), so one multigrid application is modelled in two layers:

* **control** (`cycleIter`): the three cycle drivers `_apply_cycle_v/_f/_w` written with the loops of the C++
  (the W-cycle with the per-level counter array, the `num_cgs = 1 << (last - top)` loop, the downward scan for the
  first zero counter, the reset loop and the final sanity check).  They emit the list of *primitive steps*
  (`Instr`): one body of the `_apply_rest` loop, one body of the `_apply_prol` loop, one `_apply_smooth_peak`, one
  `_apply_coarse`.
* **data** (`step`, `exec`): what each primitive step does to the level vectors `(rhs, sol, def, cor, tmp)` at `Rat`,
  including the missing-smoother branches, the adaptive coarse grid correction and the defect shortcut, and the
  call log of the user supplied objects.

Level numbering as in FEAT: level 0 is the finest level, `top ≤ crs`, `last = min crs size_physical = crs`.
-/
namespace FeatModel.MG

/-! ## control layer -/

inductive Cycle where
  | V | F | W
  deriving DecidableEq, Repr, Inhabited

/-- primitive steps of one multigrid application -/
inductive Instr where
  /-- one body of the `_apply_rest` loop on level `lvl`; `smooth` = `cur_smooth || (i > cur_lvl)` -/
  | rest (lvl : Nat) (smooth : Bool)
  /-- one body of the `_apply_prol` loop on level `lvl`; `smooth` = `cur_smooth || (i > cur_lvl)` -/
  | prol (lvl : Nat) (smooth : Bool)
  /-- `_apply_smooth_peak(lvl)` -/
  | peak (lvl : Nat)
  /-- `_apply_coarse()` -/
  | coarse
  deriving DecidableEq, Repr, Inhabited

/-- `_apply_rest(cur, smooth)`: `for(i = cur; i < last; ++i)` -/
def restSeq (last cur : Nat) (smooth : Bool) : List Instr :=
  (List.range' cur (last - cur)).map fun i => Instr.rest i (smooth || decide (cur < i))

/-- `_apply_prol(cur, smooth)`: `for(i = last; i > cur;) { --i; … }` -/
def prolSeq (last cur : Nat) (smooth : Bool) : List Instr :=
  (List.range' cur (last - cur)).reverse.map fun i => Instr.prol i (smooth || decide (cur < i))

/-- `_apply_cycle_v` -/
def cycleV (last top : Nat) : List Instr :=
  restSeq last top true ++ [Instr.coarse] ++ prolSeq last top true

/-- peak levels of the F-cycle loop: `if(last > 0) for(peak = last-1; peak > top; --peak)` -/
def fPeaks (last top : Nat) : List Nat :=
  if 0 < last then (List.range' (top + 1) (last - 1 - top)).reverse else []

/-- body of the F-cycle loop -/
def fBody (last p : Nat) : List Instr :=
  [Instr.coarse] ++ prolSeq last p false ++ [Instr.peak p] ++ restSeq last p false

/-- `_apply_cycle_f` -/
def cycleF (last top : Nat) : List Instr :=
  restSeq last top true ++ (fPeaks last top).flatMap (fBody last) ++ [Instr.coarse] ++ prolSeq last top true

/-- W-cycle: `peak_lvl = last; while(peak_lvl > top) { if(_counters[--peak_lvl] == 0) break; }`
    with `k = peak_lvl - top` as the recursion variable; falls out of the loop with `peak_lvl = top` -/
def wScan (c : Nat → Nat) (top : Nat) : Nat → Nat
  | 0 => top
  | k + 1 => if c (top + k) = 0 then top + k else wScan c top k

/-- one iteration of the W-cycle loop on the counters: chosen peak level and the new counters
    (`for(i = last-1; i > peak; --i) _counters[i] = 0; ++_counters[peak];`) -/
def wStep (last top : Nat) (c : Nat → Nat) : Nat × (Nat → Nat) :=
  let p := wScan c top (last - top)
  (p, fun i => if i = p then c p + 1 else if p < i ∧ i < last then 0 else c i)

/-- body of the W-cycle loop for peak level `p` -/
def wBody (last p : Nat) : List Instr :=
  prolSeq last p false ++ [Instr.peak p] ++ restSeq last p false ++ [Instr.coarse]

/-- `n` iterations of the W-cycle loop: peak levels in order of occurrence, and the final counters -/
def wRun (last top : Nat) : Nat → (Nat → Nat) → List Nat × (Nat → Nat)
  | 0, c => ([], c)
  | n + 1, c =>
    let (p, c') := wStep last top c
    let (ps, c'') := wRun last top n c'
    (p :: ps, c'')

/-- the final sanity check `for(i = last; i > top;) { --i; XASSERT(_counters[i] == 1) }` -/
def wSane (last top : Nat) (c : Nat → Nat) : Bool :=
  (List.range' top (last - top)).all fun i => c i == 1

/-- counters after `for(i = top; i <= last; ++i) _counters[i] = 0` -/
def wInit (last top : Nat) (c : Nat → Nat) : Nat → Nat :=
  fun i => if top ≤ i ∧ i ≤ last then 0 else c i

/-- `_apply_cycle_w` on the persistent counter array `c0`; `none` = the sanity `XASSERT` fires.
    (The other sanity check `peak_lvl >= _top_level` can never fire: the scan stops at `top`.) -/
def cycleW (last top : Nat) (c0 : Nat → Nat) : Option (List Instr) × (Nat → Nat) :=
  let r := wRun last top (2 ^ (last - top) - 1) (wInit last top c0)
  let prog := restSeq last top true ++ [Instr.coarse] ++ r.1.flatMap (wBody last)
  if wSane last top r.2 then (some (prog ++ prolSeq last top true), r.2) else (none, r.2)

/-- the cycle dispatch of `MultiGrid::apply` -/
def cycleIter (k : Cycle) (last top : Nat) (c0 : Nat → Nat) : Option (List Instr) × (Nat → Nat) :=
  match k with
  | .V => (some (cycleV last top), c0)
  | .F => (some (cycleF last top), c0)
  | .W => cycleW last top c0

/-! ### the documented cycles as textbook recursions (reference definitions)

`d` is the number of levels between the current level and the coarse level, the current level is `last - d`.
FEAT convention: an inner re-visit of a level uses the peak smoother and neither the pre- nor the post-smoother of
that level. -/

def recV (last : Nat) : Nat → List Instr
  | 0 => [Instr.coarse]
  | d + 1 => [Instr.rest (last - (d + 1)) true] ++ recV last d ++ [Instr.prol (last - (d + 1)) true]

/-- W-cycle: two recursive visits of the next coarser level, separated by a peak smoothing step -/
def recW (last : Nat) : Nat → List Instr
  | 0 => [Instr.coarse]
  | d + 1 =>
    let l := last - (d + 1)
    [Instr.rest l true] ++ recW last d ++ [Instr.prol l false, Instr.peak l, Instr.rest l false] ++ recW last d
      ++ [Instr.prol l true]

/-- inner F-cycle ("F then V") -/
def recFin (last : Nat) : Nat → List Instr
  | 0 => [Instr.coarse]
  | d + 1 =>
    let l := last - (d + 1)
    [Instr.rest l true] ++ recFin last d ++ [Instr.prol l false, Instr.peak l, Instr.rest l false] ++ recV last d
      ++ [Instr.prol l true]

/-- F-cycle: the top level is visited once, every inner level carries an "F then V" -/
def recF (last : Nat) : Nat → List Instr
  | 0 => [Instr.coarse]
  | d + 1 => [Instr.rest (last - (d + 1)) true] ++ recFin last d ++ [Instr.prol (last - (d + 1)) true]

def cycleRec (k : Cycle) (last top : Nat) : List Instr :=
  match k with
  | .V => recV last (last - top)
  | .F => recF last (last - top)
  | .W => recW last (last - top)

/-- the ruler sequence of peak levels for the sub-hierarchy of the `d` finest-to-coarse steps below `last` -/
def ruler (last : Nat) : Nat → List Nat
  | 0 => []
  | d + 1 => ruler last d ++ [last - (d + 1)] ++ ruler last d

/-- generic execution of a program of primitive steps by an arbitrary step semantics -/
def exec {σ : Type} (step : Instr → σ → σ) (prog : List Instr) (s : σ) : σ :=
  prog.foldl (fun s i => step i s) s

def countCoarse (prog : List Instr) : Nat := prog.count Instr.coarse

def peaksOf : List Instr → List Nat
  | [] => []
  | Instr.peak l :: t => l :: peaksOf t
  | _ :: t => peaksOf t

/-! ## data layer (at `Rat`) -/

abbrev Vec := List Rat
abbrev Mat := List (List Rat)

def dot (x y : Vec) : Rat := (List.zipWith (· * ·) x y).foldl (· + ·) 0
def mulVec (a : Mat) (x : Vec) : Vec := a.map fun row => dot row x
def vadd (x y : Vec) : Vec := List.zipWith (· + ·) x y
def vsub (x y : Vec) : Vec := List.zipWith (· - ·) x y
def vscale (a : Rat) (x : Vec) : Vec := x.map (a * ·)
/-- `y.axpy(x, a)`: `y + a x` -/
def axpy (a : Rat) (x y : Vec) : Vec := List.zipWith (fun yi xi => yi + a * xi) y x
/-- `UnitFilter::filter_def` = `filter_cor`: zero the listed entries -/
def filt (idx : List Nat) (v : Vec) : Vec :=
  (List.zipWith (fun i x => if idx.contains i then (0 : Rat) else x) (List.range v.length) v)

inductive Cgc where
  | fixed | minEnergy | minDefect
  deriving DecidableEq, Repr, Inhabited

/-- what the user hands to `MultiGridHierarchy::push_level` for one level -/
structure Level where
  n : Nat
  A : Mat
  fidx : List Nat
  P : Mat := []       -- n × n_coarse, prolongation onto this level
  R : Mat := []       -- n_coarse × n, restriction from this level
  pre : Option Mat := none
  post : Option Mat := none
  peak : Option Mat := none
  crs : Option Mat := none
  deriving Inhabited

/-- `LevelInfo` vectors -/
structure LvVecs where
  rhs : Vec := []
  sol : Vec := []
  defe : Vec := []
  cor : Vec := []
  tmp : Vec := []
  deriving Inhabited

structure St where
  lv : Array LvVecs
  log : Array String := #[]
  deriving Inhabited

structure Cfg where
  levels : Array Level
  cgc : Cgc
  crsLvl : Nat

def Cfg.level (cfg : Cfg) (i : Nat) : Level := cfg.levels.getD i default
def St.get (s : St) (i : Nat) : LvVecs := s.lv.getD i default
def St.put (s : St) (i : Nat) (v : LvVecs) : St := { s with lv := s.lv.setIfInBounds i v }
def St.sayAll (s : St) (es : List String) : St := { s with log := s.log ++ es.toArray }

/-- `matrix.apply(def, sol, rhs, -1)` followed by `filter_def` -/
def defect (L : Level) (rhs sol : Vec) : Vec := filt L.fidx (vsub rhs (mulVec L.A sol))

/-! Every primitive step reads the vectors of one level (plus one vector of the next coarser level), computes new
vectors by a pure *local* function and appends the events of the user supplied objects to the call log:
`a<l>`, `b<l>`, `k<l>`, `c<l>` = pre, post, peak smoother and coarse solver of level `l`, `R<l>`/`P<l>` = restriction from / prolongation
onto level `l`, `D<l>` = defect computation `matrix.apply(def, sol, rhs, -1)` on level `l`, `M<l>` = plain product
`matrix.apply(tmp, cor)` on level `l`. -/

/-- pre-smoothing (or `format` + copy) inside `_apply_rest` -/
def preSmooth (L : Level) (i : Nat) (v : LvVecs) : LvVecs × List String :=
  match L.pre with
  | some m =>
    let sol := mulVec m v.rhs
    ({ v with sol := sol, defe := vsub v.rhs (mulVec L.A sol) }, [s!"a{i}", s!"D{i}"])
  | none => ({ v with sol := List.replicate L.n 0, defe := v.rhs }, [])

/-- the fine-level part of one body of the `_apply_rest` loop -/
def restLocal (L : Level) (i : Nat) (smooth : Bool) (v : LvVecs) : LvVecs × List String :=
  let r := if smooth then preSmooth L i v else (v, [])
  ({ r.1 with defe := filt L.fidx r.1.defe }, r.2 ++ [s!"R{i}"])

/-- one body of the `_apply_rest` loop -/
def stepRest (cfg : Cfg) (i : Nat) (smooth : Bool) (s : St) : St :=
  let L := cfg.level i
  let r := restLocal L i smooth (s.get i)
  let s := (s.put i r.1).sayAll r.2
  s.put (i + 1) { s.get (i + 1) with rhs := filt (cfg.level (i + 1)).fidx (mulVec L.R r.1.defe) }

/-- `if(omega_den != 0) omega_cgc = num / omega_den;` with `omega_cgc` initialised to 1 -/
def cgcOmega (num den : Rat) : Rat := if den == 0 then 1 else num / den

/-- (adaptive) coarse grid correction: step length, new `tmp` vector, events.
    A vanishing denominator keeps `omega = 1` (fix of finding F-C09-1). -/
def cgcStep (cgc : Cgc) (L : Level) (i : Nat) (v : LvVecs) : Rat × Vec × List String :=
  match cgc with
  | .fixed => (1, v.tmp, [])
  | .minEnergy =>
    let tmp := filt L.fidx (mulVec L.A v.cor)
    (cgcOmega (dot v.defe v.cor) (dot tmp v.cor), tmp, [s!"M{i}"])
  | .minDefect =>
    let tmp := filt L.fidx (mulVec L.A v.cor)
    (cgcOmega (dot v.defe tmp) (dot tmp tmp), tmp, [s!"M{i}"])

/-- the defect handed to the post-smoother: recomputed (Fixed) or updated by the shortcut `def -= omega*tmp` -/
def postDefect (cgc : Cgc) (L : Level) (i : Nat) (omega : Rat) (v : LvVecs) : Vec × List String :=
  match cgc with
  | .fixed => (defect L v.rhs v.sol, [s!"D{i}"])
  | _ => (axpy (-omega) v.tmp v.defe, [])

/-- one body of the `_apply_prol` loop; `solc` is the solution vector of the next coarser level -/
def prolLocal (cgc : Cgc) (L : Level) (i : Nat) (smooth : Bool) (v : LvVecs) (solc : Vec) : LvVecs × List String :=
  let v := { v with cor := filt L.fidx (mulVec L.P solc) }
  let c := cgcStep cgc L i v
  let v := { v with tmp := c.2.1, sol := axpy c.1 v.cor v.sol }
  match L.post, smooth with
  | some m, true =>
    let d := postDefect cgc L i c.1 v
    let cor := mulVec m d.1
    ({ v with defe := d.1, cor := cor, sol := axpy 1 cor v.sol }, [s!"P{i}"] ++ c.2.2 ++ d.2 ++ [s!"b{i}"])
  | _, _ => (v, [s!"P{i}"] ++ c.2.2)

def stepProl (cfg : Cfg) (i : Nat) (smooth : Bool) (s : St) : St :=
  let r := prolLocal cfg.cgc (cfg.level i) i smooth (s.get i) (s.get (i + 1)).sol
  (s.put i r.1).sayAll r.2

/-- `_apply_smooth_def` -/
def smoothDef (L : Level) (i : Nat) (m : Mat) (tag : String) (r : LvVecs × List String) : LvVecs × List String :=
  let cor := filt L.fidx (mulVec m r.1.defe)
  let sol := axpy 1 cor r.1.sol
  ({ r.1 with cor := cor, sol := sol, defe := defect L r.1.rhs sol }, r.2 ++ [tag, s!"D{i}"])

/-- the smoother part of `_apply_smooth_peak`: the peak smoother, or the pre- and then the post-smoother -/
def peakTail (L : Level) (i : Nat) (r0 : LvVecs × List String) : LvVecs × List String :=
  match L.peak with
  | some m => smoothDef L i m s!"k{i}" r0
  | none =>
    let r1 := match L.pre with
      | some m => smoothDef L i m s!"a{i}" r0
      | none => r0
    match L.post with
    | some m => smoothDef L i m s!"b{i}" r1
    | none => r1

/-- `_apply_smooth_peak` -/
def peakLocal (L : Level) (i : Nat) (v : LvVecs) : LvVecs × List String :=
  peakTail L i ({ v with defe := defect L v.rhs v.sol }, [s!"D{i}"])

def stepPeak (cfg : Cfg) (i : Nat) (s : St) : St :=
  let r := peakLocal (cfg.level i) i (s.get i)
  (s.put i r.1).sayAll r.2

/-- `_apply_coarse` -/
def coarseLocal (L : Level) (i : Nat) (v : LvVecs) : LvVecs × List String :=
  match L.crs with
  | some m => ({ v with sol := mulVec m v.rhs }, [s!"c{i}"])
  | none => ({ v with sol := filt L.fidx v.rhs }, [])

def stepCoarse (cfg : Cfg) (s : St) : St :=
  let r := coarseLocal (cfg.level cfg.crsLvl) cfg.crsLvl (s.get cfg.crsLvl)
  (s.put cfg.crsLvl r.1).sayAll r.2

/-- semantics of a primitive step -/
def step (cfg : Cfg) (ins : Instr) (s : St) : St :=
  match ins with
  | .rest i sm => stepRest cfg i sm s
  | .prol i sm => stepProl cfg i sm s
  | .peak i => stepPeak cfg i s
  | .coarse => stepCoarse cfg s

/-- the `MultiGrid` object: level vectors and W-cycle counters persist between applications -/
structure Obj where
  lv : Array LvVecs
  counters : Nat → Nat := fun _ => 0

inductive Outcome where
  | ok (log : List String) (cor : Vec)
  | abortRange
  | abortSanity

/-- constructor / `set_levels` range checks on `int` arguments converted to `Index`:
    `crs < size_virtual` and `top <= crs` after the unsigned conversions -/
def levelRange (nl : Nat) (top crs : Int) : Option (Nat × Nat) :=
  let c : Int := if crs ≥ 0 then crs else (nl : Int) + crs
  if 0 ≤ c ∧ c < nl ∧ 0 ≤ top ∧ top ≤ c then some (top.toNat, c.toNat) else none

/-- initial state of one application: `lvl_top.vec_rhs.copy(vec_def)` -/
def startState (o : Obj) (top : Nat) (d : Vec) : St :=
  let s0 : St := { lv := o.lv }
  let vt := s0.get top
  s0.put top { vt with rhs := d }

/-- run a program of primitive steps and read off `vec_cor.copy(lvl_top.vec_sol)` -/
def runProg (cfg : Cfg) (top : Nat) (p : List Instr) (s0 : St) (cnt : Nat → Nat) : Outcome × Obj :=
  let s := exec (step cfg) p s0
  (.ok s.log.toList (s.get top).sol, { lv := s.lv, counters := cnt })

/-- `MultiGrid::apply` for one defect vector -/
def applyOnce (levels : Array Level) (k : Cycle) (cgc : Cgc) (top crs : Nat) (d : Vec) (o : Obj) : Outcome × Obj :=
  let cfg : Cfg := { levels := levels, cgc := cgc, crsLvl := crs }
  match cycleIter k crs top o.counters with
  | (none, cnt) => (.abortSanity, { o with counters := cnt })
  | (some p, cnt) => runProg cfg top p (startState o top d) cnt

end FeatModel.MG
