import FeatModel.Model.Adjacency
/-!
Model of the *assembly logic* of FEAT (property C16). Core Lean only.

* `scatterAxpy` / `gatherAxpy` : `LAFEM::SparseMatrixCSR<DT,IT>::ScatterAxpy/GatherAxpy::operator()`
  (kernel/lafem/sparse_matrix_csr.hpp), loop-faithful including the `_col_ptr` scratch array which is
  allocated *uninitialised* once per scatter object and never reset in non-DEBUG builds: a column that is
  missing from the row's pattern hits whatever slot an earlier row left there (`some k`: silently wrong) or
  uninitialised memory (`none`: undefined behaviour, modelled as failure).
* `vecScatterAxpy` / `vecGatherAxpy` : `LAFEM::DenseVector::ScatterAxpy/GatherAxpy`.
* `bandedScatterAxpy` / `bandedGatherAxpy` : `LAFEM::SparseMatrixBanded::ScatterAxpy/GatherAxpy` with the column test
  `off+ix+1 < rows+cols`.
* `symbolicGraph` : `Assembly::SymbolicAssembler::assemble_graph_std1/std2` = transposed test-DOF-mapping composed
  with the trial-DOF-mapping, rendered `injectify_sorted` (render kernels of `Model/Adjacency.lean`).
* `assemble` : the cell loop of `BilinearOperatorAssembler::assemble_matrix1/2`, of the
  `BilinearOperatorMatrixAssemblyJob1/2` tasks and of every other assembler using the scatter interface:
  a fold of `scatterAxpy` over the cells, starting from the formatted (zero) matrix on the symbolic pattern.
* `Pattern.apply` : the dense meaning of a CSR data array as a linear operator (what `apply` computes).
-/
namespace FeatModel.Asm
open FeatModel.Adj

/-- the structural arrays of a CSR matrix (`row_ptr`, `col_ind`); Index = Nat -/
structure Pattern where
  rows : Nat
  cols : Nat
  rowPtr : List Nat
  colIdx : List Nat
deriving Repr

namespace Pattern

/-- the positions `row_ptr[r] ≤ k < row_ptr[r+1]` (empty if the bounds are reversed, like the C++ loop) -/
def seg (p : Pattern) (r : Nat) : List Nat :=
  List.range' (p.rowPtr.getD r 0) (p.rowPtr.getD (r + 1) 0 - p.rowPtr.getD r 0)

def col (p : Pattern) (k : Nat) : Nat := p.colIdx.getD k 0

/-- dense meaning of a data array on this pattern, as a linear operator: `(A x)_r = Σ_{k ∈ seg r} a_k x_{col k}` -/
def apply [Add α] [Mul α] [Zero α] (p : Pattern) (data : Array α) (x : Nat → α) (r : Nat) : α :=
  ((p.seg r).map fun k => data.getD k 0 * x (p.col k)).sum

/-- decidable well-formedness: offsets monotone, last offset = number of stored entries, columns in range -/
def wf (p : Pattern) : Bool :=
  p.rowPtr.length == p.rows + 1 &&
  (List.range p.rows).all (fun r => p.rowPtr.getD r 0 ≤ p.rowPtr.getD (r + 1) 0) &&
  p.rowPtr.getD p.rows 0 == p.colIdx.length &&
  p.colIdx.all (· < p.cols)

/-- column `c` occurs in row `r` of the pattern -/
def hasCol (p : Pattern) (r c : Nat) : Bool := (p.seg r).any fun k => p.col k == c

def ofGraph (g : Graph) : Pattern :=
  { rows := g.nDom, cols := g.nImg, rowPtr := g.domainPtr, colIdx := g.imageIdx }

end Pattern

/-- state of one `ScatterAxpy` object: the `_col_ptr` scratch array (`none` = never written) and `_data` -/
structure ScatterSt (α : Type) where
  colPtr : Array (Option Nat)
  data : Array α

/-- `for(k = row_ptr[ix]; k < row_ptr[ix+1]; ++k) _col_ptr[_col_idx[k]] = k;` -/
def buildColPtr (p : Pattern) (ix : Nat) (cp : Array (Option Nat)) : Array (Option Nat) :=
  (p.seg ix).foldl (fun cp k => cp.setIfInBounds (p.col k) (some k)) cp

/-- inner loop over the local columns `(jx, j)`: `_data[_col_ptr[jx]] += alpha * loc[i][j]`;
`none` = read of a never written `_col_ptr` slot -/
def scatterCols [Add α] [Mul α] (cp : Array (Option Nat)) (alpha : α) (f : Nat → α) :
    List (Nat × Nat) → Array α → Option (Array α)
  | [], d => some d
  | (jx, j) :: t, d =>
    match cp.getD jx none with
    | none => none
    | some k => scatterCols cp alpha f t (d.modify k (· + alpha * f j))

/-- outer loop over the local rows `(ix, i)`; `build ix` is the column-pointer loop of the container
(CSR: `buildColPtr p`, banded: `bandedBuildColPtr rows cols offsets`) -/
def scatterRowsG [Add α] [Mul α] (build : Nat → Array (Option Nat) → Array (Option Nat)) (alpha : α)
    (loc : Nat → Nat → α) (colMap : List (Nat × Nat)) : List (Nat × Nat) → ScatterSt α → Option (ScatterSt α)
  | [], st => some st
  | (ix, i) :: t, st =>
    let cp := build ix st.colPtr
    match scatterCols cp alpha (loc i) colMap st.data with
    | none => none
    | some d => scatterRowsG build alpha loc colMap t ⟨cp, d⟩

def scatterRows [Add α] [Mul α] (p : Pattern) (alpha : α) (loc : Nat → Nat → α) (colMap rows : List (Nat × Nat))
    (st : ScatterSt α) : Option (ScatterSt α) :=
  scatterRowsG (buildColPtr p) alpha loc colMap rows st

/-- `ScatterAxpy::operator()(loc_mat, row_map, col_map, alpha)` -/
def scatterAxpy [Add α] [Mul α] (p : Pattern) (st : ScatterSt α) (loc : Nat → Nat → α)
    (rowMap colMap : List Nat) (alpha : α) : Option (ScatterSt α) :=
  scatterRows p alpha loc colMap.zipIdx rowMap.zipIdx st

/-- a fresh scatter object on a data array: `_col_ptr = new IT_[num_cols]` (uninitialised) -/
def ScatterSt.fresh (p : Pattern) (data : Array α) : ScatterSt α :=
  ⟨Array.replicate p.cols none, data⟩

/-! ### gather -/

def gatherCols [Add α] [Mul α] [Zero α] (cp : Array (Option Nat)) (data : Array α) (alpha : α) (f : Nat → α) :
    List (Nat × Nat) → Option (List α)
  | [] => some []
  | (jx, j) :: t =>
    match cp.getD jx none with
    | none => none
    | some k =>
      match gatherCols cp data alpha f t with
      | none => none
      | some r => some ((f j + alpha * data.getD k 0) :: r)

def gatherRowsG [Add α] [Mul α] [Zero α] (build : Nat → Array (Option Nat) → Array (Option Nat)) (data : Array α)
    (alpha : α) (loc : Nat → Nat → α)
    (colMap : List (Nat × Nat)) : List (Nat × Nat) → Array (Option Nat) → Option (Array (Option Nat) × List (List α))
  | [], cp => some (cp, [])
  | (ix, i) :: t, cp =>
    let cp := build ix cp
    match gatherCols cp data alpha (loc i) colMap with
    | none => none
    | some row =>
      match gatherRowsG build data alpha loc colMap t cp with
      | none => none
      | some (cp', rows) => some (cp', row :: rows)

def gatherRows [Add α] [Mul α] [Zero α] (p : Pattern) (data : Array α) (alpha : α) (loc : Nat → Nat → α)
    (colMap rows : List (Nat × Nat)) (cp : Array (Option Nat)) : Option (Array (Option Nat) × List (List α)) :=
  gatherRowsG (buildColPtr p) data alpha loc colMap rows cp

/-- `GatherAxpy::operator()`: `loc[i][j] += alpha * _data[_col_ptr[jx]]`; returns the new scratch array and local matrix -/
def gatherAxpy [Add α] [Mul α] [Zero α] (p : Pattern) (data : Array α) (cp : Array (Option Nat))
    (loc : Nat → Nat → α) (rowMap colMap : List Nat) (alpha : α) :
    Option (Array (Option Nat) × List (List α)) :=
  gatherRows p data alpha loc colMap.zipIdx rowMap.zipIdx cp

/-! ### dense vectors -/

def vecScatterAxpy [Add α] [Mul α] (data : Array α) (loc : Nat → α) (map : List Nat) (alpha : α) : Array α :=
  map.zipIdx.foldl (fun d (ix, i) => d.modify ix (· + alpha * loc i)) data

def vecGatherAxpy [Add α] [Mul α] [Zero α] (data : Array α) (loc : Nat → α) (map : List Nat) (alpha : α) : List α :=
  map.zipIdx.map fun (ix, i) => loc i + alpha * data.getD ix 0

/-! ### banded matrices -/

/-- the column-pointer loop of `SparseMatrixBanded::ScatterAxpy/GatherAxpy` (after fix a38ae1004):
`for(k < num_of_offsets) if(off[k]+ix+1 >= rows && off[k]+ix+1 < rows+cols) _col_ptr[off[k]+ix+1-rows] = k*rows+ix;`
The registered column is `< cols`, i.e. always inside the `_col_ptr` array of `cols` entries. -/
def bandedBuildColPtr (rows cols : Nat) (offsets : List Nat) (ix : Nat) (cp : Array (Option Nat)) :
    Array (Option Nat) :=
  (List.range offsets.length).foldl (fun cp k =>
    if offsets.getD k 0 + ix + 1 ≥ rows ∧ offsets.getD k 0 + ix + 1 < rows + cols then
      cp.setIfInBounds (offsets.getD k 0 + ix + 1 - rows) (some (k * rows + ix))
    else cp) cp

/-- `SparseMatrixBanded::ScatterAxpy::operator()`; `none` = read of a never written `_col_ptr` slot -/
def bandedScatterAxpy [Add α] [Mul α] (rows cols : Nat) (offsets : List Nat) (st : ScatterSt α) (loc : Nat → Nat → α)
    (rowMap colMap : List Nat) (alpha : α) : Option (ScatterSt α) :=
  scatterRowsG (bandedBuildColPtr rows cols offsets) alpha loc colMap.zipIdx rowMap.zipIdx st

/-- `SparseMatrixBanded::GatherAxpy::operator()` -/
def bandedGatherAxpy [Add α] [Mul α] [Zero α] (rows cols : Nat) (offsets : List Nat) (data : Array α)
    (cp : Array (Option Nat)) (loc : Nat → Nat → α) (rowMap colMap : List Nat) (alpha : α) :
    Option (Array (Option Nat) × List (List α)) :=
  gatherRowsG (bandedBuildColPtr rows cols offsets) data alpha loc colMap.zipIdx rowMap.zipIdx cp

/-- dense meaning of a banded data array: `(A x)_r = Σ_{k : band k meets row r inside the matrix} a_{k*rows+r} x_{off_k+r+1-rows}` -/
def bandedApply [Add α] [Mul α] [Zero α] (rows cols : Nat) (offsets : List Nat) (data : Array α) (x : Nat → α) (r : Nat) : α :=
  (((List.range offsets.length).filter fun k =>
      decide (offsets.getD k 0 + r + 1 ≥ rows ∧ offsets.getD k 0 + r + 1 < rows + cols)).map fun k =>
    data.getD (k * rows + r) 0 * x (offsets.getD k 0 + r + 1 - rows)).sum

/-- every coupling of the call lies on a stored band inside the matrix -/
def bandedCovered (rows cols : Nat) (offsets : List Nat) (rowMap colMap : List Nat) : Bool :=
  rowMap.all (fun ix => decide (ix < rows) && colMap.all fun jx =>
    decide (jx < cols) && (List.range offsets.length).any fun k => offsets.getD k 0 + ix + 1 == rows + jx)

/-! ### symbolic assembly -/

/-- `assemble_graph_std2(test_space, trial_space)`; `testMaps c` / `trialMaps c` = DOF indices of cell `c`
(what `DofMappingRenderer::render` writes). `none` = the `XASSERT` on the cell counts fails. -/
def symbolicGraph2 (nTest nTrial : Nat) (testMaps trialMaps : List (List Nat)) : Option Graph :=
  let testG : Graph := { nImg := nTest, adj := testMaps }
  let trialG : Graph := { nImg := nTrial, adj := trialMaps }
  if testG.nDom != trialG.nDom then none
  else Graph.renderComposite 3 testG.transpose trialG

/-- `assemble_graph_std1(space)` -/
def symbolicGraph1 (nDofs : Nat) (maps : List (List Nat)) : Option Graph :=
  let g : Graph := { nImg := nDofs, adj := maps }
  Graph.renderComposite 3 g.transpose g

/-! ### numerical assembly = fold of the scatter operation over the cells -/

/-- what one cell hands to the scatter object -/
structure CellCall (α : Type) where
  alpha : α
  rowMap : List Nat
  colMap : List Nat
  loc : Nat → Nat → α

def assembleFrom [Add α] [Mul α] (p : Pattern) : List (CellCall α) → ScatterSt α → Option (ScatterSt α)
  | [], st => some st
  | c :: t, st =>
    match scatterAxpy p st c.loc c.rowMap c.colMap c.alpha with
    | none => none
    | some st' => assembleFrom p t st'

/-- format the matrix, create one scatter object, loop over the cells -/
def assemble [Add α] [Mul α] [Zero α] (p : Pattern) (calls : List (CellCall α)) : Option (ScatterSt α) :=
  assembleFrom p calls (ScatterSt.fresh p (Array.replicate p.colIdx.length 0))

/-- the contribution `(P_rowᵀ · loc · P_col · x)_r` of one cell -/
def CellCall.contrib [Add α] [Mul α] [Zero α] (c : CellCall α) (x : Nat → α) (r : Nat) : α :=
  (c.rowMap.zipIdx.map fun (ix, i) =>
    if ix = r then (c.colMap.zipIdx.map fun (jx, j) => c.loc i j * x jx).sum else 0).sum

/-- every coupling `(rowMap i, colMap j)` of the cell is present in the pattern, indices in range -/
def CellCall.covered (c : CellCall α) (p : Pattern) : Bool :=
  c.rowMap.all (fun ix => c.colMap.all fun jx => p.hasCol ix jx) && c.colMap.all (· < p.cols)

/-- vector assembly: fold of the vector scatter -/
def assembleVec [Add α] [Mul α] [Zero α] (n : Nat) (calls : List (α × List Nat × (Nat → α))) : Array α :=
  calls.foldl (fun d (alpha, map, loc) => vecScatterAxpy d loc map alpha) (Array.replicate n 0)

/-! ### sequences of assembly requests in one process -/

/-- one assembler call: the (formatted) matrix pattern and what the cell loop scatters -/
structure Request (α : Type) where
  p : Pattern
  calls : List (CellCall α)

/-- the `_col_ptr` array of a new scatter object is `new IT_[cols]` without initialisation: it may be the block the
previous call freed, i.e. hold whatever the previous call left there (`leftover`), cut or padded to the new size -/
def fitColPtr (n : Nat) (leftover : Array (Option Nat)) : Array (Option Nat) :=
  ((List.range n).map fun i => leftover.getD i none).toArray

/-- the assembler call as it runs after earlier calls: everything is rebuilt from the request's arguments except the
uninitialised scratch memory -/
def assembleAfter [Add α] [Mul α] [Zero α] (leftover : Array (Option Nat)) (r : Request α) : Option (ScatterSt α) :=
  assembleFrom r.p r.calls ⟨fitColPtr r.p.cols leftover, Array.replicate r.p.colIdx.length 0⟩

/-- a sequence of requests served by one process; the state that survives a call is the freed scratch array -/
def assembleSeq [Add α] [Mul α] [Zero α] : Array (Option Nat) → List (Request α) → List (Option (Array α))
  | _, [] => []
  | lo, r :: t =>
    match assembleAfter lo r with
    | none => none :: assembleSeq lo t
    | some st => some st.data :: assembleSeq st.colPtr t

/-- every call of every request is covered by the request's pattern -/
def Request.covered (r : Request α) : Bool := r.calls.all fun c => c.covered r.p

end FeatModel.Asm
