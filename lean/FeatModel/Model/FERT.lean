import FeatModel.Model.FE
import FeatModel.Model.Poly
/-
Model of the non-parametric Rannacher–Turek element (`Space::CroRavRanTur` on `Hypercube<2>` / `Hypercube<3>`), core Lean.

* local coordinates `pt(x) = A⁻¹ (x - c)` with `c = T(0)`, `A = J(0)` (linearised cell);
* monomials `1, x, y, (z,) x²-y², (y²-z²)`;
* node functional of a facet: the facet-Jacobian-weighted integral mean `Σ w_i f(x_i) / Σ w_i` over the tensor 2-point
  Gauss points of the facet, `w_i = jac_det_facet(s_i)` (Euclidean norm of the cross product / of the tangent: a
  square root – at `Q` the deterministic rational `Proto.qsqrt`);
* the evaluator inverts the nodal matrix `A[k][l] = N_l(m_k)` (its own Gauss coordinate `γ_ev = sqrt(1/3)`),
  the `NodeFunctional` uses the cubature rule `gauss-legendre:2` (coordinate `γ_nf` = the double 0.5773502691896257).
-/
namespace FeatModel.FE

/-- squared Euclidean "volume" of a `d × (d-1)` Jacobian (`Tiny::Matrix::vol` before the square root) -/
def volSq (d : Nat) (J : List (List Rat)) : Rat :=
  match d with
  | 2 => mat J 0 0 * mat J 0 0 + mat J 1 0 * mat J 1 0
  | 3 =>
    let c0 := mat J 1 0 * mat J 2 1 - mat J 2 0 * mat J 1 1
    let c1 := mat J 2 0 * mat J 0 1 - mat J 0 0 * mat J 2 1
    let c2 := mat J 0 0 * mat J 1 1 - mat J 1 0 * mat J 0 1
    c0 * c0 + c1 * c1 + c2 * c2
  | _ => 0

/-- all points `(±g, …, ±g)` with `n` coordinates -/
def gaussPts (g : Rat) : Nat → List (List Rat)
  | 0 => [[]]
  | n + 1 => (gaussPts g n).flatMap fun p => [p ++ [-g], p ++ [g]]

/-- quadrature of the facet with vertex coordinates `Vf` in a `d`-dimensional mesh: real points and weights
    `jac_det(s_i)` (the cubature weights of the 2-point Gauss rule are 1); `sq` is the square root in use -/
def facetQuad (sq : Rat → Rat) (d : Nat) (Vf : List (List Rat)) (g : Rat) : List (List Rat × Rat) :=
  (gaussPts g (d - 1)).map fun s =>
    (mapPoint Kind.H (d - 1) Vf s, sq (volSq d (jacMat Kind.H (d - 1) Vf s)))

/-- the monomials of the local space at the local point `p` -/
def rtMonos (d : Nat) (p : List Rat) : List Rat :=
  let x := p.getD 0 0
  let y := p.getD 1 0
  let z := p.getD 2 0
  if d = 2 then [1, x, y, (x + y) * (x - y)] else [1, x, y, z, (x + y) * (x - y), (y + z) * (y - z)]

/-- local coordinates `A⁻¹ (x - c)` -/
def rtLocal (d : Nat) (Ai : List (List Rat)) (c x : List Rat) : List Rat :=
  (List.range d).map fun a => sumR ((List.range d).map fun b => mat Ai a b * (x.getD b 0 - c.getD b 0))

/-- weighted mean `Σ w_i v_i / Σ w_i` of the `k`-th monomial -/
def facetMean (d : Nat) (Ai : List (List Rat)) (c : List Rat) (quad : List (List Rat × Rat)) (k : Nat) : Rat :=
  sumR (quad.map fun pw => pw.2 * (rtMonos d (rtLocal d Ai c pw.1)).getD k 0) / sumR (quad.map (·.2))

def rtN (d : Nat) : Nat := if d = 2 then 4 else 6

/-- Gauss–Jordan inverse of an `n × n` matrix (first non-zero pivot); `none` if singular -/
def gjStep (n : Nat) (M : List (List Rat)) (col : Nat) : Option (List (List Rat)) :=
  match (List.range n).find? (fun r => col ≤ r && mat M r col != 0) with
  | none => none
  | some p =>
    let rowp := M.getD p []
    let rowc := M.getD col []
    let M1 := (M.set p rowc).set col rowp
    let piv := rowp.getD col 0
    let nr := rowp.map (· / piv)
    some ((List.range n).map fun r =>
      if r = col then nr else
        let row := M1.getD r []
        let f := row.getD col 0
        List.zipWith (fun a b => a - f * b) row nr)

def matInv (n : Nat) (A : List (List Rat)) : Option (List (List Rat)) :=
  let aug := (List.range n).map fun r => (A.getD r []) ++ (List.range n).map fun c => if c = r then (1 : Rat) else 0
  ((List.range n).foldl (fun acc col => acc.bind fun M => gjStep n M col) (some aug)).map fun M =>
    M.map fun row => row.drop n

def matMul (n : Nat) (A B : List (List Rat)) : List (List Rat) :=
  (List.range n).map fun i => (List.range n).map fun j => sumR ((List.range n).map fun k => mat A i k * mat B k j)

def identity (n : Nat) : List (List Rat) :=
  (List.range n).map fun i => (List.range n).map fun j => if i = j then 1 else 0

structure RTCell where
  d : Nat
  Ai : List (List Rat)
  c : List Rat
  /-- nodal matrix `A[k][l] = N_l(m_k)` -/
  nodal : List (List Rat)
  /-- coefficient matrix `C = A⁻¹`: `φ_j = Σ_k C[j][k] m_k` -/
  coeff : List (List Rat)

/-- `Evaluator::prepare` for cell `c` of mesh `m` -/
def rtPrepare (sq : Rat → Rat) (g : Rat) (m : Mesh) (c : Nat) : Option RTCell :=
  let d := m.dim
  let V := m.entVerts d c
  let zero := List.replicate d (0 : Rat)
  let Ai := inv d (jacMat Kind.H d V zero)
  let cc := mapPoint Kind.H d V zero
  let n := rtN d
  let quads := (m.row d (d - 1) c).map fun e => facetQuad sq d (m.entVerts (d - 1) e) g
  let nodal := (List.range n).map fun k => quads.map fun q => facetMean d Ai cc q k
  (matInv n nodal).map fun C => { d := d, Ai := Ai, c := cc, nodal := nodal, coeff := C }

/-- `rtPrepare` followed by the **per-cell check the driver performs on every case**: the facet row has `rtN d`
    entries and the computed coefficient matrix times the nodal matrix is the identity (exact rational test); a cell
    failing it makes the driver print `ABORT` (a disagreement with the implementation in the correspondence run) -/
def rtPrepareChecked (sq : Rat → Rat) (g : Rat) (m : Mesh) (c : Nat) : Option RTCell :=
  (rtPrepare sq g m c).bind fun rc =>
    if (m.row m.dim (m.dim - 1) c).length == rtN m.dim && matMul (rtN m.dim) rc.coeff rc.nodal == identity (rtN m.dim)
    then some rc else none

/-- value of basis function `j` at the real point `x` -/
def rtValue (rc : RTCell) (j : Nat) (x : List Rat) : Rat :=
  let ms := rtMonos rc.d (rtLocal rc.d rc.Ai rc.c x)
  sumR ((List.range (rtN rc.d)).map fun k => mat rc.coeff j k * ms.getD k 0)

/-- gradient of basis function `j` at the real point `x` -/
def rtGrad (rc : RTCell) (j : Nat) (x : List Rat) : List Rat :=
  let p := rtLocal rc.d rc.Ai rc.c x
  let C := fun k => mat rc.coeff j k
  let lg : List Rat :=
    if rc.d = 2 then [C 1 + 2 * C 3 * p.getD 0 0, C 2 - 2 * C 3 * p.getD 1 0]
    else [C 1 + 2 * p.getD 0 0 * C 4, C 2 + 2 * p.getD 1 0 * (C 5 - C 4), C 3 - 2 * p.getD 2 0 * C 5]
  (List.range rc.d).map fun a => sumR ((List.range rc.d).map fun k => lg.getD k 0 * mat rc.Ai k a)

/-- the node functional of facet `e` (as `NodeFunctional` computes it): weighted mean over the facet -/
def rtFunctional (sq : Rat → Rat) (g : Rat) (m : Mesh) (e : Nat) (fn : List Rat → Rat) : Rat :=
  let q := facetQuad sq m.dim (m.entVerts (m.dim - 1) e) g
  sumR (q.map fun pw => pw.2 * fn pw.1) / sumR (q.map (·.2))

/-- the "simplified" functional of the defect class: plain mean over the reference facet -/
def rtFunctionalUnweighted (sq : Rat → Rat) (g : Rat) (m : Mesh) (e : Nat) (fn : List Rat → Rat) : Rat :=
  let q := facetQuad sq m.dim (m.entVerts (m.dim - 1) e) g
  sumR (q.map fun pw => fn pw.1) / (2 ^ (m.dim - 1) : Nat)

/-- Gauss coordinate of the evaluator: `Math::sqrt(1/3)` at `Q` -/
def gammaEv : Rat := Proto.qsqrt (1 / 3)

/-! ### the non-parametric evaluators as the driver uses them -/

/-- discontinuous P1 on a quadrilateral / hexahedron with vertex coordinates `V`: local basis function `j` at the real
    point `y`: `1, pt_1, …, pt_d` in the coordinates `pt = J(0)⁻¹ (y - T(0))` of the linearised cell -/
def d1Value (d : Nat) (V : List (List Rat)) (j : Nat) (y : List Rat) : Rat :=
  let zero := List.replicate d (0 : Rat)
  if j = 0 then 1
  else (rtLocal d (inv d (jacMat Kind.H d V zero)) (mapPoint Kind.H d V zero) y).getD (j - 1) 0

/-- its node functional `l` (as `NodeFunctional` computes it): value at the image of the cell centre, half differences
    of the values at the images of the facet centres `±e_i` -/
def d1Functional (d : Nat) (V : List (List Rat)) (l : Nat) (fn : List Rat → Rat) : Rat :=
  let zero := List.replicate d (0 : Rat)
  let at_ := fun (x : List Rat) => fn (mapPoint Kind.H d V x)
  if l = 0 then at_ zero else (1 / 2 : Rat) * (at_ (zero.set (l - 1) 1) - at_ (zero.set (l - 1) (-1)))

open FeatModel.Poly in
/-- families / shapes with a non-parametric evaluator modelled here: Rannacher–Turek and discontinuous P1 on
    quadrilaterals and hexahedra -/
def npSupported (f : Fam) (m : Mesh) : Bool :=
  (f == Fam.CR || f == Fam.D1) && m.kind == Kind.H && (m.dim == 2 || m.dim == 3)

/-- `(value, gradient)` of every local basis function at the reference point `x` of cell `c` (the evaluators only use
    the image point `T(x)`) -/
def npEval (f : Fam) (m : Mesh) (c : Nat) (x : List Rat) : Option (List (Rat × List Rat)) :=
  let d := m.dim
  let V := m.entVerts d c
  let y := mapPoint Kind.H d V x
  if f == Fam.CR then
    (rtPrepareChecked Proto.qsqrt gammaEv m c).map fun rc =>
      (List.range (rtN d)).map fun j => (rtValue rc j y, rtGrad rc j y)
  else
    -- discontinuous P1: 1, pt_1, …, pt_d in the coordinates of the linearised cell
    let zero := List.replicate d (0 : Rat)
    let Ai := inv d (jacMat Kind.H d V zero)
    some ((List.range (d + 1)).map fun j =>
      (d1Value d V j y, if j = 0 then List.replicate d (0 : Rat) else (List.range d).map fun a => mat Ai (j - 1) a))

open FeatModel.Poly in
/-- `Interpolator::project`: Rannacher–Turek: weighted facet means with the `gauss-legendre:2` rule; discontinuous P1:
    value at the cell centre and half differences along the reference axes -/
def npInterp (f : Fam) (m : Mesh) (p : Poly) : List Rat :=
  let d := m.dim
  if f == Fam.CR then
    (List.range (m.n (d - 1))).map fun e => rtFunctional Proto.qsqrt gaussPt m e (fun y => evalAt y p)
  else
    (List.range (m.n d)).flatMap fun c =>
      (List.range (d + 1)).map fun l => d1Functional d (m.entVerts d c) l (fun y => evalAt y p)

end FeatModel.FE
