/-
Byte-level model of `LAFEM::Container::_serialize / _deserialize / _serialized_size`
(kernel/lafem/container.hpp) with compression off (zlib/zfp are compiled out in this build), and of
`Control::CheckpointControl::_collect_checkpoint_data / _restore_checkpoint_data / restore_object`
(control/checkpoint_control.hpp).

Values are opaque bit patterns: an element / index / scalar is a `Nat` below `256 ^ width`; memory is a
`List UInt8`, little endian.  All offsets are computed exactly as the C++ does (`global_i` re-based from
`uint64` units to `DT2_` units to `IT2_` units with ceil-divisions, final `resize(raw_size + 16)`).
Deviations (validated by the byte-for-byte correspondence run): the byte-size tables and word 0 are
written once with their final value instead of placeholder-then-overwrite.
-/
namespace FeatModel.Ser

abbrev Bytes := List UInt8

/-- little-endian bytes of `v` in a word of `w` bytes (`memcpy` of an integer / float bit pattern) -/
def leBytes : Nat → Nat → Bytes
  | 0, _ => []
  | w + 1, v => UInt8.ofNat (v % 256) :: leBytes w (v / 256)

def leNat : Bytes → Nat
  | [] => 0
  | b :: bs => b.toNat + 256 * leNat bs

def wordsBytes (w : Nat) : List Nat → Bytes
  | [] => []
  | v :: vs => leBytes w v ++ wordsBytes w vs

/-- read `n` words of `w` bytes at byte offset `off`; `none` = read outside the buffer -/
def readWords (buf : Bytes) (w : Nat) : Nat → Nat → Option (List Nat)
  | _, 0 => some []
  | off, n + 1 =>
    if off + w ≤ buf.length then
      match readWords buf w (off + w) n with
      | some vs => some (leNat ((buf.drop off).take w) :: vs)
      | none => none
    else none

/-- `memcpy` of `bs` to `buf + off`; `none` = write outside the buffer (heap overrun in the C++) -/
def writeAt (buf : Bytes) (off : Nat) (bs : Bytes) : Option Bytes :=
  if off + bs.length ≤ buf.length then some (buf.take off ++ bs ++ buf.drop (off + bs.length)) else none

/-- `std::vector<char>::resize(n)` -/
def resize (n : Nat) (buf : Bytes) : Bytes := buf.take n ++ List.replicate (n - buf.length) 0

def ceilDiv (a b : Nat) : Nat := (a + b - 1) / b

/-- the six members of `LAFEM::Container` (array sizes are the lengths of the arrays) -/
structure Container where
  scalarIndex : List Nat
  scalarDt : List Nat
  elements : List (List Nat)
  indices : List (List Nat)
deriving DecidableEq, Repr, Inhabited

/-- static part of the header: FileMode magic, `feature_hash` of the in-memory `DT_`/`IT_` -/
structure Tag where
  magic : Nat
  hashDT : Nat
  hashIT : Nat
deriving DecidableEq, Repr

/-- `CompressionModes::elements_off | CompressionModes::indices_off` -/
def compressOff : Nat := 17

def sizes (l : List (List Nat)) : List Nat := l.map List.length

/-- number of `uint64` words before the `DT2_` part (value of `global_i` after the scalar_index loop) -/
def nWords (c : Container) : Nat :=
  11 + 2 * c.elements.length + 2 * c.indices.length + c.scalarIndex.length

/-- all `DT2_` words in file order: scalar_dt, then every elements array -/
def dtWords (c : Container) : List Nat := c.scalarDt ++ c.elements.flatten
def itWords (c : Container) : List Nat := c.indices.flatten

/-- `raw_size` as accumulated by `_serialize` (gaps are not counted) -/
def rawSize (sDT sIT : Nat) (c : Container) : Nat :=
  nWords c * 8 + (dtWords c).length * sDT + (itWords c).length * sIT

/-- `_serialized_size<DT2_, IT2_>()` -/
def serializedSize (sDT sIT : Nat) (c : Container) : Nat :=
  4 * 8 + 7 * 8 + 2 * c.elements.length * 8 + 2 * c.indices.length * 8 + c.scalarIndex.length * 8
    + c.scalarDt.length * sDT + c.elements.flatten.length * sDT + c.indices.flatten.length * sIT + 16

/-- byte offset of the scalar_dt array: `global_i = ceil(global_i * 8 / sizeof(DT2_))` -/
def offDt (sDT : Nat) (c : Container) : Nat := ceilDiv (nWords c * 8) sDT * sDT

/-- byte offset of the first index array: `global_i = ceil(global_i * sizeof(DT2_) / sizeof(IT2_))` -/
def offIt (sDT sIT : Nat) (c : Container) : Nat :=
  ceilDiv ((ceilDiv (nWords c * 8) sDT + (dtWords c).length) * sDT) sIT * sIT

/-- the `uint64` block: 11 header words, size tables, byte-size tables, scalar_index -/
def u64Words (t : Tag) (sDT sIT : Nat) (c : Container) : List Nat :=
  [rawSize sDT sIT c + 16, t.magic, t.hashDT, t.hashIT, c.elements.length, c.indices.length,
   c.elements.length, c.indices.length, c.scalarIndex.length, c.scalarDt.length, compressOff]
  ++ sizes c.elements ++ (sizes c.elements).map (· * sDT)
  ++ sizes c.indices ++ (sizes c.indices).map (· * sIT)
  ++ c.scalarIndex

/-- `Container::_serialize<DT2_, IT2_>(mode)` on the already converted container `tc`;
    `none` = a write outside the `gsize` buffer -/
def serialize (t : Tag) (sDT sIT : Nat) (c : Container) : Option Bytes :=
  let buf0 : Bytes := List.replicate (serializedSize sDT sIT c) 0
  match writeAt buf0 0 (wordsBytes 8 (u64Words t sDT sIT c)) with
  | none => none
  | some b1 =>
    match writeAt b1 (offDt sDT c) (wordsBytes sDT (dtWords c)) with
    | none => none
    | some b2 =>
      match writeAt b2 (offIt sDT sIT c) (wordsBytes sIT (itWords c)) with
      | none => none
      | some b3 => some (resize (rawSize sDT sIT c + 16) b3)

/-- the array loops of `_deserialize`: cursor `g` counts words of width `w` -/
def readArrays (buf : Bytes) (w : Nat) : Nat → List Nat → Option (List (List Nat) × Nat)
  | g, [] => some ([], g)
  | g, n :: ns =>
    match readWords buf w (g * w) n with
    | none => none
    | some a =>
      match readArrays buf w (g + n) ns with
      | none => none
      | some (as, g') => some (a :: as, g')

/-- `Container::_deserialize<DT2_, IT2_>(mode, input)` up to the final `assign`;
    `none` = abort (wrong magic), `at()` exception or a read outside the input -/
def deserialize (magic sDT sIT : Nat) (buf : Bytes) : Option Container :=
  match readWords buf 8 0 11 with
  | some [_, mg, _, _, ne, ni, nes, nis, nsi, nsd, _] =>
    if mg ≠ magic then none else
    match readWords buf 8 (11 * 8) nes, readWords buf 8 ((11 + 2 * nes) * 8) nis,
          readWords buf 8 ((11 + 2 * nes + 2 * nis) * 8) nsi with
    | some esz, some isz, some si =>
      let g1 := ceilDiv ((11 + 2 * nes + 2 * nis + nsi) * 8) sDT
      match readWords buf sDT (g1 * sDT) nsd with
      | none => none
      | some sdt =>
        if ne > esz.length ∨ ni > isz.length then none else
        match readArrays buf sDT (g1 + nsd) (esz.take ne) with
        | none => none
        | some (els, g2) =>
          match readArrays buf sIT (ceilDiv (g2 * sDT) sIT) (isz.take ni) with
          | none => none
          | some (ixs, _) => some { scalarIndex := si, scalarDt := sdt, elements := els, indices := ixs }
    | _, _, _ => none
  | _ => none

/-- `Container::assign` between containers of the same data (index) type shares the arrays and calls
    `MemoryPool::increase_memory(ptr)`. Since fix 'MemoryPool::increase_memory: accept the null pointer of a
    zero-sized array' this is a no-op for zero-size arrays (it used to assert), so `assign` never aborts. -/
def assignAborts (_sameDT _sameIT : Bool) (_c : Container) : Bool := false

/-- value conversion of `assign` between different types, as a parameter -/
def convert (cvD cvI : Nat → Nat) (c : Container) : Container :=
  { scalarIndex := c.scalarIndex, scalarDt := c.scalarDt.map cvD,
    elements := c.elements.map (·.map cvD), indices := c.indices.map (·.map cvI) }

/-! ### the stream overload `_deserialize(FileMode, std::istream&)`: a stream is a byte list and a position -/

/-- peek the record size at `pos`, step back (relative `seekg`), read exactly that many bytes, deserialise them;
    returns the container and the new stream position.  `none` = short read (`!file.good()`) or a failing
    `_deserialize` of the record -/
def readFrom (magic sDT sIT : Nat) (buf : Bytes) (pos : Nat) : Option (Container × Nat) :=
  if pos + leNat ((buf.drop pos).take 8) ≤ buf.length ∧ pos + 8 ≤ buf.length then
    match deserialize magic sDT sIT ((buf.drop pos).take (leNat ((buf.drop pos).take 8))) with
    | some c => some (c, pos + leNat ((buf.drop pos).take 8))
    | none => none
  else none

/-- reading several records one after the other -/
def readAll (sDT sIT : Nat) (buf : Bytes) : List Nat → Nat → Option (List Container × Nat)
  | [], pos => some ([], pos)
  | magic :: ms, pos =>
    match readFrom magic sDT sIT buf pos with
    | none => none
    | some (c, pos') =>
      match readAll sDT sIT buf ms pos' with
      | none => none
      | some (cs, p) => some (c :: cs, p)

/-- writing several containers one after the other (`write_out(fm_binary, stream)` appends the image) -/
def writeAll (sDT sIT : Nat) : List (Tag × Container) → Bytes
  | [] => []
  | (t, c) :: rest => (serialize t sDT sIT c).getD [] ++ writeAll sDT sIT rest

/-! ### decidable hypotheses of the round-trip theorems (evaluated by the driver on every case) -/

/-- `WF` as a Boolean check -/
def ImageOK (t : Tag) (sDT sIT : Nat) (c : Container) : Bool :=
  (u64Words t sDT sIT c).all (fun v => decide (v < 256 ^ 8)) && c.scalarDt.all (fun v => decide (v < 256 ^ sDT)) &&
  c.elements.all (fun a => a.all fun v => decide (v < 256 ^ sDT)) &&
  c.indices.all (fun a => a.all fun v => decide (v < 256 ^ sIT))

/-- every value survives the conversion to the file types and back (`cv` memory → file, `bk` file → memory) -/
def Representable (cvD cvI bkD bkI : Nat → Nat) (c : Container) : Bool :=
  c.scalarDt.all (fun v => bkD (cvD v) == v) && c.elements.all (fun a => a.all fun v => bkD (cvD v) == v) &&
  c.indices.all (fun a => a.all fun v => bkI (cvI v) == v)

/-! ### checkpoint framing -/

def strBytes (s : String) : Bytes := s.toUTF8.toList

/-- one record: name length, name, data length, data -/
def cpRecord (name : Bytes) (data : Bytes) : Bytes :=
  leBytes 8 name.length ++ name ++ leBytes 8 data.length ++ data

/-- insertion into the `std::map<String, …>` (byte-wise lexicographic key order); a duplicate is rejected
    by `add_object` (assertion), modelled by keeping the first -/
def bytesLt : Bytes → Bytes → Bool
  | [], [] => false
  | [], _ :: _ => true
  | _ :: _, [] => false
  | a :: as, b :: bs => if a < b then true else if b < a then false else bytesLt as bs

def mapInsert (k : Bytes) (v : Bytes) : List (Bytes × Bytes) → List (Bytes × Bytes)
  | [] => [(k, v)]
  | (k', v') :: rest =>
    if bytesLt k k' then (k, v) :: (k', v') :: rest
    else if k = k' then (k', v') :: rest
    else (k', v') :: mapInsert k v rest

def mapOf (objs : List (Bytes × Bytes)) : List (Bytes × Bytes) :=
  objs.foldl (fun m kv => mapInsert kv.1 kv.2 m) []

/-- `add_object`: the identifier must not be registered yet (`XASSERTM`, reported by abort = `none`) -/
def cpRegister (m : List (Bytes × Bytes)) (kv : Bytes × Bytes) : Option (List (Bytes × Bytes)) :=
  if (m.map (·.1)).contains kv.1 then none else some (mapInsert kv.1 kv.2 m)

/-- registering a list of objects one after the other -/
def cpRegisterAll : List (Bytes × Bytes) → List (Bytes × Bytes) → Option (List (Bytes × Bytes))
  | m, [] => some m
  | m, kv :: rest =>
    match cpRegister m kv with
    | none => none
    | some m' => cpRegisterAll m' rest

/-- `_collect_checkpoint_data` after the records were sorted by the map -/
def cpCollectSorted : List (Bytes × Bytes) → Bytes
  | [] => []
  | (k, v) :: rest => cpRecord k v ++ cpCollectSorted rest

def cpCollect (objs : List (Bytes × Bytes)) : Bytes := cpCollectSorted (mapOf objs)

/-- `save(BinaryStream&)`: total length, then the records -/
def cpSave (objs : List (Bytes × Bytes)) : Bytes :=
  let b := cpCollect objs
  leBytes 8 b.length ++ b

/-- `_restore_checkpoint_data`: name ↦ offset of the data-length word; `fuel` bounds the `while` loop -/
def cpIndex (buf : Bytes) : Nat → Nat → List (Bytes × Nat)
  | 0, _ => []
  | fuel + 1, i =>
    if i < buf.length then
      let slen := leNat ((buf.drop i).take 8)
      let name := (buf.drop (i + 8)).take slen
      let dlen := leNat ((buf.drop (i + 8 + slen)).take 8)
      (name, i + 8 + slen) :: cpIndex buf fuel (i + 8 + slen + 8 + dlen)
    else []

def lookup (k : Bytes) : List (Bytes × Nat) → Option Nat
  | [] => none
  | (k', o) :: rest => if k = k' then some o else lookup k rest

/-- `restore_object`: the bytes handed to `restore_from_checkpoint_data` -/
def cpRestore (buf : Bytes) (name : Bytes) : Option Bytes :=
  match lookup name (cpIndex buf buf.length 0) with
  | none => none
  | some off =>
    let size := leNat ((buf.drop off).take 8)
    if off + 8 + size ≤ buf.length then some ((buf.drop (off + 8)).take size) else none

/-- `load(BinaryStream&)`: copies `size` bytes into an array of `size` bytes
    (it copied `size - 1` bytes before the fix of `CheckpointControl::load`) -/
def cpLoad (stream : Bytes) : Bytes :=
  let size := leNat (stream.take 8)
  resize size ((stream.drop 8).take size)

/-! ### `DistFileIO::write_combined / read_combined` for one process (the file behind `CheckpointControl::save/load(filename)`) -/

/-- `"FEAT3CDF"` -/
def dfMagic : Nat := 0x4644433354414546

/-- 40-byte header (magic, file size, number of processes, shared size, buffer size), shared data, buffer -/
def dfWrite (shared buffer : Bytes) : Bytes :=
  wordsBytes 8 [dfMagic, 40 + buffer.length + shared.length, 1, shared.length, buffer.length] ++ shared ++ buffer

/-- `read_combined`: `none` = abort (bad magic / process count); an output vector is only touched when its
    stored size is positive (`shared0`/`buffer0` are the vectors passed in); a short file leaves zeros -/
def dfRead (file shared0 buffer0 : Bytes) : Option (Bytes × Bytes) :=
  match readWords (resize 40 file) 8 0 5 with
  | some [mg, _, np, ss, bs] =>
    if mg ≠ dfMagic ∨ np ≠ 1 then none else
    some (if ss > 0 then resize ss ((file.drop 40).take ss) else shared0,
          if bs > 0 then resize bs ((file.drop (40 + ss)).take bs) else buffer0)
  | _ => none

end FeatModel.Ser
