import FeatModel.Model.Partition
import FeatModel.Model.Refine
/-
C12, refinement clause: the joint refinement of `RootMeshNode::refine_unique` on the base node and on the extracted
patch nodes, expressed with the C10 refinement model (`FeatModel.Refine`, imported read-only):

* base mesh / patch meshes : `Refine.refine`        (`StandardRefinery<ConformalMesh>`)
* patch parts (in the base node) and halos (in the patch nodes) have no topology, so `StandardRefinery<MeshPart>`
  refines them with the simple target refiner: `Refine.refinePart _ P = some (simplePart _ P)`.

Also: the stateful protocol by which `extract_patch` drives its single `PatchHaloFactory` (`haloProtocol`).
Core Lean only.
-/
namespace FeatModel.Parti
open FeatModel.Adj FeatModel.Refine

/-- a `Parti.Mesh` (index sets only) as a mesh of the refinement model -/
def asRefine (kind : Kind) (m : Mesh) (verts : List (List Rat)) : Refine.Mesh :=
  { kind := kind, dim := m.dim, nums := (List.range (m.dim + 1)).map m.numOf, verts := verts,
    idxData := (List.range (m.dim + 1)).map fun c => (List.range c).map fun f => m.idx c f }

/-- `PatchMeshFactory`: the patch mesh of the cell list `cells` (vertex coordinates copied through the vertex
target set, index sets renumbered by `patchIdx`) -/
def patchMesh (kind : Kind) (m : Mesh) (verts : List (List Rat)) (cells : List Nat) : Refine.Mesh :=
  { kind := kind, dim := m.dim, nums := (List.range (m.dim + 1)).map fun d => (m.target cells d).length,
    verts := if verts.isEmpty then [] else (m.target cells 0).map fun v => verts.getD v [],
    idxData := (List.range (m.dim + 1)).map fun c => (List.range c).map fun f => m.patchIdx cells c f }

/-- the patch mesh part stored in the base node (`add_patch(rank, …)`), no topology -/
def patchPart (m : Mesh) (cells : List Nat) : Part :=
  { targets := (List.range (m.dim + 1)).map (m.target cells), topo := none }

/-- the halo of `r` towards `s`, stored in the patch node of `r`, no topology -/
def haloPart (m : Mesh) (p : Parti) (r s : Nat) : Part :=
  { targets := (List.range (m.dim + 1)).map (halo m p r s), topo := none }

/-- `StandardRefinery<MeshPart>` for a part without topology (`SimpleTargetRefineWrapper` in every dimension) -/
def simplePart (M : Refine.Mesh) (P : Part) : Part :=
  { targets := (List.range (M.dim + 1)).map (simpleTargets M P), topo := none }

/-- a mesh part `H` of a patch mesh, mapped into the base mesh through the patch part `P` (patch-local ↦ base) -/
def composePart (dim : Nat) (P H : Part) : Part :=
  { targets := (List.range (dim + 1)).map fun d => (H.target d).map fun i => (P.target d).getD i 0, topo := none }

/-- one side of an interface: base mesh, patch part of `r`, patch mesh of `r`, halo of `r` towards `s` -/
structure Side where
  base : Refine.Mesh
  part : Part
  mesh : Refine.Mesh
  halo : Part

/-- refinement of a mesh together with one topology-free part of it, `k` times -/
def partSteps : Nat → Refine.Mesh × Part → Refine.Mesh × Part
  | 0, x => x
  | k + 1, (M, C) => partSteps k (refine M, simplePart M C)

/-- `k` joint `refine_unique` calls on the base node (mesh + patch part) and on the patch node (mesh + halo) -/
def Side.steps (k : Nat) (q : Side) : Side :=
  let bp := partSteps k (q.base, q.part)
  let mh := partSteps k (q.mesh, q.halo)
  { base := bp.1, part := bp.2, mesh := mh.1, halo := mh.2 }

/-- the halo expressed in base-mesh indices -/
def Side.haloBase (q : Side) : Part := composePart q.base.dim q.part q.halo

def initialSide (kind : Kind) (m : Mesh) (verts : List (List Rat)) (p : Parti) (r s : Nat) : Side :=
  { base := asRefine kind m verts, part := patchPart m (p.row r),
    mesh := patchMesh kind m verts (p.row r), halo := haloPart m p r s }

/-! ### the halo construction protocol of `extract_patch` (step 5) -/

/-- `PatchHaloBuild::build` of one dimension: `_indices.clear()`, then one `push_back` per patch entity that a cell
of the halo rank touches.  `old` is the buffer content left by the previous neighbour. -/
def haloBuildDim (m : Mesh) (p : Parti) (r s d : Nat) (old : List Nat) : List Nat :=
  let cleared := old.drop old.length        -- `_indices.clear()`
  (m.target (p.row r) d).zipIdx.foldl (fun buf (b, i) => if hasRank m p d b s then buf ++ [i] else buf) cleared

/-- `PatchHaloFactory::build(halo_rank)`: the wrapper rebuilds the buffers of all dimensions `0..dim` -/
def haloFactoryBuild (m : Mesh) (p : Parti) (r s : Nat) (state : List (List Nat)) : List (List Nat) :=
  (List.range (m.dim + 1)).map fun d => haloBuildDim m p r s d (state.getD d [])

/-- step 5: ONE factory object is reused for all neighbours in `comm_ranks` (discovery) order; after every
`build` the buffers are copied into a new halo mesh part (`make_unique`).  Returns `(neighbour, target sets)`. -/
def haloProtocol (m : Mesh) (p : Parti) (r : Nat) : List (Nat × List (List Nat)) :=
  ((commRanks m p r).foldl (fun (acc : List (List Nat) × List (Nat × List (List Nat))) s =>
      let st := haloFactoryBuild m p r s acc.1
      (st, acc.2 ++ [(s, st)]))
    ((List.range (m.dim + 1)).map fun _ => [], [])).2

end FeatModel.Parti
