import FeatModel.Model.Assembly
import FeatModel.Model.Cubature
import FeatModel.Model.FE
import FeatModel.Model.TraceOrient
/-!
Model of the *local* part of the assembly routes of C16 on affine cells (core Lean only):
the cell loop of `BilinearOperatorAssembler::assemble_matrix1` / `LinearFunctionalAssembler::assemble_vector` and of the
job tasks computes  `loc(i,j) = Σ_q integrand_ij(x_q) · (jac_det · w_q)`.

* the reference basis functions and their reference gradients are the polynomials of C15 (`FE.tabOf`, generated from the
  real evaluators and re-checked against every sample by C15),
* the transformation is C15's `FE.mapPoly / jacMat / det / inv` (constant Jacobian on an affine cell),
* the cubature rules are the *rational* rules of kernel/cubature as the drivers fill them at the scalar `Q`
  (Newton–Cotes closed, trapezoidal, barycentre, Lauffer degree 2),
* the exact integral of a polynomial over the reference cell is C14's reference integral of monomials
  (`Cub.refNum / Cub.refDen`: `Π e_j!/(|e|+d)!` on the simplex, `Π [e_j even] 2/(e_j+1)` on `[-1,1]^d`), extended linearly.
-/
namespace FeatModel.LocalFE
open FeatModel.Poly FeatModel.Asm

/-- a cubature rule on the reference cell -/
structure Rule where
  w : List Rat
  x : List (List Rat)
deriving Repr

/-- `Σ_q f(x_q) · (c · w_q)`: the accumulation `axpy(loc, eval, jac_det * weight)` with a constant `jac_det = c` -/
def quadF (r : Rule) (c : Rat) (f : List Rat → Rat) : Rat :=
  ((r.w.zip r.x).map fun q => f q.2 * (c * q.1)).sum

/-- the local entry as coded: integrand polynomial `F` (in reference coordinates), constant `|det J|` -/
def localEntry (r : Rule) (detJ : Rat) (F : Poly) : Rat := quadF r detJ (fun x => evalAt x F)

/-- pad an exponent vector to the dimension of the reference cell -/
def padMono (d : Nat) (e : Mono) : Mono := e ++ List.replicate (d - e.length) 0

/-- exact integral of the monomial over the reference simplex / cube `[-1,1]^d` (C14's reference integral) -/
def refInt (simplex : Bool) (d : Nat) (e : Mono) : Rat :=
  (Cub.refNum simplex (padMono d e) : Rat) / (Cub.refDen simplex (padMono d e) : Rat)

/-- exact integral of a polynomial over the reference cell -/
def polyInt (simplex : Bool) (d : Nat) (F : Poly) : Rat := (F.map fun t => t.1 * refInt simplex d t.2).sum

/-- exact integral over the affine cell `K = T(ref)` of the function whose pull-back is `F`: `|det J| · ∫_ref F` -/
def cellInt (simplex : Bool) (d : Nat) (detJ : Rat) (F : Poly) : Rat := detJ * polyInt simplex d F

/-- the rule integrates every monomial of the list exactly (decidable) -/
def Rule.exactOn (r : Rule) (simplex : Bool) (d : Nat) (ms : List Mono) : Bool :=
  ms.all fun m => localEntry r 1 [(1, m)] == refInt simplex d m

/-- every monomial of the polynomial is in the list -/
def monosIn (F : Poly) (ms : List Mono) : Bool := F.all fun t => ms.contains t.2

/-- exponent vectors with every exponent `≤ n` (tensor-product exactness) -/
def boxMonos : Nat → Nat → List Mono
  | 0, _ => [[]]
  | d + 1, n => (List.range (n + 1)).flatMap fun k => (boxMonos d n).map (k :: ·)

/-! ### the rational rules of kernel/cubature -/

/-- `newton-cotes-closed:n` on `[-1,1]` (scalar driver) -/
def nccScalar : Nat → Option (List (Rat × Rat))
  | 2 => some [(1, -1), (1, 1)]
  | 3 => some [(1/3, -1), (4/3, 0), (1/3, 1)]
  | 4 => some [(1/4, -1), (3/4, -1/3), (3/4, 1/3), (1/4, 1)]
  | 5 => some [(7/45, -1), (32/45, -1/2), (12/45, 0), (32/45, 1/2), (7/45, 1)]
  | _ => none

/-- tensor product of a scalar rule (`TensorProductDriver::fill`; the order of the points is irrelevant for sums) -/
def tensor : Nat → List (Rat × Rat) → List (Rat × List Rat)
  | 0, _ => [(1, [])]
  | d + 1, s => s.flatMap fun q => (tensor d s).map fun t => (q.1 * t.1, q.2 :: t.2)

def ofPairs (l : List (Rat × List Rat)) : Rule := ⟨l.map (·.1), l.map (·.2)⟩

/-- the rule `name` on the reference hypercube (`simplex = false`) or simplex of dimension `d` -/
def ruleOf (simplex : Bool) (d : Nat) (name : String) : Option Rule :=
  if simplex then
    if d != 2 then none
    else if name == "barycentre" then some ⟨[1/2], [[1/3, 1/3]]⟩
    else if name == "trapezoidal" then some ⟨[1/6, 1/6, 1/6], [[0, 0], [1, 0], [0, 1]]⟩
    else if name == "lauffer-degree-2" then
      some ⟨[0, 0, 0, 1/6, 1/6, 1/6], [[1, 0], [0, 1], [0, 0], [1/2, 1/2], [0, 1/2], [1/2, 0]]⟩
    else none
  else
    let sc : Option (List (Rat × Rat)) :=
      if name == "barycentre" then some [(2, 0)]
      else if name == "trapezoidal" then nccScalar 2
      else if name == "simpson" then nccScalar 3
      else if name == "newton-cotes-closed:2" then nccScalar 2
      else if name == "newton-cotes-closed:3" then nccScalar 3
      else if name == "newton-cotes-closed:4" then nccScalar 4
      else if name == "newton-cotes-closed:5" then nccScalar 5
      else none
    sc.map fun s => ofPairs (tensor d s)

/-! ### integrands of the operators / functionals on an affine cell -/

/-- constant geometry of an affine cell with vertices `V`: Jacobian at the reference origin, `|det J|`, `J⁻¹` -/
structure Geo where
  detJ : Rat
  jinv : List (List Rat)

def geoOf (k : FE.Kind) (d : Nat) (V : List (List Rat)) : Geo :=
  let j := FE.jacMat k d V (List.replicate d 0)
  ⟨FE.rabs (FE.det d j), FE.inv d j⟩

/-- `IdentityOperator`: `phi_j.value * psi_i.value` -/
def massIntegrand (t : BasisTab) (i j : Nat) : Poly := mul (t.val j) (t.val i)

/-- `LaplaceOperator`: `dot(phi_j.grad, psi_i.grad)` with `grad = J⁻ᵀ ∇_ref`: `Σ_ab G_ab ∂_a φ_j ∂_b φ_i`, `G = J⁻¹ J⁻ᵀ` -/
def laplIntegrand (t : BasisTab) (d : Nat) (g : Geo) (i j : Nat) : Poly :=
  Poly.sum ((List.range d).flatMap fun a => (List.range d).map fun b =>
    smul (((List.range d).map fun c => FE.mat g.jinv a c * FE.mat g.jinv b c).sum) (mul (t.grad j a) (t.grad i b)))

/-- polynomial of total degree ≤ 2 in world coordinates (coefficients: 1, x_k, x_k x_l for k ≤ l) pulled back by the
cell transformation -/
def pullBack (k : FE.Kind) (d : Nat) (V : List (List Rat)) (coef : List Rat) : Poly :=
  let tr := fun a => FE.mapPoly k d V a
  let lin := (List.range d).map fun a => smul (coef.getD (1 + a) 0) (tr a)
  let pairs := (List.range d).flatMap fun a => ((List.range d).filter (a ≤ ·)).map fun b => (a, b)
  let quad := pairs.zipIdx.map fun (ab, n) => smul (coef.getD (1 + d + n) 0) (mul (tr ab.1) (tr ab.2))
  Poly.sum ([const (coef.getD 0 0)] ++ lin ++ quad)

/-- `ForceFunctional`: `f(x) * psi_i.value` -/
def forceIntegrand (t : BasisTab) (fr : Poly) (i : Nat) : Poly := mul fr (t.val i)

/-- one cell of an affine mesh: scaling, DOF maps, `|det J|`, integrand polynomials -/
structure CellData where
  alpha : Rat
  rowMap : List Nat
  colMap : List Nat
  detJ : Rat
  F : Nat → Nat → Poly

/-- what the cell loop scatters (as coded: cubature sums) -/
def CellData.asCoded (r : Rule) (c : CellData) : CellCall Rat :=
  ⟨c.alpha, c.rowMap, c.colMap, fun i j => localEntry r c.detJ (c.F i j)⟩

/-- the same cell with the exact integrals -/
def CellData.exact (simplex : Bool) (d : Nat) (c : CellData) : CellCall Rat :=
  ⟨c.alpha, c.rowMap, c.colMap, fun i j => cellInt simplex d c.detJ (c.F i j)⟩

/-! ### non-constant Jacobian (multilinear quadrilaterals) and the `jac_det = |det J|` handling -/

/-- the Jacobian determinant of the cell transformation as a polynomial in the reference coordinates (`d ≤ 2`) -/
def detPoly (k : FE.Kind) (d : Nat) (V : List (List Rat)) : Poly :=
  let j := fun a b => pderiv b (FE.mapPoly k d V a)
  match d with
  | 1 => j 0 0
  | 2 => add (mul (j 0 0) (j 1 1)) (smul (-1) (mul (j 0 1) (j 1 0)))
  | _ => []

/-- the local entry as coded with a point-dependent `jac_det = |det J(x_q)|` (`Tiny::Matrix::vol` of a square matrix) -/
def localEntryVar (r : Rule) (D F : Poly) : Rat :=
  quadF r 1 (fun x => evalAt x F * FE.rabs (evalAt x D))

/-- the determinant is non-negative / non-positive in every cubature point (decidable; evaluated by the driver) -/
def Rule.detNonneg (r : Rule) (D : Poly) : Bool := r.x.all fun x => decide (0 ≤ evalAt x D)
def Rule.detNonpos (r : Rule) (D : Poly) : Bool := r.x.all fun x => decide (evalAt x D ≤ 0)

/-- `DuDvOperator(a, b)` on an affine cell: `[a = b] grad φ_j · grad ψ_i + ∂_a φ_j ∂_b ψ_i`, with the physical derivative
`∂_a = Σ_c J⁻¹[c][a] ∂_c^ref` -/
def dudvIntegrand (t : BasisTab) (d : Nat) (g : Geo) (a b i j : Nat) : Poly :=
  let phys := fun (fn c : Nat) => Poly.sum ((List.range d).map fun e => smul (FE.mat g.jinv e c) (t.grad fn e))
  add (if a = b then laplIntegrand t d g i j else []) (mul (phys j a) (phys i b))

/-! ### facet (trace) integrals in 3-D -/

/-- the facet local entry as coded by `TraceAssembler::assemble_operator_matrix`: the cell-side integrand `P` (a polynomial
in the cell's reference coordinates, e.g. `φ_j φ_i`) is evaluated in `cub_cf = FaceRefTrafo(CongruencyTrafo(s_q))`, the
weight is `|D_f(s_q)| · w_q` with the facet's Jacobian determinant `D_f` (a polynomial for a facet in a coordinate plane) -/
def facetEntry (r : Rule) (k : FE.Kind) (l code : Nat) (Df P : Poly) : Option Rat :=
  (TraceOrient.facetMap k l code).map fun ps =>
    quadF r 1 (fun s => evalAt (ps.map (evalAt s)) P * FE.rabs (evalAt s Df))

/-! ### the exactness table (hand-written specification, discharged by kernel evaluation in Props/C16.lean) -/

/-- (simplex, dimension, rule name, monomials the rule must integrate exactly): tensor rules are exact on boxes of
per-variable degree, simplex rules on total degree -/
def exactTable : List (Bool × Nat × String × List Mono) :=
  [ (false, 1, "barycentre", boxMonos 1 1), (false, 1, "trapezoidal", boxMonos 1 1),
    (false, 1, "newton-cotes-closed:2", boxMonos 1 1), (false, 1, "newton-cotes-closed:3", boxMonos 1 3),
    (false, 1, "simpson", boxMonos 1 3), (false, 1, "newton-cotes-closed:4", boxMonos 1 3),
    (false, 1, "newton-cotes-closed:5", boxMonos 1 5),
    (false, 2, "barycentre", boxMonos 2 1), (false, 2, "trapezoidal", boxMonos 2 1),
    (false, 2, "newton-cotes-closed:2", boxMonos 2 1), (false, 2, "newton-cotes-closed:3", boxMonos 2 3),
    (false, 2, "simpson", boxMonos 2 3), (false, 2, "newton-cotes-closed:4", boxMonos 2 3),
    (false, 2, "newton-cotes-closed:5", boxMonos 2 5),
    (true, 2, "barycentre", Cub.monos 2 1), (true, 2, "trapezoidal", Cub.monos 2 1),
    (true, 2, "lauffer-degree-2", Cub.monos 2 2) ]

def exactTableOK : Bool :=
  exactTable.all fun e =>
    match ruleOf e.1 e.2.1 e.2.2.1 with
    | none => false
    | some r => r.exactOn e.1 e.2.1 e.2.2.2

/-- the integrands of the identity and Laplace operators with Lagrange-1/2 on the reference line, square and triangle
stay inside the monomial sets of degree `2k` (per variable on hypercubes, total on the simplex; Laplace on the simplex:
`2k-2`); unit geometry suffices because the geometry only enters through constant factors -/
def integrandTable : List (FE.Fam × FE.Kind × Nat × Nat) :=
  [(.L1, .H, 1, 1), (.L2, .H, 1, 2), (.L1, .H, 2, 1), (.L2, .H, 2, 2), (.L1, .S, 2, 1), (.L2, .S, 2, 2)]

def integrandsOK : Bool :=
  integrandTable.all fun e =>
    match FE.tabOf e.1 e.2.1 e.2.2.1 with
    | none => false
    | some t =>
      let d := e.2.2.1
      let k := e.2.2.2
      let ms := if e.2.1 == FE.Kind.S then Cub.monos d (2 * k) else boxMonos d (2 * k)
      let g : Geo := ⟨1, (List.range d).map fun a => (List.range d).map fun b => if a = b then 1 else 0⟩
      (List.range t.nloc).all fun i => (List.range t.nloc).all fun j =>
        monosIn (massIntegrand t i j) ms && monosIn (laplIntegrand t d g i j) ms

end FeatModel.LocalFE
