import FeatModel.Model.Cubature
import FeatModel.Gen.CubatureMeta
import FeatModel.Gen.CubatureS1
import FeatModel.Gen.CubatureS2
import FeatModel.Gen.CubatureS3
import FeatModel.Gen.CubatureH1
import FeatModel.Gen.CubatureH2
import FeatModel.Gen.CubatureH3
/-! the generated rule tables per shape (what `DynamicFactory::create` at `double` returns for un-refined names) -/
namespace FeatModel.Cub

def tablesOf : Shape → List DyTable
  | .s1 => Gen.tablesS1 | .s2 => Gen.tablesS2 | .s3 => Gen.tablesS3
  | .h1 => Gen.tablesH1 | .h2 => Gen.tablesH2 | .h3 => Gen.tablesH3

/-- `DynamicFactory::create(rule, name)` of shape `s` in the configuration `pfx` (model) -/
def createFor (pfx : Bool) (s : Shape) (name : Str) : Outcome := create pfx s (Gen.factoriesOf s) name

end FeatModel.Cub
