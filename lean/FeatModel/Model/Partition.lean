import FeatModel.Model.Adjacency
/-
Model of the patch extraction of kernel/geometry (C12):
`RootMeshNode::extract_patch(comm_ranks, elems_at_rank, rank)` with `PatchMeshPartFactory`,
`MeshPart::deduct_target_sets_from_top` (`TargetSetComputer::top_to_bottom`), `PatchMeshFactory`
(`PatchIndexMapping`), `PatchHaloFactory` (`PatchHaloBuild`), and of the decision logic of `Parti2Lvl`.
Core Lean only.  The graph kernels are those of `FeatModel.Adj` (C19).

A mesh is purely combinatorial here: entity counts per dimension and the index sets `<hi,lo>`
(`lo`-dimensional entities at every `hi`-dimensional entity), exactly the `IndexSetHolder` of a `ConformalMesh`.
-/
namespace FeatModel.Parti
open FeatModel.Adj

structure Mesh where
  dim : Nat
  /-- entity counts, dimension 0..dim -/
  num : List Nat
  /-- `((hi, lo), rows)`: the index set `<hi,lo>` -/
  sets : List ((Nat × Nat) × List (List Nat))
deriving Repr

namespace Mesh

def numOf (m : Mesh) (d : Nat) : Nat := m.num.getD d 0

/-- index set `<hi,lo>` (empty if the mesh has none) -/
def idx (m : Mesh) (hi lo : Nat) : List (List Nat) :=
  match m.sets.find? (fun s => s.1 == (hi, lo)) with
  | some s => s.2
  | none => []

/-- the `lo`-entities at the `hi`-entity `e` -/
def sub (m : Mesh) (hi lo e : Nat) : List Nat := (m.idx hi lo).getD e []

def numCells (m : Mesh) : Nat := m.numOf m.dim

/-- `TargetSetComputer::top_to_bottom`, one step: all `d`-entities (ascending parent index) that are listed by
some `(d+1)`-entity of `above` in the parent index set `<d+1,d>` (marker array over `index_bound = numOf d`) -/
def deductStep (m : Mesh) (d : Nat) (above : List Nat) : List Nat :=
  (List.range (m.numOf d)).filter fun i => above.any fun e => (m.sub (d + 1) d e).contains i

/-- target set of dimension `dim - k` of the patch mesh part with cell list `cells`
(`deduct_target_sets_from_top<shape_dim>`: cells, then facets of the cells, then their facets, ...) -/
def targetDown (m : Mesh) (cells : List Nat) : Nat → List Nat
  | 0 => cells
  | k + 1 => deductStep m (m.dim - (k + 1)) (targetDown m cells k)

/-- target set of dimension `d ≤ dim` (patch-local index ↦ base index) -/
def target (m : Mesh) (cells : List Nat) (d : Nat) : List Nat := targetDown m cells (m.dim - d)

/-- `PatchIndexMapping::_build_tsf`: `tsf[ts[i]] = i` (a later duplicate wins; unset entries read 0 here) -/
def invTarget (n : Nat) (ts : List Nat) : Array Nat :=
  ts.zipIdx.foldl (fun (a : Array Nat) (b, i) => a.setIfInBounds b i) (Array.replicate n 0)

/-- index set `<hi,lo>` of the extracted patch mesh: `iso(i,j) = tsf_lo[isi(ts_hi[i], j)]` -/
def patchIdx (m : Mesh) (cells : List Nat) (hi lo : Nat) : List (List Nat) :=
  let tsf := invTarget (m.numOf lo) (target m cells lo)
  (target m cells hi).map fun e => (m.sub hi lo e).map fun b => tsf.getD b 0

end Mesh

/-- a partitioning: the elements-at-rank graph (`nImg` = number of cells, one row per rank) -/
abbrev Parti := Graph

/-- step 0 of `extract_patch`: ranks-at-element -/
def ranksAtElem (p : Parti) : Graph := p.transpose

/-- the five-step ranks-at-rank construction of `extract_patch` -/
def ranksAtRank (m : Mesh) (p : Parti) : Graph :=
  let vertsAtElem : Graph := { nImg := m.numOf 0, adj := m.idx m.dim 0 }
  let elemsAtVert := vertsAtElem.transpose
  let ranksAtVert := (Graph.compose elemsAtVert (ranksAtElem p)).injectify
  let vertsAtRank := ranksAtVert.transpose
  (Graph.compose vertsAtRank ranksAtVert).injectify

/-- `comm_ranks` of rank `r` -/
def commRanks (m : Mesh) (p : Parti) (r : Nat) : List Nat :=
  ((ranksAtRank m p).row r).filter (· != r)

/-- `PatchHaloBuild::_has_face_rank` (codim > 0) resp. the element loop (codim 0): does a cell of rank `s`
contain the base entity `b` of dimension `d`? -/
def hasRank (m : Mesh) (p : Parti) (d b s : Nat) : Bool :=
  if d = m.dim then ((ranksAtElem p).row b).contains s
  else (Graph.transposeRow (m.idx m.dim d) b).any fun c => ((ranksAtElem p).row c).contains s

/-- halo target set of dimension `d` of patch `r` towards rank `s` (patch-local indices, ascending) -/
def halo (m : Mesh) (p : Parti) (r s d : Nat) : List Nat :=
  (m.target (p.row r) d).zipIdx.filterMap fun (b, i) => if hasRank m p d b s then some i else none

/-- patch-local index ↦ base index -/
def toBase (m : Mesh) (p : Parti) (r d i : Nat) : Nat := (m.target (p.row r) d).getD i 0

/-- the halo of `r` towards `s`, mapped to base-mesh indices -/
def haloBase (m : Mesh) (p : Parti) (r s d : Nat) : List Nat := (halo m p r s d).map (toBase m p r d)

/-- `PatchPartMap::build`: the entities of a base-mesh mesh part (target list `part`, in its order) that lie in the
patch, as patch-local indices (`_idx_map` is the inverse of the patch target set) -/
def splitTarget (ts : List Nat) (part : List Nat) : List Nat :=
  part.filterMap fun b => if ts.contains b then some (ts.idxOf b) else none

/-- step 4 of `extract_patch` for one base mesh part without topology: `none` = empty cut (no mesh part) -/
def splitPart (m : Mesh) (cells : List Nat) (part : List (List Nat)) : Option (List (List Nat)) :=
  let out := (List.range (m.dim + 1)).map fun d => splitTarget (m.target cells d) (part.getD d [])
  if out.all (·.isEmpty) then none else some out

/-- outcome of `extract_patch` for all ranks: `none` = abort (element count mismatch / empty patch) -/
def extractOk (m : Mesh) (p : Parti) : Bool :=
  p.nImg == m.numCells && p.adj.all (fun l => !l.isEmpty)

/-! ### decidable well-formedness (hypotheses of the theorems) -/

/-- every cell index `< nImg` occurs in exactly one row, exactly once -/
def isPartition (p : Parti) : Bool :=
  p.wf && (List.range p.nImg).all fun c => p.adj.flatten.count c == 1

/-- index sets `<dim,d>` in range, one row per cell, and the chain `<dim,d+1>` ∘ `<d+1,d>` lists exactly the
entities of `<dim,d>` (true for every conforming mesh) -/
def Mesh.consistent (m : Mesh) : Bool :=
  decide (0 < m.dim) && (List.range m.dim).all fun d =>
    (m.idx m.dim d).length == m.numCells &&
    ((m.idx m.dim d).all fun row => row.all (· < m.numOf d)) &&
    (!(decide (d + 1 < m.dim)) || (List.range m.numCells).all fun c =>
      ((m.sub m.dim d c).all fun b => (m.sub m.dim (d + 1) c).any fun e => (m.sub (d + 1) d e).contains b) &&
      ((m.sub m.dim (d + 1) c).all fun e => (m.sub (d + 1) d e).all fun b => (m.sub m.dim d c).contains b))

/-- every entity of dimension `d+1 ≤ dim` has a (non-empty) facet list in `<d+1,d>` -/
def Mesh.facetsOk (m : Mesh) : Bool :=
  (List.range m.dim).all fun d =>
    decide (m.numOf (d + 1) ≤ (m.idx (d + 1) d).length) && (m.idx (d + 1) d).all (fun row => !row.isEmpty)

/-! ### Parti2Lvl -/

/-- the `while(count < num_ranks) { count *= factor; ++power; }` loop; `none` = fuel exhausted (hang) -/
def p2lLoop (factor ranks : Nat) : Nat → Nat → Nat → Option (Nat × Nat)
  | 0, _, _ => none
  | fuel + 1, count, power =>
    if count < ranks then p2lLoop factor ranks fuel (count * factor) (power + 1) else some (count, power)

structure P2L where
  refLvl : Nat
  refElems : Nat
deriving Repr, DecidableEq

/-- constructor of `Parti2Lvl`: `some none` = no 2-level partitioning (`success() == false`), `none` = hang -/
def parti2lvl (factor lvlinc refFac numElems numRanks : Nat) : Option (Option P2L) :=
  match p2lLoop factor numRanks (numRanks + 1) numElems 0 with
  | none => none
  | some (count, power) =>
    if count != numRanks then some none
    else
      let lvl := (power + lvlinc - 1) / lvlinc
      some (some { refLvl := lvl, refElems := numElems * refFac ^ lvl })

/-- `build_elems_at_rank`: rank `i` gets the cells `[epr*i, epr*(i+1))` of `idx[k] = k` -/
def p2lGraph (numRanks : Nat) (r : P2L) : Graph :=
  let epr := r.refElems / numRanks
  { nImg := r.refElems,
    adj := (List.range numRanks).map fun i =>
      ((List.range r.refElems).drop (epr * i)).take epr }

/-- (factor, lvlinc, refinement factor) per shape: hypercubes double per `1/dim` level, simplices per level -/
def p2lParams : String → Option (Nat × Nat × Nat)
  | "h1" => some (2, 1, 2)
  | "h2" => some (2, 2, 4)
  | "h3" => some (2, 3, 8)
  | "s2" => some (4, 1, 4)
  | "s3" => some (12, 1, 12)
  | _ => none

end FeatModel.Parti
