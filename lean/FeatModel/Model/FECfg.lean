import FeatModel.Model.FE
/-
Evaluation configurations (core Lean): what the space / trafo evaluators return when only a subset of
{value, grad, hess, ref_value, ref_grad, ref_hess} / {img_point, jac_mat, jac_inv, jac_det, hess_ten, hess_inv} is
requested.  The specification is simple: *the same numbers as the full evaluation, restricted to the requested
quantities* – which intermediate quantities the library has to compute for a mask (`ConfigTraits`) is its business.
Masks use FEAT's bit values (`kernel/eval_tags.hpp`).
-/
namespace FeatModel.FE
open FeatModel.Poly

def hasBit (m b : Nat) : Bool := (m / b) % 2 = 1

/-- `hess_inv[k][a][b] = - Σ_m Ji[k][m] Σ_pq HT[m][p][q] Ji[p][a] Ji[q][b]` (`TrafoEvalHelper::calc_hess_inv`) -/
def hessInv (d : Nat) (Ji : List (List Rat)) (HT : List (List (List Rat))) : List (List (List Rat)) :=
  let rng := List.range d
  rng.map fun k => rng.map fun a => rng.map fun b =>
    -(sumR (rng.map fun mm => mat Ji k mm * sumR (rng.flatMap fun p => rng.map fun q =>
      (((HT.getD mm []).getD p []).getD q 0) * mat Ji p a * mat Ji q b)))

/-- everything the evaluator of family `f` can deliver (SpaceTags bits) -/
def deliverCaps (f : Fam) (tab : BasisTab) : Nat :=
  if f = Fam.D0 then 1 else 9 + (if tab.hasGrad then 18 else 0) + (if tab.hasHess then 36 else 0)

/-- `eval_caps` as the evaluator advertises it: everything it can deliver (the discontinuous P1 simplex evaluator
    used to pass `value|grad` instead of `ref_value|ref_grad` to `ParametricEvaluator` and advertised nothing;
    repaired in /repo, see KNOWN_FINDINGS.json) -/
def advertisedCaps (f : Fam) (_k : Kind) (tab : BasisTab) : Nat := deliverCaps f tab

/-- the masks the harness instantiates -/
def evcfgMasks : List Nat := [1, 2, 3, 4, 5, 6, 7, 8, 16, 24, 32, 40, 48, 56, 17, 12, 34, 63]

/-- the requested quantities of local basis function `i` (order: value grad hess ref_value ref_grad ref_hess) -/
def cfgRow (tab : BasisTab) (x : List Rat) (slot : Nat) (be : BasisEval) (mask : Nat) (s : Rat := 1) : List Rat :=
  (if hasBit mask 1 then [be.value] else [])
    ++ (if hasBit mask 2 then be.grad else [])
    ++ (if hasBit mask 4 then be.hess.flatten else [])
    ++ (if hasBit mask 8 then [s * evalAt x (tab.val slot)] else [])
    ++ (if hasBit mask 16 then (List.range tab.nvars).map fun k => s * evalAt x (tab.grad slot k) else [])
    ++ (if hasBit mask 32 then (List.range (tab.nvars * tab.nvars)).map fun k =>
          s * evalAt x ((tab.hess.getD slot []).getD k []) else [])

/-- `evcfg`: projection of the full evaluation `evalCell` to the requested mask, all local basis functions -/
def evalCellCfg (f : Fam) (m : Mesh) (c : Nat) (x : List Rat) (mask : Nat) : Option (Nat × List Rat) :=
  match tabOf f m.kind m.dim, evalCell f m c x with
  | some tab, some ce =>
    let perm := slotPerm f m c
    some (ce.phi.length, (List.range ce.phi.length).flatMap fun i =>
      cfgRow tab x (perm.getD i i) (ce.phi.getD i { value := 0, grad := [], hess := [] }) mask)
  | _, _ => none

/-- `trcfg`: requested quantities of the trafo evaluation (order: img jac_mat jac_inv jac_det hess_ten hess_inv) -/
def trafoCfg (m : Mesh) (c : Nat) (x : List Rat) (mask : Nat) : List Rat :=
  let d := m.dim
  let V := m.entVerts d c
  let J := jacMat m.kind d V x
  let Ji := inv d J
  let HT := hessTen m.kind d V x
  (if hasBit mask 2 then mapPoint m.kind d V x else [])
    ++ (if hasBit mask 4 then J.flatten else [])
    ++ (if hasBit mask 8 then Ji.flatten else [])
    ++ (if hasBit mask 16 then [rabs (det d J)] else [])
    ++ (if hasBit mask 32 then (HT.map List.flatten).flatten else [])
    ++ (if hasBit mask 64 then ((hessInv d Ji HT).map List.flatten).flatten else [])

end FeatModel.FE
