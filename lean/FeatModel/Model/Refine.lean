import FeatModel.Gen.RefineTables
/-!
C10 — executable model of FEAT's standard (2-level) mesh refinement.

* `Mesh`            : `ConformalMesh` = entity counts + vertex set + `IndexSetHolder` (all index sets `<c,f>`, `f < c`)
* `refine`          : `StandardRefinery<ConformalMesh>` = `EntityCountWrapper::query` + `StandardVertexRefineWrapper`
                      + `IndexRefineWrapper` (the latter *interprets the generated tables* `Gen.Refine.indexTable`,
                      `congMap`, `faceIndexMap`, `refCount`; the orientation sampler is transcribed by hand below)
* `neighbors`       : `Intern::FacetNeighbors::compute` (called by the `ConformalMesh(Factory&)` constructor)
* `boundary`        : `BoundaryFactory` / `Intern::BoundaryFaceComputer::compute_all`
* `Part`/`refinePart` : `StandardRefinery<MeshPart>` with a mesh parent: `SimpleTargetRefineWrapper` (no topology) and
                      `TargetRefineWrapper` + `TargetIndexMapping` (part with its own topology)

Core Lean only.  `Index` is modelled as unbounded `Nat`.
-/
namespace FeatModel.Refine
open FeatModel.Gen.Refine

structure Mesh where
  kind : Kind
  dim : Nat
  /-- number of entities per dimension `0..dim` -/
  nums : List Nat
  /-- vertex coordinates (`dim` rationals per vertex); empty for the topology of a mesh part -/
  verts : List (List Rat)
  /-- `idxData[c][f]` = `get_index_set<c,f>()` as a list of index tuples (`f < c ≤ dim`) -/
  idxData : List (List (List (List Nat)))

namespace Mesh

def num (M : Mesh) (d : Nat) : Nat := M.nums.getD d 0
def idx (M : Mesh) (c f : Nat) : List (List Nat) := (M.idxData.getD c []).getD f []
def tuple (M : Mesh) (c f i : Nat) : List Nat := (M.idx c f).getD i []
def entry (M : Mesh) (c f i j : Nat) : Nat := (M.tuple c f i).getD j 0

end Mesh

/-! ### entity counts and offsets (`Intern::EntityCounter`) -/

/-- `EntityCounter<StandardRefinementTraits, Shape, f>::offset(...)[k]`: the number of fine `f`-entities born from
    coarse entities of dimension `< k` (`f ≤ j < k`) -/
def offset (kind : Kind) (nums : List Nat) (f k : Nat) : Nat :=
  ((List.range' f (k - f)).map fun j => refCount kind j f * nums.getD j 0).sum

/-- `EntityCountWrapper::query`: number of fine entities of dimension `f` -/
def fineCount (kind : Kind) (nums : List Nat) (dim f : Nat) : Nat := offset kind nums f (dim + 1)

def fineNums (kind : Kind) (nums : List Nat) (dim : Nat) : List Nat :=
  (List.range (dim + 1)).map (fineCount kind nums dim)

/-! ### orientation codes (`Intern::CongruencySampler<...>::compare`, transcribed branch by branch) -/

def trgAt (trg : List Nat) (k : Nat) : Nat := trg.getD k 0

/-- `CongruencySampler<Shape<cd>>::compare(src, trg)`; only `src[0]`, `src[1]` are read by the C++ -/
def compare (kind : Kind) (cd : Nat) (sv0 sv1 : Nat) (trg : List Nat) : Int :=
  match cd, kind with
  | 1, _ =>
    if sv0 = trgAt trg 0 then 0 else if sv0 = trgAt trg 1 then 1 else -1
  | 2, .simplex =>
    if sv0 = trgAt trg 0 then
      (if sv1 = trgAt trg 1 then 0 else if sv1 = trgAt trg 2 then 4 else -1)
    else if sv0 = trgAt trg 1 then
      (if sv1 = trgAt trg 2 then 1 else if sv1 = trgAt trg 0 then 5 else -1)
    else if sv0 = trgAt trg 2 then
      (if sv1 = trgAt trg 0 then 2 else if sv1 = trgAt trg 1 then 6 else -1)
    else -1
  | 2, .hypercube =>
    if sv0 = trgAt trg 0 then
      (if sv1 = trgAt trg 1 then 0 else if sv1 = trgAt trg 2 then 4 else -1)
    else if sv0 = trgAt trg 1 then
      (if sv1 = trgAt trg 3 then 1 else if sv1 = trgAt trg 0 then 5 else -1)
    else if sv0 = trgAt trg 2 then
      (if sv1 = trgAt trg 0 then 2 else if sv1 = trgAt trg 3 then 6 else -1)
    else if sv0 = trgAt trg 3 then
      (if sv1 = trgAt trg 2 then 3 else if sv1 = trgAt trg 1 then 7 else -1)
    else -1
  | _, _ => -1

/-- `CongruencyMapping<Shape<cd>, fd>::map(orient, face)` (the C++ indexes a static table; a negative code is
    undefined behaviour there and yields 0 here) -/
def congLookup (kind : Kind) (cd fd : Nat) (orient : Int) (face : Nat) : Nat :=
  ((congMap kind cd fd).getD orient.toNat []).getD face 0

/-- `SubIndexMapping<Shape<s>, cd, fd> sim(idx<s,0>[i], idx<s,cd>[i], idx<cd,0>); sim.map(cell, face)` -/
def simMap (M : Mesh) (s cd fd i cell face : Nat) : Nat :=
  let sv := M.tuple s 0 i
  let fm := (faceIndexMap M.kind s cd 0).getD cell []
  let s0 := sv.getD (fm.getD 0 0) 0
  let s1 := sv.getD (fm.getD 1 0) 0
  let trg := M.tuple cd 0 (M.entry s cd i cell)
  congLookup M.kind cd fd (compare M.kind cd s0 s1 trg) face

/-! ### index refinement (`Intern::IndexRefineWrapper` over the generated tables) -/

def evalAdd (M : Mesh) (s i : Nat) : Add → Nat
  | .const k => k
  | .sim cd fd a b => simMap M s cd fd i a b

def evalSrc (M : Mesh) (i : Nat) : Option (Nat × Nat × Nat) → Nat
  | none => i
  | some (a, b, e) => M.entry a b i e

/-- value of one generated term for the `i`-th coarse entity of dimension `s`, output face dimension `f` -/
def evalTerm (M : Mesh) (s f i : Nat) (t : Term) : Nat :=
  offset M.kind M.nums f t.off + t.mult * evalSrc M i t.src + evalAdd M s i t.add

/-- the rows `StandardIndexRefiner<Shape<s>, c, f>` writes for coarse entity `i` -/
def childRows (M : Mesh) (s c f i : Nat) : List (List Nat) :=
  (indexTable M.kind s c f).map fun row => row.map (evalTerm M s f i)

/-- fine index set `<c,f>`: `IndexRefineShapeWrapper` concatenates the children of the `c`-dimensional entities, then
    those of the `(c+1)`-dimensional ones, … up to the cells -/
def fineIdx (M : Mesh) (c f : Nat) : List (List Nat) :=
  (List.range' c (M.dim + 1 - c)).flatMap fun s =>
    (List.range (M.num s)).flatMap fun i => childRows M s c f i

/-! ### vertex refinement (`Intern::StandardVertexRefineWrapper`) -/

def coord (M : Mesh) (v d : Nat) : Rat := (M.verts.getD v []).getD d 0

/-- `vtx_out = Σ_k (1/n) * vertex[idx[k]]` with `n = IndexSetType::num_indices` -/
def midpoint (M : Mesh) (tup : List Nat) (n : Nat) : List Rat :=
  (List.range M.dim).map fun d => (tup.map fun v => (1 / (n : Rat)) * coord M v d).foldl (· + ·) 0

def fineVerts (M : Mesh) : List (List Rat) :=
  M.verts ++ (List.range' 1 M.dim).flatMap fun s =>
    if refCount M.kind s 0 = 0 then []
    else (List.range (M.num s)).map fun i => midpoint M (M.tuple s 0 i) (faceCount M.kind s 0)

/-- `StandardRefinery<ConformalMesh>` -/
def refine (M : Mesh) : Mesh :=
  { kind := M.kind
    dim := M.dim
    nums := fineNums M.kind M.nums M.dim
    verts := if M.verts.isEmpty then [] else fineVerts M
    idxData := (List.range (M.dim + 1)).map fun c => (List.range c).map fun f => fineIdx M c f }

/-! ### facet neighbours (`Intern::FacetNeighbors::compute`) -/

/-- for every facet the cells listing it, in the order of the C++ double loop -/
def sharedBy (M : Mesh) : Array (List Nat) :=
  let nf := M.num (M.dim - 1)
  let cells := M.idx M.dim (M.dim - 1)
  (cells.zipIdx.foldl (fun acc (tup, k) => tup.foldl (fun a l => a.modify l (· ++ [k])) acc)
    (Array.replicate nf ([] : List Nat)))

/-- `none` = the `XABORTM("Facet ... is shared by ...")` paths; `-1` stands for `~Index(0)` (no neighbour) -/
def neighbors (M : Mesh) : Option (List (List Int)) :=
  let sh := sharedBy M
  if sh.any (fun l => l.length > 2) then none
  else
    some <| (M.idx M.dim (M.dim - 1)).zipIdx.map fun (tup, k) =>
      tup.map fun l =>
        match sh.getD l [] with
        | [a] => if a = k then (-1 : Int) else (a : Int)
        | [a, b] => if a = k then (b : Int) else (a : Int)
        | _ => (-1 : Int)

/-! ### boundary (`BoundaryFactory`, `Intern::BoundaryFaceComputer::compute_all`) -/

/-- target sets of dimensions `0..dim-1` -/
def boundary (M : Mesh) : List (List Nat) :=
  let fd := M.dim - 1
  let sh := sharedBy M
  let facets := (List.range (M.num fd)).filter fun l => (sh.getD l []).length = 1
  (List.range M.dim).map fun d =>
    if d = fd then facets
    else
      let mask := facets.foldl (fun acc q => (M.tuple fd d q).foldl (fun a x => a.setIfInBounds x true) acc)
        (Array.replicate (M.num d) false)
      (List.range (M.num d)).filter fun x => mask.getD x false

/-! ### mesh parts -/

structure Part where
  /-- target sets of dimension `0..dim` -/
  targets : List (List Nat)
  /-- the part's own topology in part-local numbering (`verts = []`), if it has one -/
  topo : Option Mesh
  /-- one scalar attribute per part vertex (`AttributeSet` of dimension 1), if any -/
  attr : Option (List Rat) := none

def Part.target (P : Part) (d : Nat) : List Nat := P.targets.getD d []

/-- `Intern::SimpleTargetRefineWrapper`: children of the part's entity attached to parent entity `t` are attached to
    the children of `t`, in the same order -/
def simpleTargets (M : Mesh) (P : Part) (c : Nat) : List Nat :=
  (List.range' c (M.dim + 1 - c)).flatMap fun s =>
    (P.target s).flatMap fun t =>
      (List.range (refCount M.kind s c)).map fun j => offset M.kind M.nums c s + t * refCount M.kind s c + j

/-- child numbering of `StandardTargetRefiner<Shape<s>, c>` (hand-transcribed from
    `standard_target_refiner.hpp`): the face dimension of its `TargetIndexMapping` and, per child, either
    `some j` (`tim.map(j)`) or `none` followed by a literal -/
def targetRule (kind : Kind) (s c : Nat) : Nat × List (Option Nat × Nat) :=
  match kind, s, c with
  | _, 1, 1 => (0, [(some 0, 0), (some 1, 0)])
  | .simplex, 2, 1 => (0, [(some 0, 0), (some 1, 0), (some 2, 0)])
  | .simplex, 2, 2 => (0, [(some 0, 0), (some 1, 0), (some 2, 0), (none, 3)])
  | .hypercube, 2, 1 => (1, [(some 0, 0), (some 1, 0), (some 2, 0), (some 3, 0)])
  | .hypercube, 2, 2 => (0, [(some 0, 0), (some 1, 0), (some 2, 0), (some 3, 0)])
  | _, _, _ => (0, [])

/-- `Intern::TargetRefineWrapper` for a part with topology `T`; `none` = "TargetSet refinement not implemented" abort -/
def topoTargets (M : Mesh) (P : Part) (T : Mesh) (c : Nat) : Option (List Nat) :=
  let vt := P.target 0
  (List.range' c (M.dim + 1 - c)).foldl (fun acc s =>
    match acc with
    | none => none
    | some out =>
      if s = 0 then
        some (out ++ (P.target 0).map fun t => offset M.kind M.nums c 0 + t)
      else if s ≥ 3 then
        (if c ≥ 1 ∧ ¬ (P.target s).isEmpty then none else some out)
      else if c = 0 then
        (if refCount M.kind s 0 = 0 then some out
         else some (out ++ (P.target s).map fun t => offset M.kind M.nums 0 s + t))
      else
        let (fd, rule) := targetRule M.kind s c
        some (out ++ (P.target s).zipIdx.flatMap fun (t, i) =>
          let sv := T.tuple s 0 i
          let o := compare M.kind s (vt.getD (sv.getD 0 0) 0) (vt.getD (sv.getD 1 0) 0) (M.tuple s 0 t)
          rule.map fun (mj, k) =>
            offset M.kind M.nums c s + rule.length * t +
              (match mj with | some j => congLookup M.kind s fd o j | none => k))) (some [])

/-- `Intern::StandardAttribRefineWrapper`: the attribute value of a new part vertex is the mean of the values at the
    vertices of the part entity it is the midpoint of (only executed for parts with topology `T`) -/
def fineAttr (T : Mesh) (vals : List Rat) : List Rat :=
  vals ++ (List.range' 1 T.dim).flatMap fun s =>
    if refCount T.kind s 0 = 0 then []
    else (List.range (T.num s)).map fun i =>
      ((T.tuple s 0 i).map fun v => (1 / (faceCount T.kind s 0 : Rat)) * vals.getD v 0).foldl (· + ·) 0

/-- `StandardRefinery<MeshPart>(part, parent_mesh)` -/
def refinePart (M : Mesh) (P : Part) : Option Part :=
  match P.topo with
  | none => some { targets := (List.range (M.dim + 1)).map (simpleTargets M P), topo := none, attr := none }
  | some T =>
    let ts := (List.range (M.dim + 1)).map (topoTargets M P T)
    if ts.any Option.isNone then none
    else some { targets := ts.map (·.getD []), topo := some (refine T), attr := P.attr.map (fineAttr T) }

/-! ### the mesh-node tree (`RootMeshNode` / `MeshPartNode`) -/

/-- a `MeshPartNode`: a mesh part of the root mesh with child mesh parts, whose targets refer to the entities of
    the parent PART -/
structure PartNode where
  part : Part
  children : List Part := []

/-- the parent seen by `StandardRefinery<MeshPart>(child, parent_meshpart)`: entity counts of the parent part and
    its topology if it has one -/
def Part.asParent (kind : Kind) (dim : Nat) (P : Part) : Mesh :=
  match P.topo with
  | some T => T
  | none => { kind := kind, dim := dim, nums := P.targets.map List.length, verts := [], idxData := [] }

/-- `MeshPartNode::refine(parent)`: `StandardRefinery<MeshPart>` of the node's part against the parent mesh, then
    every child part against the (coarse) part.  A child with topology below a parent without one is the
    `XASSERTM(parent_topo != nullptr)` abort. -/
def refineNode (M : Mesh) (n : PartNode) : Option PartNode :=
  match refinePart M n.part with
  | none => none
  | some p' =>
    let cs := n.children.map fun ch =>
      if ch.topo.isSome && n.part.topo.isNone then none else refinePart (n.part.asParent M.kind M.dim) ch
    if cs.any Option.isNone then none else some { part := p', children := cs.filterMap id }

end FeatModel.Refine
