import FeatModel.Model.Refine
/-!
C10 — decidable well-formedness ("conforming mesh") predicate of the property statement and the reference one-cell
meshes used by the local refinement lemma.  Core Lean only (so that `decide` can evaluate everything).
-/
namespace FeatModel.Refine
open FeatModel.Gen.Refine

/-- set equality of two index lists -/
def sameSet (a b : List Nat) : Bool := a.all (b.contains ·) && b.all (a.contains ·)

def insertSorted (x : Nat) : List Nat → List Nat
  | [] => [x]
  | y :: ys => if x ≤ y then x :: y :: ys else y :: insertSorted x ys

def sortNats (l : List Nat) : List Nat := l.foldr insertSorted []

/-- a number that identifies the vertex *set* of an entity (entries `< base`) among entities of the same size -/
def setKey (base : Nat) (t : List Nat) : Nat := (sortNats t).foldl (fun a v => a * (base + 1) + (v + 1)) 0

def allDistinct : List Nat → Bool
  | [] => true
  | x :: xs => !xs.contains x && allDistinct xs

namespace Mesh

/-- every index set `<c,f>` has `nums[c]` tuples of `faceCount` entries, all `< nums[f]` -/
def shapeOk (M : Mesh) : Bool :=
  (List.range' 1 M.dim).all fun c => (List.range c).all fun f =>
    (M.idx c f).length == M.num c &&
    (M.idx c f).all fun t => t.length == faceCount M.kind c f && t.all (· < M.num f)

/-- the `k`-th local `f`-face of `c`-entity `e`, as the list of its (global) vertices -/
def localFace (M : Mesh) (c f e k : Nat) : List Nat :=
  if f = 0 then [M.entry c 0 e k]
  else ((faceIndexMap M.kind c f 0).getD k []).map fun j => M.entry c 0 e j

/-- "every listed edge/face really is the corresponding local face of the cell" -/
def facesOk (M : Mesh) : Bool :=
  (List.range' 2 (M.dim - 1)).all fun c => (List.range' 1 (c - 1)).all fun f =>
    (List.range (M.num c)).all fun e => (List.range (faceCount M.kind c f)).all fun k =>
      sameSet (M.tuple f 0 (M.entry c f e k)) (M.localFace c f e k)

/-- no repeated vertex inside an entity, no two entities of one dimension with the same vertex set -/
def distinctOk (M : Mesh) : Bool :=
  (List.range' 1 M.dim).all fun c =>
    (M.idx c 0).all allDistinct && allDistinct ((M.idx c 0).map (setKey (M.num 0)))

/-- number of cells adjacent to facet `l` -/
def facetCount (M : Mesh) (l : Nat) : Nat :=
  ((M.idx M.dim (M.dim - 1)).map fun t => t.count l).sum

/-- "every interior facet has exactly two and every boundary facet one adjacent cell" -/
def facetsOk (M : Mesh) : Bool :=
  (List.range (M.num (M.dim - 1))).all fun l => M.facetCount l == 1 || M.facetCount l == 2

/-- every entity of dimension `1 ≤ f < dim` is a face of some cell (no orphans) -/
def coveredOk (M : Mesh) : Bool :=
  (List.range' 1 (M.dim - 1)).all fun f => (List.range (M.num f)).all fun x =>
    (M.idx M.dim f).any fun t => t.contains x

/-- the conformity predicate of the property statement -/
def consistent (M : Mesh) : Bool :=
  M.nums.length == M.dim + 1 && M.shapeOk && M.facesOk && M.distinctOk && M.facetsOk && M.coveredOk

end Mesh

/-! ### reference cells with arbitrarily oriented / numbered sub-entities -/

/-- apply the `code`-th symmetry of the `cd`-dimensional reference cell to a vertex tuple -/
def reorient (kind : Kind) (cd code : Nat) (t : List Nat) : List Nat :=
  match (congMap kind cd 0).getD code [] with
  | [] => t
  | p => p.map fun j => t.getD j 0

/-- all valid orientation codes of a `cd`-dimensional sub-entity (simplex faces skip the unused code 3) -/
def codes (kind : Kind) (cd : Nat) : List Nat :=
  (List.range (congMap kind cd 0).length).filter fun o => !(kind == .simplex && cd == 2 && o == 3)

/-- rotate a numbering: entity `k` of `n` gets the number `(k + r) % n` -/
def rot (n r k : Nat) : Nat := (k + r) % n

/-- One reference cell of dimension `dim` (2 or 3).  Its `k`-th local edge is stored as edge number
    `rot _ re k` with the orientation `ecode k`; its `k`-th local face (3-D) as face number `rot _ rf k` with the
    orientation `fcode k`.  All index sets are then derived by vertex-set lookup, like a mesh reader does. -/
def refCell (kind : Kind) (dim : Nat) (ecode fcode : Nat → Nat) (re rf : Nat) : Mesh :=
  let nv := faceCount kind dim 0
  let ne := faceCount kind dim 1
  let nq := if dim = 3 then faceCount kind 3 2 else 1
  let cell := List.range nv
  let edgeOf (slot : Nat) : List Nat :=   -- the edge stored at number `slot`
    let k := (List.range ne).find? (fun k => rot ne re k == slot) |>.getD 0
    reorient kind 1 (ecode k) ((faceIndexMap kind dim 1 0).getD k [])
  let edges := (List.range ne).map edgeOf
  let faceOf (slot : Nat) : List Nat :=
    let k := (List.range nq).find? (fun k => rot nq rf k == slot) |>.getD 0
    reorient kind 2 (fcode k) ((faceIndexMap kind 3 2 0).getD k [])
  let faces := if dim = 3 then (List.range nq).map faceOf else [cell]
  let findEdge (vs : List Nat) : Nat := (edges.findIdx? (sameSet vs)).getD 0
  let findFace (vs : List Nat) : Nat := (faces.findIdx? (sameSet vs)).getD 0
  let edgesOf (c : Nat) (t : List Nat) : List Nat :=
    (faceIndexMap kind c 1 0).map fun lf => findEdge (lf.map fun j => t.getD j 0)
  if dim = 2 then
    { kind := kind, dim := 2, nums := [nv, ne, 1], verts := [],
      idxData := [[], [edges], [[cell], [edgesOf 2 cell]]] }
  else
    { kind := kind, dim := 3, nums := [nv, ne, nq, 1], verts := [],
      idxData := [[], [edges], [faces, faces.map (edgesOf 2)],
        [[cell], [edgesOf 3 cell],
         [(faceIndexMap kind 3 2 0).map fun lf => findFace (lf.map fun j => cell.getD j 0)]]] }

/-- decode digit `k` of `n` in base `b` -/
def digit (b n k : Nat) : Nat := (n / b ^ k) % b

/-- 2-D reference cell: edge `k` flipped iff bit `k` of `o`, edge numbering rotated by `r` -/
def cell2 (kind : Kind) (o r : Nat) : Mesh := refCell kind 2 (digit 2 o) (fun _ => 0) r 0

/-- edge flip patterns of the 3-D covering family (pairwise complementary: every edge occurs flipped and unflipped) -/
def edgePattern (j : Nat) : Nat :=
  [0xAAA, 0x555, 0xCCC, 0x333, 0xE38, 0x1C7, 0xFC0, 0x03F].getD (j % 8) 0

/-- 3-D reference cell number `j` of the covering family: local face `k` carries the `(j+k)`-th orientation code
    (a Latin square: over `j < #codes` every face meets every code), edges flipped by `edgePattern j`, edge and face
    numberings rotated by `j` -/
def cell3 (kind : Kind) (j : Nat) : Mesh :=
  let cs := codes kind 2
  refCell kind 3 (digit 2 (edgePattern j)) (fun k => cs.getD ((j + k) % cs.length) 0) j j

end FeatModel.Refine

namespace FeatModel.Refine

/-- Euler characteristic `n₀ - n₁ + n₂ - …` of a list of entity counts -/
def altSum : List Nat → Int
  | [] => 0
  | x :: xs => (x : Int) - altSum xs

end FeatModel.Refine

namespace FeatModel.Refine

/-- twice the signed area of the straight triangle with the vertex tuple `t` -/
def triArea2 (M : Mesh) (t : List Nat) : Rat :=
  let x := fun j => coord M (t.getD j 0) 0
  let y := fun j => coord M (t.getD j 0) 1
  (x 1 - x 0) * (y 2 - y 0) - (x 2 - x 0) * (y 1 - y 0)

/-- twice the signed area of the bilinear quadrilateral with the vertex tuple `t` (FEAT numbering: 0-1 bottom,
    2-3 top): cross product of the diagonals; this is `2·∫ det J` of the bilinear map -/
def quadArea2 (M : Mesh) (t : List Nat) : Rat :=
  let x := fun j => coord M (t.getD j 0) 0
  let y := fun j => coord M (t.getD j 0) 1
  (x 3 - x 0) * (y 2 - y 1) - (x 2 - x 1) * (y 3 - y 0)

/-- one triangle with arbitrary vertex coordinates (edges in their reference orientation) -/
def triMesh (x0 y0 x1 y1 x2 y2 : Rat) : Mesh :=
  { kind := .simplex, dim := 2, nums := [3, 3, 1], verts := [[x0, y0], [x1, y1], [x2, y2]],
    idxData := [[], [[[1, 2], [2, 0], [0, 1]]], [[[0, 1, 2]], [[0, 1, 2]]]] }

/-- one quadrilateral with arbitrary vertex coordinates -/
def quadMesh (x0 y0 x1 y1 x2 y2 x3 y3 : Rat) : Mesh :=
  { kind := .hypercube, dim := 2, nums := [4, 4, 1], verts := [[x0, y0], [x1, y1], [x2, y2], [x3, y3]],
    idxData := [[], [[[0, 1], [2, 3], [0, 2], [1, 3]]], [[[0, 1, 2, 3]], [[0, 1, 2, 3]]]] }

end FeatModel.Refine

namespace FeatModel.Refine

/-- Jacobian determinant of the bilinear map of the quadrilateral `t` at its corner `k` -/
def quadJac (M : Mesh) (t : List Nat) (k : Nat) : Rat :=
  let x := fun j => coord M (t.getD j 0) 0
  let y := fun j => coord M (t.getD j 0) 1
  match k with
  | 0 => (x 1 - x 0) * (y 2 - y 0) - (x 2 - x 0) * (y 1 - y 0)
  | 1 => (x 1 - x 0) * (y 3 - y 1) - (x 3 - x 1) * (y 1 - y 0)
  | 2 => (x 3 - x 2) * (y 2 - y 0) - (x 2 - x 0) * (y 3 - y 2)
  | _ => (x 3 - x 2) * (y 3 - y 1) - (x 3 - x 1) * (y 3 - y 2)

/-- six times the signed volume of the straight tetrahedron with the vertex tuple `t` -/
def tetVol6 (M : Mesh) (t : List Nat) : Rat :=
  let p := fun j d => coord M (t.getD j 0) d - coord M (t.getD 0 0) d
  p 1 0 * (p 2 1 * p 3 2 - p 2 2 * p 3 1) - p 1 1 * (p 2 0 * p 3 2 - p 2 2 * p 3 0)
    + p 1 2 * (p 2 0 * p 3 1 - p 2 1 * p 3 0)

/-- one tetrahedron with arbitrary vertex coordinates (edges and faces in their reference orientation) -/
def tetMesh (v : List (List Rat)) : Mesh :=
  { kind := .simplex, dim := 3, nums := [4, 6, 4, 1], verts := v,
    idxData := [[], [[[0, 1], [0, 2], [0, 3], [1, 2], [1, 3], [2, 3]]],
      [[[1, 2, 3], [0, 2, 3], [0, 1, 3], [0, 1, 2]], [[5, 4, 3], [5, 2, 1], [4, 2, 0], [3, 1, 0]]],
      [[[0, 1, 2, 3]], [[0, 1, 2, 3, 4, 5]], [[0, 1, 2, 3]]]] }

end FeatModel.Refine

namespace FeatModel.Refine
open FeatModel.Gen.Refine

/-- the orientation code the refiner computes for the `k`-th face of cell `i` (the argument of `sim.map(k, ·)`) -/
def faceCode (M : Mesh) (i k : Nat) : Int :=
  let sv := M.tuple 3 0 i
  let fm := (faceIndexMap M.kind 3 2 0).getD k []
  FeatModel.Refine.compare M.kind 2 (sv.getD (fm.getD 0 0) 0) (sv.getD (fm.getD 1 0) 0) (M.tuple 2 0 (M.entry 3 2 i k))

/-- the orientation codes that denote a symmetry of a 2-dimensional face -/
def goodCodes : Kind → List Int
  | .hypercube => [0, 1, 2, 3, 4, 5, 6, 7]
  | .simplex => [0, 1, 2, 4, 5, 6]

/-- 3-D only: every cell sees each of its faces as one of the symmetric arrangements of the face's own vertex tuple
    (for a quadrilateral face this excludes the "twisted" orderings, which have the same vertex SET but are not
    related to the face by an orientation code; for triangles it follows from the other clauses) -/
def Mesh.orientOk (M : Mesh) : Bool :=
  (List.range' 3 (M.dim - 2)).all fun _ => (List.range (M.num 3)).all fun i =>
    (List.range (faceCount M.kind 3 2)).all fun k =>
      (goodCodes M.kind).contains (faceCode M i k) &&
      (List.range (faceCount M.kind 2 0)).all fun j =>
        M.entry 2 0 (M.entry 3 2 i k) (congLookup M.kind 2 0 (faceCode M i k) j)
          == M.entry 3 0 i (((faceIndexMap M.kind 3 2 0).getD k []).getD j 0)

/-- conformity of a 3-D mesh as the refiner needs it: `consistent` plus `orientOk` -/
def Mesh.consistent3 (M : Mesh) : Bool := M.consistent && M.orientOk

end FeatModel.Refine

namespace FeatModel.Refine

/-- twelve times the signed volume `∫ det J` of the trilinear hexahedron with the vertex tuple `t` (FEAT numbering
    `v_i = (i&1, i>>1&1, i>>2&1)`): Grandy's long-diagonal formula.  `checks/props/c10.py` compares it on every run
    with the exact tensor-Simpson integral of the Jacobian determinant used by the oracle. -/
def hexVol12 (M : Mesh) (t : List Nat) : Rat :=
  let p := fun j d => coord M (t.getD j 0) d
  let det3 := fun (a b c : Nat → Rat) =>
    a 0 * (b 1 * c 2 - b 2 * c 1) - a 1 * (b 0 * c 2 - b 2 * c 0) + a 2 * (b 0 * c 1 - b 1 * c 0)
  det3 (fun d => (p 7 d - p 1 d) + (p 6 d - p 0 d)) (fun d => p 7 d - p 2 d) (fun d => p 3 d - p 0 d)
  + det3 (fun d => p 6 d - p 0 d) (fun d => (p 7 d - p 2 d) + (p 5 d - p 0 d)) (fun d => p 7 d - p 4 d)
  + det3 (fun d => p 7 d - p 1 d) (fun d => p 5 d - p 0 d) (fun d => (p 7 d - p 4 d) + (p 3 d - p 0 d))

/-- one hexahedron with arbitrary vertex coordinates (edges and faces in their reference orientation) -/
def hexMesh (v : List (List Rat)) : Mesh :=
  { kind := .hypercube, dim := 3, nums := [8, 12, 6, 1], verts := v,
    idxData := [[], [[[0, 1], [2, 3], [4, 5], [6, 7], [0, 2], [1, 3], [4, 6], [5, 7], [0, 4], [1, 5], [2, 6], [3, 7]]],
      [[[0, 1, 2, 3], [4, 5, 6, 7], [0, 1, 4, 5], [2, 3, 6, 7], [0, 2, 4, 6], [1, 3, 5, 7]],
       [[0, 1, 4, 5], [2, 3, 6, 7], [0, 2, 8, 9], [1, 3, 10, 11], [4, 6, 8, 10], [5, 7, 9, 11]]],
      [[[0, 1, 2, 3, 4, 5, 6, 7]], [[0, 1, 2, 3, 4, 5, 6, 7, 8, 9, 10, 11]], [[0, 1, 2, 3, 4, 5]]]] }

end FeatModel.Refine

namespace FeatModel.Refine

/-- `i`-th binary digit of `j` as a Boolean -/
def bitOf (j i : Nat) : Bool := (j / 2 ^ i) % 2 == 1

/-- Jacobian determinant of the trilinear map of the hexahedron `t` (FEAT numbering `v_j = (j&1, j>>1&1, j>>2&1)`)
    at the reference point `(a, b, c) ∈ [0,1]³` -/
def hexJacAt (M : Mesh) (t : List Nat) (a b c : Rat) : Rat :=
  let p := fun j d => coord M (t.getD j 0) d
  let w := fun (bit : Bool) (x : Rat) => if bit then x else 1 - x
  let s := fun (bit : Bool) => if bit then (1 : Rat) else -1
  -- column `e` (derivative w.r.t. reference coordinate `e`), component `d`
  let col := fun (e d : Nat) =>
    ((List.range 8).map fun j =>
      p j d * (match e with
        | 0 => s (bitOf j 0) * w (bitOf j 1) b * w (bitOf j 2) c
        | 1 => w (bitOf j 0) a * s (bitOf j 1) * w (bitOf j 2) c
        | _ => w (bitOf j 0) a * w (bitOf j 1) b * s (bitOf j 2))).foldl (· + ·) 0
  col 0 0 * (col 1 1 * col 2 2 - col 1 2 * col 2 1) - col 1 0 * (col 0 1 * col 2 2 - col 0 2 * col 2 1)
    + col 2 0 * (col 0 1 * col 1 2 - col 0 2 * col 1 1)

/-- twelve times the tensor-product Simpson rule (nodes 0, 1/2, 1; weights 1/6, 4/6, 1/6) applied to `det J` -/
def hexVolSimpson12 (M : Mesh) (t : List Nat) : Rat :=
  let nodes : List (Rat × Rat) := [(0, 1/6), (1/2, 4/6), (1, 1/6)]
  12 * ((nodes.flatMap fun x => nodes.flatMap fun y => nodes.map fun z =>
    x.2 * y.2 * z.2 * hexJacAt M t x.1 y.1 z.1).foldl (· + ·) 0)

end FeatModel.Refine
