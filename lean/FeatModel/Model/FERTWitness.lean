import FeatModel.Model.FERT
import FeatModel.Model.FEDual
/-
Witness cell for the Rannacher–Turek node functional (core Lean): the unit cube with vertex 7 moved to (3/2, 5/4, 4/3) –
three of its faces are no parallelograms any more (their Jacobian determinant is not constant).
-/
namespace FeatModel.FE

def cubeMoved7 : Mesh :=
  { refMesh Kind.H 3 [] with
    coords := [[0, 0, 0], [1, 0, 0], [0, 1, 0], [1, 1, 0], [0, 0, 1], [1, 0, 1], [0, 1, 1], [3 / 2, 5 / 4, 4 / 3]] }

/-- the evaluator's coefficient matrix is the inverse of its nodal matrix on this cell -/
def rtInverseOk (sq : Rat → Rat) (g : Rat) (m : Mesh) (c : Nat) : Bool :=
  match rtPrepare sq g m c with
  | none => false
  | some rc => matMul (rtN m.dim) rc.coeff rc.nodal == identity (rtN m.dim)

/-- `N_l(φ_j)` for all `l, j` with the functional `fnl` -/
def rtDualMatrix (fnl : Mesh → Nat → (List Rat → Rat) → Rat) (sq : Rat → Rat) (g : Rat) (m : Mesh) (c : Nat) :
    Option (List (List Rat)) :=
  (rtPrepare sq g m c).map fun rc =>
    (List.range (rtN m.dim)).map fun j => (List.range (rtN m.dim)).map fun l =>
      fnl m ((m.row m.dim (m.dim - 1) c).getD l 0) (rtValue rc j)

end FeatModel.FE
