import FeatModel.Model.Xml
/-
C11 — model of `kernel/geometry/mesh_file_reader.hpp` (the markup parser classes MeshNodeParser, MeshParser,
VerticesParser, TopologyParser, MeshPartParser, MappingParser, AttributeParser, PartitionParser, PatchParser and
`MeshFileReader::read_root_markup`) and of `kernel/geometry/mesh_file_writer.hpp` for conformal meshes.
Charts: `Circle` (2D) and `Sphere` (3D) are modelled (parser, atlas, chart links of mesh parts, writer); a file with a
`Bezier`, `SurfaceMesh` or `Extrude` chart yields `Outcome.unmodelled`.  `topology="parent"` mesh parts are modelled
(`MeshPart::deduct_topology`).
Core Lean only.
-/
namespace FeatModel.C11

inductive Shape where
  | hyper | simplex
  deriving DecidableEq, Repr

/-- number of vertices of a `d`-dimensional (sub)shape: `Shape::FaceTraits<Shape_, 0>::count` -/
def nverts : Shape → Nat → Nat
  | .hyper, d => 2 ^ d
  | .simplex, d => d + 1

def Shape.name : Shape → Str
  | .hyper => "hypercube".toList
  | .simplex => "simplex".toList

structure Mesh where
  sizes : List Nat                    -- entities per dimension 0..D
  verts : List (List Rat)
  topo : List (List (List Nat))       -- entry d-1: the vertices-at-d-shape index tuples
  deriving DecidableEq, Repr

structure Attr where
  dim : Nat
  vals : List (List Rat)
  deriving DecidableEq, Repr

structure Part where
  chart : Str
  hasTopo : Bool
  sizes : List Nat                    -- length D+1
  maps : List (List Nat)              -- entry d: target indices of dimension d (length D+1)
  topo : List (List (List Nat))       -- entry d-1 (length D), all empty without topology
  attrs : List (Str × Attr)           -- `std::map<String, AttributeSet>`: sorted by name
  deriving DecidableEq, Repr

structure Partition where
  name : Str
  prio : Int
  level : Int
  nr : Nat
  ne : Nat
  patches : List (List Nat)           -- one sorted duplicate-free element list per rank
  deriving DecidableEq, Repr

/-- the modelled charts (`Atlas::Circle`, `Atlas::Sphere`) with the data their `write()` prints -/
inductive Chart where
  | circle (radius mx my : Rat) (dom : Option (Rat × Rat))
  | sphere (radius mx my mz : Rat)
  /-- `Atlas::Bezier`: `closed`, the orientation, one entry per vertex point = (its preceding control points, the
      vertex point), the parameters -/
  | bezier (closed : Bool) (orient : Rat) (segs : List (List (List Rat) × List Rat)) (params : List Rat)
  deriving DecidableEq, Repr

structure Node where
  mesh : Option Mesh
  parts : List (Str × Part)           -- `std::map<String, MeshPartNodeBin>`: sorted by name
  partitions : List Partition         -- file order
  charts : List (Str × Chart) := []   -- `MeshAtlas`: `std::map<String, Chart>`, sorted by name
  /-- the world dimension (number of coordinates per vertex) of the node's mesh type
      `ConformalMesh<Shape, world_dim>`; it is a template parameter in FEAT, so a node always knows it -/
  wdim : Nat := 0
  deriving DecidableEq, Repr

/-! ### parser state -/

inductive TopoType where
  | none | full | parent
  deriving DecidableEq, Repr

structure PartSt where
  name : Str
  chart : Str
  topoType : TopoType
  sizes : List Nat
  maps : List (Option (List Nat))
  topo : List (Option (List (List Nat)))
  attrs : List (Str × Attr)
  deriving Repr

inductive Frame where
  | root
  | dummy
  | mesh (sizes : List Nat) (verts : Option (List (List Rat))) (topo : List (Option (List (List Nat))))
  | verts (count : Nat) (acc : List (List Rat))
  | topo (dim numIdx bound count : Nat) (acc : List (List Nat))
  | part (p : PartSt)
  | mapping (dim count : Nat) (acc : List Nat)
  | attr (name : Str) (dim count : Nat) (acc : List (List Rat))
  | partition (name : Str) (prio level : Int) (nr ne : Nat) (patches : List (List Nat)) (have_ : List Bool)
  | patch (rank size ne read : Nat) (elems : List Nat)
  | chart (name : Str) (c : Option Chart)     -- `ChartParser`
  | chartItem                                 -- a non-closed `<Circle …>` / `<Sphere …>` waiting for its terminator
  | bezier (size : Nat) (closed : Bool) (orient : Rat) (segs : List (List (List Rat) × List Rat)) (params : List Rat)
  | bezierPoints (size read : Nat) (acc : List (List (List Rat) × List Rat))   -- `BezierPointsParser`, acc reversed
  | bezierParams (size read : Nat) (acc : List Rat)                            -- `BezierParamsParser`, acc reversed
  deriving Repr

structure St where
  shape : Shape
  dim : Nat                           -- shape dimension
  wdim : Nat                          -- world dimension (coordinates per vertex)
  stack : List Frame                  -- top first
  node : Node
  links : List (Str × Str)            -- MeshNodeLinker: (mesh part, chart) in file order
  deduct : List Str                   -- MeshNodeLinker: parts whose topology is to be deducted
  unmodelled : Bool
  deriving Repr

def attrOf (m : Markup) (k : String) : Option Str := mapFind strLt k.toList m.attrs

def gErr (line : Nat) : Except Err α := .error ⟨.grammar, line⟩
def cErr (line : Nat) : Except Err α := .error ⟨.content, line⟩

def mapMOpt (f : α → Option β) : List α → Option (List β)
  | [] => some []
  | a :: as => match f a with
    | none => none
    | some b => match mapMOpt f as with
      | none => none
      | some bs => some (b :: bs)

/-- sorted duplicate-free insertion (`DynamicGraph::insert` into a `std::set`) -/
def setInsert (x : Nat) : List Nat → List Nat
  | [] => [x]
  | y :: ys => if x < y then x :: y :: ys else if x == y then y :: ys else y :: setInsert x ys

/-- a declared entity count of zero directly below a non-zero one (`MeshParser::create`, `MeshPartParser::create`) -/
def zeroBelow : List Nat → Bool
  | a :: b :: rest => (a == 0 && b > 0) || zeroBelow (b :: rest)
  | _ => false

/-- `MeshParser::create` after the closed-markup check -/
def meshCreate (st : St) (line : Nat) (m : Markup) : Except Err Frame :=
  match attrOf m "type", attrOf m "size" with
  | some ty, some sz =>
    match splitByColon ty with
    | [a, b, c, d] =>
      if a != "conformal".toList then cErr line
      else if b != st.shape.name then cErr line
      else match readInt c with
        | none => cErr line
        | some sd =>
          if sd != (st.dim : Int) then cErr line
          else match readInt d with
            | none => cErr line
            | some wd =>
              if wd != (st.wdim : Int) then cErr line
              else
                let toks := splitWs sz
                if toks.length != st.dim + 1 then cErr line
                else match mapMOpt readIndex toks with
                  | none => cErr line
                  | some sizes =>
                    if zeroBelow sizes then cErr line
                    else .ok (Frame.mesh sizes none (List.replicate st.dim none))
    | _ => cErr line
  | _, _ => gErr line

/-- `TopologyParser::create`: `sizes` are the entity counts of the enclosing mesh / mesh part,
    `have` its topology slots -/
def topoCreate (st : St) (line : Nat) (m : Markup) (sizes : List Nat)
    (have_ : List (Option (List (List Nat)))) : Except Err Frame :=
  if m.closed then gErr line
  else match attrOf m "dim" with
    | none => gErr line
    | some ds => match readIndex ds with
      | none => cErr line
      | some d =>
        if d > have_.length || d == 0 then cErr line
        else if (have_.getD (d - 1) none).isSome then cErr line
        else .ok (Frame.topo d (nverts st.shape d) (sizes.getD 0 0) (sizes.getD d 0) [])

def partCreate (st : St) (line : Nat) (m : Markup) : Except Err (PartSt × List (Str × Str) × List Str) :=
  if m.closed then gErr line
  else match attrOf m "name", attrOf m "parent", attrOf m "size", attrOf m "topology" with
    | some name, some parent, some sz, some topo =>
      if (mapFind strLt name st.node.parts).isSome then cErr line
      else
        let chart := (attrOf m "chart").getD []
        let links := match attrOf m "chart" with
          | some c => st.links ++ [(name, c)]
          | none => st.links
        if parent != "root".toList then cErr line
        else
          let tt : Option TopoType :=
            if topo == "none".toList then some .none
            else if topo == "full".toList then some .full
            else if topo == "parent".toList then some .parent
            else none
          match tt with
          | none => cErr line
          | some tt =>
            let deduct := if tt == .parent then st.deduct ++ [name] else st.deduct
            let toks := splitWs sz
            if toks.length > st.dim + 1 then cErr line
            else match mapMOpt readIndex toks with
              | none => cErr line
              | some given =>
                let sizes := given ++ List.replicate (st.dim + 1 - given.length) 0
                if tt != .none && zeroBelow sizes then cErr line
                else
                  .ok ({ name := name, chart := chart, topoType := tt, sizes := sizes,
                         maps := List.replicate (st.dim + 1) none, topo := List.replicate st.dim none, attrs := [] },
                       links, deduct)
    | _, _, _, _ => gErr line

def partitionCreate (line : Nat) (m : Markup) : Except Err Frame :=
  match attrOf m "size" with
  | none => gErr line
  | some sz =>
    match splitWs sz with
    | [a, b] =>
      match readInt a, readInt b with
      | some nr, some ne =>
        if nr < 0 || ne < 0 then cErr line else
        let name := (attrOf m "name").getD []
        let prio : Except Err Int := match attrOf m "priority" with
          | none => .ok 0
          | some p => match readInt p with
            | none => cErr line
            | some v => .ok v
        match prio with
        | .error e => .error e
        | .ok prio =>
          let level : Except Err Int := match attrOf m "level" with
            | none => .ok 0
            | some p => match readInt p with
              | none => cErr line
              | some v => if v < 0 then cErr line else .ok v
          match level with
          | .error e => .error e
          | .ok level =>
            .ok (Frame.partition name prio level nr.toNat ne.toNat (List.replicate nr.toNat []) (List.replicate nr.toNat false))
      | _, _ => cErr line
    | _ => cErr line

/-- the attribute lists (`attribs()`) of the parser classes -/
def specOf (name : String) : List (Str × Bool) :=
  ((match name with
   | "root" => [("version", true), ("mesh", false)]
   | "Mesh" => [("type", true), ("size", true)]
   | "Vertices" => []
   | "Topology" => [("dim", true)]
   | "Mapping" => [("dim", true)]
   | "Attribute" => [("dim", true), ("name", true)]
   | "MeshPart" => [("name", true), ("parent", true), ("size", true), ("topology", true), ("chart", false)]
   | "Partition" => [("size", true), ("name", false), ("priority", false), ("level", false)]
   | "Patch" => [("rank", true), ("size", true)]
   | "Chart" => [("name", true)]
   | "Circle" => [("radius", true), ("midpoint", true), ("domain", false)]
   | "Sphere" => [("radius", true), ("midpoint", true)]
   | "Bezier" => [("dim", true), ("size", true), ("type", false), ("orientation", false)]
   | _ => []) : List (String × Bool)).map (fun kv => (kv.1.toList, kv.2))

/-- the `double` literal `1E-5` as an exact rational (the radius threshold of the chart parsers, `CoordType(1E-5)`) -/
def radiusMin : Rat := mkRat 5902958103587057 590295810358705651712

/-- `CircleChartParser::create`; the Bool is "the exact-arithmetic harness cannot build this chart" (degenerate domain) -/
def circleCreate (line : Nat) (m : Markup) : Except Err (Chart × Bool) :=
  match attrOf m "radius", attrOf m "midpoint" with
  | some rs, some ms =>
    match readQ rs with
    | none => gErr line
    | some r =>
      if r < radiusMin then gErr line
      else match splitWs ms with
        | [a, b] =>
          match readQ a, readQ b with
          | some mx, some my =>
            match attrOf m "domain" with
            | none => .ok (Chart.circle r mx my none, false)
            | some ds =>
              match splitWs ds with
              | [c, d] =>
                match readQ c, readQ d with
                | some l, some rr => .ok (Chart.circle r mx my (some (l, rr)), l == rr)
                | _, _ => gErr line
              | _ => gErr line
          | _, _ => gErr line
        | _ => gErr line
  | _, _ => gErr line

/-- `SphereChartParser::create` -/
def sphereCreate (line : Nat) (m : Markup) : Except Err Chart :=
  match attrOf m "radius", attrOf m "midpoint" with
  | some rs, some ms =>
    match readQ rs with
    | none => gErr line
    | some r =>
      if r < radiusMin then gErr line
      else match splitWs ms with
        | [a, b, c] =>
          match readQ a, readQ b, readQ c with
          | some mx, some my, some mz => .ok (Chart.sphere r mx my mz)
          | _, _, _ => gErr line
        | _ => gErr line
  | _, _ => gErr line

/-- `close()` of the top frame and its hand-over to the parent (`line` = line of the terminator) -/
def closeTop (st : St) (line : Nat) : Except Err St :=
  match st.stack with
  | [] => gErr line
  | Frame.root :: rest => .ok { st with stack := rest }
  | Frame.dummy :: rest => .ok { st with stack := rest }
  | Frame.chartItem :: rest => .ok { st with stack := rest }
  | Frame.bezierPoints size read acc :: Frame.bezier sz cl o segs params :: rest =>
    if read < size then gErr line
    else .ok { st with stack := Frame.bezier sz cl o (segs ++ acc.reverse) params :: rest }
  | Frame.bezierParams size read acc :: Frame.bezier sz cl o segs params :: rest =>
    if read < size then gErr line
    else .ok { st with stack := Frame.bezier sz cl o segs (params ++ acc.reverse) :: rest }
  | Frame.bezier _ cl o segs params :: Frame.chart name _ :: rest =>
    -- `BezierChartParser::close` checks nothing (a Bezier chart without any point makes the writer crash: K14)
    .ok { st with stack := Frame.chart name (some (Chart.bezier cl o segs params)) :: rest,
                  unmodelled := st.unmodelled || segs.isEmpty }
  | Frame.chart name c :: rest =>
    match c with
    | none => gErr line                                   -- "Invalid empty chart"
    | some ch => .ok { st with stack := rest, node := { st.node with charts := mapInsert strLt name ch st.node.charts } }
  | Frame.verts count acc :: Frame.mesh sizes _ topo :: rest =>
    if acc.length < count then gErr line
    else .ok { st with stack := Frame.mesh sizes (some acc.reverse) topo :: rest }
  | Frame.topo d _ _ count acc :: Frame.mesh sizes verts topo :: rest =>
    if acc.length < count then gErr line
    else .ok { st with stack := Frame.mesh sizes verts (topo.set (d - 1) (some acc.reverse)) :: rest }
  | Frame.topo d _ _ count acc :: Frame.part p :: rest =>
    if acc.length < count then gErr line
    else .ok { st with stack := Frame.part { p with topo := p.topo.set (d - 1) (some acc.reverse) } :: rest }
  | Frame.mesh sizes verts topo :: rest =>
    match verts with
    | none => gErr line
    | some vs =>
      match mapMOpt id topo with
      | none => gErr line
      | some ts => .ok { st with stack := rest, node := { st.node with mesh := some { sizes := sizes, verts := vs, topo := ts } } }
  | Frame.mapping d count acc :: Frame.part p :: rest =>
    if acc.length < count then gErr line
    else .ok { st with stack := Frame.part { p with maps := p.maps.set d (some acc.reverse) } :: rest }
  | Frame.attr name d count acc :: Frame.part p :: rest =>
    if acc.length < count then gErr line
    else .ok { st with stack := Frame.part { p with attrs := mapInsert strLt name { dim := d, vals := acc.reverse } p.attrs } :: rest }
  | Frame.part p :: rest =>
    -- all mappings of non-empty dimensions must be present
    if (List.range p.sizes.length).any (fun i => (p.maps.getD i none).isNone && p.sizes.getD i 0 > 0) then gErr line
    else if p.topoType == .full &&
        (List.range p.topo.length).any (fun i => p.sizes.getD (i + 1) 0 > 0 && (p.topo.getD i none).isNone) then gErr line
    else
      let part : Part := {
        chart := [], hasTopo := p.topoType != .none, sizes := p.sizes,
        maps := p.maps.map (fun o => o.getD []),
        topo := p.topo.map (fun o => o.getD []),
        attrs := p.attrs }
      .ok { st with stack := rest, node := { st.node with parts := mapInsert strLt p.name part st.node.parts } }
  | Frame.patch rank size _ read elems :: Frame.partition name prio level nr ne patches have_ :: rest =>
    if read < size then gErr line
    else
      let cur := patches.getD rank []
      let merged := elems.foldl (fun acc e => setInsert e acc) cur
      .ok { st with stack := Frame.partition name prio level nr ne (patches.set rank merged) (have_.set rank true) :: rest }
  | Frame.partition name prio level nr ne patches have_ :: rest =>
    -- one patch per rank, and the declared total number of elements
    if have_.any (fun b => !b) then gErr line
    else if (patches.map List.length).sum != ne then gErr line
    else .ok { st with stack := rest, node := { st.node with partitions := st.node.partitions ++
            [{ name := name, prio := prio, level := level, nr := nr, ne := ne, patches := patches }] } }
  | _ => gErr line

/-- `parent.markup(name)`, attribute check, `create` (and `close` for a closed markup) -/
def openM (st : St) (line : Nat) (m : Markup) : Except Err St :=
  let push (st : St) (f : Frame) : Except Err St :=
    let st' := { st with stack := f :: st.stack }
    if m.closed then closeTop st' line else .ok st'
  let nm := String.ofList m.name
  match st.stack with
  | [] => gErr line
  | Frame.dummy :: _ => push st Frame.dummy
  | Frame.root :: _ =>
    if nm == "Info" then push st Frame.dummy
    else if nm == "Chart" then
      match checkAttribs line (specOf "Chart") m.attrs with
      | .error e => .error e
      | .ok _ =>
        if m.closed then gErr line
        else match attrOf m "name" with
          | none => gErr line
          | some name =>
            if name.isEmpty then gErr line
            else if (mapFind strLt name st.node.charts).isSome then cErr line
            else push st (Frame.chart name none)
    else if nm == "Mesh" then
      if st.node.mesh.isSome then gErr line
      else match checkAttribs line (specOf "Mesh") m.attrs with
        | .error e => .error e
        | .ok _ =>
          if m.closed then gErr line
          else match meshCreate st line m with
            | .error e => .error e
            | .ok f => push st f
    else if nm == "MeshPart" then
      match checkAttribs line (specOf "MeshPart") m.attrs with
      | .error e => .error e
      | .ok _ =>
        match partCreate st line m with
        | .error e => .error e
        | .ok (p, links, deduct) => push { st with links := links, deduct := deduct } (Frame.part p)
    else if nm == "Partition" then
      match checkAttribs line (specOf "Partition") m.attrs with
      | .error e => .error e
      | .ok _ =>
        match partitionCreate line m with
        | .error e => .error e
        | .ok f => push st f
    else gErr line
  | Frame.chart name _ :: below =>
    -- `DimensionalChartHelper`: Circle / Bezier in 2D, Sphere / SurfaceMesh / Extrude in 3D
    if st.wdim == 2 && nm == "Circle" then
      match checkAttribs line (specOf "Circle") m.attrs with
      | .error e => .error e
      | .ok _ =>
        match circleCreate line m with
        | .error e => .error e
        | .ok (ch, degenerate) =>
          let st1 := { st with stack := Frame.chart name (some ch) :: below, unmodelled := st.unmodelled || degenerate }
          if m.closed then .ok st1 else .ok { st1 with stack := Frame.chartItem :: st1.stack }
    else if st.wdim == 3 && nm == "Sphere" then
      match checkAttribs line (specOf "Sphere") m.attrs with
      | .error e => .error e
      | .ok _ =>
        match sphereCreate line m with
        | .error e => .error e
        | .ok ch =>
          let st1 := { st with stack := Frame.chart name (some ch) :: below }
          if m.closed then .ok st1 else .ok { st1 with stack := Frame.chartItem :: st1.stack }
    else if st.wdim == 2 && nm == "Bezier" then
      match checkAttribs line (specOf "Bezier") m.attrs with
      | .error e => .error e
      | .ok _ =>
        if m.closed then gErr line
        else match attrOf m "dim", attrOf m "size" with
          | some ds, some ss =>
            match readIndex ds with
            | none => gErr line
            | some d =>
              if d != 2 then gErr line
              else match readIndex ss with
                | none => gErr line
                | some size =>
                  if size < 2 then gErr line
                  else
                    let ty : Except Err Bool := match attrOf m "type" with
                      | none => .ok false
                      | some t => if t == "closed".toList then .ok true else if t == "open".toList then .ok false else cErr line
                    match ty with
                    | .error e => .error e
                    | .ok cl =>
                      -- an unparsable orientation is silently ignored (the default 1 stays)
                      let o : Rat := match attrOf m "orientation" with
                        | none => 1
                        | some os => (readQ os).getD 1
                      .ok { st with stack := Frame.bezier size cl o [] [] :: st.stack }
          | _, _ => gErr line
    else if st.wdim == 3 && (nm == "SurfaceMesh" || nm == "Extrude") then
      -- not modelled: remember that, give the chart a placeholder and skip the element
      push { st with stack := Frame.chart name (some (Chart.sphere 0 0 0 0)) :: below, unmodelled := true } Frame.dummy
    else gErr line
  | Frame.bezier size _ _ _ _ :: _ =>
    -- `BezierPointsParser` / `BezierParamsParser` accept no attributes and must not be closed
    if nm == "Points" then
      match checkAttribs line [] m.attrs with
      | .error e => .error e
      | .ok _ => if m.closed then gErr line else push st (Frame.bezierPoints size 0 [])
    else if nm == "Params" then
      match checkAttribs line [] m.attrs with
      | .error e => .error e
      | .ok _ => if m.closed then gErr line else push st (Frame.bezierParams size 0 [])
    else gErr line
  | Frame.mesh sizes verts topo :: _ =>
    if nm == "Vertices" then
      if verts.isSome then gErr line
      else match checkAttribs line (specOf "Vertices") m.attrs with
        | .error e => .error e
        | .ok _ => if m.closed then gErr line else push st (Frame.verts (sizes.getD 0 0) [])
    else if nm == "Topology" then
      match checkAttribs line (specOf "Topology") m.attrs with
      | .error e => .error e
      | .ok _ =>
        match topoCreate st line m sizes topo with
        | .error e => .error e
        | .ok f => push st f
    else gErr line
  | Frame.part p :: _ =>
    if nm == "Mapping" then
      match checkAttribs line (specOf "Mapping") m.attrs with
      | .error e => .error e
      | .ok _ =>
        if m.closed then gErr line
        else match attrOf m "dim" with
          | none => gErr line
          | some ds => match readIndex ds with
            | none => cErr line
            | some d =>
              if d ≥ p.maps.length then cErr line
              else if (p.maps.getD d none).isSome then cErr line
              else push st (Frame.mapping d (p.sizes.getD d 0) [])
    else if nm == "Topology" then
      if p.topoType == .none then cErr line
      else match checkAttribs line (specOf "Topology") m.attrs with
        | .error e => .error e
        | .ok _ =>
          match topoCreate st line m p.sizes p.topo with
          | .error e => .error e
          | .ok f => push st f
    else if nm == "Attribute" then
      match checkAttribs line (specOf "Attribute") m.attrs with
      | .error e => .error e
      | .ok _ =>
        if m.closed then gErr line
        else match attrOf m "dim", attrOf m "name" with
          | some ds, some name => match readIndex ds with
            | none => cErr line
            | some d => if d == 0 || d > 2 ^ 31 - 1 then cErr line else push st (Frame.attr name d (p.sizes.getD 0 0) [])
          | _, _ => gErr line
    else gErr line
  | Frame.partition _ _ _ nr ne _ have_ :: _ =>
    if nm == "Patch" then
      match checkAttribs line (specOf "Patch") m.attrs with
      | .error e => .error e
      | .ok _ =>
        match attrOf m "rank", attrOf m "size" with
        | some rs, some ss => match readIndex rs with
          | none => cErr line
          | some rank => match readIndex ss with
            | none => cErr line
            | some size =>
              if rank ≥ nr then cErr line
              else if have_.getD rank false then cErr line      -- "Multiple patches for rank"
              else push st (Frame.patch rank size ne 0 [])
        | _, _ => gErr line
    else gErr line
  | _ => gErr line   -- Vertices / Topology / Mapping / Attribute / Patch have no children

def contentM (st : St) (line : Nat) (s : Str) : Except Err St :=
  match st.stack with
  | Frame.dummy :: _ => .ok st
  | Frame.verts count acc :: rest =>
    if acc.length ≥ count then cErr line
    else
      let toks := splitWs s
      if toks.length != st.wdim then cErr line
      else match mapMOpt readQ toks with
        | none => cErr line
        | some v => .ok { st with stack := Frame.verts count (v :: acc) :: rest }
  | Frame.topo d numIdx bound count acc :: rest =>
    if acc.length ≥ count then cErr line
    else
      let toks := splitWs s
      if toks.length != numIdx then cErr line
      else match mapMOpt readIndex toks with
        | none => cErr line
        | some v => if v.any (fun i => i ≥ bound) then cErr line
                    else .ok { st with stack := Frame.topo d numIdx bound count (v :: acc) :: rest }
  | Frame.mapping d count acc :: rest =>
    if acc.length ≥ count then cErr line
    else match readIndex s with
      | none => cErr line
      | some i => .ok { st with stack := Frame.mapping d count (i :: acc) :: rest }
  | Frame.attr name d count acc :: rest =>
    if acc.length ≥ count then cErr line
    else
      let toks := splitWs s
      if toks.length != d then cErr line
      else match mapMOpt readQ toks with
        | none => cErr line
        | some v => .ok { st with stack := Frame.attr name d count (v :: acc) :: rest }
  | Frame.bezierPoints size read acc :: rest =>
    if read ≥ size then cErr line
    else
      let toks := splitWs s
      match readIndex (toks.headD []) with
      | none => cErr line
      | some nc =>
        if read == 0 && nc > 0 then cErr line                       -- "First point must be a vertex point"
        else if toks.length != (nc + 1) * 2 + 1 then cErr line
        else match mapMOpt readQ (toks.drop 1) with
          | none => cErr line
          | some xs =>
            let pts := (List.range (nc + 1)).map (fun k => [xs.getD (2 * k) 0, xs.getD (2 * k + 1) 0])
            .ok { st with stack := Frame.bezierPoints size (read + 1) ((pts.take nc, pts.getD nc []) :: acc) :: rest }
  | Frame.bezierParams size read acc :: rest =>
    if read ≥ size then cErr line
    else match readQ s with
      | none => cErr line
      | some x => .ok { st with stack := Frame.bezierParams size (read + 1) (x :: acc) :: rest }
  | Frame.patch rank size ne read elems :: rest =>
    if read ≥ size then cErr line
    else match readIndex s with
      | none => cErr line
      | some e => if e ≥ ne then cErr line
                  else .ok { st with stack := Frame.patch rank size ne (read + 1) (elems ++ [e]) :: rest }
  | _ => gErr line     -- root / Mesh / MeshPart / Partition: "Invalid content line"

def meshClient : Client St where
  openM := openM
  closeM := closeTop
  content := contentM

inductive Outcome where
  | err (e : Err)
  | notype
  | unmodelled
  | ok (sh : Shape) (dim : Nat) (n : Node)
  deriving Repr

/-- `MeshFileReader::read_root_markup` on the root markup: the mesh type (if declared) -/
def rootType (line : Nat) (m : Markup) : Except Err (Option (Shape × Int × Int)) :=
  if m.name != "FeatMeshFile".toList then gErr line
  else match attrOf m "version" with
    | none => gErr line
    | some v => match readInt v with
      | none => gErr line
      | some ver =>
        if ver != 1 then gErr line
        else match attrOf m "mesh" with
          | none => .ok none
          | some mt =>
            match splitByColon mt with
            | [a, b, c, d] =>
              if a != "conformal".toList then gErr line
              else
                let sh : Option Shape := if b == "simplex".toList then some .simplex
                                         else if b == "hypercube".toList then some .hyper else none
                match sh with
                | none => gErr line
                | some sh => match readInt c with
                  | none => cErr line
                  | some sd => if sd ≤ 0 then cErr line else match readInt d with
                    | none => cErr line
                    | some wd => if wd ≤ 0 then cErr line else .ok (some (sh, sd, wd))
            | _ => gErr line

/-- the mesh types instantiated by the harness -/
def supported (sh : Shape) (sd wd : Int) : Bool :=
  (sd == wd && ((sh == .hyper && (sd == 1 || sd == 2 || sd == 3)) || (sh == .simplex && (sd == 2 || sd == 3)))) ||
  -- mesh types embedded in a higher-dimensional world: surfaces in 3D, curves in 2D / 3D
  (sd == 2 && wd == 3) || (sh == .hyper && sd == 1 && (wd == 2 || wd == 3))

/-- `MeshNodeLinker::execute`: some mapping index of some mesh part is not an entity index of the root mesh
    (no root mesh: nothing can be checked) -/
def mapOutOfRange (n : Node) : Bool :=
  match n.mesh with
  | none => false
  | some m => n.parts.any (fun np => np.2.maps.zipIdx.any (fun (idx, d) => idx.any (fun i => i ≥ m.sizes.getD d 0)))

/-- the part's local index of parent vertex `v`: the LAST position in the vertex mapping (the loop of
    `IndexSetFiller` overwrites), `none` if the vertex is not in the mesh part -/
def invVertex (vmap : List Nat) (v : Nat) : Option Nat :=
  vmap.zipIdx.foldl (fun acc xi => if xi.1 == v then some xi.2 else acc) none

/-- `MeshPart::deduct_topology` (`IndexSetFiller::fill_ish`): restriction of the parent's index sets to the cells of the
    part, renumbered by the part's vertex mapping; `none` if a cell refers to a vertex outside the part (the real code
    then stores the out-of-bounds sentinel `nv+1`: open finding K11) -/
def deductTopo (m : Mesh) (p : Part) : Option (List (List (List Nat))) :=
  mapMOpt (fun d => mapMOpt (fun c => mapMOpt (invVertex (p.maps.getD 0 [])) ((m.topo.getD d []).getD c []))
                      (p.maps.getD (d + 1) [])) (List.range m.topo.length)

/-- `MeshNodeLinker::execute`, first loop: every (mesh part, chart) link needs the chart in the atlas -/
def resolveLinks : List (Str × Str) → Node → Option Node
  | [], n => some n
  | (pn, cn) :: rest, n =>
    if (mapFind strLt cn n.charts).isNone then none
    else resolveLinks rest { n with parts := n.parts.map (fun np => if np.1 == pn then (np.1, { np.2 with chart := cn }) else np) }

/-- `MeshNodeLinker::execute`, last loop: deduct the topologies of the `topology="parent"` parts -/
def resolveDeduct : List Str → Node → Option Node
  | [], n => some n
  | pn :: rest, n =>
    match n.mesh, mapFind strLt pn n.parts with
    | some m, some p =>
      match deductTopo m p with
      | none => none
      | some t => resolveDeduct rest { n with parts := n.parts.map (fun np => if np.1 == pn then (np.1, { np.2 with topo := t }) else np) }
    | _, _ => none

/-- `MeshFileReader::parse<RootMesh_>` for a fixed mesh type, from the root markup on, then `linker.execute()` -/
def parseBody (sh : Shape) (dim wdim : Nat) (m : Markup) (iline : Nat) (rest : List Str) : Outcome :=
  match checkAttribs iline (specOf "root") m.attrs with
  | .error e => .err e
  | .ok _ =>
    -- MeshNodeParser::create (name and version were verified by read_root_markup already)
    let st0 : St := { shape := sh, dim := dim, wdim := wdim, stack := [Frame.root],
                      node := { mesh := none, parts := [], partitions := [], wdim := wdim },
                      links := [], deduct := [], unmodelled := false }
    match scanLoop meshClient rest iline [m.name] st0 with
    | .error e => .err e
    | .ok st =>
      if st.unmodelled then .unmodelled
      else match resolveLinks st.links st.node with
        | none => .err ⟨.linker, 0⟩
        | some n1 =>
          if mapOutOfRange n1 then .err ⟨.linker, 0⟩
          else match resolveDeduct st.deduct n1 with
            | none => .err ⟨.linker, 0⟩
            | some n2 => .ok sh dim n2

/-- the whole `mesh` op of the harness: read the root markup, pick the mesh type, parse -/
def parseMeshFile (text : Str) : Outcome :=
  match readRoot (splitLines text) 0 with
  | .error e => .err e
  | .ok (m, iline, rest) =>
    match rootType iline m with
    | .error e => .err e
    | .ok none => .notype
    | .ok (some (sh, sd, wd)) =>
      if !supported sh sd wd then .notype
      else parseBody sh sd.toNat wd.toNat m iline rest

/-- second-generation parse: the type is known from the first parse (the written root markup carries it only
    if a root mesh exists) -/
def reparse (sh : Shape) (dim wdim : Nat) (text : Str) : Outcome :=
  match readRoot (splitLines text) 0 with
  | .error e => .err e
  | .ok (m, iline, rest) =>
    match rootType iline m with
    | .error e => .err e
    | .ok _ => parseBody sh dim wdim m iline rest

/-! ### the writer (`MeshFileWriter::write` with indentation, all mesh parts) -/

def sp (n : Nat) : Str := List.replicate n ' '
def joinSp (l : List Str) : Str := " ".toList.intercalate l
def q (s : Str) : Str := '"' :: s ++ ['"']

def meshTypeStr (sh : Shape) (dim wdim : Nat) : Str :=
  "conformal:".toList ++ sh.name ++ ":".toList ++ showNat dim ++ ":".toList ++ showNat wdim

/-- `TopoWriteHelper::write_topology` for dimensions 1..D -/
def writeTopo (ind : Nat) (skipEmpty : Bool) (topo : List (List (List Nat))) : List Str :=
  (topo.zipIdx.map (fun (tuples, i) =>
    if skipEmpty && tuples.isEmpty then []
    else
      [sp ind ++ "<Topology dim=".toList ++ q (showNat (i + 1)) ++ ">".toList] ++
      tuples.map (fun t => sp (ind + 2) ++ joinSp (t.map showNat)) ++
      [sp ind ++ "</Topology>".toList])).flatten

def writeMesh (sh : Shape) (dim wdim : Nat) (m : Mesh) : List Str :=
  [sp 2 ++ "<Mesh type=".toList ++ q (meshTypeStr sh dim wdim) ++ " size=".toList ++ q (joinSp (m.sizes.map showNat)) ++ ">".toList,
   sp 4 ++ "<Vertices>".toList] ++
  m.verts.map (fun v => sp 6 ++ joinSp (v.map showQ)) ++
  [sp 4 ++ "</Vertices>".toList] ++
  writeTopo 4 false m.topo ++
  [sp 2 ++ "</Mesh>".toList]

def writePart (name : Str) (p : Part) : List Str :=
  [sp 2 ++ "<MeshPart name=".toList ++ q name ++ " parent=\"root\"".toList ++
    (if p.chart.isEmpty then [] else " chart=".toList ++ q p.chart) ++
    " topology=".toList ++ q (if p.hasTopo then "full".toList else "none".toList) ++
    " size=".toList ++ q (joinSp (p.sizes.map showNat)) ++ ">".toList] ++
  (p.maps.zipIdx.map (fun (idx, d) =>
    if idx.isEmpty then []
    else [sp 4 ++ "<Mapping dim=".toList ++ q (showNat d) ++ ">".toList] ++
         idx.map (fun i => sp 6 ++ showNat i) ++ [sp 4 ++ "</Mapping>".toList])).flatten ++
  (if p.hasTopo then writeTopo 4 true p.topo else []) ++
  (p.attrs.map (fun (an, a) =>
    [sp 4 ++ "<Attribute name=".toList ++ q an ++ " dim=".toList ++ q (showNat a.dim) ++ ">".toList] ++
    a.vals.map (fun v => sp 6 ++ joinSp (v.map showQ)) ++
    [sp 4 ++ "</Attribute>".toList])).flatten ++
  [sp 2 ++ "</MeshPart>".toList]

def writePartition (p : Partition) : List Str :=
  [sp 2 ++ "<Partition".toList ++ (if p.name.isEmpty then [] else " name=".toList ++ q p.name) ++
    " priority=".toList ++ q (showInt p.prio) ++ " level=".toList ++ q (showInt p.level) ++
    " size=".toList ++ q (showNat p.nr ++ ' ' :: showNat p.ne) ++ ">".toList] ++
  (p.patches.zipIdx.map (fun (el, r) =>
    [sp 4 ++ "<Patch rank=".toList ++ q (showNat r) ++ " size=".toList ++ q (showNat el.length) ++ ">".toList] ++
    el.map (fun e => sp 6 ++ showNat e) ++ [sp 4 ++ "</Patch>".toList])).flatten ++
  [sp 2 ++ "</Partition>".toList]

/-- `MeshFileWriter::write_chart` with `Circle::write` / `Sphere::write` (the circle's domain is reconstructed from its
    transformation, which is exact in rational arithmetic) -/
def writeChartOld (name : Str) (c : Chart) : List Str :=
  [sp 2 ++ "<Chart name=".toList ++ q name ++ ">".toList,
   (match c with
    | .circle r mx my dom =>
      sp 4 ++ "<Circle radius=".toList ++ q (showQ r) ++ " midpoint=".toList ++ q (showQ mx ++ ' ' :: showQ my) ++
        (match dom with
         | some (l, rr) => " domain=".toList ++ q (showQ l ++ ' ' :: showQ rr)
         | none => []) ++ " />".toList
    | .sphere r mx my mz =>
      sp 4 ++ "<Sphere radius=".toList ++ q (showQ r) ++ " midpoint=".toList ++
        q (showQ mx ++ ' ' :: showQ my ++ ' ' :: showQ mz) ++ " />".toList
    | .bezier _ _ _ _ => []),
   sp 2 ++ "</Chart>".toList]

/-- `Bezier::write`: the vertex count, `type`, `orientation="-1"` only for -1; per vertex point one line
    `<#control points> <control coordinates…> <vertex coordinates>`; the `<Params>` block only if there are any -/
def writeBezier (cl : Bool) (o : Rat) (segs : List (List (List Rat) × List Rat)) (params : List Rat) : List Str :=
  [sp 4 ++ "<Bezier dim=\"2\" size=".toList ++ q (showNat segs.length) ++ " type=".toList ++
     q (if cl then "closed".toList else "open".toList) ++ (if o == -1 then " orientation=\"-1\"".toList else []) ++ ">".toList,
   sp 6 ++ "<Points>".toList] ++
  segs.map (fun sg => sp 8 ++ joinSp (showNat sg.1.length :: ((sg.1 ++ [sg.2]).flatten.map showQ))) ++
  [sp 6 ++ "</Points>".toList] ++
  (if params.isEmpty then [] else
    [sp 6 ++ "<Params>".toList] ++ params.map (fun x => sp 8 ++ showQ x) ++ [sp 6 ++ "</Params>".toList]) ++
  [sp 4 ++ "</Bezier>".toList]

/-- `MeshFileWriter::write_chart` -/
def writeChart (name : Str) (c : Chart) : List Str :=
  match c with
  | .bezier cl o segs params =>
    [sp 2 ++ "<Chart name=".toList ++ q name ++ ">".toList] ++ writeBezier cl o segs params ++ [sp 2 ++ "</Chart>".toList]
  | _ => writeChartOld name c

def writeLines (sh : Shape) (dim : Nat) (n : Node) : List Str :=
  ["<FeatMeshFile version=\"1\"".toList ++
    (match n.mesh with
     | some _ => " mesh=".toList ++ q (meshTypeStr sh dim n.wdim)
     | none => []) ++ ">".toList] ++
  (n.charts.map (fun nc => writeChart nc.1 nc.2)).flatten ++
  (match n.mesh with
   | some m => writeMesh sh dim n.wdim m
   | none => []) ++
  (n.parts.map (fun (nm, p) => writePart nm p)).flatten ++
  (n.partitions.map writePartition).flatten ++
  ["</FeatMeshFile>".toList]

/-- the file text: every line is terminated by `\n` -/
def printMeshFile (sh : Shape) (dim : Nat) (n : Node) : Str :=
  (writeLines sh dim n).flatMap (fun l => l ++ ['\n'])

/-! ### well-formedness of a parsed node (what "declared counts, dimensions and index ranges" means) -/

def tuplesOk (numIdx bound count : Nat) (ts : List (List Nat)) : Bool :=
  ts.length == count && ts.all (fun t => t.length == numIdx && t.all (· < bound))

def Mesh.wf (sh : Shape) (dim wdim : Nat) (m : Mesh) : Bool :=
  m.sizes.length == dim + 1 &&
  m.verts.length == m.sizes.getD 0 0 && m.verts.all (fun v => v.length == wdim) &&
  m.topo.length == dim &&
  (List.range dim).all (fun i => tuplesOk (nverts sh (i + 1)) (m.sizes.getD 0 0) (m.sizes.getD (i + 1) 0) (m.topo.getD i []))

end FeatModel.C11
