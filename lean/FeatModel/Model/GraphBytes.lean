/-
C11 — model of `Graph::serialize()` and the deserialisation constructor `Graph(const std::vector<char>&)`
(`kernel/adjacency/graph.cpp`).  The buffer is a list of 64-bit words (little-endian on the wire).
A graph is modelled with its two arrays as they are in memory: `domainPtr` may be absent (empty vector) for a
default-constructed or deserialised empty graph.  Core Lean only.
-/
namespace FeatModel.C11

def graphMagic : Nat := 0x5052474A44413346

structure RawGraph where
  numImage : Nat
  domainPtr : List Nat       -- empty, or `numDomain + 1` offsets
  imageIdx : List Nat
  deriving DecidableEq, Repr

def RawGraph.numDomain (g : RawGraph) : Nat := g.domainPtr.length - 1

/-- `Graph::serialize`: a pointer array of length ≤ 1 (graph without domain nodes) is not stored -/
def RawGraph.serialize (g : RawGraph) : List Nat :=
  let nptr := if g.domainPtr.length > 1 then g.domainPtr.length else 0
  let s := 5 + nptr + g.imageIdx.length
  let header := [graphMagic, s * 8, (if g.domainPtr.isEmpty then 0 else g.domainPtr.length - 1), g.numImage, g.imageIdx.length]
  if g.domainPtr.length ≤ 1 then
    -- "empty graph": the buffer is zero-filled behind the header
    header ++ List.replicate g.imageIdx.length 0
  else header ++ g.domainPtr ++ g.imageIdx

/-- `Graph(buffer)`; `none` = XASSERT (too short, wrong magic, wrong size field).  Reads beyond the buffer are
    modelled by `getD … 0` and never happen for buffers produced by `serialize` (theorem). -/
def RawGraph.deserialize (w : List Nat) : Option RawGraph :=
  if w.length < 5 then none
  else if w.getD 0 0 != graphMagic then none
  else if w.getD 1 0 != w.length * 8 then none
  else
    let nd := w.getD 2 0
    let ni := w.getD 4 0
    let x := w.drop 5
    let ptr := if nd > 0 then (List.range (nd + 1)).map (fun i => x.getD i 0) else []
    let x := if nd > 0 then x.drop (nd + 1) else x
    let idx := if ni > 0 then (List.range ni).map (fun i => x.getD i 0) else []
    some { numImage := w.getD 3 0, domainPtr := ptr, imageIdx := idx }

/-- well-formed graphs: a graph without domain nodes has no adjacencies; otherwise consistent arrays -/
def RawGraph.wf (g : RawGraph) : Bool :=
  (g.domainPtr.length ≤ 1 && g.imageIdx.isEmpty) ||
  (g.domainPtr.length ≥ 2 && g.domainPtr.getLastD 0 == g.imageIdx.length)

end FeatModel.C11
