/-
Model of the LAFEM vector operations (property C04). Core Lean only.

* leaf kernels = `kernel/lafem/arch/*_generic.hpp` on the pod array of a `DenseVector` /
  `DenseVectorBlocked` (lists; every alias-specialised branch of the C++ is a branch here, selected by
  explicit `Bool` flags that say which operands are the same array);
* `MVec` = the container nesting: dense / blocked leaves and the first/rest recursion of
  `TupleVector<First, Rest...>` and `PowerVector<Sub, n>` exactly as the C++ class templates recurse
  (`tupleOne`/`powerOne` are the one-element specialisations, which differ in `norm2`);
* `flatten` = the plain vector holding the same scalars.

The scalar type is a parameter with core operation classes; the driver runs it at `Rat`, the theorems
(Props/C04.lean) are stated for commutative rings / linearly ordered fields.
-/
namespace FeatModel.Vec

section Kernels
variable {α : Type}

/-- `DT_ r(0); for(i) r += t[i];` -/
def sumL [Add α] [Zero α] (l : List α) : α := l.foldl (· + ·) 0

/-- `Math::abs` -/
def absK [LT α] [DecidableLT α] [Neg α] [Zero α] (x : α) : α := if x < 0 then -x else x

/-- `Arch::Axpy::value_generic`: `r == x` ⇒ `r[i] *= DT_(1) + a`, else `r[i] += a * x[i]` -/
def axpyK [Add α] [Mul α] [One α] (alias : Bool) (a : α) (r x : List α) : List α :=
  if alias then r.map (fun ri => ri * (1 + a))
  else List.zipWith (fun ri xi => ri + a * xi) r x

/-- `Arch::Scale::value_generic`: `x == r` ⇒ `r[i] *= s`, else `r[i] = x[i] * s` -/
def scaleK [Mul α] (alias : Bool) (s : α) (r x : List α) : List α :=
  if alias then r.map (fun ri => ri * s)
  else List.zipWith (fun _ xi => xi * s) r x

/-- `Arch::ComponentProduct::value_generic` (branch order as in the source; its third branch
`r == x && r == y` is unreachable because `r == x` is tested first) -/
def cprodK [Mul α] (rx ry : Bool) (r x y : List α) : List α :=
  if rx then List.zipWith (fun ri yi => ri * yi) r y
  else if ry then List.zipWith (fun ri xi => ri * xi) r x
  else List.zipWith (fun _ t => t) r (List.zipWith (fun xi yi => xi * yi) x y)

/-- `Arch::ComponentInvert::value_generic` -/
def cinvK [Div α] (alias : Bool) (s : α) (r x : List α) : List α :=
  if alias then r.map (fun ri => s / ri)
  else List.zipWith (fun _ xi => s / xi) r x

/-- `Arch::DotProduct::value_generic` -/
def dotK [Add α] [Mul α] [Zero α] (alias : Bool) (x y : List α) : α :=
  if alias then sumL (x.map fun xi => xi * xi)
  else sumL (List.zipWith (fun xi yi => xi * yi) x y)

/-- `Arch::TripleDotProduct::value_generic` (flags: x==y, x==z, y==z; tested in this order) -/
def tdotK [Add α] [Mul α] [Zero α] (xy xz yz : Bool) (x y z : List α) : α :=
  if xy then sumL (List.zipWith (fun xi zi => xi * xi * zi) x z)
  else if xz then sumL (List.zipWith (fun xi yi => xi * xi * yi) x y)
  else if yz then sumL (List.zipWith (fun xi yi => xi * yi * yi) x y)
  else sumL (List.zipWith (fun xi (p : α × α) => xi * p.1 * p.2) x (List.zip y z))

/-- sum of squares accumulated by `Arch::Norm2::value_generic` before the square root -/
def sumSq [Add α] [Mul α] [Zero α] (x : List α) : α := sumL (x.map fun xi => xi * xi)

/-- `Arch::Norm2::value_generic` -/
def norm2K [Add α] [Mul α] [Zero α] (sqrt : α → α) (x : List α) : α := sqrt (sumSq x)

/-- the common loop of the four index kernels: `for(i) if(better(key(x[i]), m)) { m = key(x[i]); mi = i; }` -/
def argLoop (key : α → α) (better : α → α → Bool) : List α → Nat → α → Nat → Nat
  | [], _, _, mi => mi
  | xi :: t, i, m, mi =>
    if better (key xi) m then argLoop key better t (i + 1) (key xi) i
    else argLoop key better t (i + 1) m mi

variable [LT α] [DecidableLT α] [Neg α] [Zero α]

/-- `Arch::MaxAbsIndex::value_generic`: starts from `max = 0`, `max_i = 0` -/
def maxAbsIndexK (x : List α) : Nat := argLoop absK (fun v m => decide (m < v)) x 0 0 0
/-- `Arch::MinAbsIndex::value_generic`: starts from `min = |x[0]|` -/
def minAbsIndexK (x : List α) : Nat := argLoop absK (fun v m => decide (v < m)) x 0 (absK (x.headD 0)) 0
/-- `Arch::MaxIndex::value_generic`: starts from `max = x[0]` -/
def maxIndexK (x : List α) : Nat := argLoop id (fun v m => decide (m < v)) x 0 (x.headD 0) 0
/-- `Arch::MinIndex::value_generic`: starts from `min = x[0]` -/
def minIndexK (x : List α) : Nat := argLoop id (fun v m => decide (v < m)) x 0 (x.headD 0) 0

/-- `DenseVector::max_abs_element` etc.: the index kernel, then one element is fetched. An empty
vector has a null data pointer that is dereferenced: no defined result (`none`). -/
def maxAbsElemK (x : List α) : Option α := if x.isEmpty then none else some (absK (x.getD (maxAbsIndexK x) 0))
def minAbsElemK (x : List α) : Option α := if x.isEmpty then none else some (absK (x.getD (minAbsIndexK x) 0))
def maxElemK (x : List α) : Option α := if x.isEmpty then none else some (x.getD (maxIndexK x) 0)
def minElemK (x : List α) : Option α := if x.isEmpty then none else some (x.getD (minIndexK x) 0)

/-- `Math::max(a, b) = (a < b ? b : a)` -/
def mmax (a b : α) : α := if a < b then b else a
/-- `Math::min(a, b) = (a < b ? a : b)` -/
def mmin (a b : α) : α := if a < b then a else b

end Kernels

/-! ### blocked (`*_blocked`) kernels on the pod array of a `DenseVectorBlocked<b>` -/
section Blocked
variable {α : Type}

/-- component `j` of every block -/
def column (b j : Nat) (l : List α) : List α :=
  (l.zipIdx.filter (fun p => p.2 % b == j)).map (·.1)

/-- `Arch::Axpy::value_blocked_generic`: `r[i][j] += a[j] * x[i][j]` (no alias branch) -/
def axpyBlockedK [Add α] [Mul α] [Zero α] (b : Nat) (a r x : List α) : List α :=
  (List.zipWith (fun ri xi => (ri, xi)) r x).zipIdx.map fun p => p.1.1 + a.getD (p.2 % b) 0 * p.1.2

/-- `Arch::Scale::value_blocked_generic` -/
def scaleBlockedK [Mul α] [Zero α] (alias : Bool) (b : Nat) (s r x : List α) : List α :=
  if alias then r.zipIdx.map fun p => p.1 * s.getD (p.2 % b) 0
  else (List.zipWith (fun _ xi => xi) r x).zipIdx.map fun p => p.1 * s.getD (p.2 % b) 0

/-- `Arch::DotProduct::value_blocked_generic`: one accumulator per block component -/
def dotBlockedK [Add α] [Mul α] [Zero α] (alias : Bool) (b : Nat) (x y : List α) : List α :=
  (List.range b).map fun j =>
    if alias then sumL ((column b j x).map fun xi => xi * xi)
    else sumL (List.zipWith (fun xi yi => xi * yi) (column b j x) (column b j y))

/-- `Arch::TripleDotProduct::value_blocked_generic` -/
def tdotBlockedK [Add α] [Mul α] [Zero α] (xy xz yz : Bool) (b : Nat) (x y z : List α) : List α :=
  (List.range b).map fun j => tdotK xy xz yz (column b j x) (column b j y) (column b j z)

/-- `Arch::Norm2::value_blocked_generic` -/
def norm2BlockedK [Add α] [Mul α] [Zero α] (sqrt : α → α) (b : Nat) (x : List α) : List α :=
  (List.range b).map fun j => sqrt (sumSq (column b j x))

/-- `Arch::Norm2Sqr::value_blocked_generic` -/
def norm2sqrBlockedK [Add α] [Mul α] [Zero α] (b : Nat) (x : List α) : List α :=
  (List.range b).map fun j => sumSq (column b j x)

variable [LT α] [DecidableLT α] [Neg α] [Zero α]

/-- the `value_blocked_generic` index kernels: per component `j`, `m[j] = key(x[0][j])`, then the loop
compares with `key(x[max_i][j])`; `x[0]` is read even when there is no block (`none`) -/
def extremeBlockedK (key : α → α) (better : α → α → Bool) (b : Nat) (x : List α) : Option (List α) :=
  if x.isEmpty then none
  else some ((List.range b).map fun j =>
    let c := column b j x
    key (c.getD (argLoop key better c 0 (key (c.headD 0)) 0) 0))

def maxAbsBlockedK (b : Nat) (x : List α) : Option (List α) := extremeBlockedK absK (fun v m => decide (m < v)) b x
def minAbsBlockedK (b : Nat) (x : List α) : Option (List α) := extremeBlockedK absK (fun v m => decide (v < m)) b x
def maxBlockedK (b : Nat) (x : List α) : Option (List α) := extremeBlockedK id (fun v m => decide (m < v)) b x
def minBlockedK (b : Nat) (x : List α) : Option (List α) := extremeBlockedK id (fun v m => decide (v < m)) b x

/-- `DenseVectorBlocked::component_copy`: the container asserts `block < BlockSize_`, then `Arch::ComponentCopy::value_generic`: `r[i*b + block] = x[i]` -/
def componentCopyK (b block : Nat) (r x : List α) : Option (List α) :=
  let n := r.length / b
  if block < b then
    some ((List.range n).foldl (fun acc i => acc.set (i * b + block) (x.getD i 0)) r)
  else none

/-- `DenseVectorBlocked::component_copy_to`: `x[i] = r[i*b + block]` -/
def componentCopyToK (b block : Nat) (r x : List α) : Option (List α) :=
  let n := r.length / b
  if block < b then
    some ((List.range x.length).map fun i => if i < n then r.getD (i * b + block) 0 else x.getD i 0)
  else none

end Blocked

/-! ### containers -/

/-- nesting of vector containers; `tupleCons f r` is `TupleVector<First, Rest...>` with `r` the
`TupleVector<Rest...>`, `powerCons f r` is `PowerVector<Sub, n>` with `r` the `PowerVector<Sub, n-1>` -/
inductive MVec (α : Type) where
  | dense (d : List α)
  | blocked (b : Nat) (d : List α)
  | tupleOne (f : MVec α)
  | tupleCons (f : MVec α) (r : MVec α)
  | powerOne (f : MVec α)
  | powerCons (f : MVec α) (r : MVec α)
deriving Repr

namespace MVec
variable {α : Type}

/-- the plain vector holding the same scalars -/
def flatten : MVec α → List α
  | dense d => d
  | blocked _ d => d
  | tupleOne f => f.flatten
  | tupleCons f r => f.flatten ++ r.flatten
  | powerOne f => f.flatten
  | powerCons f r => f.flatten ++ r.flatten

/-- same nesting, same block sizes, same leaf lengths -/
def sameShape : MVec α → MVec α → Bool
  | dense d, dense e => d.length == e.length
  | blocked b d, blocked c e => b == c && d.length == e.length
  | tupleOne f, tupleOne g => sameShape f g
  | tupleCons f r, tupleCons g s => sameShape f g && sameShape r s
  | powerOne f, powerOne g => sameShape f g
  | powerCons f r, powerCons g s => sameShape f g && sameShape r s
  | _, _ => false

/-- `this->op()` forwarded to every leaf (format) -/
def map1 (k : List α → List α) : MVec α → MVec α
  | dense d => dense (k d)
  | blocked b d => blocked b (k d)
  | tupleOne f => tupleOne (map1 k f)
  | tupleCons f r => tupleCons (map1 k f) (map1 k r)
  | powerOne f => powerOne (map1 k f)
  | powerCons f r => powerCons (map1 k f) (map1 k r)

/-- `first().op(x.first()); rest().op(x.rest());` down to the leaf kernel `k` -/
def map2 (k : List α → List α → List α) : MVec α → MVec α → MVec α
  | dense r, dense x => dense (k r x)
  | blocked b r, blocked _ x => blocked b (k r x)
  | tupleOne f, tupleOne g => tupleOne (map2 k f g)
  | tupleCons f r, tupleCons g s => tupleCons (map2 k f g) (map2 k r s)
  | powerOne f, powerOne g => powerOne (map2 k f g)
  | powerCons f r, powerCons g s => powerCons (map2 k f g) (map2 k r s)
  | r, _ => r

def map3 (k : List α → List α → List α → List α) : MVec α → MVec α → MVec α → MVec α
  | dense r, dense x, dense y => dense (k r x y)
  | blocked b r, blocked _ x, blocked _ y => blocked b (k r x y)
  | tupleOne f, tupleOne g, tupleOne h => tupleOne (map3 k f g h)
  | tupleCons f r, tupleCons g s, tupleCons h t => tupleCons (map3 k f g h) (map3 k r s t)
  | powerOne f, powerOne g, powerOne h => powerOne (map3 k f g h)
  | powerCons f r, powerCons g s, powerCons h t => powerCons (map3 k f g h) (map3 k r s t)
  | r, _, _ => r

/-- `first().dot(x.first()) + rest().dot(x.rest())` -/
def red2 [Add α] [Zero α] (k : List α → List α → α) : MVec α → MVec α → α
  | dense x, dense y => k x y
  | blocked _ x, blocked _ y => k x y
  | tupleOne f, tupleOne g => red2 k f g
  | tupleCons f r, tupleCons g s => red2 k f g + red2 k r s
  | powerOne f, powerOne g => red2 k f g
  | powerCons f r, powerCons g s => red2 k f g + red2 k r s
  | _, _ => 0

def red3 [Add α] [Zero α] (k : List α → List α → List α → α) : MVec α → MVec α → MVec α → α
  | dense x, dense y, dense z => k x y z
  | blocked _ x, blocked _ y, blocked _ z => k x y z
  | tupleOne f, tupleOne g, tupleOne h => red3 k f g h
  | tupleCons f r, tupleCons g s, tupleCons h t => red3 k f g h + red3 k r s t
  | powerOne f, powerOne g, powerOne h => red3 k f g h
  | powerCons f r, powerCons g s, powerCons h t => red3 k f g h + red3 k r s t
  | _, _, _ => 0

section Ops
variable [Add α] [Mul α] [Zero α] [One α]

/-! The member functions recurse EXPLICITLY, exactly as `TupleVector` / `PowerVector` do
(`first().op(x.first(), args…); rest().op(x.rest(), args…)`): every argument is handed on by name at every
recursive call, so an argument dropped or replaced on the way down is a different function, and the theorems
"composed op = flat kernel with the SAME arguments on the flattened data" (Props/C04.lean) are proof
obligations about each of these hand-overs. -/

/-- `axpy(x, alpha)` -/
def axpy (alias : Bool) (a : α) : MVec α → MVec α → MVec α
  | dense r, dense x => dense (axpyK alias a r x)
  | blocked b r, blocked _ x => blocked b (axpyK alias a r x)
  | tupleOne f, tupleOne g => tupleOne (axpy alias a f g)
  | tupleCons f r, tupleCons g s => tupleCons (axpy alias a f g) (axpy alias a r s)
  | powerOne f, powerOne g => powerOne (axpy alias a f g)
  | powerCons f r, powerCons g s => powerCons (axpy alias a f g) (axpy alias a r s)
  | r, _ => r

/-- `scale(x, alpha)` -/
def scale (alias : Bool) (a : α) : MVec α → MVec α → MVec α
  | dense r, dense x => dense (scaleK alias a r x)
  | blocked b r, blocked _ x => blocked b (scaleK alias a r x)
  | tupleOne f, tupleOne g => tupleOne (scale alias a f g)
  | tupleCons f r, tupleCons g s => tupleCons (scale alias a f g) (scale alias a r s)
  | powerOne f, powerOne g => powerOne (scale alias a f g)
  | powerCons f r, powerCons g s => powerCons (scale alias a f g) (scale alias a r s)
  | r, _ => r

/-- `component_invert(x, alpha)` -/
def componentInvert [Div α] (alias : Bool) (a : α) : MVec α → MVec α → MVec α
  | dense r, dense x => dense (cinvK alias a r x)
  | blocked b r, blocked _ x => blocked b (cinvK alias a r x)
  | tupleOne f, tupleOne g => tupleOne (componentInvert alias a f g)
  | tupleCons f r, tupleCons g s => tupleCons (componentInvert alias a f g) (componentInvert alias a r s)
  | powerOne f, powerOne g => powerOne (componentInvert alias a f g)
  | powerCons f r, powerCons g s => powerCons (componentInvert alias a f g) (componentInvert alias a r s)
  | r, _ => r

/-- `component_product(x, y)` -/
def componentProduct (rx ry : Bool) : MVec α → MVec α → MVec α → MVec α
  | dense r, dense x, dense y => dense (cprodK rx ry r x y)
  | blocked b r, blocked _ x, blocked _ y => blocked b (cprodK rx ry r x y)
  | tupleOne f, tupleOne g, tupleOne h => tupleOne (componentProduct rx ry f g h)
  | tupleCons f r, tupleCons g s, tupleCons h t =>
    tupleCons (componentProduct rx ry f g h) (componentProduct rx ry r s t)
  | powerOne f, powerOne g, powerOne h => powerOne (componentProduct rx ry f g h)
  | powerCons f r, powerCons g s, powerCons h t =>
    powerCons (componentProduct rx ry f g h) (componentProduct rx ry r s t)
  | r, _, _ => r

/-- `copy(x, full)`: `Container::_copy_content` returns for `this == &x` (and `MemoryPool::copy` for equal
pointers); otherwise every array is copied -/
def copy (alias : Bool) : MVec α → MVec α → MVec α
  | dense r, dense x => dense (if alias then r else List.zipWith (fun _ xi => xi) r x)
  | blocked b r, blocked _ x => blocked b (if alias then r else List.zipWith (fun _ xi => xi) r x)
  | tupleOne f, tupleOne g => tupleOne (copy alias f g)
  | tupleCons f r, tupleCons g s => tupleCons (copy alias f g) (copy alias r s)
  | powerOne f, powerOne g => powerOne (copy alias f g)
  | powerCons f r, powerCons g s => powerCons (copy alias f g) (copy alias r s)
  | r, _ => r

/-- `format(value)`: `MemoryPool::set_memory` on every array -/
def format (v : α) : MVec α → MVec α
  | dense d => dense (d.map fun _ => v)
  | blocked b d => blocked b (d.map fun _ => v)
  | tupleOne f => tupleOne (format v f)
  | tupleCons f r => tupleCons (format v f) (format v r)
  | powerOne f => powerOne (format v f)
  | powerCons f r => powerCons (format v f) (format v r)

/-- `dot(x)`: `first().dot(x.first()) + rest().dot(x.rest())` -/
def dot (alias : Bool) : MVec α → MVec α → α
  | dense x, dense y => dotK alias x y
  | blocked _ x, blocked _ y => dotK alias x y
  | tupleOne f, tupleOne g => dot alias f g
  | tupleCons f r, tupleCons g s => dot alias f g + dot alias r s
  | powerOne f, powerOne g => dot alias f g
  | powerCons f r, powerCons g s => dot alias f g + dot alias r s
  | _, _ => 0

/-- `triple_dot(x, y)` -/
def tripleDot (xy xz yz : Bool) : MVec α → MVec α → MVec α → α
  | dense x, dense y, dense z => tdotK xy xz yz x y z
  | blocked _ x, blocked _ y, blocked _ z => tdotK xy xz yz x y z
  | tupleOne f, tupleOne g, tupleOne h => tripleDot xy xz yz f g h
  | tupleCons f r, tupleCons g s, tupleCons h t => tripleDot xy xz yz f g h + tripleDot xy xz yz r s t
  | powerOne f, powerOne g, powerOne h => tripleDot xy xz yz f g h
  | powerCons f r, powerCons g s, powerCons h t => tripleDot xy xz yz f g h + tripleDot xy xz yz r s t
  | _, _, _ => 0

/-- `norm2sqr()`: the leaves use the fallback `Math::sqr(norm2())`, tuple/power vectors add up -/
def norm2sqr (sqrt : α → α) : MVec α → α
  | dense d => let n := norm2K sqrt d; n * n
  | blocked _ d => let n := norm2K sqrt d; n * n
  | tupleOne f => norm2sqr sqrt f
  | tupleCons f r => norm2sqr sqrt f + norm2sqr sqrt r
  | powerOne f => norm2sqr sqrt f
  | powerCons f r => norm2sqr sqrt f + norm2sqr sqrt r

/-- `norm2()`: `TupleVector<First>` forwards, every other composition takes `Math::sqrt(norm2sqr())` -/
def norm2 (sqrt : α → α) : MVec α → α
  | dense d => norm2K sqrt d
  | blocked _ d => norm2K sqrt d
  | tupleOne f => norm2 sqrt f
  | tupleCons f r => sqrt (norm2sqr sqrt f + norm2sqr sqrt r)
  | powerOne f => sqrt (norm2sqr sqrt f)
  | powerCons f r => sqrt (norm2sqr sqrt f + norm2sqr sqrt r)

end Ops

/-! #### flat ↔ composed copies: `DenseVector::copy(VT_)`, `copy_inv(VT_)`, `convert(VT_)`
(= `set_vec` / `set_vec_inv` of the vector classes, with pointer offsets in SCALARS) -/

/-- `size<Perspective::pod>()` -/
def podSize : MVec α → Nat
  | dense d => d.length
  | blocked _ d => d.length
  | tupleOne f => podSize f
  | tupleCons f r => podSize f + podSize r
  | powerOne f => podSize f
  | powerCons f r => podSize f + podSize r

/-- `MemoryPool::copy(pval_set + off, elements, n)` into the flat array -/
def writeAt (buf : List α) (off : Nat) (d : List α) : List α := buf.take off ++ d ++ buf.drop (off + d.length)

/-- `MemoryPool::copy(elements, pval_set + off, n)` out of the flat array -/
def readAt (buf : List α) (off n : Nat) : List α := (buf.drop off).take n

/-- `set_vec(pval_set + off)`: `first().set_vec(p); rest().set_vec(p + first().size<pod>())` -/
def setVec : MVec α → Nat → List α → List α
  | dense d, off, buf => writeAt buf off d
  | blocked _ d, off, buf => writeAt buf off d
  | tupleOne f, off, buf => setVec f off buf
  | tupleCons f r, off, buf => setVec r (off + podSize f) (setVec f off buf)
  | powerOne f, off, buf => setVec f off buf
  | powerCons f r, off, buf => setVec r (off + podSize f) (setVec f off buf)

/-- `set_vec_inv(pval_set + off)` -/
def setVecInv : MVec α → Nat → List α → MVec α
  | dense d, off, buf => dense (readAt buf off d.length)
  | blocked b d, off, buf => blocked b (readAt buf off d.length)
  | tupleOne f, off, buf => tupleOne (setVecInv f off buf)
  | tupleCons f r, off, buf => tupleCons (setVecInv f off buf) (setVecInv r (off + podSize f) buf)
  | powerOne f, off, buf => powerOne (setVecInv f off buf)
  | powerCons f r, off, buf => powerCons (setVecInv f off buf) (setVecInv r (off + podSize f) buf)

/-- offsets at which the leaves are read / written (in flattening order) -/
def leafOffsets : MVec α → Nat → List Nat
  | dense _, off => [off]
  | blocked _ _, off => [off]
  | tupleOne f, off => leafOffsets f off
  | tupleCons f r, off => leafOffsets f off ++ leafOffsets r (off + podSize f)
  | powerOne f, off => leafOffsets f off
  | powerCons f r, off => leafOffsets f off ++ leafOffsets r (off + podSize f)

/-- pod sizes of the leaves (in flattening order) -/
def leafSizes : MVec α → List Nat
  | dense d => [d.length]
  | blocked _ d => [d.length]
  | tupleOne f => leafSizes f
  | tupleCons f r => leafSizes f ++ leafSizes r
  | powerOne f => leafSizes f
  | powerCons f r => leafSizes f ++ leafSizes r

/-- `off, off + n₀, off + n₀ + n₁, …` (one entry per size) -/
def prefixOffsets : Nat → List Nat → List Nat
  | _, [] => []
  | off, n :: t => off :: prefixOffsets (off + n) t

/-- `flat.copy(v)`: `v.set_vec(flat.elements())` -/
def flatCopy (v : MVec α) (flat : List α) : List α := setVec v 0 flat
/-- `flat.copy_inv(v)`: `v.set_vec_inv(flat.elements())` -/
def flatCopyInv (v : MVec α) (flat : List α) : MVec α := setVecInv v 0 flat
/-- `DenseVector::convert(v)`: a fresh vector of `size<pod>()` scalars, then `set_vec` -/
def flatConvert (fill : α) (v : MVec α) : List α := setVec v 0 (List.replicate (podSize v) fill)

/-- `Math::max(first().max_abs_element(), rest().max_abs_element())` etc.; `none` = a leaf is empty -/
def extreme (leaf : List α → Option α) (comb : α → α → α) : MVec α → Option α
  | dense d => leaf d
  | blocked _ d => leaf d
  | tupleOne f => extreme leaf comb f
  | tupleCons f r => (extreme leaf comb f).bind fun a => (extreme leaf comb r).map fun b => comb a b
  | powerOne f => extreme leaf comb f
  | powerCons f r => (extreme leaf comb f).bind fun a => (extreme leaf comb r).map fun b => comb a b

variable [LT α] [DecidableLT α] [Neg α] [Zero α]
def maxAbsElement (v : MVec α) : Option α := extreme maxAbsElemK mmax v
def minAbsElement (v : MVec α) : Option α := extreme minAbsElemK mmin v
def maxElement (v : MVec α) : Option α := extreme maxElemK mmax v
def minElement (v : MVec α) : Option α := extreme minElemK mmin v

end MVec

/-! ### sparse vectors (`SparseVector`, `SparseVectorBlocked`)

The value type `β` is a scalar or a block. The C++ keeps two parallel arrays (indices, values) of
`allocated_elements()` entries that are always updated in lockstep; `buf` is that pair of arrays, `used` is
`_used_elements()`, `inc` is `alloc_increment()` (`min(size, 1000)`), `sorted` is the `_sorted()` flag.
`operator()(index, val)` appends (first allocation / free slot / reallocation by `inc`, new arrays filled with
4711); every reading member first calls `sort()`: stable `_insertion_sort` by index, all but the last entry of
a run of equal indices are marked with the maximal index, sorted again, the marked tail is cut off `used`. -/
section Sparse
variable {β : Type}

def idxMax : Nat := 2 ^ 64 - 1
/-- `IT_(4711)`: fill value of freshly allocated index arrays -/
def idxFill : Nat := 4711

/-- one step of `_insertion_sort`: the element moves left past every strictly larger key -/
def insSorted (k : Nat) (v : β) : List (Nat × β) → List (Nat × β)
  | [] => [(k, v)]
  | (k', v') :: t => if k < k' then (k, v) :: (k', v') :: t else (k', v') :: insSorted k v t

def insertionSort (l : List (Nat × β)) : List (Nat × β) :=
  l.foldl (fun acc p => insSorted p.1 p.2 acc) []

/-- `if(pindices[i-1] == pindices[i]) pindices[i-1] = max` -/
def markDups : List (Nat × β) → List (Nat × β)
  | [] => []
  | [p] => [p]
  | p :: q :: t => (if p.1 == q.1 then (idxMax, p.2) else p) :: markDups (q :: t)

/-- `while(pindices[used - 1 - junk] == max && junk < used) ++junk;` -/
def trailingMax (l : List (Nat × β)) : Nat := (l.reverse.takeWhile (fun p => p.1 == idxMax)).length

/-- `operator()(index) const`: first stored index `>= index`, value if equal, else zero -/
def sparseGet (zero : β) (entries : List (Nat × β)) (i : Nat) : β :=
  match entries.find? (fun p => decide (i ≤ p.1)) with
  | some p => if p.1 == i then p.2 else zero
  | none => zero

structure SVec (β : Type) where
  size : Nat
  buf : List (Nat × β)
  used : Nat
  inc : Nat
  sorted : Bool
deriving Repr

namespace SVec

/-- `SparseVector(Index size)` -/
def empty (size : Nat) : SVec β := { size := size, buf := [], used := 0, inc := min size 1000, sorted := true }

/-- the stored entries (first `used` slots of the arrays) -/
def entries (s : SVec β) : List (Nat × β) := s.buf.take s.used

/-- `operator()(Index index, DT_ val)` -/
def write (fillv : β) (s : SVec β) (i : Nat) (v : β) : SVec β :=
  if s.buf.isEmpty then
    { s with buf := (List.replicate s.inc (idxFill, fillv)).set 0 (i, v), used := 1, sorted := false }
  else if s.used < s.buf.length then
    { s with buf := s.buf.set s.used (i, v), used := s.used + 1, sorted := false }
  else
    { s with buf := (s.buf.take s.used ++ List.replicate (s.buf.length + s.inc - s.used) (idxFill, fillv)).set s.used (i, v),
             used := s.used + 1, sorted := false }

/-- `sort()` -/
def sort (s : SVec β) : SVec β :=
  if s.sorted then s
  else if s.used == 0 then { s with sorted := true }
  else
    let e := insertionSort (markDups (insertionSort (s.buf.take s.used)))
    { s with buf := e ++ s.buf.drop s.used, used := s.used - trailingMax e, sorted := true }

/-- `operator()(Index index) const` (sorts through `const_cast`): value and new state -/
def get (zero : β) (s : SVec β) (i : Nat) : β × SVec β :=
  if s.buf.isEmpty then (zero, s)
  else
    let s' := s.sort
    (sparseGet zero s'.entries i, s')

/-- `used_elements()` (sorts) -/
def usedElements (s : SVec β) : Nat × SVec β := let s' := s.sort; (s'.used, s')

/-- `Container::format(value)`: every slot of the value array is overwritten, nothing else changes -/
def format (setv : β → β) (s : SVec β) : SVec β := { s with buf := s.buf.map fun p => (p.1, setv p.2) }

/-- the value array as scalars (`elements<Perspective::pod>()`, sorts) -/
def elements {α : Type} (flat : β → List α) (s : SVec β) : List α := (s.buf.map fun p => flat p.2).flatten

/-- which of the four members -/
inductive ExtKind where
  | maxAbs | minAbs | max | min
deriving Repr, DecidableEq

/-- the dense kernel that belongs to a member (`Arch::MaxAbsIndex` … + element fetch) -/
def ExtKind.leaf {α : Type} [LT α] [DecidableLT α] [Neg α] [Zero α] : ExtKind → List α → Option α
  | .maxAbs => maxAbsElemK
  | .minAbs => minAbsElemK
  | .max => maxElemK
  | .min => minElemK

/-- the scalars the fixed members scan: the first `used_elements<pod>()` scalars of the value array, i.e. the
scalars of the first `used_elements()` stored values (`elements<pod>()` after `sort()`) -/
def stored {α : Type} (flat : β → List α) (s : SVec β) : List α := (s.entries.map fun p => flat p.2).flatten

/-- the body of the fixed members: `used = used_elements<pod>()`, `n = size<pod>()`, `e` = the stored scalars;
`result = 0`, only the stored scalars are scanned, the implicit zeros of the other `n - used` positions are
accounted for -/
def extremeValue {α : Type} [LT α] [DecidableLT α] [Neg α] [Zero α] (kind : ExtKind) (used n : Nat) (e : List α) : α :=
  match kind with
  | .maxAbs => if 0 < used then (maxAbsElemK e).getD 0 else 0
  | .minAbs => if 0 < used ∧ used = n then (minAbsElemK e).getD 0 else 0
  | .max =>
    if 0 < used then
      let m := (maxElemK e).getD 0
      if used < n ∧ m < 0 then 0 else m
    else 0
  | .min =>
    if 0 < used then
      let m := (minElemK e).getD 0
      if used < n ∧ 0 < m then 0 else m
    else 0

/-- `max_abs_element()`, `min_abs_element()`, `max_element()`, `min_element()` of SparseVector /
SparseVectorBlocked AS CODED (after fix 1e5a5ec6a); `used_elements<pod>()` sorts. `w` is the number of scalars per
stored value (1 or the block size). -/
def extremeCoded {α : Type} [LT α] [DecidableLT α] [Neg α] [Zero α] (kind : ExtKind) (flat : β → List α) (w : Nat)
    (s : SVec β) : α × SVec β :=
  let s' := s.sort
  (extremeValue kind (s'.used * w) (s.size * w) (s'.stored flat), s')

/-- "last write wins": the value of the last stored entry with index `i` -/
def lookupLast : List (Nat × β) → Nat → Option β
  | [], _ => none
  | (k, v) :: t, i => (lookupLast t i).or (if k = i then some v else none)

/-- the partial map a sparse vector denotes -/
def lookup (s : SVec β) (i : Nat) : Option β := lookupLast s.entries i

/-- the dense vector a sparse vector denotes -/
def dense (zero : β) (s : SVec β) : List β := (List.range s.size).map fun i => (s.lookup i).getD zero

/-- SPECIFICATION of `max_abs_element()` etc.: the dense kernel on the denoted vector -/
def extremeSpec {α : Type} (leafK : List α → Option α) (flat : β → List α) (zero : β) (s : SVec β) : Option α :=
  leafK ((s.dense zero).map flat).flatten

end SVec

/-- scripts of member calls (what the correspondence run executes) -/
inductive SOp (β : Type) where
  | write (i : Nat) (v : β)
  | read (i : Nat)
  | format
  | used

/-- run a script; results of the reads (`used` yields no value here, it only sorts) -/
def runScript (fillv zero : β) (setv : β → β) : List (SOp β) → SVec β → List β × SVec β
  | [], s => ([], s)
  | .write i v :: t, s => runScript fillv zero setv t (s.write fillv i v)
  | .read i :: t, s =>
    let (v, s') := s.get zero i
    let (vs, s'') := runScript fillv zero setv t s'
    (v :: vs, s'')
  | .format :: t, s => runScript fillv zero setv t (s.format setv)
  | .used :: t, s => runScript fillv zero setv t s.usedElements.2

/-- the same script on the denoted partial map -/
def specScript (zero : β) (setv : β → β) : List (SOp β) → (Nat → Option β) → List β × (Nat → Option β)
  | [], m => ([], m)
  | .write i v :: t, m => specScript zero setv t (fun j => if j = i then some v else m j)
  | .read i :: t, m =>
    let (vs, m') := specScript zero setv t m
    ((m i).getD zero :: vs, m')
  | .format :: t, m => specScript zero setv t (fun j => (m j).map setv)
  | .used :: t, m => specScript zero setv t m

end Sparse

end FeatModel.Vec
