import FeatModel.Model.FETrace
/-!
Model of the facet-to-cell reference map of `Assembly::TraceAssembler` in 3-D (property C16; core Lean only; imports
C15's `FETrace` read-only: `fim`, `refVertex`, `embedL`, `quadSyms`, `triSyms`, `orientQuad`).

For a facet with stored vertex row `r` (in cell-local vertex numbers) adjacent to a cell on its local face `l`:
* `orientCode`  : `_find_local_facet`:  `ori = CongruencySampler<FacetType>::compare(vert_at_face[face], cim)`
                  (source = the stored facet row, target = the cell's local face),
* `congTrafo`   : `Geometry::Intern::CongruencyTrafo<FacetType>::compute(ori_mat, ori_vec, ori)`,
* `faceRef`     : `Geometry::Intern::FaceRefTrafo<ShapeType, 2>::compute(face_mat, face_vec, l)`
                  (= the embedding of the canonical local face, tied to the real tables by the `trpt` correspondence),
* `facetPoint`  : `cub_cf = face_mat * (ori_mat * cub_pt + ori_vec) + face_vec`.
-/
namespace FeatModel.TraceOrient
open FeatModel.Poly FeatModel.FE

/-- `CongruencySampler<Simplex<2>>::compare(src, trg)`; `none` = invalid (-1) -/
def orientTri (src trg : List Nat) : Option Nat :=
  let s0 := src.getD 0 0
  let s1 := src.getD 1 0
  let t := fun i => trg.getD i 0
  if s0 = t 0 then (if s1 = t 1 then some 0 else if s1 = t 2 then some 4 else none)
  else if s0 = t 1 then (if s1 = t 2 then some 1 else if s1 = t 0 then some 5 else none)
  else if s0 = t 2 then (if s1 = t 0 then some 2 else if s1 = t 1 then some 6 else none)
  else none

/-- the orientation code the assembler stores for a facet row against a cell's local face -/
def orientCode (k : Kind) (stored canon : List Nat) : Option Nat :=
  match k with
  | .H => some (orientQuad stored canon)
  | .S => orientTri stored canon

/-- `CongruencyTrafo::compute`: (2×2 matrix rows, vector) -/
def congTrafo : Kind → Nat → Option (List (List Rat) × List Rat)
  | .S, 0 => some ([[1, 0], [0, 1]], [0, 0])
  | .S, 1 => some ([[-1, -1], [1, 0]], [1, 0])
  | .S, 2 => some ([[0, 1], [-1, -1]], [0, 1])
  | .S, 4 => some ([[0, 1], [1, 0]], [0, 0])
  | .S, 5 => some ([[-1, -1], [0, 1]], [1, 0])
  | .S, 6 => some ([[1, 0], [-1, -1]], [0, 1])
  | .H, 0 => some ([[1, 0], [0, 1]], [0, 0])
  | .H, 1 => some ([[0, -1], [1, 0]], [0, 0])
  | .H, 2 => some ([[0, 1], [-1, 0]], [0, 0])
  | .H, 3 => some ([[-1, 0], [0, -1]], [0, 0])
  | .H, 4 => some ([[0, 1], [1, 0]], [0, 0])
  | .H, 5 => some ([[-1, 0], [0, 1]], [0, 0])
  | .H, 6 => some ([[1, 0], [0, -1]], [0, 0])
  | .H, 7 => some ([[0, -1], [-1, 0]], [0, 0])
  | _, _ => none

/-- facet coordinate polynomials after the orientation map: component `a` of `ori_mat * s + ori_vec` -/
def oriPolys (m : List (List Rat) × List Rat) : List Poly :=
  (List.range 2).map fun a =>
    normalize [(FE.mat m.1 a 0, [1, 0]), (FE.mat m.1 a 1, [0, 1]), (m.2.getD a 0, [0, 0])]

/-- canonical local face `l` of the 3-D reference cell (cell-local vertex numbers) -/
def canonFace (k : Kind) (l : Nat) : List Nat := (fim k 3 2).getD l []

/-- `FaceRefTrafo`: the embedding of the canonical local face into the cell's reference coordinates -/
def faceRef (k : Kind) (l : Nat) : List Poly := embedL k 3 2 (canonFace k l)

/-- the point of the cell's reference element the assembler evaluates for the facet point `s`, as polynomials in `s` -/
def facetMap (k : Kind) (l code : Nat) : Option (List Poly) :=
  (congTrafo k code).map fun m => (faceRef k l).map fun p => substL (oriPolys m) p

def facetPoint (k : Kind) (l code : Nat) (s : List Rat) : Option (List Rat) :=
  (facetMap k l code).map fun ps => ps.map (evalAt s)

/-- the geometric truth: the facet with stored row `r` is parametrised by `s ↦ Σ_m N_m(s) · vertex(r[m])`; in the cell's
reference coordinates this is `embedL` of the stored row -/
def storedMap (k : Kind) (r : List Nat) : List Poly := embedL k 3 2 r

def syms (k : Kind) : List (List Nat) := if k == Kind.S then triSyms else quadSyms

def polysEq (a b : List Poly) : Bool := a.length == b.length && (a.zip b).all fun pq => equivT pq.1 pq.2

/-- for every local face and every stored vertex order: the assembler's point map is the parametrisation of the stored
facet (so the point lies on the right local face and is the same physical point from both adjacent cells) -/
def consistentAll (k : Kind) : Bool :=
  (List.range (numFaces k 3 2)).all fun l => (syms k).all fun π =>
    let r := storedRow k 3 2 l π
    match orientCode k r (canonFace k l) with
    | none => false
    | some c =>
      match facetMap k l c with
      | none => false
      | some ps => polysEq ps (storedMap k r)

/-- the code of the inverse symmetry: the comparison with swapped arguments -/
def inverseCode (k : Kind) (stored canon : List Nat) : Option Nat := orientCode k canon stored

/-- with the inverse code the point map is still right exactly for the self-inverse symmetries -/
def inverseAll (k : Kind) : Bool :=
  (List.range (numFaces k 3 2)).all fun l => (syms k).all fun π =>
    let r := storedRow k 3 2 l π
    match orientCode k r (canonFace k l), inverseCode k r (canonFace k l) with
    | some c, some ci =>
      match facetMap k l ci with
      | none => false
      | some ps => (polysEq ps (storedMap k r)) == (c == ci)
    | _, _ => false

/-- the non-self-inverse codes (3-D rotations): quadrilateral 1, 2; triangle 1, 2 -/
def rotationCodes (k : Kind) : List Nat :=
  ((syms k).filterMap fun π =>
    let r := storedRow k 3 2 0 π
    match orientCode k r (canonFace k 0), inverseCode k r (canonFace k 0) with
    | some c, some ci => if c != ci then some c else none
    | _, _ => none)

end FeatModel.TraceOrient
