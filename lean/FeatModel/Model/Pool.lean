/-
C20 — executable model of FEAT's reference-counted memory pool (kernel/util/memory_pool.hpp) and of the lifetime
operations of LAFEM containers (kernel/lafem/container.hpp: ctor/dtor/clear/assign(convert)/clone/move, the
`_foreign_memory` range views; the constructors of DenseVector, DenseVectorBlocked, SparseMatrixCSR/BCSR/Banded
that allocate, adopt or share arrays; SparseLayout).

Core Lean only.  Chunk ids are allocation numbers (the pool is a list indexed by chunk id, `none` = freed), so an
id is never reused; the real pool is keyed by `malloc` addresses, the correspondence run compares states up to
the canonical renaming of chunks by first appearance.
-/
namespace FeatModel.Pool

/-- how a history can end abnormally (forkcase.hpp classes) -/
inductive Abort where
  | abort   -- XASSERT / XABORT
  | exc     -- uncaught C++ exception (std::out_of_range from `.at`)
  | exit1   -- MemoryPool::finalize found chunks: exit(1)
  | badop   -- the history is not executable (harness refuses)
deriving DecidableEq, Repr

structure Chunk where
  count : Nat
  bytes : Nat
  vals  : List Int
deriving Repr

/-- `MemoryPool::_pool`: chunk id ↦ (reference count, byte size) (+ contents) -/
abbrev Pool := List (Option Chunk)

inductive Ptr where
  | null
  | at (id : Nat) (off : Nat)
deriving DecidableEq, Repr

def Ptr.add : Ptr → Nat → Ptr
  | .null, _ => .null
  | .at id off, k => .at id (off + k)

def get (p : Pool) (id : Nat) : Option Chunk :=
  match p[id]? with
  | some (some c) => some c
  | _ => none

/-- reference count of a chunk, 0 when it is not in the pool -/
def count (p : Pool) (id : Nat) : Nat :=
  match get p id with
  | some c => c.count
  | none => 0

/-- `count%4 != 0 → count + (4 - count%4)` -/
def padded (n : Nat) : Nat := if n % 4 = 0 then n else n + (4 - n % 4)

/-- `MemoryPool::allocate_memory<T>(n)`: `nullptr` (not registered) for `n = 0` -/
def alloc (p : Pool) (n esz : Nat) (vals : List Int) : Pool × Ptr :=
  if n = 0 then (p, .null)
  else (p ++ [some { count := 1, bytes := padded n * esz, vals := vals }], .at p.length 0)

/-- `MemoryPool::increase_memory`: no-op on the null pointer of a zero-sized array (which is not registered),
    aborts on an address that is not a key of the map -/
def incr (p : Pool) (q : Ptr) : Except Abort Pool :=
  match q with
  | .null => .ok p
  | .at id off =>
    if off ≠ 0 then .error .abort
    else match get p id with
      | none => .error .abort
      | some c => .ok (p.set id (some { c with count := c.count + 1 }))

/-- `MemoryPool::release_memory`: no-op on null; frees when the counter is 1; aborts on an unknown address -/
def release (p : Pool) (q : Ptr) : Except Abort Pool :=
  match q with
  | .null => .ok p
  | .at id off =>
    if off ≠ 0 then .error .abort
    else match get p id with
      | none => .error .abort
      | some c =>
        if c.count = 1 then .ok (p.set id none)
        else .ok (p.set id (some { c with count := c.count - 1 }))

def incrAll (p : Pool) : List Ptr → Except Abort Pool
  | [] => .ok p
  | q :: qs => match incr p q with
    | .error e => .error e
    | .ok p' => incrAll p' qs

def releaseAll (p : Pool) : List Ptr → Except Abort Pool
  | [] => .ok p
  | q :: qs => match release p q with
    | .error e => .error e
    | .ok p' => releaseAll p' qs

/-- read `n` values through a pointer (empty when the pointer does not point into a live chunk) -/
def readArr (p : Pool) (q : Ptr) (n : Nat) : List Int :=
  match q with
  | .null => []
  | .at id off => match get p id with
    | some c => (c.vals.drop off).take n
    | none => []

def writeList (l : List Int) (off : Nat) : List Int → List Int
  | [] => l
  | v :: vs => writeList (l.set off v) (off + 1) vs

/-- write values through a pointer -/
def writeArr (p : Pool) (q : Ptr) (vs : List Int) : Pool :=
  match q with
  | .null => p
  | .at id off => match get p id with
    | some c => p.set id (some { c with vals := writeList c.vals off vs })
    | none => p

def iota (v : Int) (n : Nat) : List Int := (List.range n).map (fun (i : Nat) => v + (i : Int))

/-- allocate one array per (source pointer, size); `copy` = memcpy/convert the source contents -/
def allocAll (p : Pool) (esz : Nat) (copy : Bool) : List (Ptr × Nat) → Pool × List Ptr
  | [] => (p, [])
  | (q, n) :: rest =>
    let vals := if copy then readArr p q n else List.replicate n 0
    let (p1, r) := alloc p n esz vals
    let (p2, rs) := allocAll p1 esz copy rest
    (p2, r :: rs)

/-- a LAFEM container (the members of `Container<DT_, IT_>`; `_scalar_dt` is empty for all modelled kinds) -/
structure Cont where
  kind : Nat          -- 0 DenseVector, 1 DenseVectorBlocked<2>, 2 CSR, 3 BCSR<2,2>, 4 Banded, 5 DenseMatrix,
                      -- 6 CSCR, 7 SparseVector, 8 SparseVectorBlocked<2>
  dt : Nat            -- 0 = 8-byte data type (Q), 1 = float
  it : Nat            -- 0 = 32-bit index, 1 = 64-bit index
  elems : List Ptr
  elemsSize : List Nat
  inds : List Ptr
  indsSize : List Nat
  sidx : List Nat
  foreign : Bool
deriving Repr

structure Layout where
  lk : Nat            -- 0 = lt_csr (CSR and BCSR), 1 = lt_banded
  it : Nat
  inds : List Ptr
  indsSize : List Nat
  sidx : List Nat
deriving Repr

def esz (dt : Nat) : Nat := if dt = 0 then 8 else 4
def isz (it : Nat) : Nat := if it = 0 then 4 else 8

def Cont.size (c : Cont) : Nat := c.sidx.headD 0

def Cont.empty (kind dt it : Nat) (sidx : List Nat) : Cont :=
  { kind := kind, dt := dt, it := it, elems := [], elemsSize := [], inds := [], indsSize := [], sidx := sidx,
    foreign := false }

/-- what the default constructor of each kind leaves in `_scalar_index` -/
def defaultSidx : Nat → List Nat
  | 0 => [0] | 1 => [0] | 2 => [0, 0, 0, 0] | 3 => [0, 0, 0, 0] | 5 => [0, 0, 0] | 7 => [0, 0, 0, 0, 1]
  | 8 => [0, 0, 0, 0, 1] | _ => [0, 0, 0, 0, 0]

/-- the arrays a container releases in its destructor / clear / move / assign: none for a range view -/
def Cont.owned (c : Cont) : List Ptr := if c.foreign then [] else c.elems ++ c.inds

def Cont.releaseOwn (p : Pool) (c : Cont) : Except Abort Pool := releaseAll p c.owned

/-- `Container::clear` -/
def Cont.clear (p : Pool) (c : Cont) : Except Abort (Pool × Cont) :=
  match c.releaseOwn p with
  | .error e => .error e
  | .ok p' => .ok (p', Cont.empty c.kind c.dt c.it [])

/-- `Container::clone(const Container&, CloneMode)` (same data/index types);
    modes: 0 Shallow, 1 Layout, 2 Weak, 3 Deep, 4 Allocate -/
def Cont.cloneFrom (p : Pool) (self other : Cont) (sameObj : Bool) (mode : Nat) : Except Abort (Pool × Cont) :=
  if sameObj then .error .abort
  else if other.foreign && mode != 3 then .error .abort
  else match self.releaseOwn p with
    | .error e => .error e
    | .ok p0 =>
      let base : Cont := { self with sidx := other.sidx, elemsSize := other.elemsSize, indsSize := other.indsSize,
                                     foreign := false, elems := [], inds := [] }
      if mode = 3 || mode = 4 then
        let (p1, is) := allocAll p0 (isz self.it) (mode = 3) (other.inds.zip other.indsSize)
        let (p2, es) := allocAll p1 (esz self.dt) (mode = 3) (other.elems.zip other.elemsSize)
        .ok (p2, { base with elems := es, inds := is })
      else match incrAll p0 other.inds with
        | .error e => .error e
        | .ok p1 =>
          if mode = 0 then
            match incrAll p1 other.elems with
            | .error e => .error e
            | .ok p2 => .ok (p2, { base with elems := other.elems, inds := other.inds })
          else
            let (p2, es) := allocAll p1 (esz self.dt) (mode = 2) (other.elems.zip other.elemsSize)
            .ok (p2, { base with elems := es, inds := other.inds })

/-- one half of `Container::assign`: arrays of an equal type are shared (`increase_memory`), arrays of another
    type are allocated and converted -/
def shareOrConvert (p : Pool) (same : Bool) (esz : Nat) (ptrs : List Ptr) (sizes : List Nat) :
    Except Abort (Pool × List Ptr) :=
  if same then
    match incrAll p ptrs with
    | .error e => .error e
    | .ok p1 => .ok (p1, ptrs)
  else .ok (allocAll p esz true (ptrs.zip sizes))

/-- `Container::assign` (= `convert` between equal kinds): shares the arrays whose type agrees, allocates and
    converts the others.  `sameObj`: `x.convert(x)` returns immediately (checked before anything else). -/
def Cont.assign (p : Pool) (self other : Cont) (sameObj : Bool) : Except Abort (Pool × Cont) :=
  if sameObj then .ok (p, self)
  else if other.foreign then .error .abort
  else match self.releaseOwn p with
    | .error e => .error e
    | .ok p0 =>
        match shareOrConvert p0 (self.dt = other.dt) (esz self.dt) other.elems other.elemsSize with
        | .error e => .error e
        | .ok (p1, es) =>
          match shareOrConvert p1 (self.it = other.it) (isz self.it) other.inds other.indsSize with
          | .error e => .error e
          | .ok (p2, is) =>
            .ok (p2, { self with sidx := other.sidx, elemsSize := other.elemsSize, indsSize := other.indsSize,
                                 foreign := false, elems := es, inds := is })

/-- `Container::clone(const Container<DT2_, IT2_>&, mode)`: temporary `t(other.size()); t.assign(other);
    clone(t, mode)`; `t` is destroyed on return -/
def Cont.cloneCross (p : Pool) (self other : Cont) (mode : Nat) : Except Abort (Pool × Cont) :=
  let t := Cont.empty self.kind self.dt self.it [other.size]
  match Cont.assign p t other false with
  | .error e => .error e
  | .ok (p1, t1) =>
    match Cont.cloneFrom p1 self t1 false mode with
    | .error e => .error e
    | .ok (p2, s) =>
      match t1.releaseOwn p2 with
      | .error e => .error e
      | .ok p3 => .ok (p3, s)

/-- `DenseVectorBlocked::convert(const DenseVector&)` (source kind 0) and `DenseVector::convert(const
    DenseVectorBlocked&)` (source kind 1): the target is cleared, then shares the source's data array; an odd-sized
    dense vector cannot be blocked (assertion, checked first); an empty source owns no array -/
def Cont.xconvFrom (p : Pool) (self other : Cont) : Except Abort (Pool × Cont) :=
  if other.kind = 0 && other.size % 2 != 0 then .error .abort
  else match self.releaseOwn p with
    | .error e => .error e
    | .ok p0 =>
      let n := if other.kind = 0 then other.size / 2 else other.size * 2
      let len := if other.kind = 0 then other.size / 2 * 2 else other.size * 2
      match other.elems with
      | [] => .ok (p0, Cont.empty (1 - other.kind) other.dt other.it [n])
      | q :: _ =>
        match incr p0 q with
        | .error e => .error e
        | .ok p1 =>
          .ok (p1, { Cont.empty (1 - other.kind) other.dt other.it [n] with elems := [q], elemsSize := [len] })

/-- size of the data array a matrix built from a layout allocates -/
def layoutElems (kind : Nat) (sidx : List Nat) : Option Nat :=
  if kind = 2 || kind = 6 then sidx[3]?
  else if kind = 3 then (sidx[3]?).map (· * 4)
  else match sidx[1]?, sidx[4]? with
    | some r, some k => some (r * k)
    | _, _ => none

/-- what precedes the sharing in `M(layout)` / `m = layout`: the constructor reads `layout._scalar_index.at(0)`
    (throws for the layout of a moved-from matrix); the assignment releases all arrays of the live target -/
def layoutPre (p : Pool) (old : Option Cont) (L : Layout) : Except Abort Pool :=
  match old with
  | none => if L.sidx = [] then .error .exc else .ok p
  | some ca => releaseAll p (ca.elems ++ ca.inds)

/-- `SparseMatrix*(const SparseLayout&)` and `operator=(const SparseLayout&)`: index arrays shared with the layout,
    a new data array of the size the scalars prescribe (filled by the harness with `fill, fill+1, …`) -/
def Cont.fromLayout (p : Pool) (old : Option Cont) (k d : Nat) (L : Layout) (fill : Int) : Except Abort (Pool × Cont) :=
  match layoutPre p old L with
  | .error e => .error e
  | .ok p0 =>
    match incrAll p0 L.inds with
    | .error e => .error e
    | .ok p1 =>
      match layoutElems k L.sidx with
      | none => .error .exc
      | some ne =>
        .ok ((alloc p1 ne (esz d) (iota fill ne)).1,
             { Cont.empty k d L.it L.sidx with elems := [(alloc p1 ne (esz d) (iota fill ne)).2], elemsSize := [ne],
                                               inds := L.inds, indsSize := L.indsSize })

/-- a live target of `m = layout` must have the layout's index type (and matrices are never range views) -/
def mlayBad (old : Option Cont) (L : Layout) : Bool :=
  match old with
  | some ca => ca.it != L.it || ca.foreign
  | none => false

/-- `SparseVector(Blocked)::convert(other)` is `this->sort(); this->clone(other)` (a DEEP copy in any case):
    `sort()` is a no-op on our always-sorted vectors (and returns at once on a cleared / moved-from one);
    `x.convert(x)` runs into the self-clone abort -/
def Cont.svConvert (p : Pool) (self other : Cont) (sameObj : Bool) : Except Abort (Pool × Cont) :=
  if self.dt = other.dt && self.it = other.it then Cont.cloneFrom p self other sameObj 3
  else Cont.cloneCross p self other 3

/-- `convert` between containers of one kind: `Container::assign`, except for the sparse vectors (kinds 7, 8) -/
def Cont.convertFrom (p : Pool) (self other : Cont) (sameObj : Bool) : Except Abort (Pool × Cont) :=
  if other.kind ≥ 7 then Cont.svConvert p self other sameObj else Cont.assign p self other sameObj

/-- the state a moved-from container is left in (`_foreign_memory` is not reset) -/
def Cont.movedFrom (c : Cont) : Cont :=
  { c with elems := [], elemsSize := [], inds := [], indsSize := [], sidx := [] }

/-- `Container::move` (move assignment of two distinct objects): returns (pool, target, source) -/
def Cont.moveAssign (p : Pool) (self other : Cont) : Except Abort (Pool × Cont × Cont) :=
  match self.releaseOwn p with
  | .error e => .error e
  | .ok p0 => .ok (p0, { other with kind := self.kind, dt := self.dt, it := self.it }, other.movedFrom)

/-- fill freshly allocated arrays with `v, v+1, …` (what the harness does through the array accessors) -/
def fillArrs (p : Pool) (v : Int) : List (Ptr × Nat) → Pool
  | [] => p
  | (q, n) :: rest => fillArrs (writeArr p q (iota v n)) v rest

/-- `Container::format(v)`: every data array is set to `v` -/
def formatArrs (p : Pool) (v : Int) : List (Ptr × Nat) → Pool
  | [] => p
  | (q, n) :: rest => formatArrs (writeArr p q (List.replicate n v)) v rest

/-- `MemoryPool::copy(dest, src, n)` for each pair of arrays, in order: the contents are written INTO the existing
    arrays of the target (no allocation, no counter changes) -/
def copyArrs (p : Pool) : List (Ptr × Ptr × Nat) → Pool
  | [] => p
  | (d, q, n) :: rest => copyArrs (if d = q then p else writeArr p d (readArr p q n)) rest

/-- the whole model state: 8 container slots, 4 layout slots, the pool -/
structure State where
  pool : Pool
  slots : List (Option Cont)
  lays : List (Option Layout)
deriving Repr

def State.init : State := { pool := [], slots := List.replicate 8 none, lays := List.replicate 4 none }

/-- the empty runtime with any number of container / layout slots (boundary-size stream: 300 containers) -/
def State.initN (n m : Nat) : State := { pool := [], slots := List.replicate n none, lays := List.replicate m none }

def State.slot (s : State) (a : Nat) : Option Cont := (s.slots[a]?).join
def State.lay (s : State) (l : Nat) : Option Layout := (s.lays[l]?).join
def State.setSlot (s : State) (a : Nat) (c : Option Cont) : State := { s with slots := s.slots.set a c }
def State.setLay (s : State) (l : Nat) (c : Option Layout) : State := { s with lays := s.lays.set l c }

inductive Op where
  | new (a kind dt it n : Nat) (v : Int)
  | mat (a kind dt it r c p : Nat) (v : Int) (variant : Nat)
  | band (a dt it r noff : Nat) (v : Int)
  | adopt (a b : Nat)
  | range (a b n off : Nat)
  | clone (a b mode : Nat) (fill : Int)
  | conv (a b dt it : Nat)
  | xconv (a b : Nat)
  | move (a b : Nat)
  | clear (a : Nat)
  | destroy (a : Nat)
  | format (a : Nat) (v : Int)
  | write (a w j i : Nat) (v : Int)
  | lay (l a : Nat)
  | mlay (a l kind dt : Nat) (fill : Int)
  | ldrop (l : Nat)
  | mk (a kind dt it n : Nat) (v : Int)
  | copy (a b full : Nat)
  | lmove (d src : Nat)
  | lvec (k : Nat)
deriving Repr

/-- `SparseMatrixBanded` constructor: number of used elements for `rows = cols = r`, offsets `r-1+j` -/
def bandUsed (r noff : Nat) : Nat :=
  ((List.range noff).map (fun j =>
    let off := r - 1 + j
    let x := r + r - off - 1
    r + min r x - max x r)).foldl (· + ·) 0

def elemPtr0 (c : Cont) : Ptr := c.elems.headD .null

/-- `SparseLayoutId` of a matrix kind: 0 = lt_csr (CSR, BCSR), 1 = lt_banded, 2 = lt_cscr -/
def layKind (kind : Nat) : Nat := if kind = 4 then 1 else if kind = 6 then 2 else 0

/-- the arrays a (possibly absent) layout object holds -/
def layoutInds : Option Layout → List Ptr
  | none => []
  | some o => o.inds

/-- the state a moved-from `SparseLayout` is left in: all three vectors were moved out -/
def Layout.movedFrom (L : Layout) : Layout := { L with inds := [], indsSize := [], sidx := [] }

/-- a layout object can only be assigned a layout of its own type -/
def layCompat (old : Option Layout) (lk it : Nat) : Bool :=
  match old with
  | none => true
  | some o => o.lk = lk && o.it = it

def step (s : State) (op : Op) : Except Abort State :=
  match op with
  | .new a kind dt it n v =>
    if a ≥ s.slots.length || (s.slot a).isSome || kind > 1 then .error .badop
    else
      let len := if kind = 0 then n else 2 * n
      if n = 0 then .ok (s.setSlot a (some (Cont.empty kind dt it [0])))
      else
        let (p1, q) := alloc s.pool len (esz dt) (iota v len)
        .ok ({ s with pool := p1 }.setSlot a
          (some { Cont.empty kind dt it [n] with elems := [q], elemsSize := [len] }))
  | .mat a kind dt it r c k v variant =>
    if a ≥ s.slots.length || (s.slot a).isSome || (kind != 2 && kind != 3) || r = 0 || c = 0 then .error .badop
    else
      let bs := if kind = 2 then 1 else 4
      let nnz := r * k
      let sidx := [r * c, r, c, nnz]
      if variant = 0 && nnz = 0 then .ok (s.setSlot a (some (Cont.empty kind dt it sidx)))
      else
        let ci := (List.range nnz).map (fun i => ((i % (if k = 0 then 1 else k) : Nat) : Int))
        let rp := (List.range (r + 1)).map (fun i => ((i * k : Nat) : Int))
        let (p1, qci) := alloc s.pool nnz (isz it) ci
        let (p2, qrp) := alloc p1 (r + 1) (isz it) rp
        let (p3, qv) := alloc p2 (nnz * bs) (esz dt) (iota v (nnz * bs))
        .ok ({ s with pool := p3 }.setSlot a
          (some { Cont.empty kind dt it sidx with elems := [qv], elemsSize := [nnz * bs], inds := [qci, qrp],
                                                  indsSize := [nnz, r + 1] }))
  | .band a dt it r noff v =>
    if a ≥ s.slots.length || (s.slot a).isSome || r = 0 then .error .badop
    else if noff = 0 then .ok (s.setSlot a (some (Cont.empty 4 dt it (defaultSidx 4))))
    else
      let (p1, qv) := alloc s.pool (r * noff) (esz dt) (iota v (r * noff))
      let (p2, qo) := alloc p1 noff (isz it) (iota ((r - 1 : Nat) : Int) noff)
      .ok ({ s with pool := p2 }.setSlot a
        (some { Cont.empty 4 dt it [r * r, r, r, bandUsed r noff, noff] with
                  elems := [qv], elemsSize := [r * noff], inds := [qo], indsSize := [noff] }))
  | .adopt a b =>
    match s.slot b with
    | none => .error .badop
    | some cb =>
      if a ≥ s.slots.length || (s.slot a).isSome || cb.kind > 1 then .error .badop
      else
        let n := cb.size
        if n = 0 then .ok (s.setSlot a (some (Cont.empty cb.kind cb.dt cb.it [0])))
        else
          let q := elemPtr0 cb
          match incr s.pool q with
          | .error e => .error e
          | .ok p1 =>
            let len := if cb.kind = 0 then n else 2 * n
            .ok ({ s with pool := p1 }.setSlot a
              (some { Cont.empty cb.kind cb.dt cb.it [n] with elems := [q], elemsSize := [len] }))
  | .range a b n off =>
    match s.slot b with
    | none => .error .badop
    | some cb =>
      if a ≥ s.slots.length || (s.slot a).isSome || cb.kind > 1 then .error .badop
      else if cb.kind = 0 then
        if n = 0 || n + off > cb.size then .error .abort
        else .ok (s.setSlot a (some { Cont.empty 0 cb.dt cb.it [n] with
                    elems := [(elemPtr0 cb).add off], elemsSize := [n], foreign := true }))
      else
        if n = 0 || n + off > cb.size then .error .badop
        else .ok (s.setSlot a (some { Cont.empty 1 cb.dt cb.it [n] with
                    elems := [(elemPtr0 cb).add (2 * off)], elemsSize := [2 * n], foreign := true }))
  | .clone a b mode fill =>
    match s.slot b with
    | none => .error .badop
    | some cb =>
      if a ≥ s.slots.length || mode > 4 then .error .badop
      else
        let r : Except Abort (Pool × Cont) :=
          match s.slot a with
          | none => Cont.cloneFrom s.pool (Cont.empty cb.kind cb.dt cb.it (defaultSidx cb.kind)) cb false mode
          | some ca =>
            if ca.kind != cb.kind then .error .badop
            else if ca.dt = cb.dt && ca.it = cb.it then Cont.cloneFrom s.pool ca cb (a = b) mode
            else Cont.cloneCross s.pool ca cb mode
        match r with
        | .error e => .error e
        | .ok (p1, c1) =>
          let fe := if mode = 4 || mode = 1 then c1.elems.zip c1.elemsSize else []
          let fi := if mode = 4 then c1.inds.zip c1.indsSize else []
          .ok ({ s with pool := fillArrs (fillArrs p1 fill fe) fill fi }.setSlot a (some c1))
  | .conv a b dt it =>
    match s.slot b with
    | none => .error .badop
    | some cb =>
      if a ≥ s.slots.length then .error .badop
      else
        -- a fresh target is the default-constructed container of the requested types
        let ca := (s.slot a).getD (Cont.empty cb.kind dt it (defaultSidx cb.kind))
        if ca.kind != cb.kind then .error .badop
        else match Cont.convertFrom s.pool ca cb (a = b) with
          | .error e => .error e
          | .ok (p1, c1) => .ok ({ s with pool := p1 }.setSlot a (some c1))
  | .xconv a b =>
    match s.slot b with
    | none => .error .badop
    | some cb =>
      if a ≥ s.slots.length || cb.kind > 1 then .error .badop
      else
        let ca := (s.slot a).getD (Cont.empty (1 - cb.kind) cb.dt cb.it [0])
        if ca.kind != 1 - cb.kind || ca.dt != cb.dt || ca.it != cb.it then .error .badop
        else match Cont.xconvFrom s.pool ca cb with
          | .error e => .error e
          | .ok (p1, c1) => .ok ({ s with pool := p1 }.setSlot a (some c1))
  | .move a b =>
    match s.slot b with
    | none => .error .badop
    | some cb =>
      if a ≥ s.slots.length then .error .badop
      else match s.slot a with
        | none => .ok ((s.setSlot a (some cb)).setSlot b (some cb.movedFrom))
        | some ca =>
          if ca.kind != cb.kind || ca.dt != cb.dt || ca.it != cb.it then .error .badop
          else if a = b then .ok s
          else match Cont.moveAssign s.pool ca cb with
            | .error e => .error e
            | .ok (p1, c1, c2) => .ok (({ s with pool := p1 }.setSlot a (some c1)).setSlot b (some c2))
  | .clear a =>
    match s.slot a with
    | none => .error .badop
    | some ca => match Cont.clear s.pool ca with
      | .error e => .error e
      | .ok (p1, c1) => .ok ({ s with pool := p1 }.setSlot a (some c1))
  | .destroy a =>
    match s.slot a with
    | none => .error .badop
    | some ca => match ca.releaseOwn s.pool with
      | .error e => .error e
      | .ok p1 => .ok ({ s with pool := p1 }.setSlot a none)
  | .format a v =>
    match s.slot a with
    | none => .error .badop
    | some ca =>
      .ok { s with pool := formatArrs s.pool v (ca.elems.zip ca.elemsSize) }
  | .write a w j i v =>
    match s.slot a with
    | none => .error .badop
    | some ca =>
      let (ps, ss) := if w = 0 then (ca.elems, ca.elemsSize) else (ca.inds, ca.indsSize)
      match ps[j]?, ss[j]? with
      | some q, some n =>
        if i ≥ n || q = .null then .error .badop
        else .ok { s with pool := writeArr s.pool (q.add i) [v] }
      | _, _ => .error .badop
  | .lay l a =>
    match s.slot a with
    | none => .error .badop
    | some ca =>
      if l ≥ s.lays.length || ca.kind < 2 || ca.kind > 6 || ca.kind = 5 then .error .badop
      else
        if !layCompat (s.lay l) (layKind ca.kind) ca.it then .error .badop
        else match incrAll s.pool ca.inds with
          | .error e => .error e
          | .ok p1 =>
            -- `L = m.layout()`: the temporary is built first (counters increased), then the move assignment
            -- releases the arrays the live layout object held before (a fresh object holds none)
            match releaseAll p1 (layoutInds (s.lay l)) with
            | .error e => .error e
            | .ok p2 =>
              .ok ({ s with pool := p2 }.setLay l
                (some { lk := layKind ca.kind, it := ca.it, inds := ca.inds, indsSize := ca.indsSize, sidx := ca.sidx }))
  | .mlay a l kind dt fill =>
    match s.lay l with
    | none => .error .badop
    | some L =>
      if a ≥ s.slots.length then .error .badop
      else
        -- a live target keeps its kind and data type (`m = layout`), a fresh one is built as requested (`M(layout)`)
        let k := ((s.slot a).map (·.kind)).getD kind
        let d := ((s.slot a).map (·.dt)).getD dt
        if k < 2 || k > 6 || k = 5 || layKind k != L.lk then .error .badop
        else if mlayBad (s.slot a) L then .error .badop
        else match Cont.fromLayout s.pool (s.slot a) k d L fill with
          | .error e => .error e
          | .ok (p1, c1) => .ok ({ s with pool := p1 }.setSlot a (some c1))
  | .mk a kind dt it n v =>
    -- DenseMatrix(n x 2, filled), CSCR(3 x 2, n entries in one used row, from four DenseVectors),
    -- SparseVector(size n+3 from n elements + n indices), SparseVectorBlocked<2> likewise
    if a ≥ s.slots.length || (s.slot a).isSome || kind < 5 || kind > 8 || (n = 0 && kind < 7) then .error .badop
    else if kind = 5 then
      let (p1, q) := alloc s.pool (2 * n) (esz dt) (iota v (2 * n))
      .ok ({ s with pool := p1 }.setSlot a
        (some { Cont.empty 5 dt it [2 * n, n, 2] with elems := [q], elemsSize := [2 * n] }))
    else if kind = 6 then
      let (p1, qc) := alloc s.pool n (isz it) ((List.range n).map (fun (i : Nat) => ((i % 2 : Nat) : Int)))
      let (p2, qr) := alloc p1 2 (isz it) [0, (n : Int)]
      let (p3, qn) := alloc p2 1 (isz it) [0]
      let (p4, qv) := alloc p3 n (esz dt) (iota v n)
      .ok ({ s with pool := p4 }.setSlot a
        (some { Cont.empty 6 dt it [6, 3, 2, n, 1] with
                  elems := [qv], elemsSize := [n], inds := [qc, qr, qn], indsSize := [n, 2, 1] }))
    else
      let len := if kind = 7 then n else 2 * n
      let (p1, qv) := alloc s.pool len (esz dt) (iota v len)
      let (p2, qi) := alloc p1 n (isz it) (iota 0 n)
      .ok ({ s with pool := p2 }.setSlot a
        (some { Cont.empty kind dt it [n + 3, n, n, n + 3, 1] with
                  elems := [qv], elemsSize := [len], inds := [qi], indsSize := [n] }))
  | .copy a b full =>
    -- `a.copy(b, full)` = `Container::_copy_content`: self-copy is a no-op; the array counts and sizes must agree
    -- (assertions); the contents (with `full` also the index arrays and the scalars) are copied IN PLACE
    match s.slot a, s.slot b with
    | some ca, some cb =>
      if ca.kind != cb.kind || ca.dt != cb.dt || ca.it != cb.it || ca.kind ≥ 7 then .error .badop
      else if a = b then .ok s
      else if ca.elems.length != cb.elems.length || ca.inds.length != cb.inds.length
              || ca.sidx.length != cb.sidx.length then .error .abort
      else if (full != 0 && ca.indsSize != cb.indsSize) || ca.elemsSize != cb.elemsSize then .error .abort
      else
        let ip := if full != 0 then (ca.inds.zip (cb.inds.zip ca.indsSize)) else []
        let ep := ca.elems.zip (cb.elems.zip ca.elemsSize)
        .ok ({ s with pool := copyArrs (copyArrs s.pool ip) ep }.setSlot a
              (some (if full != 0 then { ca with sidx := cb.sidx } else ca)))
    | _, _ => .error .badop
  | .lmove d src =>
    -- `SparseLayout l_d(std::move(l_src))` (slot `d` free: move CONSTRUCTION, nothing to release) or
    -- `l_d = std::move(l_src)` (move assignment: self-move is a no-op, otherwise the arrays held so far are
    -- released); the pointers travel WITHOUT any counter change and the source is left holding nothing
    match s.lay src with
    | none => .error .badop
    | some Ls =>
      if d ≥ s.lays.length then .error .badop
      else if d = src then .ok s
      else if !layCompat (s.lay d) Ls.lk Ls.it then .error .badop
      else match releaseAll s.pool (layoutInds (s.lay d)) with
        | .error e => .error e
        | .ok p1 => .ok (({ s with pool := p1 }.setLay d (some Ls)).setLay src (some Ls.movedFrom))
  | .lvec _ =>
    -- every live layout is moved into a `std::vector<SparseLayout>` (reallocations move-construct the stored
    -- objects) or into a by-value class member and moved back: the logical state must be unchanged
    .ok s
  | .ldrop l =>
    match s.lay l with
    | none => .error .badop
    | some L => match releaseAll s.pool L.inds with
      | .error e => .error e
      | .ok p1 => .ok ({ s with pool := p1 }.setLay l none)

/-- run a history from a state -/
def run (s : State) : List Op → Except Abort State
  | [] => .ok s
  | op :: ops => match step s op with
    | .error e => .error e
    | .ok s' => run s' ops

/-- number of live chunks -/
def liveChunks (p : Pool) : Nat := (p.filter Option.isSome).length

/-- `MemoryPool::finalize`: `exit(1)` unless the pool is empty -/
def finalize (s : State) : Except Abort Unit := if liveChunks s.pool = 0 then .ok () else .error .exit1

end FeatModel.Pool
