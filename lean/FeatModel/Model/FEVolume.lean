import FeatModel.Model.FE
/-
Cell volumes (core Lean): the Jacobian determinant as a polynomial in the reference coordinates, its exact integral
over the reference cell, the signed volume of the cell from its vertex coordinates, and the quadrature the `volq`
op of the harness performs with a real FEAT cubature rule.
-/
namespace FeatModel.FE
open FeatModel.Poly

/-- `∂N_i/∂x_j` of the vertex shape functions, in normal form (closed polynomials) -/
def dShape (k : Kind) (d i j : Nat) : Poly := normalize (pderiv j (shapeFn k d i))

/-- entry `(a, j)` of the Jacobian as a polynomial in the reference coordinates -/
def jacPoly (k : Kind) (d : Nat) (V : List (List Rat)) (a j : Nat) : Poly :=
  sum ((List.range (numVerts k d)).map fun i => smul ((V.getD i []).getD a 0) (dShape k d i j))

/-- `det J` as a polynomial (dimensions 1, 2, 3) -/
def detJPoly (k : Kind) (d : Nat) (V : List (List Rat)) : Poly :=
  let J := jacPoly k d V
  match d with
  | 1 => J 0 0
  | 2 => add (mul (J 0 0) (J 1 1)) (smul (-1) (mul (J 0 1) (J 1 0)))
  | 3 =>
    add (mul (J 0 0) (add (mul (J 1 1) (J 2 2)) (smul (-1) (mul (J 1 2) (J 2 1)))))
      (add (smul (-1) (mul (J 0 1) (add (mul (J 1 0) (J 2 2)) (smul (-1) (mul (J 1 2) (J 2 0))))))
        (mul (J 0 2) (add (mul (J 1 0) (J 2 1)) (smul (-1) (mul (J 1 1) (J 2 0))))))
  | _ => []

/-- `∫_{-1}^{1} x^e dx` -/
def powIntH (e : Nat) : Rat := if e % 2 = 0 then 2 / ((e : Rat) + 1) else 0

/-- `∫` of a monomial over the reference hypercube `[-1,1]^d` -/
def monoIntH : Mono → Rat
  | [] => 1
  | e :: es => powIntH e * monoIntH es

/-- `∫` of the monomial `x^m` over the reference simplex: `Π e_i! / (Σ e_i + d)!` -/
def monoIntS (d : Nat) (m : Mono) : Rat :=
  ((m.map fact).foldl (· * ·) 1 : Nat) / ((fact (m.foldl (· + ·) 0 + d) : Nat) : Rat)

/-- exact integral of a polynomial (all monomials with exactly `d` exponents) over the reference cell -/
def integrateRef (k : Kind) (d : Nat) : Poly → Rat
  | [] => 0
  | t :: p =>
    t.1 * (match k with
           | .S => monoIntS d t.2
           | .H => 2 ^ (d - t.2.length) * monoIntH t.2) + integrateRef k d p

/-- signed volume of the cell from its vertex coordinates: simplices `det(v_i - v_0)/d!`, interval `b - a`,
    quadrilateral: the shoelace formula along the boundary `v0 v1 v3 v2` -/
def signedVolume (k : Kind) (d : Nat) (V : List (List Rat)) : Rat :=
  let c := fun (i a : Nat) => (V.getD i []).getD a 0
  match k, d with
  | .S, 1 => c 1 0 - c 0 0
  | .S, 2 => ((c 1 0 - c 0 0) * (c 2 1 - c 0 1) - (c 2 0 - c 0 0) * (c 1 1 - c 0 1)) / 2
  | .S, 3 =>
    ((c 1 0 - c 0 0) * ((c 2 1 - c 0 1) * (c 3 2 - c 0 2) - (c 3 1 - c 0 1) * (c 2 2 - c 0 2))
      - (c 2 0 - c 0 0) * ((c 1 1 - c 0 1) * (c 3 2 - c 0 2) - (c 3 1 - c 0 1) * (c 1 2 - c 0 2))
      + (c 3 0 - c 0 0) * ((c 1 1 - c 0 1) * (c 2 2 - c 0 2) - (c 2 1 - c 0 1) * (c 1 2 - c 0 2))) / 6
  | .H, 1 => c 1 0 - c 0 0
  | .H, 2 =>
    ((c 0 0 * c 1 1 - c 1 0 * c 0 1) + (c 1 0 * c 3 1 - c 3 0 * c 1 1)
      + (c 3 0 * c 2 1 - c 2 0 * c 3 1) + (c 2 0 * c 0 1 - c 0 0 * c 2 1)) / 2
  | _, _ => 0

/-- points and weights of the rule used by the `volq` op: tensor Simpson rule on hypercubes (exact for coordinate
    degree 3), barycentre rule on simplices -/
def volRule (k : Kind) (d : Nat) : List (List Rat × Rat) :=
  match k with
  | .S => [(List.replicate d (1 / ((d : Rat) + 1)), 1 / (fact d : Nat))]
  | .H =>
    let one : List (Rat × Rat) := [(-1, 1 / 3), (0, 4 / 3), (1, 1 / 3)]
    (List.range d).foldl (fun acc _ => acc.flatMap fun (p, w) => one.map fun (x, wx) => (p ++ [x], w * wx)) [([], 1)]

/-- `volq`: `Σ_q w_q · jac_det(x_q)` with `jac_det = |det J|` -/
def volQuad (k : Kind) (d : Nat) (V : List (List Rat)) : Rat :=
  ((volRule k d).map fun (x, w) => w * rabs (det d (jacMat k d V x))).foldl (· + ·) 0

/-- the same sum without the absolute value -/
def volQuadSigned (k : Kind) (d : Nat) (V : List (List Rat)) : Rat :=
  ((volRule k d).map fun (x, w) => w * evalAt x (detJPoly k d V)).foldl (· + ·) 0

end FeatModel.FE
