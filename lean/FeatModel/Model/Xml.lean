import FeatModel.Model.C11Text
/-
C11 — model of `kernel/util/xml_scanner.cpp` (`Xml::Scanner`): line-based scanning, `scan_markup`
character by character, terminator matching, attribute checking, line-count bookkeeping.
The markup parsers (`Xml::MarkupParser`) are abstracted as a `Client` acting on its own state.
Core Lean only.
-/
namespace FeatModel.C11

inductive ErrClass where
  | syntax | grammar | content | linker
  deriving DecidableEq, Repr

structure Err where
  cls : ErrClass
  line : Nat
  deriving DecidableEq, Repr

def ErrClass.name : ErrClass → String
  | .syntax => "SyntaxError" | .grammar => "GrammarError" | .content => "ContentError" | .linker => "LinkerError"

/-- a scanned markup line -/
structure Markup where
  name : Str
  attrs : List (Str × Str)   -- `std::map<String,String>`: sorted by key, first occurrence wins
  closed : Bool
  termin : Bool
  deriving DecidableEq, Repr

/-- `isalpha(front)` and `isalnum` for the remaining characters -/
def validName : Str → Bool
  | [] => false
  | c :: cs => isAlpha c && cs.all isAlnum

def dropLast (s : Str) : Str := s.dropLast

/-- position-free version of `find_first_of(c)`: text before the first `c` and text after it -/
def splitAtChar (c : Char) : Str → Option (Str × Str)
  | [] => none
  | x :: xs =>
    if x == c then some ([], xs)
    else match splitAtChar c xs with
      | none => none
      | some (a, b) => some (x :: a, b)

/-- the attribute loop of `scan_markup` (fuel: every round consumes at least the `=`) -/
def scanAttrs : Nat → Str → List (Str × Str) → Option (List (Str × Str))
  | 0, _, _ => none
  | fuel + 1, sdata, acc =>
    if sdata.isEmpty then some acc
    else
      match splitAtChar '=' sdata with
      | none => none                                    -- "Invalid attribute list"
      | some (k, rest) =>
        let akey := trim k
        let rest := trim rest
        if !validName akey then none                    -- missing / invalid key name
        else
          match rest with
          | '"' :: r1 =>
            match splitAtChar '"' r1 with
            | none => none                              -- "Missing '\"'"
            | some (v, r2) => scanAttrs fuel (trim r2) (mapInsert strLt akey (trim v) acc)
          | _ => none                                   -- "Expected '\"'"

/-- `Scanner::scan_markup` on a trimmed, non-empty line.
    `.ok none` = not a markup (content line); `.error ()` = `throw_syntax` -/
def scanMarkup (sline : Str) : Except Unit (Option Markup) :=
  let xhead := startsWith sline ['<']
  let xtail := endsWith sline ['>']
  if !xhead && !xtail then .ok none
  else if !(xhead && xtail) then .error ()
  else
    -- everything between '<' and '>'  (a line consisting of the single character '<' ... cannot be both
    -- head and tail unless its length is >= 2 or it is "<" == ">" which is impossible)
    let inner := (sline.drop 1).dropLast
    let sdata := trim inner
    if sline.length < 2 then .error ()
    else if sdata.isEmpty then .error ()
    else if sdata.contains '<' || sdata.contains '>' then .error ()
    else
      let termin := sdata.head? == some '/'
      let closed := sdata.getLast? == some '/'
      if termin && closed then .error ()
      else
        let sdata := if termin then sdata.drop 1 else sdata
        let sdata := if closed then sdata.dropLast else sdata
        let sdata := trim sdata
        if sdata.isEmpty then .error ()
        else
          let name := sdata.takeWhile (fun c => !isWs c)
          let rest := trim (sdata.dropWhile (fun c => !isWs c))
          if !validName name then .error ()
          else if termin then
            (if rest.isEmpty then .ok (some { name := name, attrs := [], closed := false, termin := true })
             else .error ())
          else
            match scanAttrs (rest.length + 1) rest [] with
            | none => .error ()
            | some attrs => .ok (some { name := name, attrs := attrs, closed := closed, termin := false })

/-- the markup-parser side of the scanner, acting on a client state `σ` (which holds its own parser stack).
    `openM` covers `parent.markup(name)` (unsupported ⇒ grammar error), the attribute check of
    `create_top_parser`, `create`, and – for a closed markup – the immediate `close`. -/
structure Client (σ : Type) where
  openM : σ → Nat → Markup → Except Err σ
  closeM : σ → Nat → Except Err σ
  content : σ → Nat → Str → Except Err σ

/-- the attribute check of `Scanner::create_top_parser`: every given key must be known, every mandatory
    key must be given -/
def checkAttribs (line : Nat) (spec : List (Str × Bool)) (attrs : List (Str × Str)) : Except Err Unit :=
  if attrs.any (fun kv => !(spec.any (fun s => s.1 == kv.1))) then .error ⟨.grammar, line⟩
  else if spec.any (fun s => s.2 && !(attrs.any (fun kv => kv.1 == s.1))) then .error ⟨.grammar, line⟩
  else .ok ()

/-- `Scanner::scan()` after the root markup has been pushed: `names` is the stack of open markup names
    (top first), `iline` the number of lines read so far.  Returns the final client state.
    Structural recursion on the remaining lines = the scanner terminates on every input. -/
def scanLoop (cl : Client σ) : List Str → Nat → List Str → σ → Except Err σ
  | [], iline, names, _ =>
    -- end of file with open markups ("Expected '</x>' but found end-of-file")
    match names with
    | [] => .error ⟨.syntax, iline⟩   -- unreachable: the loop returns as soon as the stack is empty
    | _ :: _ => .error ⟨.syntax, iline⟩
  | raw :: rest, iline, names, st =>
    let iline := iline + 1
    let sline := trim raw
    if sline.isEmpty then scanLoop cl rest iline names st
    else if startsWith sline "<!--".toList then
      (if endsWith sline "-->".toList then scanLoop cl rest iline names st else .error ⟨.syntax, iline⟩)
    else
      match scanMarkup sline with
      | .error _ => .error ⟨.syntax, iline⟩
      | .ok none =>
        match cl.content st iline sline with
        | .error e => .error e
        | .ok st' => scanLoop cl rest iline names st'
      | .ok (some m) =>
        if m.termin then
          match names with
          | [] => .error ⟨.syntax, iline⟩
          | top :: below =>
            if m.name != top then .error ⟨.syntax, iline⟩
            else
              match cl.closeM st iline with
              | .error e => .error e
              | .ok st' => if below.isEmpty then .ok st' else scanLoop cl rest iline below st'
        else
          match cl.openM st iline m with
          | .error e => .error e
          | .ok st' => scanLoop cl rest iline (if m.closed then names else m.name :: names) st'

/-- `Scanner::read_root`: skip blank lines, the first non-blank line must be an open, non-closed markup.
    Returns the root markup, its line number and the remaining lines. -/
def readRoot : List Str → Nat → Except Err (Markup × Nat × List Str)
  | [], iline => .error ⟨.syntax, iline⟩
  | raw :: rest, iline =>
    let iline := iline + 1
    let sline := trim raw
    if sline.isEmpty then readRoot rest iline
    else
      match scanMarkup sline with
      | .error _ => .error ⟨.syntax, iline⟩
      | .ok none => .error ⟨.syntax, iline⟩
      | .ok (some m) => if m.closed || m.termin then .error ⟨.syntax, iline⟩ else .ok (m, iline, rest)

/-! ### the recording client used by the `scan` op (mirrors `RecParser` of the harness) -/

inductive Event where
  | create (line : Nat) (m : Markup)
  | close (line : Nat)
  | text (line : Nat) (s : Str)
  deriving DecidableEq, Repr

def recClient : Client (List Event) where
  openM := fun evs line m => .ok (if m.closed then Event.close line :: Event.create line m :: evs
                                  else Event.create line m :: evs)
  closeM := fun evs line => .ok (Event.close line :: evs)
  content := fun evs line s => .ok (Event.text line s :: evs)

/-- `Scanner::scan(root_parser)` with the recording parser: the events in file order -/
def scanDoc (text : Str) : Except Err (List Event) :=
  match readRoot (splitLines text) 0 with
  | .error e => .error e
  | .ok (m, iline, rest) =>
    match scanLoop recClient rest iline [m.name] [Event.create iline m] with
    | .error e => .error e
    | .ok evs => .ok evs.reverse

end FeatModel.C11
