/-
Line-protocol helpers shared by all model drivers (core Lean only, so drivers link as executables).
A case is one line of blank-separated tokens; lists are length-prefixed: `n x1 … xn`.
-/
namespace FeatModel.Proto

abbrev Toks := List String

def tokenize (line : String) : Toks :=
  (line.trimAscii.toString.splitOn " ").filter (· ≠ "")

/-- a tiny parser monad over the token list -/
abbrev P := StateT Toks (Except String)

def tok : P String := do
  match (← get) with
  | [] => throw "token underrun"
  | t :: ts => set ts; pure t

def nat : P Nat := do
  let t ← tok
  match t.toNat? with
  | some n => pure n
  | none => throw s!"not a natural number: {t}"

def int : P Int := do
  let t ← tok
  match t.toInt? with
  | some n => pure n
  | none => throw s!"not an integer: {t}"

/-- rational token `p/q` or `p` -/
def rat : P Rat := do
  let t ← tok
  match t.splitOn "/" with
  | [a] => match a.toInt? with
    | some n => pure (n : Rat)
    | none => throw s!"not a rational: {t}"
  | [a, b] => match a.toInt?, b.toNat? with
    | some n, some d => if d = 0 then throw s!"zero denominator: {t}" else pure (mkRat n d)
    | _, _ => throw s!"not a rational: {t}"
  | _ => throw s!"not a rational: {t}"

def many (n : Nat) (p : P α) : P (List α) :=
  match n with
  | 0 => pure []
  | n + 1 => do let x ← p; let xs ← many n p; pure (x :: xs)

/-- length-prefixed list -/
def listOf (p : P α) : P (List α) := do
  let n ← nat
  many n p

def natList : P (List Nat) := listOf nat
def ratList : P (List Rat) := listOf rat

def run (p : P α) (ts : Toks) : Except String α :=
  match p ts with
  | .ok (a, _) => .ok a
  | .error e => .error e

def showRat (q : Rat) : String := s!"{q.num}/{q.den}"
def showNats (l : List Nat) : String := " ".intercalate (l.map toString)
def showRats (l : List Rat) : String := " ".intercalate (l.map showRat)
/-- length-prefixed rendering -/
def showNatsL (l : List Nat) : String := " ".intercalate (toString l.length :: l.map toString)
def showRatsL (l : List Rat) : String := " ".intercalate (toString l.length :: l.map showRat)

/-- deterministic rational square root shared with harness/common/exact_q.hpp:
    `floor(sqrt(n*d*2^80)) / (d*2^40)` for `n/d ≥ 0` -/
def qsqrt (x : Rat) : Rat :=
  let n := x.num.toNat
  let d := x.den
  mkRat (Nat.sqrt (n * d * 2 ^ 80)) (d * 2 ^ 40)

/-- main loop: one output line per input line -/
partial def loop (h : IO.FS.Stream) (f : String → String) : IO Unit := do
  let line ← h.getLine
  if line.isEmpty then return ()
  IO.println (f line)
  loop h f

def mainWith (f : Toks → String) (args : List String) : IO Unit := do
  let g := fun (line : String) => f (tokenize line)
  match args with
  | [] => loop (← IO.getStdin) g
  | p :: _ =>
    let h ← IO.FS.Handle.mk p IO.FS.Mode.read
    loop (IO.FS.Stream.ofHandle h) g

end FeatModel.Proto
