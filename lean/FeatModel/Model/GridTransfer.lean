import FeatModel.Model.LA.Convert
/-
Model of the algebraic core of `Assembly::GridTransfer` (kernel/assembly/grid_transfer.hpp),
`Math::invert_matrix` (kernel/util/math.hpp), `SparseMatrixCSR::transpose` and `LAFEM::Transfer`.
Core Lean only; scalars are `Rat` (the harness runs the real code at the exact rational type `Q`).

What the assembly loops *see* is given as data (`Dump`): per coarse cell the coarse dof-mapping and the
coarse cubature loop (weight·jac_det, coarse basis values), per child cell the fine dof-mapping and for
every cubature point weight·jac_det, the fine basis values and the coarse basis values at the refined
point.  The harness extracts exactly this data from the real evaluators; everything from there on
(local mass matrices, Gauss–Jordan inversion with diagonal pivoting, `X = M⁻¹N`, the Frobenius sanity
check, scatter, weight vector, normalisation, matrix-free prolongation, transposition, `Transfer`)
is the model below.
-/
namespace FeatModel.GT

/-- dense matrices: list of rows -/
abbrev Mat := List (List Rat)

def get (m : Mat) (i j : Nat) : Rat := (m.getD i []).getD j 0

/-- materialise an `r × c` matrix from its entry function -/
def tab (r c : Nat) (f : Nat → Nat → Rat) : Mat :=
  (List.range r).map fun i => (List.range c).map fun j => f i j

def vtab (n : Nat) (f : Nat → Rat) : List Rat := (List.range n).map f

/-- `Σ_{k<n} f k`, summed in loop order -/
def sumTo (n : Nat) (f : Nat → Rat) : Rat := (List.range n).foldl (fun s k => s + f k) 0

/-- `Tiny::Matrix::set_mat_mat_mult`: `(r×m)·(m×c)` -/
def matMul (r m c : Nat) (a b : Mat) : Mat := tab r c fun i j => sumTo m fun k => get a i k * get b k j

def matVec (r c : Nat) (a : Mat) (x : List Rat) : List Rat :=
  vtab r fun i => sumTo c fun k => get a i k * x.getD k 0

def transposeDense (r c : Nat) (a : Mat) : Mat := tab c r fun i j => get a j i

def qabs (x : Rat) : Rat := if x < 0 then -x else x

/-! ### `Math::invert_matrix` — in-situ Gauss–Jordan with (virtual) diagonal pivoting -/

/-- step 1, inner loop `for j = k+1 .. n-1`: first position with the largest `|a[p[j]][p[j]]|` -/
def pivotLoop (d : Nat → Rat) : List Nat → Rat → Nat → Nat
  | [], _, i => i
  | j :: js, pv, i => if d j > pv then pivotLoop d js (d j) j else pivotLoop d js pv i

def pivotSearch (a : Mat) (p : List Nat) (k n : Nat) : Nat :=
  let d := fun j => qabs (get a (p.getD j 0) (p.getD j 0))
  pivotLoop d (List.range' (k + 1) (n - (k + 1))) (d k) k

/-- `if(i > k) swap(p[k], p[i])` -/
def swapPiv (p : List Nat) (k i : Nat) : List Nat :=
  if i > k then (p.set k (p.getD i 0)).set i (p.getD k 0) else p

/-- steps 2 and 3 for the pivot row/column `q` (requires `T q q ≠ 0`), entry `(i, j)` of the updated matrix:
row `q`: `a[q][q] := 1; a[q][·] *= 1/pivot`; every other row `i`: `f := a[i][q]; a[i][q] := 0; a[i][·] -= a[q][·]*f` -/
def sweepEntry (q : Nat) (T : Nat → Nat → Rat) (i j : Nat) : Rat :=
  let rowq := (if j = q then 1 else T q j) * (1 / T q q)
  if i = q then rowq else (if j = q then 0 else T i j) - rowq * T i q

def sweep (n q : Nat) (a : Mat) : Mat := tab n n (sweepEntry q (get a))

structure InvState where
  a : Mat
  p : List Nat
  det : Rat

/-- one iteration `k` of the primary elimination loop; `none` = division by an exactly zero pivot -/
def invStep (n : Nat) (st : InvState) (k : Nat) : Option InvState :=
  let p := swapPiv st.p k (pivotSearch st.a st.p k n)
  let q := p.getD k 0
  let d := get st.a q q
  if d = 0 then none else some { a := sweep n q st.a, p := p, det := st.det * d }

def invLoop (n : Nat) : List Nat → InvState → Option InvState
  | [], st => some st
  | k :: ks, st => match invStep n st k with
    | none => none
    | some st' => invLoop n ks st'

/-- result of `Math::invert_matrix(n, stride, a, p)` on the `n×n` part of `a`:
`some (det, inverse, pivot array)`; `none` = division by zero (the exact scalar aborts, a float gives inf/nan).
`n = 0` or `stride < n`: returns 0 and touches nothing. -/
def invertMatrix (n stride : Nat) (a : Mat) : Option (Rat × Mat × List Nat) :=
  if n = 0 ∨ stride < n then some (0, [], [])
  else if n = 1 then
    let d := get a 0 0
    if d = 0 then none else some (d, [[1 / d]], [])
  else match invLoop n (List.range n) { a := tab n n (get a), p := List.range n, det := 1 } with
    | none => none
    | some st => some (st.det, st.a, st.p)

/-! ### the same algorithm on the strided storage `DT_ a[]` (entry `(i,j)` at `i*stride + j`): only the positions
`i*stride + j` with `i, j < n` are ever written; the padding `j ≥ n` of a `Tiny::Matrix` with `sn > n` is untouched -/

def getF (stride : Nat) (a : List Rat) (i j : Nat) : Rat := a.getD (i * stride + j) 0

def pivotSearchF (stride : Nat) (a : List Rat) (p : List Nat) (k n : Nat) : Nat :=
  let d := fun j => qabs (getF stride a (p.getD j 0) (p.getD j 0))
  pivotLoop d (List.range' (k + 1) (n - (k + 1))) (d k) k

/-- steps 2 and 3 on the strided storage: the loops `for j < n: a[pk_off + j] …`, `for i < n, j < n: a[i*stride + j] …` -/
def sweepFlat (n stride q : Nat) (a : List Rat) : List Rat :=
  (List.range a.length).map fun idx =>
    if idx / stride < n ∧ idx % stride < n then sweepEntry q (getF stride a) (idx / stride) (idx % stride)
    else a.getD idx 0

structure InvStateF where
  a : List Rat
  p : List Nat
  det : Rat

def invStepF (n stride : Nat) (st : InvStateF) (k : Nat) : Option InvStateF :=
  let p := swapPiv st.p k (pivotSearchF stride st.a st.p k n)
  let q := p.getD k 0
  let d := getF stride st.a q q
  if d = 0 then none else some { a := sweepFlat n stride q st.a, p := p, det := st.det * d }

def invLoopF (n stride : Nat) : List Nat → InvStateF → Option InvStateF
  | [], st => some st
  | k :: ks, st => match invStepF n stride st k with
    | none => none
    | some st' => invLoopF n stride ks st'

/-- `Math::invert_matrix(n, stride, a, p)` on the storage array itself: `some (det, a afterwards, pivot array)` -/
def invertFlat (n stride : Nat) (a : List Rat) : Option (Rat × List Rat × List Nat) :=
  if n = 0 ∨ stride < n then some (0, a, [])
  else if n = 1 then
    let d := a.getD 0 0
    if d = 0 then none else some (d, a.set 0 (1 / d), [])
  else match invLoopF n stride (List.range n) { a := a, p := List.range n, det := 1 } with
    | none => none
    | some st => some (st.det, st.a, st.p)

/-- the `n×n` block of the storage / the storage with the block replaced -/
def extractBlock (n stride : Nat) (a : List Rat) : Mat := tab n n (getF stride a)

def putBlock (n stride : Nat) (a : List Rat) (m : Mat) : List Rat :=
  (List.range a.length).map fun idx =>
    if idx / stride < n ∧ idx % stride < n then get m (idx / stride) (idx % stride) else a.getD idx 0

/-! ### the data the assembly loops see -/

structure Pt where
  w : Rat            -- cubature weight × jac_det
  f : List Rat       -- fine basis values
  c : List Rat       -- coarse basis values (at the refined cubature point)
deriving Inhabited, DecidableEq

structure Child where
  fmap : List Nat
  pts : List Pt
deriving Inhabited, DecidableEq

structure Cell where
  cmap : List Nat
  cpts : List Pt     -- coarse cubature loop: `w`, `c` used (`f` empty)
  children : List Child
deriving Inhabited

structure Dump where
  nf : Nat
  nc : Nat
  cells : List Cell

def lsum (l : List Rat) : Rat := l.foldl (· + ·) 0

/-- local fine mass matrix `M_ij = Σ_k ω_k φ^f_i φ^f_j` -/
def massF (nfl : Nat) (pts : List Pt) : Mat :=
  tab nfl nfl fun i j => lsum (pts.map fun p => p.w * p.f.getD i 0 * p.f.getD j 0)

/-- inter-level mass matrix `N_ij = Σ_k ω_k φ^f_i φ^c_j` -/
def massFC (nfl ncl : Nat) (pts : List Pt) : Mat :=
  tab nfl ncl fun i j => lsum (pts.map fun p => p.w * p.f.getD i 0 * p.c.getD j 0)

def massCF (ncl nfl : Nat) (pts : List Pt) : Mat :=
  tab ncl nfl fun i j => lsum (pts.map fun p => p.w * p.c.getD i 0 * p.f.getD j 0)

def massC (ncl : Nat) (pts : List Pt) : Mat :=
  tab ncl ncl fun i j => lsum (pts.map fun p => p.w * p.c.getD i 0 * p.c.getD j 0)

inductive Fail where
  | abort   -- division by zero inside `invert_matrix` / `component_invert`
  | exc     -- `LocalMassMatrixSingularException` (Frobenius norm of `X` not normal, i.e. `X = 0`)
deriving DecidableEq, Repr

def allZero (m : Mat) : Bool := m.all fun r => r.all (· == 0)

/-- `X = M⁻¹ N` with the sanity check of grid_transfer.hpp -/
def localSolve (n c : Nat) (m nmat : Mat) : Except Fail Mat :=
  match invertMatrix n n m with
  | none => .error .abort
  | some (_, minv, _) =>
    let x := matMul n n c minv nmat
    if allZero x then .error .exc else .ok x

/-- local prolongation of one child cell -/
def localProl (ncl : Nat) (ch : Child) : Except Fail Mat :=
  let nfl := ch.fmap.length
  localSolve nfl ncl (massF nfl ch.pts) (massFC nfl ncl ch.pts)

/-- a local row scattered to a dense global row: `Σ_{j : map[j] = s} xs[j]` -/
def denseRow (ncols : Nat) (map : List Nat) (xs : List Rat) : List Rat :=
  vtab ncols fun s => sumTo map.length fun j => if map.getD j 0 = s then xs.getD j 0 else 0

def addRows (n : Nat) (a b : List Rat) : List Rat := vtab n fun s => a.getD s 0 + b.getD s 0

def sumRows (n : Nat) (rows : List (List Rat)) : List Rat := rows.foldl (addRows n) (vtab n fun _ => 0)

/-- all local rows (already scattered to dense rows) that one (coarse cell, child) adds to global row `r` -/
def childContrib (nc : Nat) (cmap : List Nat) (fmap : List Nat) (x : Mat) (r : Nat) : List (List Rat) :=
  (List.range fmap.length).filterMap fun i =>
    if fmap.getD i 0 = r then some (denseRow nc cmap (x.getD i [])) else none

/-- the local matrices of every (cell, child), in loop order; first failure wins -/
def localProls (d : Dump) : Except Fail (List (List Nat × List Nat × Mat)) :=
  (d.cells.flatMap fun cell => cell.children.map fun ch => (cell, ch)).mapM fun (cell, ch) =>
    match localProl cell.cmap.length ch with
    | .error e => .error e
    | .ok x => .ok (cell.cmap, ch.fmap, x)

def contribRows (nc : Nat) (locs : List (List Nat × List Nat × Mat)) (r : Nat) : List (List Rat) :=
  locs.flatMap fun (cmap, fmap, x) => childContrib nc cmap fmap x r

/-- raw prolongation matrix (before normalisation) and weight vector -/
def prolRaw (d : Dump) (locs : List (List Nat × List Nat × Mat)) : Mat :=
  (List.range d.nf).map fun r => sumRows d.nc (contribRows d.nc locs r)

def prolWeights (d : Dump) (locs : List (List Nat × List Nat × Mat)) : List Rat :=
  vtab d.nf fun r => ((contribRows d.nc locs r).length : Nat)

/-- `component_invert` + `scale_rows`; `none` = a zero weight (division by zero) -/
def scaleRows (ncols : Nat) (m : Mat) (w : List Rat) : Option Mat :=
  if w.any (· == 0) then none
  else some ((List.range m.length).map fun r => vtab ncols fun s => get m r s * (1 / w.getD r 0))

def scaleVec (v w : List Rat) : Option (List Rat) :=
  if w.any (· == 0) then none else some (vtab v.length fun r => v.getD r 0 * (1 / w.getD r 0))

/-- `assemble_prolongation_direct` -/
def prolDirect (d : Dump) (locs : List (List Nat × List Nat × Mat)) : Option Mat :=
  scaleRows d.nc (prolRaw d locs) (prolWeights d locs)

/-! ### matrix-free prolongation (`prolongate_vector`) -/

def gather (map : List Nat) (v : List Rat) : List Rat := map.map fun k => v.getD k 0

/-- raw fine vector: every (cell, child) adds `X · x_c|cmap` to the entries `fmap` -/
def pvecRaw (d : Dump) (locs : List (List Nat × List Nat × Mat)) (xc : List Rat) : List Rat :=
  vtab d.nf fun r => lsum (locs.flatMap fun (cmap, fmap, x) =>
    (List.range fmap.length).filterMap fun i =>
      if fmap.getD i 0 = r then
        some (sumTo cmap.length fun j => get x i j * (gather cmap xc).getD j 0)
      else none)

/-! ### truncation (`assemble_truncation`) -/

def localTruncs (d : Dump) : Except Fail (List (List Nat × List (List Nat × Mat))) :=
  d.cells.mapM fun cell =>
    let ncl := cell.cmap.length
    match invertMatrix ncl ncl (massC ncl cell.cpts) with
    | none => .error .abort
    | some (_, minv, _) =>
      match cell.children.mapM (fun ch =>
          let x := matMul ncl ncl ch.fmap.length minv (massCF ncl ch.fmap.length ch.pts)
          if allZero x then (Except.error Fail.exc : Except Fail (List Nat × Mat)) else .ok (ch.fmap, x)) with
      | .error e => .error e
      | .ok xs => .ok (cell.cmap, xs)

def truncContrib (nf : Nat) (tl : List (List Nat × List (List Nat × Mat))) (r : Nat) : List (List Rat) :=
  tl.flatMap fun (cmap, xs) =>
    (List.range cmap.length).filterMap fun i =>
      if cmap.getD i 0 = r then
        some (sumRows nf (xs.map fun (fmap, x) => denseRow nf fmap (x.getD i [])))
      else none

def truncRaw (d : Dump) (tl : List (List Nat × List (List Nat × Mat))) : Mat :=
  (List.range d.nc).map fun r => sumRows d.nf (truncContrib d.nf tl r)

def truncWeights (d : Dump) (tl : List (List Nat × List (List Nat × Mat))) : List Rat :=
  vtab d.nc fun r => ((truncContrib d.nf tl r).length : Nat)

/-! ### decidable certificates for the hypotheses of the exactness theorems (evaluated by the driver per case)

The local embedding matrix of a child cell is taken to be the computed local prolongation itself. -/

def Eof (cell : Cell) (ch : Child) : Mat :=
  match localProl cell.cmap.length ch with
  | .ok x => x
  | .error _ => []

/-- nestedness at the cubature points: `φ^c_j(x_k) = Σ_m E_mj φ^f_m(x_k)` on every child cell -/
def nestedB (d : Dump) : Bool :=
  d.cells.all fun cell => cell.children.all fun ch =>
    let e := Eof cell ch
    ch.pts.all fun p =>
      (List.range cell.cmap.length).all fun j =>
        p.c.getD j 0 == sumTo ch.fmap.length fun m => get e m j * p.f.getD m 0

/-- every child cell sees its own local matrix in the rows of the global matrix `pd` (all cells sharing a fine dof
contribute the same row) -/
def consB (d : Dump) (pd : Mat) : Bool :=
  d.cells.all fun cell => cell.children.all fun ch =>
    let e := Eof cell ch
    (List.range ch.fmap.length).all fun k => (List.range d.nc).all fun s =>
      get pd (ch.fmap.getD k 0) s ==
        sumTo cell.cmap.length fun j => get e k j * (if cell.cmap.getD j 0 = s then 1 else 0)

/-- the refined rule integrates the coarse mass matrix like the unrefined rule: `Σ_children Nᵀ E = M_c` -/
def intB (d : Dump) : Bool :=
  d.cells.all fun cell =>
    let ncl := cell.cmap.length
    let prods := cell.children.map fun ch =>
      matMul ncl ch.fmap.length ncl (massCF ncl ch.fmap.length ch.pts) (Eof cell ch)
    let mc := massC ncl cell.cpts
    (List.range ncl).all fun l => (List.range ncl).all fun j =>
      lsum (prods.map fun a => get a l j) == get mc l j

/-- dof-mappings address existing dofs -/
def mapsB (d : Dump) : Bool :=
  d.cells.all fun cell => cell.cmap.all (· < d.nc) && cell.children.all fun ch => ch.fmap.all (· < d.nf)

/-! ### the two cell lookups of the assembly loops (mesh permutations) -/

/-- data of one fine mesh cell (mesh numbering): dof-mapping, per cubature point weight·jac_det and fine basis values -/
structure FineCell where
  fmap : List Nat
  pts : List (Rat × List Rat)
deriving Inhabited

/-- data of one coarse mesh cell (mesh numbering): dof-mapping, coarse cubature loop, coarse basis values at the points
of the refined rule (point `l = child * npts + k`) -/
structure CoarseCell where
  cmap : List Nat
  cpts : List Pt
  ref : List (List Rat)
deriving Inhabited

/-- a coarse/fine mesh pair as `GridTransfer` sees it.  `coarsePerm` = positions of
`coarse_mesh.get_mesh_permutation().get_perm()`, `fineInvPerm` = positions of
`fine_mesh.get_mesh_permutation().get_inv_perm()`; the empty list is the empty permutation (unpermuted mesh). -/
structure TwoLevel where
  nf : Nat
  nc : Nat
  nchild : Nat
  npts : Nat
  coarse : List CoarseCell
  fine : List FineCell
  coarsePerm : List Nat
  fineInvPerm : List Nat

/-- `perm.empty() ? i : perm.map(i)` -/
def lookup (perm : List Nat) (i : Nat) : Nat := if perm.isEmpty then i else perm.getD i 0

/-- `CoarseFineCellMapping::calc_fcell` of an unstructured (conformal) mesh: 2-level ordering -/
def calcFcell (nchild ccell child : Nat) : Nat := ccell * nchild + child

/-- the fine mesh cell visited for (`ccell`, `child`):
`ccell_2lvl = coarse_perm(ccell); fcell_2lvl = calc_fcell(ccell_2lvl, child); fcell = fine_inv_perm(fcell_2lvl)` -/
def TwoLevel.fcellOf (m : TwoLevel) (ccell child : Nat) : Nat :=
  lookup m.fineInvPerm (calcFcell m.nchild (lookup m.coarsePerm ccell) child)

/-- what the inner loop body integrates for (`ccell`, `child`) -/
def TwoLevel.childOf (m : TwoLevel) (cc : CoarseCell) (ccell child : Nat) : Child :=
  let fc := m.fine.getD (m.fcellOf ccell child) default
  { fmap := fc.fmap,
    pts := (List.range m.npts).map fun k =>
      let wf := fc.pts.getD k (0, [])
      { w := wf.1, f := wf.2, c := cc.ref.getD (child * m.npts + k) [] } }

/-- the loop nest `for ccell … for child …` of `assemble_prolongation` / `assemble_truncation` / `prolongate_vector` -/
def TwoLevel.toDump (m : TwoLevel) : Dump :=
  { nf := m.nf, nc := m.nc,
    cells := (List.range m.coarse.length).map fun i =>
      let cc := m.coarse.getD i default
      { cmap := cc.cmap, cpts := cc.cpts, children := (List.range m.nchild).map (m.childOf cc i) } }

/-! ### CSR containers (shared model `FeatModel.LA.Csr` of C01/C02): layout of the prolongation matrix, restriction
`rest = prol.transpose()` (C02's loop-faithful counting sort) and `LAFEM::Transfer` (C01's `apply`) -/

open FeatModel.LA in
/-- a dense matrix stored into a given CSR layout (`ScatterAxpy` into the 2-level pattern + `scale_rows`) -/
def csrOfDense (rows cols : Nat) (ptr ind : List Nat) (m : Mat) : Csr Rat :=
  { rows := rows, cols := cols, rowPtr := ptr.toArray, colInd := ind.toArray,
    val := ((List.range rows).flatMap fun i =>
      (List.range' (ptr.getD i 0) (ptr.getD (i + 1) 0 - ptr.getD i 0)).map fun k => get m i (ind.getD k 0)).toArray }

/-- `LAFEM::Transfer`: three stored matrices -/
structure Transfer where
  prol : FeatModel.LA.Csr Rat
  rest : FeatModel.LA.Csr Rat
  trunc : FeatModel.LA.Csr Rat

/-- what `control/asm/transfer_asm.hpp` builds: `rest = prol.transpose()` -/
def Transfer.ofProl (prol trunc : FeatModel.LA.Csr Rat) : Transfer :=
  { prol := prol, rest := prol.transpose, trunc := trunc }

/-- `prol(vec_fine, vec_coarse)`: `_mat_prol.apply(vec_fine, vec_coarse)`; `none` = size assertion -/
def Transfer.applyProl (t : Transfer) (vecFine vecCoarse : Array Rat) : Option (Array Rat) :=
  t.prol.applyQ vecCoarse vecFine false
/-- `rest(vec_fine, vec_coarse)`: `_mat_rest.apply(vec_coarse, vec_fine)` -/
def Transfer.applyRest (t : Transfer) (vecFine vecCoarse : Array Rat) : Option (Array Rat) :=
  t.rest.applyQ vecFine vecCoarse false
/-- `trunc(vec_fine, vec_coarse)`: `_mat_trunc.apply(vec_coarse, vec_fine)` -/
def Transfer.applyTrunc (t : Transfer) (vecFine vecCoarse : Array Rat) : Option (Array Rat) :=
  t.trunc.applyQ vecFine vecCoarse false

/-! ### `convert` / `clone` of transfer objects (mixed precision / index-type hierarchies) -/

/-- `SparseMatrixCSR::convert(other)` (`Container::assign`): same dimensions and layout arrays, every value converted by
`cv` (the identity when only the index type changes, as in the runs at `Q`; the rounding to the target type otherwise) -/
def csrConvert (cv : Rat → Rat) (A : FeatModel.LA.Csr Rat) : FeatModel.LA.Csr Rat :=
  { rows := A.rows, cols := A.cols, rowPtr := A.rowPtr, colInd := A.colInd, val := A.val.map cv }

/-- `LAFEM::Transfer::convert(other)`: field by field — prolongation from prolongation, restriction from restriction,
truncation from truncation -/
def Transfer.convert (cv : Rat → Rat) (t : Transfer) : Transfer :=
  { prol := csrConvert cv t.prol, rest := csrConvert cv t.rest, trunc := csrConvert cv t.trunc }

/-- the clone modes that copy or share the values (`Layout` / `Allocate` leave the values unspecified) -/
inductive CloneMode where
  | shallow | weak | deep
deriving DecidableEq

/-- `LAFEM::Transfer::clone(mode)`: `Transfer(prol.clone(mode), rest.clone(mode), trunc.clone(mode))` -/
def Transfer.clone (_ : CloneMode) (t : Transfer) : Transfer :=
  { prol := t.prol, rest := t.rest, trunc := t.trunc }

/-- what the matrix getters show: rows, columns, stored entries, `Σ_k (k+1)·val[k]` -/
def csrSig (A : FeatModel.LA.Csr Rat) : Nat × Nat × Nat × Rat :=
  (A.rows, A.cols, A.val.size, (List.range A.val.size).foldl (fun s k => s + ((k + 1 : Nat) : Rat) * A.val.getD k 0) 0)

end FeatModel.GT
