import FeatModel.Model.FETrace
/-
Finite checks (core Lean) used to transfer the reference-configuration trace theorems to the cells of an arbitrary
2-D mesh for the families with at most one DOF per entity (Lagrange-1/2, P2-bubble, Bernstein-2).
-/
namespace FeatModel.FE

def edgeSyms : List (List Nat) := [[0, 1], [1, 0]]

/-- the edge orientation of the reference cell in which local edge `l` is stored with the symmetry `π` -/
def orientFor (k : Kind) (l : Nat) (π : List Nat) : List Nat :=
  (List.range (numFaces k 2 1)).map fun l' => if l' = l ∧ π = [1, 0] then 1 else 0

/-- every stored row `storedRow k 2 1 l π` occurs as the row of edge `l` of a reference configuration -/
def rowsCovered (k : Kind) : Bool :=
  (List.range (numFaces k 2 1)).all fun l => edgeSyms.all fun π =>
    (allOrients (numFaces k 2 1)).contains (orientFor k l π) &&
      (refMesh k 2 (orientFor k l π)).row 1 0 l == storedRow k 2 1 l π

/-- what `facetId` means for the one-DOF-per-entity families in 2-D: a local DOF is attached to the edge with stored
    row `r` (local edge `l`) iff it is the DOF of the vertex `r[id]` (`id = 0, 1`) or the edge DOF of edge `l` (`id = 2`) -/
def facetIdOk (f : Fam) (k : Kind) : Bool :=
  (List.range (numFaces k 2 1)).all fun l => edgeSyms.all fun π =>
    let r := storedRow k 2 1 l π
    (List.range 16).all fun i =>
      match facetId f k 2 r i with
      | none => true
      | some id => (id < 2 && i == r.getD id 0 && r.getD id 0 < numVerts k 2) ||
          (id == 2 && i == numVerts k 2 + l && (dofsPerDim f k 2).getD 1 0 == 1)

def conformKeys : List (Fam × Kind) := [(.L1, .S), (.L2, .S), (.L1, .H), (.L2, .H)]

end FeatModel.FE
