import FeatModel.Model.FE
/-
The reference cell as a one-cell mesh with a prescribed orientation of its edges, and the decidable duality check
"node functional i applied to local basis function j = δ_ij" expressed with the very functions the driver executes
(`interpolate`, `slotPerm`, `localDofs`, the generated tables).  Core Lean only.
-/
namespace FeatModel.FE
open FeatModel.Poly

/-- coordinates of vertex `i` of the `d`-dimensional reference cell -/
def refVertex : Kind → Nat → Nat → List Rat
  | .S, d, i => (List.range d).map fun k => if k + 1 = i then 1 else 0
  | .H, d, i => (List.range d).map fun k => if (i / 2 ^ k) % 2 = 1 then 1 else -1

/-- the reference cell as a mesh; edge `l` is stored reversed iff `o[l] = 1`; faces (3-D) are stored canonically -/
def refMesh (k : Kind) (dim : Nat) (o : List Nat) : Mesh :=
  let nv := numVerts k dim
  let coords := (List.range nv).map (refVertex k dim)
  let cellRow := List.range nv
  match dim with
  | 1 => { kind := k, dim := 1, coords := coords, num := [nv, 1], idx := [[], [[cellRow]]] }
  | 2 =>
    let edges := (fim k 2 1).zipIdx.map fun (e, l) => if o.getD l 0 = 1 then e.reverse else e
    { kind := k, dim := 2, coords := coords, num := [nv, edges.length, 1],
      idx := [[], [edges], [[cellRow], [List.range edges.length]]] }
  | 3 =>
    let edges := (fim k 3 1).zipIdx.map fun (e, l) => if o.getD l 0 = 1 then e.reverse else e
    let faces := fim k 3 2
    { kind := k, dim := 3, coords := coords, num := [nv, edges.length, faces.length, 1],
      idx := [[], [edges], [faces, []], [[cellRow], [List.range edges.length], [List.range faces.length]]] }
  | _ => { kind := k, dim := dim, coords := [], num := [], idx := [] }

/-- all 0/1 lists of length `n` -/
def allOrients : Nat → List (List Nat)
  | 0 => [[]]
  | n + 1 => (allOrients n).flatMap fun l => [0 :: l, 1 :: l]

/-- duality on the reference cell with edge orientation `o`: interpolating local basis function `j` gives the `j`-th
    unit vector (in the global numbering of the one-cell mesh) -/
def dualOk (f : Fam) (k : Kind) (dim : Nat) (o : List Nat) : Bool :=
  match tabOf f k dim with
  | none => false
  | some tab =>
    let m := refMesh k dim o
    let perm := slotPerm f m 0
    let dofs := localDofs f m 0
    let n := numDofs f m
    n == tab.nloc && (List.range tab.nloc).all fun j =>
      interpolate f m (tab.val (perm.getD j j)) == (List.range n).map fun g => if g = dofs.getD j 0 then 1 else 0

/-- duality for every orientation of the edges of the reference cell -/
def dualAll (f : Fam) (k : Kind) (dim : Nat) : Bool :=
  (allOrients (numFaces k dim 1 * (if dim ≥ 2 then 1 else 0))).all (dualOk f k dim)

/-- partition of unity: the value polynomials sum to 1, gradients / Hessians to 0 -/
def pouOk (t : BasisTab) : Bool :=
  equiv (sum t.vals) [(1, List.replicate t.nvars 0)]
    && (!t.hasGrad || (List.range t.nvars).all fun k => equiv (sum ((List.range t.nloc).map fun i => t.grad i k)) [])

abbrev Key := Fam × Kind × Nat

/-- the table of `key` exists, has the right shape, reproduces every recorded sample of the real evaluator, and its
    gradient / Hessian polynomials are the formal derivatives of its value polynomials -/
def okKey (key : Key) : Bool :=
  match tabOf key.1 key.2.1 key.2.2 with
  | some t => t.shapeOk && t.samplesOk && t.gradOk && t.hessOk
  | none => false

def keysS2 : List Key := [(.L1, .S, 2), (.L2, .S, 2), (.L3, .S, 2), (.D0, .S, 2), (.D1, .S, 2), (.CR, .S, 2), (.PB, .S, 2)]
def keysS3 : List Key := [(.L1, .S, 3), (.L2, .S, 3), (.D0, .S, 3), (.D1, .S, 3), (.CR, .S, 3)]
def keysH1 : List Key := [(.L1, .H, 1), (.L2, .H, 1), (.L3, .H, 1), (.D0, .H, 1), (.B2, .H, 1)]
def keysH2a : List Key := [(.L1, .H, 2), (.L2, .H, 2), (.D0, .H, 2), (.B2, .H, 2)]
def keysH2b : List Key := [(.L3, .H, 2)]
def keysH3a : List Key := [(.L1, .H, 3), (.D0, .H, 3)]
/-- 3-D tensor tables: samples through `tensor_table_correct`, gradient / Hessian identities by kernel evaluation -/
def keysH3b : List Key := [(.L2, .H, 3), (.B2, .H, 3), (.L3, .H, 3)]
def keysH3 : List Key := keysH3a ++ keysH3b
/-- every table whose agreement with the samples of the real evaluator is checked by the Lean kernel
    (3-D hypercube tables of degree ≥ 2 are tensor products of the checked 1-D tables; their samples are covered through
    the generic `tensor_table_correct`) -/
def checkedKeys : List Key := keysS2 ++ keysS3 ++ keysH1 ++ keysH2a ++ keysH2b ++ keysH3

/-- keys with a kernel-checked duality statement: all edge orientations in 1-D/2-D, canonical orientation in 3-D -/
def dualKeysS2 : List Key :=
  [(.L1, .S, 2), (.L2, .S, 2), (.L3, .S, 2), (.D0, .S, 2), (.D1, .S, 2), (.CR, .S, 2), (.PB, .S, 2)]
def dualKeysH12 : List Key :=
  [(.L1, .H, 1), (.L2, .H, 1), (.L3, .H, 1), (.D0, .H, 1), (.L1, .H, 2), (.L2, .H, 2), (.D0, .H, 2)]
def dualKeys2 : List Key := dualKeysS2 ++ dualKeysH12
def dualKeys2b : List Key := [(.L3, .H, 2)]
def dualKeysS3 : List Key := [(.L1, .S, 3), (.L2, .S, 3), (.D0, .S, 3), (.D1, .S, 3), (.CR, .S, 3)]
def dualKeysH3 : List Key := [(.L1, .H, 3), (.L2, .H, 3), (.D0, .H, 3)]
def dualKeys3 : List Key := dualKeysS3 ++ dualKeysH3

/-- the Hessian check restricted to the basis functions `is` (to split a long kernel evaluation over modules) -/
def hessOkPart (t : FeatModel.Poly.BasisTab) (is : List Nat) : Bool :=
  !t.hasHess || is.all fun i => (List.range t.nvars).all fun a => (List.range t.nvars).all fun b =>
    FeatModel.Poly.equiv (t.hes i a b) (FeatModel.Poly.pderiv b (t.grad i a))

def pouKeys : List Key :=
  [(.L1, .S, 2), (.L2, .S, 2), (.L3, .S, 2), (.D1, .S, 2), (.CR, .S, 2), (.L1, .S, 3), (.L2, .S, 3), (.D1, .S, 3),
   (.CR, .S, 3), (.L1, .H, 1), (.L2, .H, 1), (.L3, .H, 1), (.B2, .H, 1), (.L1, .H, 2), (.L2, .H, 2), (.L3, .H, 2),
   (.B2, .H, 2), (.L1, .H, 3), (.L2, .H, 3), (.B2, .H, 3)]

def pouKey (key : Key) : Bool :=
  match tabOf key.1 key.2.1 key.2.2 with
  | some t => pouOk t
  | none => false

end FeatModel.FE
