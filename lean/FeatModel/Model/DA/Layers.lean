import FeatModel.Model.Adjacency
/-
Model of the static work distribution of `Assembly::DomainAssembler` (kernel/assembly/domain_assembler.hpp):
`_build_graphs`, `_build_layers`, `_build_thread_layers`, `_build_colors`, `_compile`, and of the per-worker
element sequences that the `Worker::_work_*` functions walk through.  Core Lean only.  Index = Nat; every
unsigned subtraction of the C++ carries its guard (an unguarded wrap-around is the outcome `none`).
-/
namespace FeatModel.DA
open FeatModel.Adj

/-! ## `_build_graphs` -/

/-- element-neighbours graph over the *local* numbering `0 .. nel-1` of the selected cells;
`vae` = vertex list of every selected cell (in selection order), `nvt` = index bound of the vertex set -/
def neighbours (nvt : Nat) (vae : List (List Nat)) : Graph :=
  let g : Graph := { nImg := nvt, adj := vae }
  let gs := g.sortIndices
  let gt := gs.transpose
  match Graph.renderComposite 3 gs gt with
  | some r => r
  | none => { nImg := vae.length, adj := [] }

/-! ## `_build_layers` (own Cuthill–McKee by BFS levels) -/

/-- inner `while` of `_build_layers`: one BFS level per iteration.
`el` = elements numbered so far, `lay` = layer offsets pushed so far. -/
def bfsLevels (g : Graph) (sorted : Bool) : Nat → List Nat → List Nat → Array Bool →
    List Nat × List Nat × Array Bool
  | 0, el, lay, mask => (el, lay, mask)
  | fuel + 1, el, lay, mask =>
    if el.length < g.nDom then
      let layerBeg := lay.getLastD 0
      let layerEnd := el.length
      let lay := lay ++ [layerEnd]
      let level := (el.drop layerBeg)
      let (fresh, mask') := CM.expandLevel g level mask
      if fresh.isEmpty then (el, lay, mask')
      else
        -- std::stable_sort by neighbour degree
        let fresh' := if sorted then CM.sortLevel g .asc fresh else fresh
        bfsLevels g sorted fuel (el ++ fresh') lay mask'
    else (el, lay, mask)

/-- root selection of `_build_layers`: the first unmasked node of strictly smallest degree
(`if((deg < min) && (elem_mask[j] == 0))`, `min` starting at `num_elems + 1`) -/
def minDegRoot (g : Graph) (mask : Array Bool) : Option Nat :=
  ((List.range g.nDom).foldl (fun (acc : Option Nat × Nat) j =>
    if g.degree j < acc.2 && !CM.isMasked mask j then (some j, g.degree j) else acc) (none, g.nDom + 1)).1

/-- outer `while`: pick the unmasked node of minimum degree as the new root. `none` = XASSERT "no valid root" -/
def bfsOuter (g : Graph) (sorted : Bool) : Nat → List Nat → List Nat → Array Bool → Option (List Nat × List Nat)
  | 0, el, lay, _ => if el.length < g.nDom then none else some (el, lay)
  | fuel + 1, el, lay, mask =>
    if el.length < g.nDom then
      match minDegRoot g mask with
      | none => none
      | some root =>
        let mask := mask.setIfInBounds root true
        let (el', lay', mask') := bfsLevels g sorted (g.nDom + 1) (el ++ [root]) lay mask
        bfsOuter g sorted fuel el' lay' mask'
    else some (el, lay)

/-- slices `xs[offs[k] .. offs[k+1])` -/
def slices (xs : List Nat) : List Nat → List (List Nat)
  | a :: b :: rest => ((xs.drop a).take (b - a)) :: slices xs (b :: rest)
  | _ => []

/-- `_build_layers(reverse, sorted)`: returns (`_element_indices`, `_layer_elements`) -/
def buildLayers (g : Graph) (elemIdx : List Nat) (reverse sorted : Bool) : Option (List Nat × List Nat) :=
  match bfsOuter g sorted (g.nDom + 1) [] [0] (Array.replicate g.nDom false) with
  | none => none
  | some (el, lay) =>
    let layers := lay ++ [g.nDom]
    -- translate to global cell numbers, sort every layer if requested
    let ls := (slices el layers).map fun l =>
      let t := l.map fun k => elemIdx.getD k 0
      if sorted then Graph.sortList t else t
    let ls := if reverse then ls.reverse else ls
    some (ls.flatten, Graph.prefixSums 0 (ls.map List.length))

/-! ## `_build_thread_layers` -/

/-- functional update -/
@[noinline] def upd (f : Nat → Nat) (i v : Nat) : Nat → Nat := fun j => if j = i then v else f j

/-- step 1 inner loop: `while (j < L) && (le[j] < desired) ++j` -/
def advance (le : List Nat) (numLayers desired : Nat) : Nat → Nat → Nat
  | 0, j => j
  | fuel + 1, j => if j < numLayers ∧ le.getD j 0 < desired then advance le numLayers desired fuel (j + 1) else j

/-- step 1: the entry pushed for thread `i` (`0 ≤ i < nW`) -/
def step1 (le : List Nat) (numElems numLayers nW : Nat) : Nat → Nat
  | 0 => 0
  | i + 1 =>
    let desired := (numElems * (i + 1)) / nW
    advance le numLayers desired numLayers (step1 le numElems numLayers nW i + 1)

/-- step 2, called with `i = nW - 1`: backward sweep over indices `i, i-1, …, 1` with the `break`.
`none` = the unsigned subtraction `tl[i+1] - 2` would wrap around. -/
def sweepBack : Nat → (Nat → Nat) → Option (Nat → Nat)
  | 0, tl => some tl
  | i + 1, tl =>
    if tl (i + 2) < tl (i + 1) + 2 then
      if tl (i + 2) < 2 then none
      else
        let tl' := upd tl (i + 1) (tl (i + 2) - 2)
        if tl' (i + 1) < 2 then some tl' else sweepBack i tl'
    else if tl (i + 1) < 2 then some tl else sweepBack i tl

/-- accumulator of the forward sweep: a structure, so that the compiled fold evaluates every iteration eagerly
(a bare function-valued accumulator is eta-expanded by the compiler and re-evaluated on every call) -/
structure TL where
  f : Nat → Nat

/-- step 3: forward sweep `i = 0 .. nW-1` -/
def sweepFwd (nW : Nat) (tl : Nat → Nat) : Nat → Nat :=
  ((List.range nW).foldl
    (fun (t : TL) i => if t.f (i + 1) < t.f i + 2 then (⟨upd t.f (i + 1) (t.f i + 2)⟩ : TL) else t) ⟨tl⟩).f

/-- number of worker threads chosen by `_build_thread_layers` -/
def numWorkersLayered (maxW : Nat) (le : List Nat) : Nat := min maxW (le.length / 3)

/-- the three steps on a function `index ↦ first layer`; `none` = wrap-around or a failed XASSERT -/
def threadLayersFn (nW numElems : Nat) (le : List Nat) : Option (Nat → Nat) :=
  let numLayers := le.length - 1
  -- step 1 is tabulated once (`_thread_layers` is a vector): entry `i < nW` is `step1 … i`, the last one `numLayers`
  let t0 := (List.range nW).map (step1 le numElems numLayers nW)
  let tl0 : Nat → Nat := fun i => t0.getD i numLayers
  match sweepBack (nW - 1) tl0 with
  | none => none
  | some tl2 =>
    let tl3 := sweepFwd nW tl2
    if tl3 0 = 0 ∧ tl3 nW = numLayers then some tl3 else none

/-- `_build_thread_layers`: `(num_worker_threads, _thread_layers)` -/
def buildThreadLayers (maxW numElems : Nat) (le : List Nat) : Option (Nat × List Nat) :=
  let nW := numWorkersLayered maxW le
  if nW < 1 then some (0, [])
  else
    match threadLayersFn nW numElems le with
    | none => none
    | some tl => some (nW, (List.range (nW + 1)).map tl)

/-! ## `_build_colors` -/

/-- returns (`num_worker_threads`, `_element_indices`, `_color_elements`) -/
def buildColors (g : Graph) (elemIdx : List Nat) (maxW : Nat) : Nat × List Nat × List Nat :=
  let st := Coloring.greedy g
  let parti := Coloring.partitionGraph st.numColors st.coloring.toList
  (min maxW parti.maxDegree, parti.imageIdx.map (fun k => elemIdx.getD k 0), parti.domainPtr)

/-! ## `_compile` -/

structure Dist where
  strategy : Nat            -- resolved strategy: 1 single, 2 layered, 3 layered_sorted, 4 colored
  nW : Nat                  -- `_num_worker_threads`
  elemIdx : List Nat        -- `_element_indices`
  layerElems : List Nat     -- `_layer_elements`
  threadLayers : List Nat   -- `_thread_layers`
  colorElems : List Nat     -- `_color_elements`
  nFences : Nat             -- `_thread_fences.size()`
deriving Repr

/-- `compile()`; strategies: 0 automatic, 1 single, 2 layered, 3 layered_sorted, 4 colored.
`cells` = vertices of every mesh cell, `sel` = ascending list of the selected cells (the element mask).
The mesh is not permuted (automatic never resolves to colored). `none` = abort. -/
def compile (strategy maxW nvt : Nat) (cells : List (List Nat)) (sel : List Nat) : Option Dist :=
  if sel.isEmpty then some ⟨strategy, 0, [], [], [], [], 0⟩
  else
    let strategy := if strategy = 0 then (if maxW ≤ 1 then 1 else 2) else strategy
    if maxW = 0 then some ⟨strategy, 0, sel, [], [], [], 2⟩
    else
      let g := neighbours nvt (sel.map fun c => cells.getD c [])
      let fin := fun (d : Dist) =>
        let nW := if d.nW ≤ 1 then 0 else d.nW
        some { d with nW := nW, nFences := nW + 2 }
      match strategy with
      | 2 | 3 =>
        match buildLayers g sel (strategy == 3) (strategy == 3) with
        | none => none
        | some (ei, le) =>
          match buildThreadLayers maxW ei.length le with
          | none => none
          | some (nW, tl) => fin ⟨strategy, nW, ei, le, tl, [], 0⟩
      | 4 =>
        let (nW, ei, ce) := buildColors g sel maxW
        fin ⟨strategy, nW, ei, [], [], ce, 0⟩
      | _ => fin ⟨strategy, 0, sel, [], [], [], 0⟩

/-! ## element sequences of the workers (`Worker::_work_*`) -/

/-- `xs[a .. b)` -/
def slice (xs : List Nat) (a b : Nat) : List Nat := (xs.drop a).take (b - a)

/-- the cells worker `w` (`1 ≤ w ≤ nW`; `0` = master when `nW = 0`) prepares, in order.
`needScatter = false` selects `_work_no_scatter`. -/
def workerCells (d : Dist) (needScatter : Bool) (w : Nat) : List Nat :=
  let n := d.elemIdx.length
  if d.nW = 0 then (if w = 0 then d.elemIdx else [])
  else if w = 0 ∨ d.nW < w then []
  else if !needScatter then slice d.elemIdx (((w - 1) * n) / d.nW) ((w * n) / d.nW)
  else if d.strategy = 4 then
    (List.range (d.colorElems.length - 1)).flatMap fun ic =>
      let offs := d.colorElems.getD ic 0
      let size := d.colorElems.getD (ic + 1) 0 - offs
      slice d.elemIdx (offs + (size * (w - 1)) / d.nW) (offs + (size * w) / d.nW)
  else
    slice d.elemIdx (d.layerElems.getD (d.threadLayers.getD (w - 1) 0) 0) (d.layerElems.getD (d.threadLayers.getD w 0) 0)

end FeatModel.DA
