import FeatModel.Model.DA.Layers
/-
Small-step models of the two multi-threaded protocols of `Assembly::DomainAssembler`
(`assemble()` master code + `Worker::_work_layered` / `Worker::_work_colored`, kernel/util/thread.hpp fences).

One transition per C++ statement that touches shared state: `ThreadFence::open / wait (return) / close`,
`Task::scatter` enter and leave, `Task::combine` enter and leave under `_thread_mutex`, and the master's `join`.
Every thread is deterministic: `next` gives the one event a thread can do next, `enabled` says whether it is
blocked, `apply` performs it.  Threads: `0` = master, `1..n` = workers.  Fences: `0` = front, `n+1` = back.
Parametric in the number of workers, layers / colours and elements.  The error path (`okay = false`) is not
modelled (tasks do not throw).  Memory model: sequentially consistent atomic steps.
-/
namespace FeatModel.DA

inductive Ev
  | fopen (t f : Nat)    -- thread `t` executes `fence[f].open(true)`
  | fwait (t f : Nat)    -- thread `t` returns from `fence[f].wait()`
  | fclose (t f : Nat)   -- thread `t` executes `fence[f].close()`
  | enter (t c : Nat)    -- worker `t` enters `scatter()` for cell `c`
  | leave (t c : Nat)    -- worker `t` leaves `scatter()` for cell `c`
  | center (t : Nat)     -- worker `t` has locked `_thread_mutex` and enters `combine()`
  | cleave (t : Nat)     -- worker `t` leaves `combine()` and unlocks
  | join                 -- master has joined all workers
deriving Repr, DecidableEq

def Ev.thread : Ev → Nat
  | .fopen t _ | .fwait t _ | .fclose t _ | .enter t _ | .leave t _ | .center t | .cleave t => t
  | .join => 0

/-- worker / master program counters -/
inductive Ph
  | front     -- before `fence.front().wait()`            (master: before `front().open()`)
  | idle      -- before the scatter of element `pos`       (layered: the fence wait, if due, is still to do)
  | ready     -- layered: waited for fence `w+1`, before scatter
  | insc      -- inside `scatter()`
  | toOpen    -- left scatter / colour share, before `fence[w].open()`
  | back      -- colored: before `fence.back().wait()`     (master: before `join`)
  | toOpen2   -- colored: before the second `fence[w].open()`
  | preComb   -- before locking the mutex
  | inComb    -- inside `combine()`
  | done
deriving Repr, DecidableEq

@[noinline] def updB (f : Nat → Bool) (i : Nat) (v : Bool) : Nat → Bool := fun j => if j = i then v else f j
@[noinline] def updP (f : Nat → Ph) (i : Nat) (v : Ph) : Nat → Ph := fun j => if j = i then v else f j

/-! ## layered (and layered_sorted) -/

structure LCfg where
  n : Nat                      -- `_num_worker_threads`
  beg : Nat → Nat              -- `elem_beg` of worker `w`
  fin : Nat → Nat              -- `elem_end`
  openAt : Nat → Option Nat    -- `elem_fence_open` (`none` = `~Index(0)`)
  waitAt : Nat → Option Nat    -- `elem_fence_wait`
  cell : Nat → Nat             -- `_element_indices`
  comb : Bool                  -- `need_combine`

/-- the constants computed at the top of `_work_layered` from `_layer_elements` / `_thread_layers` -/
def LCfg.ofFns (n : Nat) (le tl cell : Nat → Nat) (comb : Bool) : LCfg :=
  { n := n, beg := fun w => le (tl (w - 1)), fin := fun w => le (tl w),
    openAt := fun w => if 1 < w then some (le (tl (w - 1) + 1) - 1) else none,
    waitAt := fun w => if w < n then some (le (tl w - 1)) else none,
    cell := cell, comb := comb }

def LCfg.ofDist (d : Dist) (comb : Bool) : LCfg :=
  LCfg.ofFns d.nW (fun k => d.layerElems.getD k 0) (fun k => d.threadLayers.getD k 0)
    (fun p => d.elemIdx.getD p 0) comb

structure LSt where
  fence : Nat → Bool
  ph : Nat → Ph        -- index 0 = master (`front` → `back` → `done`)
  pos : Nat → Nat
  mutex : Bool

def LCfg.init (c : LCfg) : LSt :=
  { fence := fun _ => false, ph := fun _ => .front, pos := c.beg, mutex := false }

/-- where a worker continues when its loop variable becomes `p` -/
def LCfg.after (c : LCfg) (w p : Nat) : Ph :=
  if p < c.fin w then .idle else if c.comb then .preComb else .done

def LCfg.allDone (c : LCfg) (s : LSt) : Bool := (List.range c.n).all fun k => s.ph (k + 1) == .done

/-- the next event of thread `t` -/
def LCfg.next (c : LCfg) (s : LSt) (t : Nat) : Option Ev :=
  if t = 0 then
    match s.ph 0 with
    | .front => some (.fopen 0 0)
    | .back => some .join
    | _ => none
  else if c.n < t then none
  else
    match s.ph t with
    | .front => some (.fwait t 0)
    | .idle => if c.waitAt t = some (s.pos t) then some (.fwait t (t + 1)) else some (.enter t (c.cell (s.pos t)))
    | .ready => some (.enter t (c.cell (s.pos t)))
    | .insc => some (.leave t (c.cell (s.pos t)))
    | .toOpen => some (.fopen t t)
    | .preComb => some (.center t)
    | .inComb => some (.cleave t)
    | _ => none

def LCfg.enabled (c : LCfg) (s : LSt) : Ev → Bool
  | .fwait _ f => s.fence f
  | .center _ => !s.mutex
  | .join => c.allDone s
  | _ => true

def LCfg.apply (c : LCfg) (s : LSt) : Ev → LSt
  | .fopen t f =>
    if t = 0 then { s with fence := updB s.fence f true, ph := updP s.ph 0 .back }
    else { s with fence := updB s.fence f true, ph := updP s.ph t (c.after t (s.pos t + 1)),
                  pos := upd s.pos t (s.pos t + 1) }
  | .fwait t f =>
    if f = 0 then { s with ph := updP s.ph t (c.after t (s.pos t)) }
    else { s with ph := updP s.ph t .ready }
  | .enter t _ => { s with ph := updP s.ph t .insc }
  | .leave t _ =>
    if c.openAt t = some (s.pos t) then { s with ph := updP s.ph t .toOpen }
    else { s with ph := updP s.ph t (c.after t (s.pos t + 1)), pos := upd s.pos t (s.pos t + 1) }
  | .center t => { s with ph := updP s.ph t .inComb, mutex := true }
  | .cleave t => { s with ph := updP s.ph t .done, mutex := false }
  | .join => { s with ph := updP s.ph 0 .done }
  | .fclose _ _ => s

/-- one transition: the event must be the next event of its thread and must not be blocked -/
def LCfg.step (c : LCfg) (s : LSt) (e : Ev) : Option LSt :=
  if c.next s e.thread = some e ∧ c.enabled s e = true then some (c.apply s e) else none

/-- states reachable from the initial state -/
inductive LCfg.Reach (c : LCfg) : LSt → Prop
  | init : LCfg.Reach c c.init
  | step {s s' : LSt} (e : Ev) : LCfg.Reach c s → c.step s e = some s' → LCfg.Reach c s'

def LCfg.final (s : LSt) : Bool := s.ph 0 == .done

/-! ## colored -/

structure CCfg where
  n : Nat                       -- `_num_worker_threads`
  nc : Nat                      -- number of colours (`_color_elements.size() - 1`)
  cbeg : Nat → Nat → Nat        -- colour, worker ↦ `color_offs + elem_beg`
  cend : Nat → Nat → Nat        -- colour, worker ↦ `color_offs + elem_end`
  cell : Nat → Nat
  comb : Bool

def CCfg.ofDist (d : Dist) (comb : Bool) : CCfg :=
  let ce := fun k => d.colorElems.getD k 0
  { n := d.nW, nc := d.colorElems.length - 1,
    cbeg := fun ic w => ce ic + ((ce (ic + 1) - ce ic) * (w - 1)) / d.nW,
    cend := fun ic w => ce ic + ((ce (ic + 1) - ce ic) * w) / d.nW,
    cell := fun p => d.elemIdx.getD p 0, comb := comb }

/-- master program counter inside one colour round -/
inductive MPh
  | openFront | wait1 | close1 | closeFront | openBack | wait2 | close2 | closeBack | join | done
deriving Repr, DecidableEq

structure CSt where
  fence : Nat → Bool
  ph : Nat → Ph        -- workers `1..n`
  pos : Nat → Nat
  col : Nat → Nat      -- `icol` of every thread (index 0 = master)
  mph : MPh
  mi : Nat             -- master's loop variable `i+1` in the wait/close loops
  mutex : Bool

def CCfg.init (c : CCfg) : CSt :=
  { fence := fun _ => false, ph := fun _ => if 0 < c.nc then .front else if c.comb then .preComb else .done,
    pos := fun _ => 0, col := fun _ => 0,
    mph := if 0 < c.nc then .openFront else .join, mi := 1, mutex := false }

def CCfg.allDone (c : CCfg) (s : CSt) : Bool := (List.range c.n).all fun k => s.ph (k + 1) == .done

def CCfg.next (c : CCfg) (s : CSt) (t : Nat) : Option Ev :=
  if t = 0 then
    match s.mph with
    | .openFront => some (.fopen 0 0)
    | .wait1 | .wait2 => some (.fwait 0 s.mi)
    | .close1 | .close2 => some (.fclose 0 s.mi)
    | .closeFront => some (.fclose 0 0)
    | .openBack => some (.fopen 0 (c.n + 1))
    | .closeBack => some (.fclose 0 (c.n + 1))
    | .join => some .join
    | .done => none
  else if c.n < t then none
  else
    match s.ph t with
    | .front => some (.fwait t 0)
    | .idle => some (.enter t (c.cell (s.pos t)))
    | .insc => some (.leave t (c.cell (s.pos t)))
    | .toOpen => some (.fopen t t)
    | .back => some (.fwait t (c.n + 1))
    | .toOpen2 => some (.fopen t t)
    | .preComb => some (.center t)
    | .inComb => some (.cleave t)
    | _ => none

def CCfg.enabled (c : CCfg) (s : CSt) : Ev → Bool
  | .fwait _ f => s.fence f
  | .center _ => !s.mutex
  | .join => c.allDone s
  | _ => true

/-- worker `t` continues with element `p` of colour `s.col t` -/
def CCfg.afterElem (c : CCfg) (s : CSt) (t p : Nat) : Ph :=
  if p < c.cend (s.col t) t then .idle else .toOpen

def CCfg.apply (c : CCfg) (s : CSt) : Ev → CSt
  | .fopen t f =>
    if t = 0 then
      (if s.mph = .openFront then { s with fence := updB s.fence f true, mph := .wait1, mi := 1 }
       else { s with fence := updB s.fence f true, mph := .wait2, mi := 1 })
    else if s.ph t = .toOpen then { s with fence := updB s.fence f true, ph := updP s.ph t .back }
    else
      let ic := s.col t + 1
      { s with fence := updB s.fence f true, col := upd s.col t ic,
               ph := updP s.ph t (if ic < c.nc then .front else if c.comb then .preComb else .done) }
  | .fwait t f =>
    if t = 0 then { s with mph := if s.mph = .wait1 then .close1 else .close2 }
    else if f = 0 then
      let p := c.cbeg (s.col t) t
      { s with pos := upd s.pos t p, ph := updP s.ph t (c.afterElem s t p) }
    else { s with ph := updP s.ph t .toOpen2 }
  | .fclose _ f =>
    match s.mph with
    | .close1 =>
      if s.mi < c.n then { s with fence := updB s.fence f false, mph := .wait1, mi := s.mi + 1 }
      else { s with fence := updB s.fence f false, mph := .closeFront }
    | .close2 =>
      if s.mi < c.n then { s with fence := updB s.fence f false, mph := .wait2, mi := s.mi + 1 }
      else { s with fence := updB s.fence f false, mph := .closeBack }
    | .closeFront => { s with fence := updB s.fence f false, mph := .openBack }
    | .closeBack =>
      let ic := s.col 0 + 1
      { s with fence := updB s.fence f false, col := upd s.col 0 ic, mph := if ic < c.nc then .openFront else .join }
    | _ => s
  | .enter t _ => { s with ph := updP s.ph t .insc }
  | .leave t _ => { s with pos := upd s.pos t (s.pos t + 1), ph := updP s.ph t (c.afterElem s t (s.pos t + 1)) }
  | .center t => { s with ph := updP s.ph t .inComb, mutex := true }
  | .cleave t => { s with ph := updP s.ph t .done, mutex := false }
  | .join => { s with mph := .done }

def CCfg.step (c : CCfg) (s : CSt) (e : Ev) : Option CSt :=
  if c.next s e.thread = some e ∧ c.enabled s e = true then some (c.apply s e) else none

inductive CCfg.Reach (c : CCfg) : CSt → Prop
  | init : CCfg.Reach c c.init
  | step {s s' : CSt} (e : Ev) : CCfg.Reach c s → c.step s e = some s' → CCfg.Reach c s'

def CCfg.final (s : CSt) : Bool := s.mph == .done

/-! ## jobs without scatter (`need_scatter = false`), every strategy

The workers run `_work_no_scatter`: no fence is touched, only `combine()` under `_thread_mutex`.  The master
(`assemble()`, which switches on `need_scatter ? strategy : single`) opens the front fence and joins. -/

structure NCfg where
  n : Nat
  comb : Bool

structure NSt where
  front : Bool         -- fence 0
  mph : Ph             -- master: `front` → `back` → `done`
  ph : Nat → Ph        -- workers: `preComb` → `inComb` → `done` (or `done` at once without combine)
  mutex : Bool

def NCfg.init (c : NCfg) : NSt :=
  { front := false, mph := .front, ph := fun _ => if c.comb then .preComb else .done, mutex := false }

def NCfg.allDone (c : NCfg) (s : NSt) : Bool := (List.range c.n).all fun k => s.ph (k + 1) == .done

def NCfg.next (c : NCfg) (s : NSt) (t : Nat) : Option Ev :=
  if t = 0 then
    match s.mph with
    | .front => some (.fopen 0 0)
    | .back => some .join
    | _ => none
  else if c.n < t then none
  else
    match s.ph t with
    | .preComb => some (.center t)
    | .inComb => some (.cleave t)
    | _ => none

def NCfg.enabled (c : NCfg) (s : NSt) : Ev → Bool
  | .center _ => !s.mutex
  | .join => c.allDone s
  | _ => true

def NCfg.apply (_c : NCfg) (s : NSt) : Ev → NSt
  | .fopen _ _ => { s with front := true, mph := .back }
  | .center t => { s with ph := updP s.ph t .inComb, mutex := true }
  | .cleave t => { s with ph := updP s.ph t .done, mutex := false }
  | .join => { s with mph := .done }
  | _ => s

def NCfg.step (c : NCfg) (s : NSt) (e : Ev) : Option NSt :=
  if c.next s e.thread = some e ∧ c.enabled s e = true then some (c.apply s e) else none

inductive NCfg.Reach (c : NCfg) : NSt → Prop
  | init : NCfg.Reach c c.init
  | step {s s' : NSt} (e : Ev) : NCfg.Reach c s → c.step s e = some s' → NCfg.Reach c s'

def NCfg.final (s : NSt) : Bool := s.mph == .done

/-! ## repeated jobs on one assembler

`_thread_fences` lives in the assembler, so the state of every fence persists from one `assemble()` call to the next
(a finished layered job leaves the front fence and the fences of workers `2..n` open).  Every `assemble()` /
`assemble_master()` starts with `for(auto& s : _thread_fences) s.close();`.  A job is modelled as
(reset all fences) ; protocol, on the persistent fence vector `fs`. -/

/-- one iteration of the reset loop -/
def resetStep (fs : List Bool) (k : Nat) : List Bool := fs.set k false

/-- `for(auto& s : _thread_fences) s.close();` -/
def resetAll (fs : List Bool) : List Bool := (List.range fs.length).foldl resetStep fs

/-- fence vector ↦ fence function of the protocol machines (a fence that does not exist reads as closed) -/
def fenceFn (fs : List Bool) : Nat → Bool := fun f => fs.getD f false

/-- what a job leaves behind in `_thread_fences` (`nF` fences) -/
def persist (nF : Nat) (fence : Nat → Bool) : List Bool := (List.range nF).map fence

/-- start state of the protocol when the fences are in state `fs` (no reset assumed) -/
def LCfg.initFrom (c : LCfg) (fs : List Bool) : LSt := { c.init with fence := fenceFn fs }
def CCfg.initFrom (c : CCfg) (fs : List Bool) : CSt := { c.init with fence := fenceFn fs }
def NCfg.initFrom (c : NCfg) (fs : List Bool) : NSt := { c.init with front := fenceFn fs 0 }

/-- start state of a job on the persisted fences `fs`: reset, then protocol -/
def LCfg.startJob (c : LCfg) (fs : List Bool) : LSt := c.initFrom (resetAll fs)
def CCfg.startJob (c : CCfg) (fs : List Bool) : CSt := c.initFrom (resetAll fs)
def NCfg.startJob (c : NCfg) (fs : List Bool) : NSt := c.initFrom (resetAll fs)

inductive LCfg.ReachFrom (c : LCfg) (s0 : LSt) : LSt → Prop
  | start : LCfg.ReachFrom c s0 s0
  | step {s s' : LSt} (e : Ev) : LCfg.ReachFrom c s0 s → c.step s e = some s' → LCfg.ReachFrom c s0 s'

inductive CCfg.ReachFrom (c : CCfg) (s0 : CSt) : CSt → Prop
  | start : CCfg.ReachFrom c s0 s0
  | step {s s' : CSt} (e : Ev) : CCfg.ReachFrom c s0 s → c.step s e = some s' → CCfg.ReachFrom c s0 s'

inductive NCfg.ReachFrom (c : NCfg) (s0 : NSt) : NSt → Prop
  | start : NCfg.ReachFrom c s0 s0
  | step {s s' : NSt} (e : Ev) : NCfg.ReachFrom c s0 s → c.step s e = some s' → NCfg.ReachFrom c s0 s'

/-- the protocol of one job (the strategy is fixed at compile time, jobs with and without scatter may alternate) -/
inductive Job
  | layered (c : LCfg)
  | colored (c : CCfg)
  | nosc (c : NCfg)

/-- job `j`, started on the persisted fences `fs`, can run to completion and leave the fences `fs'` -/
def Job.leaves : Job → List Bool → List Bool → Prop
  | .layered c, fs, fs' =>
    ∃ s, c.ReachFrom (c.startJob fs) s ∧ LCfg.final s = true ∧ fs' = persist fs.length s.fence
  | .colored c, fs, fs' =>
    ∃ s, c.ReachFrom (c.startJob fs) s ∧ CCfg.final s = true ∧ fs' = persist fs.length s.fence
  | .nosc c, fs, fs' =>
    ∃ s, c.ReachFrom (c.startJob fs) s ∧ NCfg.final s = true ∧ fs' = (resetAll fs).set 0 s.front

/-- the fence vectors that can be found at the start of an `assemble()` call: all closed after `compile()`
(`nF` default-constructed fences), afterwards whatever the previous jobs left -/
inductive Session (nF : Nat) : List Bool → Prop
  | compiled : Session nF (List.replicate nF false)
  | job {fs fs' : List Bool} (j : Job) : Session nF fs → j.leaves fs fs' → Session nF fs'

/-! ## the error path (`okay = false`)

`Worker::operator()` catches everything a task throws (constructor, `prepare/assemble/scatter/finish/combine`);
a worker whose work function returns `false` - because the task threw or because a fence it waited for carries
`okay = false` - opens ITS OWN fence with `open(false)` and terminates.  So `false` cascades through the fences:
layered: from worker `w` down to `w-1, w-2, …` (each waits for the fence of its successor);
colored: the master collects `all_okay`, opens the back fence with `false`, leaves the colour loop and joins; the
workers waiting for the back fence see `false`, open their own fence with `false` and terminate.
The machines below extend the ones above: a fence now has the two flags `_open` and `_okay`. -/

inductive EEv
  | ok (e : Ev)          -- a normal event; `fwait` means: `wait()` returned `true`; `fopen` means `open(true)`
  | fopenF (t f : Nat)   -- thread `t` executes `fence[f].open(false)`
  | fwaitF (t f : Nat)   -- `fence[f].wait()` returned `false` to thread `t`
  | fail (t : Nat)       -- task code of worker `t` threw
deriving Repr, DecidableEq

/-- the points where task code runs: constructor (before the first front wait), prepare/assemble/finish
(between the scatters; `finish()` of a worker's last element runs when the model is already in `preComb`),
scatter, combine -/
def canFailPh : Ph → Bool
  | .front | .idle | .insc | .inComb | .preComb => true
  | _ => false

structure LESt where
  base : LSt
  okay : Nat → Bool       -- `_okay` of every fence
  failing : Nat → Bool    -- the worker has left its work function with `false`; `open(false)` is still to do

/-- layered: where worker `t` can throw.  Without combine, `finish()` of the last element runs when the model
is already in `done`; it can throw there as long as the worker has not returned through the error path (after
`open(false)` its fence is open with `okay = false`; fences are never closed during a layered job). -/
def LCfg.canFail (c : LCfg) (s : LESt) (t : Nat) : Bool :=
  canFailPh (s.base.ph t) ||
    (s.base.ph t == .done && !c.comb && !(s.base.fence t && !s.okay t))

def LCfg.einit (c : LCfg) : LESt := { base := c.init, okay := fun _ => false, failing := fun _ => false }

def LCfg.estep (c : LCfg) (s : LESt) : EEv → Option LESt
  | .ok e =>
    if s.failing e.thread then none
    else match e with
      | .fwait _ f => if s.okay f then (c.step s.base e).map fun b => { s with base := b } else none
      | .fopen _ f => (c.step s.base e).map fun b => { s with base := b, okay := updB s.okay f true }
      | _ => (c.step s.base e).map fun b => { s with base := b }
  | .fwaitF t f =>
    if !s.failing t ∧ c.next s.base t = some (.fwait t f) ∧ s.base.fence f = true ∧ s.okay f = false then
      some { s with failing := updB s.failing t true }
    else none
  | .fail t =>
    if 1 ≤ t ∧ t ≤ c.n ∧ s.failing t = false ∧ c.canFail s t = true then
      some { s with failing := updB s.failing t true,
                    base := if s.base.ph t = .inComb then { s.base with mutex := false } else s.base }
    else none
  | .fopenF t f =>
    if 1 ≤ t ∧ t ≤ c.n ∧ s.failing t = true ∧ f = t then
      some { base := { s.base with fence := updB s.base.fence t true, ph := updP s.base.ph t .done },
             okay := updB s.okay t false, failing := updB s.failing t false }
    else none

inductive LCfg.EReach (c : LCfg) : LESt → Prop
  | init : LCfg.EReach c c.einit
  | step {s s' : LESt} (e : EEv) : LCfg.EReach c s → c.estep s e = some s' → LCfg.EReach c s'

def LCfg.efinal (s : LESt) : Bool := LCfg.final s.base

structure CESt where
  base : CSt
  okay : Nat → Bool
  failing : Nat → Bool
  allOkay : Bool          -- the master's `all_okay` of the current colour

def CCfg.einit (c : CCfg) : CESt :=
  { base := c.init, okay := fun _ => false, failing := fun _ => false, allOkay := true }

/-- the constructor can only throw before the first colour -/
def canFailC (s : CSt) (t : Nat) : Bool :=
  match s.ph t with
  | .front => s.col t == 0
  | .idle | .insc | .inComb | .toOpen => true   -- `toOpen`: `finish()` of the last element of the colour share
  | _ => false

def CCfg.estep (c : CCfg) (s : CESt) : EEv → Option CESt
  | .ok e =>
    if e.thread ≠ 0 ∧ s.failing e.thread = true then none
    else match e with
      | .fwait _ f =>
        -- `wait()` returned `true` (a `false` is the event `fwaitF`)
        if s.okay f then (c.step s.base e).map fun b => { s with base := b } else none
      | .fopen t f =>
        if t = 0 ∧ s.base.mph = .openBack ∧ s.allOkay = false then none   -- `back().open(all_okay)` with `false`
        else (c.step s.base e).map fun b =>
          { s with base := b, okay := updB s.okay f true,
                   allOkay := if t = 0 ∧ s.base.mph = .openFront then true else s.allOkay }
      | _ => (c.step s.base e).map fun b => { s with base := b }
  | .fwaitF t f =>
    if t = 0 then
      -- master: `all_okay = (wait() && all_okay)` in the first loop, value ignored in the second
      if s.okay f = false then
        (c.step s.base (.fwait 0 f)).map fun b =>
          { s with base := b, allOkay := if s.base.mph = .wait1 then false else s.allOkay }
      else none
    else if s.failing t = false ∧ c.next s.base t = some (.fwait t f) ∧ s.base.fence f = true ∧ s.okay f = false then
      some { s with failing := updB s.failing t true }
    else none
  | .fail t =>
    if 1 ≤ t ∧ t ≤ c.n ∧ s.failing t = false ∧ canFailC s.base t = true then
      some { s with failing := updB s.failing t true,
                    base := if s.base.ph t = .inComb then { s.base with mutex := false } else s.base }
    else none
  | .fopenF t f =>
    if t = 0 then
      -- `back().open(false); break;` : leave the colour loop, go on to join
      if s.base.mph = .openBack ∧ s.allOkay = false ∧ f = c.n + 1 then
        some { s with base := { s.base with fence := updB s.base.fence f true, mph := .join },
                      okay := updB s.okay f false }
      else none
    else if t ≤ c.n ∧ s.failing t = true ∧ f = t then
      some { s with base := { s.base with fence := updB s.base.fence t true, ph := updP s.base.ph t .done },
                    okay := updB s.okay t false, failing := updB s.failing t false }
    else none

inductive CCfg.EReach (c : CCfg) : CESt → Prop
  | init : CCfg.EReach c c.einit
  | step {s s' : CESt} (e : EEv) : CCfg.EReach c s → c.estep s e = some s' → CCfg.EReach c s'

def CCfg.efinal (s : CESt) : Bool := CCfg.final s.base

/-! ## the combine phase in detail: lock acquire / combine() body / release

In all three work functions the combine stage is
`{ std::unique_lock<std::mutex> lock(_thread_mutex); task->combine(); }`.  The machines above treat
"lock acquired + combine entered" (`center`) and "combine left + lock released" (`cleave`) as one step each.  The
refinement below splits them: `lock t` (mutex acquired), `cbeg t` / `cend t` (body of `combine()`), `unlock t`
(end of the `unique_lock`'s scope).  It is generic in the protocol machine (`step`, projection `ph`): `lock` is the
machine's `center`, `unlock` its `cleave`, the body events are internal to the phase `inComb`.
Ghost state `log`: the workers whose `combine()` body has completed, in order - the combined result of the job is
the fold of the workers' local results in this order. -/

inductive XEv
  | base (e : Ev)       -- any event of the protocol machine except `center` / `cleave`
  | lock (t : Nat)      -- worker `t` has acquired `_thread_mutex`
  | cbeg (t : Nat)      -- worker `t` enters the body of `combine()`
  | cend (t : Nat)      -- worker `t` leaves the body of `combine()`
  | unlock (t : Nat)    -- worker `t` releases `_thread_mutex`
deriving Repr, DecidableEq

structure XSt (σ : Type) where
  base : σ
  sub : Nat → Nat       -- inside the locked section: 0 = locked, 1 = in `combine()`, 2 = body left
  log : List Nat        -- ghost: completed `combine()` bodies, in order

def isCombEv : Ev → Bool
  | .center _ | .cleave _ => true
  | _ => false

def xstep {σ : Type} (step : σ → Ev → Option σ) (ph : σ → Nat → Ph) (s : XSt σ) : XEv → Option (XSt σ)
  | .base e => if isCombEv e then none else (step s.base e).map fun b => { s with base := b }
  | .lock t => (step s.base (.center t)).map fun b => { s with base := b, sub := upd s.sub t 0 }
  | .cbeg t => if ph s.base t = .inComb ∧ s.sub t = 0 then some { s with sub := upd s.sub t 1 } else none
  | .cend t =>
    if ph s.base t = .inComb ∧ s.sub t = 1 then some { s with sub := upd s.sub t 2, log := s.log ++ [t] } else none
  | .unlock t =>
    if s.sub t = 2 then (step s.base (.cleave t)).map fun b => { s with base := b, sub := upd s.sub t 3 } else none

def xinit {σ : Type} (s0 : σ) : XSt σ := { base := s0, sub := fun _ => 3, log := [] }

def LCfg.xstep (c : LCfg) : XSt LSt → XEv → Option (XSt LSt) := FeatModel.DA.xstep c.step (fun s => s.ph)
def CCfg.xstep (c : CCfg) : XSt CSt → XEv → Option (XSt CSt) := FeatModel.DA.xstep c.step (fun s => s.ph)
def NCfg.xstep (c : NCfg) : XSt NSt → XEv → Option (XSt NSt) := FeatModel.DA.xstep c.step (fun s => s.ph)

inductive LCfg.XReach (c : LCfg) : XSt LSt → Prop
  | init : LCfg.XReach c (xinit c.init)
  | step {s s' : XSt LSt} (e : XEv) : LCfg.XReach c s → c.xstep s e = some s' → LCfg.XReach c s'

inductive CCfg.XReach (c : CCfg) : XSt CSt → Prop
  | init : CCfg.XReach c (xinit c.init)
  | step {s s' : XSt CSt} (e : XEv) : CCfg.XReach c s → c.xstep s e = some s' → CCfg.XReach c s'

inductive NCfg.XReach (c : NCfg) : XSt NSt → Prop
  | init : NCfg.XReach c (xinit c.init)
  | step {s s' : XSt NSt} (e : XEv) : NCfg.XReach c s → c.xstep s e = some s' → NCfg.XReach c s'

/-- worker `t` is executing the body of `combine()` -/
def inBody {σ : Type} (ph : σ → Nat → Ph) (s : XSt σ) (t : Nat) : Prop := ph s.base t = .inComb ∧ s.sub t = 1

/-- worker `t` holds `_thread_mutex` -/
def holdsLock {σ : Type} (ph : σ → Nat → Ph) (s : XSt σ) (t : Nat) : Prop := ph s.base t = .inComb

/-- the combined result of a job: the workers' local results `loc w` folded in the order the bodies completed -/
def combinedResult {α : Type} (op : α → α → α) (z : α) (loc : Nat → α) (log : List Nat) : α :=
  log.foldl (fun acc w => op acc (loc w)) z

/-! ## the error path of jobs without scatter

`_work_no_scatter`: a throwing task (constructor / prepare / assemble / finish = phase `preComb` of the model, or
`combine()` = `inComb`) makes the worker open its own fence with `false` and terminate; nobody waits for a worker
fence, the master opens the front fence and joins. -/

structure NESt where
  base : NSt
  failing : Nat → Bool
  exited : Nat → Bool      -- the worker has returned through the error path

def NCfg.einit (c : NCfg) : NESt := { base := c.init, failing := fun _ => false, exited := fun _ => false }

def NCfg.estep (c : NCfg) (s : NESt) : EEv → Option NESt
  | .ok e =>
    if e.thread ≠ 0 ∧ (s.failing e.thread = true ∨ s.exited e.thread = true) then none
    else (c.step s.base e).map fun b => { s with base := b }
  | .fail t =>
    if 1 ≤ t ∧ t ≤ c.n ∧ s.failing t = false ∧ s.exited t = false ∧
        (s.base.ph t = .preComb ∨ s.base.ph t = .inComb ∨ (s.base.ph t = .done ∧ c.comb = false)) then
      some { s with failing := updB s.failing t true,
                    base := if s.base.ph t = .inComb then { s.base with mutex := false } else s.base }
    else none
  | .fopenF t f =>
    if 1 ≤ t ∧ t ≤ c.n ∧ s.failing t = true ∧ f = t then
      some { base := { s.base with ph := updP s.base.ph t .done }, failing := updB s.failing t false,
             exited := updB s.exited t true }
    else none
  | .fwaitF _ _ => none

inductive NCfg.EReach (c : NCfg) : NESt → Prop
  | init : NCfg.EReach c c.einit
  | step {s s' : NESt} (e : EEv) : NCfg.EReach c s → c.estep s e = some s' → NCfg.EReach c s'

def NCfg.efinal (s : NESt) : Bool := NCfg.final s.base

/-! ## master-only jobs (`assemble_master`, used whenever no worker threads are available), with the error path

The calling thread resets the fences, opens front and back, and runs `_work_single`: for every element
prepare / assemble / scatter / finish, then `combine()` - no fence wait, no mutex.  A throwing task is caught in
`Worker::operator()`, which opens fence 0 with `false` and returns normally. -/

structure MCfg where
  cnt : Nat            -- number of elements
  cell : Nat → Nat
  ns : Bool            -- need_scatter
  comb : Bool          -- need_combine

structure MSt where
  pos : Nat
  ph : Ph              -- `idle` (between scatters), `insc`, `preComb`, `inComb`, `done`
  failing : Bool       -- the task threw; `open(false)` still to do
  failed : Bool        -- the job ended through the error path

def MCfg.after (c : MCfg) (p : Nat) : Ph := if p < c.cnt then .idle else if c.comb then .preComb else .done

def MCfg.init (c : MCfg) : MSt := { pos := 0, ph := c.after 0, failing := false, failed := false }

/-- all events are events of thread 0.  Without scatter the loop body has no observable event: the elements are
skipped one by one by the internal event `leave` without `enter`. -/
def MCfg.estep (c : MCfg) (s : MSt) : EEv → Option MSt
  | .ok (.enter 0 x) =>
    if s.failing = false ∧ s.ph = .idle ∧ c.ns = true ∧ x = c.cell s.pos then some { s with ph := .insc } else none
  | .ok (.leave 0 x) =>
    if s.failing = false ∧ x = c.cell s.pos ∧ ((s.ph = .insc ∧ c.ns = true) ∨ (s.ph = .idle ∧ c.ns = false)) then
      some { s with pos := s.pos + 1, ph := c.after (s.pos + 1) }
    else none
  | .ok (.center 0) => if s.failing = false ∧ s.ph = .preComb then some { s with ph := .inComb } else none
  | .ok (.cleave 0) => if s.failing = false ∧ s.ph = .inComb then some { s with ph := .done } else none
  | .fail 0 =>
    if s.failing = false ∧ s.failed = false ∧ (canFailPh s.ph = true ∨ (s.ph = .done ∧ c.comb = false)) then
      some { s with failing := true }
    else none
  | .fopenF 0 0 => if s.failing = true then some { s with failing := false, failed := true, ph := .done } else none
  | _ => none

inductive MCfg.EReach (c : MCfg) : MSt → Prop
  | init : MCfg.EReach c c.init
  | step {s s' : MSt} (e : EEv) : MCfg.EReach c s → c.estep s e = some s' → MCfg.EReach c s'

def MCfg.efinal (s : MSt) : Bool := s.ph == .done && !s.failing

def MCfg.erun (c : MCfg) : MSt → List EEv → Option MSt
  | s, [] => some s
  | s, e :: es => match c.estep s e with | some s' => MCfg.erun c s' es | none => none

/-! ## why a worker with an EMPTY share must still perform the colour's handshake

`_work_colored` runs the fence handshake of every colour even when the worker's share `[elem_beg, elem_end)` of that
colour is empty (a colour with fewer cells than workers).  The variant below lets such a worker `continue` past the
colour (`skip t`); `Props/C17.lean` exhibits a run of it that violates the safety property proved for `CCfg.step`. -/

inductive SEv
  | ok (e : Ev)
  | skip (t : Nat)      -- worker `t` skips a colour in which it has no cells, without any fence operation
deriving Repr, DecidableEq

def CCfg.stepSkip (c : CCfg) (s : CSt) : SEv → Option CSt
  | .ok e => c.step s e
  | .skip t =>
    if 1 ≤ t ∧ t ≤ c.n ∧ s.ph t = .front ∧ c.cbeg (s.col t) t = c.cend (s.col t) t then
      some { s with col := upd s.col t (s.col t + 1),
                    ph := updP s.ph t (if s.col t + 1 < c.nc then .front else if c.comb then .preComb else .done) }
    else none

def CCfg.runSkip (c : CCfg) : CSt → List SEv → Option CSt
  | s, [] => some s
  | s, e :: es => match c.stepSkip s e with | some s' => CCfg.runSkip c s' es | none => none

end FeatModel.DA
