import FeatModel.Model.Assembly
/-!
Model of `LAFEM::SparseMatrixBCSR<DT,IT,h,w>::ScatterAxpy` (kernel/lafem/sparse_matrix_bcsr.hpp) and of the cell loop of
the blocked assembly routes (property C16): the same `_col_ptr` loops as the scalar CSR scatter, the data array holds
`h × w` blocks (row-major lists of `h*w` scalars), `_data[_col_ptr[jx]] += alpha * loc[i][j]` is a block axpy.
Core Lean only.
-/
namespace FeatModel.Asm

/-- `b + alpha * x` on blocks (Tiny::Matrix axpy, entry by entry) -/
def blkAxpy [Add α] [Mul α] (b : List α) (alpha : α) (x : List α) : List α :=
  List.zipWith (fun u v => u + alpha * v) b x

structure ScatterStB (α : Type) where
  colPtr : Array (Option Nat)
  data : Array (List α)

def scatterColsB [Add α] [Mul α] (cp : Array (Option Nat)) (alpha : α) (f : Nat → List α) :
    List (Nat × Nat) → Array (List α) → Option (Array (List α))
  | [], d => some d
  | (jx, j) :: t, d =>
    match cp.getD jx none with
    | none => none
    | some k => scatterColsB cp alpha f t (d.modify k (fun b => blkAxpy b alpha (f j)))

def scatterRowsB [Add α] [Mul α] (p : Pattern) (alpha : α) (loc : Nat → Nat → List α) (colMap : List (Nat × Nat)) :
    List (Nat × Nat) → ScatterStB α → Option (ScatterStB α)
  | [], st => some st
  | (ix, i) :: t, st =>
    let cp := buildColPtr p ix st.colPtr
    match scatterColsB cp alpha (loc i) colMap st.data with
    | none => none
    | some d => scatterRowsB p alpha loc colMap t ⟨cp, d⟩

/-- `SparseMatrixBCSR::ScatterAxpy::operator()` -/
def scatterAxpyB [Add α] [Mul α] (p : Pattern) (st : ScatterStB α) (loc : Nat → Nat → List α)
    (rowMap colMap : List Nat) (alpha : α) : Option (ScatterStB α) :=
  scatterRowsB p alpha loc colMap.zipIdx rowMap.zipIdx st

/-- what one cell hands to the blocked scatter object -/
structure CellCallB (α : Type) where
  alpha : α
  rowMap : List Nat
  colMap : List Nat
  loc : Nat → Nat → List α

/-- component `e` (= `a*w + b` for the block entry `(a,b)`) of a blocked call: the call of the scalar block operator -/
def CellCallB.comp [Zero α] (c : CellCallB α) (e : Nat) : CellCall α :=
  ⟨c.alpha, c.rowMap, c.colMap, fun i j => (c.loc i j).getD e 0⟩

def assembleFromB [Add α] [Mul α] (p : Pattern) : List (CellCallB α) → ScatterStB α → Option (ScatterStB α)
  | [], st => some st
  | c :: t, st =>
    match scatterAxpyB p st c.loc c.rowMap c.colMap c.alpha with
    | none => none
    | some st' => assembleFromB p t st'

/-- format the BCSR matrix (blocks of `n = h*w` zeros), one scatter object, loop over the cells -/
def assembleB [Add α] [Mul α] [Zero α] (p : Pattern) (n : Nat) (calls : List (CellCallB α)) : Option (ScatterStB α) :=
  assembleFromB p calls ⟨Array.replicate p.cols none, Array.replicate p.colIdx.length (List.replicate n 0)⟩

end FeatModel.Asm
