import FeatModel.Model.FEDual
import FeatModel.Model.PolySubst
/-
Facets of the reference cell, their intrinsic parametrisation and the traces of the local basis functions (core Lean).

A facet (or any sub-entity of dimension `d`) is described by its *stored vertex row* `r` (cell-local vertex numbers in the
order in which the mesh stores the entity – any symmetry of the entity).  Its intrinsic reference coordinates `s` are
those of the sub-dimensional `Trafo` evaluator; the embedding into the cell's reference coordinates is
`s ↦ Σ_m N_m(s) · refVertex(r[m])`, i.e. `mapPoly` applied to reference vertices (`embedL`).
-/
namespace FeatModel.FE
open FeatModel.Poly

def triSyms : List (List Nat) := [[0, 1, 2], [1, 2, 0], [2, 0, 1], [0, 2, 1], [1, 0, 2], [2, 1, 0]]
def quadSyms : List (List Nat) :=
  [[0, 1, 2, 3], [1, 3, 0, 2], [2, 0, 3, 1], [3, 2, 1, 0], [0, 2, 1, 3], [1, 0, 3, 2], [2, 3, 0, 1], [3, 1, 2, 0]]

/-- all symmetries of the `d`-dimensional shape as position lists -/
def shapeSyms : Kind → Nat → List (List Nat)
  | _, 0 => [[0]]
  | _, 1 => [[0, 1], [1, 0]]
  | .S, 2 => triSyms
  | .H, 2 => quadSyms
  | _, _ => []

/-- local vertex tuple of sub-entity `l` of dimension `d` of the `dim`-dimensional reference cell -/
def subVerts (k : Kind) (dim d l : Nat) : List Nat :=
  if d = 0 then [l] else if d = dim then List.range (numVerts k dim) else (fim k dim d).getD l []

/-- stored row: sub-entity `(d, l)` with its vertices permuted by the symmetry `π` -/
def storedRow (k : Kind) (dim d l : Nat) (π : List Nat) : List Nat := π.map fun i => (subVerts k dim d l).getD i 0

/-- embedding of the sub-entity with stored row `r` (dimension `d`) into the reference cell: component polynomials in
    the entity's intrinsic coordinates -/
def embedL (k : Kind) (dim d : Nat) (r : List Nat) : List Poly :=
  (List.range dim).map fun a => mapPoly k d (r.map (refVertex k dim)) a

/-- the shape functions of the cell restricted to the sub-entity are the sub-entity's own shape functions:
    `N_i ∘ embed = Σ_{m : r[m] = i} N^E_m` (this is what makes the transformation conforming) -/
def shapeTraceOk (k : Kind) (dim d : Nat) (r : List Nat) : Bool :=
  r.length == numVerts k d && r.all (· < numVerts k dim) &&
  (List.range (numVerts k dim)).all fun i =>
    equivT (substL (embedL k dim d r) (shapeFn k dim i))
      (sum ((List.range (numVerts k d)).map fun m => if r.getD m 0 = i then shapeFn k d m else []))

/-- `shapeTraceOk` for every sub-entity of dimension `1 ≤ d ≤ dim` and every symmetry of it -/
def shapeTraceAll (k : Kind) (dim : Nat) : Bool :=
  (List.range' 1 dim).all fun d => (List.range (numFaces k dim d)).all fun l =>
    (if d = dim then [List.range (numVerts k dim)] else shapeSyms k d).all fun π =>
      shapeTraceOk k dim d (storedRow k dim d l π)

/-- the vertex shape functions are nodal: `N_i(refVertex e) = δ_ie` -/
def vertexOk (k : Kind) (dim : Nat) : Bool :=
  (List.range (numVerts k dim)).all fun e => (List.range (numVerts k dim)).all fun i =>
    evalAt (refVertex k dim e) (shapeFn k dim i) == (if i = e then 1 else 0)

/-- every stored row of every sub-entity (dimension ≥ 1) of the one-cell mesh `m` passes `shapeTraceOk` -/
def geomOk (m : Mesh) : Bool :=
  vertexOk m.kind m.dim &&
  (List.range' 1 m.dim).all fun d => (List.range (m.n d)).all fun e => shapeTraceOk m.kind m.dim d (m.row d 0 e)

/-- the reference cell with edge orientation `o`, but with arbitrary vertex coordinates `V` (any affine or multilinear
    cell: vertex `i` of the cell is `V[i]`) -/
def cellMesh (k : Kind) (dim : Nat) (o : List Nat) (V : List (List Rat)) : Mesh :=
  { refMesh k dim o with coords := V }

/-- all vertices of `V` have `w` coordinates and there are at least `n` of them -/
def uniformV (V : List (List Rat)) (n w : Nat) : Prop := ∀ i, i < n → (V.getD i []).length = w

/-! ### traces of the local basis on a facet -/

def insN (a : Nat) : List Nat → List Nat
  | [] => [a]
  | b :: l => if a ≤ b then a :: b :: l else b :: insN a l

def sortN : List Nat → List Nat
  | [] => []
  | a :: l => insN a (sortN l)

/-- the local DOFs `(d, sorted vertex set, j)` of the `dim`-dimensional element whose vertices carry the labels `lab` -/
def dofLabels (f : Fam) (k : Kind) (cellDim dim : Nat) (lab : List Nat) : List (Nat × List Nat × Nat) :=
  (List.range (dim + 1)).flatMap fun d => (List.range (numFaces k dim d)).flatMap fun l =>
    (List.range ((dofsPerDim f k cellDim).getD d 0)).map fun j =>
      (d, sortN ((subVerts k dim d l).map fun i => lab.getD i 0), j)

/-- position of local DOF `i` of the cell among the local DOFs of the facet with stored row `r` (as an element of
    dimension `dim - 1` in its own numbering), `none` if the DOF is not attached to the facet -/
def facetId (f : Fam) (k : Kind) (dim : Nat) (r : List Nat) (i : Nat) : Option Nat :=
  match (dofLabels f k dim dim (List.range (numVerts k dim)))[i]? with
  | none => none
  | some lbl =>
    let low := dofLabels f k dim (dim - 1) r
    let p := low.findIdx (· == lbl)
    if p < low.length then some p else none

/-- the basis of the facet's own element, in the facet's intrinsic coordinates: the generated table of the same family
    one dimension lower (hypercubes, tetrahedron faces); for the edges of the triangle (no 1-D simplex evaluator in
    FEAT) the traces of the canonically oriented reference triangle on its local edge 2 = (v0, v1) -/
def facetBasis (f : Fam) (k : Kind) (dim : Nat) : List Poly :=
  match k, dim with
  | .S, 2 =>
    match tabOf f .S 2 with
    | none => []
    | some tab =>
      let r := [0, 1]
      let σ := embedL .S 2 1 r
      let ids := (List.range tab.nloc).map (facetId f .S 2 r)
      (List.range ((dofLabels f .S 2 1 r).length)).map fun id =>
        normalize (substL σ (tab.val (ids.findIdx (· == some id))))
  | _, _ =>
    match tabOf f k (dim - 1) with
    | none => []
    | some tab => tab.vals

/-- trace conformity of cell configuration `m` (a one-cell mesh: only the orientation handling `slotPerm` looks at it)
    on the facet with stored row `r`: the trace of every local basis function, in the facet's intrinsic coordinates, is
    the facet's own basis function with the same functional, or zero if the DOF is not attached to the facet; and
    every facet functional occurs exactly once -/
def traceOk (f : Fam) (k : Kind) (dim : Nat) (m : Mesh) (r : List Nat) : Bool :=
  match tabOf f k dim with
  | none => false
  | some tab =>
    let perm := slotPerm f m 0
    let σ := embedL k dim (dim - 1) r
    let τ := facetBasis f k dim
    sortN ((List.range tab.nloc).filterMap (facetId f k dim r)) == List.range τ.length &&
    (List.range tab.nloc).all fun i =>
      equivT (substL σ (tab.val (perm.getD i i)))
        (match facetId f k dim r i with
         | some id => τ.getD id []
         | none => [])

/-- 2-D: every orientation of the edges of the reference cell, every edge as facet (in its stored orientation) -/
def traceAll2 (f : Fam) (k : Kind) : Bool :=
  (allOrients (numFaces k 2 1)).all fun o =>
    let m := refMesh k 2 o
    (List.range (numFaces k 2 1)).all fun l => traceOk f k 2 m (m.row 1 0 l)

/-- 3-D (families whose basis does not depend on orientations): every face, stored with every symmetry -/
def traceFaces3 (f : Fam) (k : Kind) (faces : List Nat) : Bool :=
  faces.all fun l => (shapeSyms k 2).all fun π =>
    traceOk f k 3 (refMesh k 3 []) (storedRow k 3 2 l π)

def traceAll3 (f : Fam) (k : Kind) : Bool := traceFaces3 f k (List.range (numFaces k 3 2))

def traceKeys2 : List (Fam × Kind) :=
  [(.L1, .S), (.L2, .S), (.PB, .S), (.L1, .H), (.L2, .H), (.B2, .H)]
def traceKeys2L3 : List (Fam × Kind) := [(.L3, .S), (.L3, .H)]
def traceKeys3 : List (Fam × Kind) := [(.L1, .S), (.L2, .S), (.L1, .H), (.L2, .H), (.B2, .H)]

end FeatModel.FE
