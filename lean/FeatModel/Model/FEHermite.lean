import FeatModel.Model.FE
import FeatModel.Model.FECfg
/-
Derivative-DOF elements in 1-D (core Lean): Hermite-3 (`Space::Hermite3`, `Hypercube<1>`) and the identical 1-D
Bogner-Fox-Schmit evaluator.  The reference basis is `P1, c·Q1, P2, c·Q2` where `c = J(0,0) = (b - a)/2` is the
**signed** Jacobian of the interval `[a, b]` (vertices in the order the cell lists them, `a > b` allowed): the
derivative basis functions are scaled so that their *real* derivative at the vertex is 1.  The generated tables
`BasisH1.he/bf` are probed on the reference interval (`c = 1`); `slotScale` supplies `c`.
Node functionals (Hermite-3 only): value and first derivative at every vertex.
-/
namespace FeatModel.FE
open FeatModel.Poly

def derivFam (f : Fam) : Bool := f == Fam.HE || f == Fam.BF

/-- `Evaluator::prepare`: `_coeff = jac_mat(0,0)` at the midpoint of the interval (signed) -/
def hermCoeff (m : Mesh) (c : Nat) : Rat := mat (jacMat m.kind 1 (m.entVerts 1 c) [0]) 0 0

/-- factor of local basis function `i` relative to the table probed on the reference interval -/
def slotScale (f : Fam) (m : Mesh) (c : Nat) : List Rat :=
  if derivFam f ∧ m.dim = 1 then [1, hermCoeff m c, 1, hermCoeff m c] else []

def scaleBE (s : Rat) (b : BasisEval) : BasisEval :=
  { value := s * b.value, grad := b.grad.map (s * ·), hess := b.hess.map fun r => r.map (s * ·) }

/-- `evalCell` for every family: values, gradients and Hessians are linear in the reference data, so the scaling of
    the reference basis scales them -/
def evalCellAny (f : Fam) (m : Mesh) (c : Nat) (x : List Rat) : Option CellEval :=
  if derivFam f then
    (evalCell f m c x).map fun ce =>
      { ce with phi := ce.phi.zipIdx.map fun (b, i) => scaleBE ((slotScale f m c).getD i 1) b }
  else evalCell f m c x

/-- node functionals of Hermite-3 in 1-D (`NodeFunctional<Space, Hypercube<1>, 0>`): `[f(v), f'(v)]` per vertex;
    every other family: `interpolate` -/
def interpolateAny (f : Fam) (m : Mesh) (p : Poly) : List Rat :=
  if f = Fam.HE ∧ m.dim = 1 then
    (List.range (m.n 0)).flatMap fun e => [evalAt (m.vertex e) p, evalAt (m.vertex e) (pderiv 0 p)]
  else interpolate f m p

/-- `feEval` with `evalCellAny` -/
def feEvalAny (f : Fam) (m : Mesh) (u : List Rat) (c : Nat) (x : List Rat) :
    Option (CellEval × Rat × List Rat × List (List Rat)) :=
  if derivFam f then
    match evalCellAny f m c x with
    | none => none
    | some ce =>
      let dofs := localDofs f m c
      let coef := fun (i : Nat) => u.getD (dofs.getD i 0) 0
      let n := ce.phi.length
      let rng := List.range m.dim
      let phi := fun (i : Nat) => ce.phi.getD i { value := 0, grad := [], hess := [] }
      let v := sumR ((List.range n).map fun i => coef i * (phi i).value)
      let g := rng.map fun a => sumR ((List.range n).map fun i => coef i * (phi i).grad.getD a 0)
      let h := rng.map fun a => rng.map fun b => sumR ((List.range n).map fun i => coef i * mat (phi i).hess a b)
      some (ce, v, g, h)
  else feEval f m u c x

/-- `evalCellCfg` for every family -/
def evalCellCfgAny (f : Fam) (m : Mesh) (c : Nat) (x : List Rat) (mask : Nat) : Option (Nat × List Rat) :=
  if derivFam f then
    match tabOf f m.kind m.dim, evalCellAny f m c x with
    | some tab, some ce =>
      let perm := slotPerm f m c
      some (ce.phi.length, (List.range ce.phi.length).flatMap fun i =>
        cfgRow tab x (perm.getD i i) (ce.phi.getD i { value := 0, grad := [], hess := [] }) mask
          ((slotScale f m c).getD i 1))
    | _, _ => none
  else evalCellCfg f m c x mask

end FeatModel.FE
