/-
C10: data types of the refinement tables.  `FeatModel/Gen/RefineTables.lean` (regenerated from the FEAT sources by
`translate/refine_tables.py`) contains only values of these types; `FeatModel/Model/Refine.lean` interprets them.
Core Lean only.
-/
namespace FeatModel.Refine

/-- the two shape families of `kernel/shape.hpp` -/
inductive Kind where
  | simplex
  | hypercube
deriving DecidableEq, Repr, Inhabited

/-- the trailing summand of an index-refiner term -/
inductive Add where
  /-- a literal `+ k` -/
  | const (k : Nat)
  /-- `+ sim.map(a, b)` with `sim : SubIndexMapping<Shape, cd, fd>` -/
  | sim (cd fd a b : Nat)
deriving DecidableEq, Repr, Inhabited

/-- one assignment `x_k[j] = index_offsets[off] + mult * (i | idx<sd,sc>[i][e]) + add` of a
    `StandardIndexRefiner<Shape_, cell_dim, face_dim>::refine` loop body -/
structure Term where
  /-- position in `index_offsets[]`: dimension of the coarse entity the addressed fine entity is born from -/
  off : Nat
  mult : Nat
  /-- `none`: the loop variable `i`;  `some (a, b, e)`: `get_index_set<a,b>()[i][e]` -/
  src : Option (Nat × Nat × Nat)
  add : Add
deriving DecidableEq, Repr, Inhabited

end FeatModel.Refine
