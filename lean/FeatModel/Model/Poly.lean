/-
Computable multivariate polynomials with rational coefficients (core Lean only).

A polynomial is a list of terms `(coefficient, exponent list)`; variable `k` is the `k`-th entry of the exponent
list.  `normalize` produces a canonical form (sorted, like monomials merged, zero terms dropped) so that
`normalize p = normalize q` is a decidable *sufficient* condition for `∀ x, eval x p = eval x q`
(`FeatModel/Lemmas/C15Poly.lean`).  `pderiv` is the formal partial derivative; its agreement with Mathlib's
`MvPolynomial.pderiv` is proved in `FeatModel/Lemmas/C15Mv.lean`.
-/
namespace FeatModel.Poly

abbrev Mono := List Nat
abbrev Poly := List (Rat × Mono)

/-- `a^n` by repeated multiplication (kept self-contained: no dependence on a `Pow` instance) -/
def rpow (a : Rat) : Nat → Rat
  | 0 => 1
  | n + 1 => a * rpow a n

/-- value of the monomial whose first exponent belongs to variable `k` -/
def monoEval (x : Nat → Rat) : Nat → Mono → Rat
  | _, [] => 1
  | k, e :: es => rpow (x k) e * monoEval x (k + 1) es

def eval (x : Nat → Rat) : Poly → Rat
  | [] => 0
  | t :: p => t.1 * monoEval x 0 t.2 + eval x p

/-- a point given as a list (missing coordinates are 0) -/
def pt (l : List Rat) : Nat → Rat := fun k => l.getD k 0

def evalAt (l : List Rat) (p : Poly) : Rat := eval (pt l) p

/-- derivative of a monomial w.r.t. variable `j`: (integer factor, new monomial) -/
def monoDeriv : Nat → Mono → Nat × Mono
  | _, [] => (0, [])
  | 0, e :: es => (e, (e - 1) :: es)
  | j + 1, e :: es => ((monoDeriv j es).1, e :: (monoDeriv j es).2)

def pderiv (j : Nat) (p : Poly) : Poly :=
  p.map fun t => (t.1 * ((monoDeriv j t.2).1 : Rat), (monoDeriv j t.2).2)

def add (p q : Poly) : Poly := p ++ q

def smul (c : Rat) (p : Poly) : Poly := p.map fun t => (c * t.1, t.2)

def monoMul : Mono → Mono → Mono
  | [], m => m
  | m, [] => m
  | a :: as, b :: bs => (a + b) :: monoMul as bs

def mul (p q : Poly) : Poly :=
  p.flatMap fun s => q.map fun t => (s.1 * t.1, monoMul s.2 t.2)

def const (c : Rat) : Poly := [(c, [])]

/-- the variable `x_k` among `n` variables -/
def var (n k : Nat) : Poly := [(1, (List.range n).map fun i => if i = k then 1 else 0)]

def sum (l : List Poly) : Poly := l.foldr add []

/-- strict lexicographic order on exponent lists (shorter list first on a common prefix) -/
def monoLt : Mono → Mono → Bool
  | [], [] => false
  | [], _ :: _ => true
  | _ :: _, [] => false
  | a :: as, b :: bs => if a < b then true else if b < a then false else monoLt as bs

def insertTerm (c : Rat) (m : Mono) : Poly → Poly
  | [] => [(c, m)]
  | t :: p =>
    if m = t.2 then (if c + t.1 = 0 then p else (c + t.1, m) :: p)
    else if monoLt m t.2 then (c, m) :: t :: p
    else t :: insertTerm c m p

def normalize : Poly → Poly
  | [] => []
  | t :: p => if t.1 = 0 then normalize p else insertTerm t.1 t.2 (normalize p)

/-- decidable sufficient condition for equality as functions -/
def equiv (p q : Poly) : Bool := normalize p == normalize q

/-- literal helpers for generated files (only `Nat` numerals in application form elaborate quickly) -/
def P (n d : Nat) : Rat := mkRat n d
def N (n d : Nat) : Rat := mkRat (Int.negOfNat n) d
/-- polynomial from its coefficient list and the flattened exponent lists (`nv` exponents per term) -/
def polyOf (nv : Nat) : List Rat → List Nat → Poly
  | [], _ => []
  | c :: cs, es => (c, es.take nv) :: polyOf nv cs (es.drop nv)
def smp (p : List Rat) (ix : List Nat) (v : List Rat) : List Rat × List Nat × List Rat := (p, ix, v)

/-- table of one reference element: values, gradients, Hessians of the local basis functions as polynomials in the
reference coordinates, plus the exact samples of the real evaluator they were interpolated from -/
structure BasisTab where
  nvars : Nat
  nloc : Nat
  hasGrad : Bool
  hasHess : Bool
  vals : List Poly
  grads : List (List Poly)
  hess : List (List Poly)
  /-- (point, positions `i * ncomp + c` of the non-zero entries of the evaluator output, their values), where entry
  `c` of basis function `i` is: value, gradient components, Hessian components (row major) -/
  samples : List (List Rat × List Nat × List Rat)

def BasisTab.val (t : BasisTab) (i : Nat) : Poly := t.vals.getD i []
def BasisTab.grad (t : BasisTab) (i k : Nat) : Poly := (t.grads.getD i []).getD k []
def BasisTab.hes (t : BasisTab) (i a b : Nat) : Poly := (t.hess.getD i []).getD (a * t.nvars + b) []

/-- what the table claims the evaluator returns for basis function `i` at point `l` -/
def BasisTab.row (t : BasisTab) (l : List Rat) (i : Nat) : List Rat :=
  [evalAt l (t.val i)]
    ++ (if t.hasGrad then (List.range t.nvars).map fun k => evalAt l (t.grad i k) else [])
    ++ (if t.hasHess then (List.range (t.nvars * t.nvars)).map fun k => evalAt l ((t.hess.getD i []).getD k []) else [])

/-- non-zero entries of a dense list with their positions -/
def sparse : Nat → List Rat → List (Nat × Rat)
  | _, [] => []
  | k, a :: as => if a = 0 then sparse (k + 1) as else (k, a) :: sparse (k + 1) as

/-- every recorded sample of the real evaluator is reproduced by the polynomials -/
def BasisTab.samplesOk (t : BasisTab) : Bool :=
  t.samples.all fun s =>
    let sp := sparse 0 ((List.range t.nloc).flatMap (t.row s.1))
    s.2.1 == sp.map (·.1) && s.2.2 == sp.map (·.2)

/-- shape of the table: right number of polynomials everywhere -/
def BasisTab.shapeOk (t : BasisTab) : Bool :=
  t.vals.length == t.nloc
    && (!t.hasGrad || (t.grads.length == t.nloc && t.grads.all fun g => g.length == t.nvars))
    && (!t.hasHess || (t.hess.length == t.nloc && t.hess.all fun g => g.length == t.nvars * t.nvars))

/-- the gradient polynomials are the formal partial derivatives of the value polynomials -/
def BasisTab.gradOk (t : BasisTab) : Bool :=
  !t.hasGrad || (List.range t.nloc).all fun i => (List.range t.nvars).all fun k =>
    equiv (t.grad i k) (pderiv k (t.val i))

/-- the Hessian polynomials are the formal partial derivatives of the gradient polynomials -/
def BasisTab.hessOk (t : BasisTab) : Bool :=
  !t.hasHess || (List.range t.nloc).all fun i => (List.range t.nvars).all fun a => (List.range t.nvars).all fun b =>
    equiv (t.hes i a b) (pderiv b (t.grad i a))

/-- a polynomial in the single variable 0 as a polynomial in variable `k` of `n` variables -/
def shiftVars (n k : Nat) (p : Poly) : Poly :=
  p.map fun t => (t.1, (List.range n).map fun i => if i = k then t.2.getD 0 0 else 0)

def prod (l : List Poly) : Poly := l.foldr mul (const 1)

/-- `q_0(x_0) · … · q_{n-1}(x_{n-1})` for polynomials `q_k` in the single variable 0 -/
def tprod (n : Nat) (q : Nat → Poly) : Poly :=
  normalize (prod ((List.range n).map fun k => shiftVars n k (q k)))

/-- tensor-product basis function `p_{ix 0}(x_0) * … * p_{ix (n-1)}(x_{n-1})` of a 1-D table -/
def tensorVal (t1 : BasisTab) (n : Nat) (ix : List Nat) : Poly :=
  tprod n fun k => t1.val (ix.getD k 0)

/-- its derivative w.r.t. `x_a`: the factor `a` is replaced by the 1-D table's derivative polynomial -/
def tensorGrad (t1 : BasisTab) (n : Nat) (ix : List Nat) (a : Nat) : Poly :=
  tprod n fun k => if k = a then t1.grad (ix.getD k 0) 0 else t1.val (ix.getD k 0)

/-- its second derivative w.r.t. `x_a`, `x_b` -/
def tensorHess (t1 : BasisTab) (n : Nat) (ix : List Nat) (a b : Nat) : Poly :=
  tprod n fun k =>
    if a = b then (if k = a then t1.hes (ix.getD k 0) 0 0 else t1.val (ix.getD k 0))
    else (if k = a ∨ k = b then t1.grad (ix.getD k 0) 0 else t1.val (ix.getD k 0))

/-- table of a tensor-product element: values, gradients and Hessians are products of the 1-D table's value /
derivative polynomials (which factors: `idx`, found by the translator); `samples` are the real evaluator's values,
gradients and Hessians on the unisolvent grid, so `samplesOk` ties all of them to the code -/
def tensorTab (t1 : BasisTab) (n : Nat) (hasGrad hasHess : Bool) (idx : List (List Nat))
    (samples : List (List Rat × List Nat × List Rat)) : BasisTab :=
  { nvars := n, nloc := idx.length, hasGrad := hasGrad, hasHess := hasHess,
    vals := idx.map (tensorVal t1 n),
    grads := if hasGrad then idx.map fun ix => (List.range n).map fun a => tensorGrad t1 n ix a else [],
    hess := if hasHess then idx.map fun ix => (List.range (n * n)).map fun ab => tensorHess t1 n ix (ab / n) (ab % n)
      else [],
    samples := samples }

/-- all monomials have exactly one exponent (polynomial in the single variable 0) -/
def oneVar (p : Poly) : Bool := p.all fun t => t.2.length == 1

/-- product of the entries `g 0 … g (n-1)` -/
def prodR (n : Nat) (g : Nat → Rat) : Rat := ((List.range n).map g).foldr (· * ·) 1

/-- what a tensor table returns for basis function `i` at the point `l`, computed from 1-D evaluations only -/
def fastRow (t1 : BasisTab) (n : Nat) (hasGrad hasHess : Bool) (idx : List (List Nat)) (l : List Rat) (i : Nat) :
    List Rat :=
  let ix := idx.getD i []
  let P := fun k => evalAt [l.getD k 0] (t1.val (ix.getD k 0))
  let D := fun k => evalAt [l.getD k 0] (t1.grad (ix.getD k 0) 0)
  let D2 := fun k => evalAt [l.getD k 0] (t1.hes (ix.getD k 0) 0 0)
  [prodR n P]
    ++ (if hasGrad then (List.range n).map fun a => prodR n fun k => if k = a then D k else P k else [])
    ++ (if hasHess then (List.range (n * n)).map fun ab =>
          prodR n fun k =>
            if ab / n = ab % n then (if k = ab / n then D2 k else P k)
            else (if k = ab / n ∨ k = ab % n then D k else P k)
        else [])

/-- the samples of the real 3-D evaluator are the products of the 1-D table's evaluations -/
def fastSamplesOk (t1 : BasisTab) (n : Nat) (hasGrad hasHess : Bool) (idx : List (List Nat))
    (samples : List (List Rat × List Nat × List Rat)) : Bool :=
  samples.all fun s =>
    let sp := sparse 0 ((List.range idx.length).flatMap (fastRow t1 n hasGrad hasHess idx s.1))
    s.2.1 == sp.map (·.1) && s.2.2 == sp.map (·.2)

/-- every value / first / second derivative polynomial of the 1-D table is a polynomial in one variable -/
def oneVarTab (t1 : BasisTab) : Bool :=
  t1.vals.all oneVar && t1.grads.all (·.all oneVar) && t1.hess.all (·.all oneVar)

end FeatModel.Poly
