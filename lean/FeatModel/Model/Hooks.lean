import FeatModel.Model.Assembly
/-!
Model of the per-cell operator hooks of the assembly routes (property C16; core Lean only): every route
(classic `assemble_matrix1/2`, `BilinearOperatorMatrixAssemblyJob1/2::Task`, the functional routes, the trace assembler)
calls, for each cell `T`: `oper_eval.prepare(trafo_eval)` *after* the trafo evaluator has been prepared for `T`, then the
cubature loop, then `oper_eval.finish()`. A user-defined evaluator may keep per-cell state (here: a coefficient
`c_T = coef T` read in `prepare`, reset to `poison` in `finish`); the local matrix of cell `T` is `c_T · base_T`.
-/
namespace FeatModel.Asm

structure HookCell (α : Type) where
  cell : Nat
  rowMap : List Nat
  colMap : List Nat
  base : Nat → Nat → α

/-- the contribution of a cell computed from the cell alone -/
def hookCall [Mul α] [OfNat α 1] (coef : Nat → α) (c : HookCell α) : CellCall α :=
  ⟨1, c.rowMap, c.colMap, fun i j => coef c.cell * c.base i j⟩

/-- the cell loop with the evaluator's state threaded through: `prepare` overwrites it with `coef T`, the cubature loop
uses it, `finish` leaves `poison` for the next cell -/
def hookLoop [Mul α] [OfNat α 1] (coef : Nat → α) (poison : α) : α → List (HookCell α) → List (CellCall α)
  | _, [] => []
  | _, c :: t =>
    let st := coef c.cell                       -- prepare(trafo_eval) with the trafo evaluator prepared for cell T
    ⟨1, c.rowMap, c.colMap, fun i j => st * c.base i j⟩ :: hookLoop coef poison poison t   -- finish(): poison

end FeatModel.Asm
