import FeatModel.Model.Partition
/-
C12, recursive (two-level) partitioning: `PatchHaloSplitter` — the halo between two parent patches `a`, `b` is split
among the child patches of `a` and of `b` (`PatchInvMap::split`), the split index lists are exchanged
(`serialize`) and intersected by a sorted merge (`PatchHaloSplitPart::intersect`).  Core Lean only.
-/
namespace FeatModel.Parti
open FeatModel.Adj

/-- index-set pairs `(hi, lo)` of a mesh of dimension `D` -/
def idxPairs (D : Nat) : List (Nat × Nat) :=
  (List.range D).flatMap fun h => (List.range (h + 1)).map fun lo => (h + 1, lo)

/-- the patch mesh (`PatchMeshFactory`) as a combinatorial mesh of its own -/
def patchMeshP (m : Mesh) (cells : List Nat) : Mesh :=
  { dim := m.dim, num := (List.range (m.dim + 1)).map fun d => (m.target cells d).length,
    sets := (idxPairs m.dim).map fun hl => (hl, m.patchIdx cells hl.1 hl.2) }

/-- local cells (ascending) of the parent patch with cell list `cells` that belong to child `ch` -/
def childCells (cells : List Nat) (childOf : List Nat) (ch : Nat) : List Nat :=
  cells.zipIdx.filterMap fun (c, i) => if childOf.getD c 0 == ch then some i else none

/-- target set of dimension `d` of the child's patch part inside the parent patch mesh (`create_patch_meshpart`) -/
def childTarget (m : Mesh) (cells : List Nat) (childOf : List Nat) (ch d : Nat) : List Nat :=
  (patchMeshP m cells).target (childCells cells childOf ch) d

/-- `PatchInvMap::split`: positions `i` of the parent halo list whose entity lies in the child patch, paired with the
child-local index of that entity (`_halo_idx`, `_patch_idx`) -/
def splitHalo (ct : List Nat) (haloList : List Nat) : List (Nat × Nat) :=
  haloList.zipIdx.filterMap fun (x, i) => if ct.contains x then some (i, ct.idxOf x) else none

/-- `PatchHaloSplitPart::intersect`: sorted merge of my halo positions with the other child's; a match stores my
child-local index -/
def isectMerge : List (Nat × Nat) → List Nat → List Nat
  | [], _ => []
  | _ :: _, [] => []
  | (i1, p1) :: r1, i2 :: r2 =>
    if i1 < i2 then isectMerge r1 (i2 :: r2)
    else if i2 < i1 then isectMerge ((i1, p1) :: r1) r2
    else p1 :: isectMerge r1 r2
termination_by l1 l2 => l1.length + l2.length

/-- the halo of child `ch` of parent `a` towards child `dh` of parent `b`, dimension `d` (child-local indices) -/
def childHalo (m : Mesh) (p : Parti) (childOf : List Nat) (a ch b dh d : Nat) : List Nat :=
  isectMerge (splitHalo (childTarget m (p.row a) childOf ch d) (halo m p a b d))
    ((splitHalo (childTarget m (p.row b) childOf dh d) (halo m p b a d)).map (·.1))

/-- the same computation with the four lists it depends on as arguments (the driver computes every parent halo and
every child target set once and reuses them; `childHalo_eq_from` in `Props/C12.lean` links the two) -/
def childHaloFrom (ctA ctB Ha Hb : List Nat) : List Nat :=
  isectMerge (splitHalo ctA Ha) ((splitHalo ctB Hb).map (·.1))

/-- child-local index ↦ base-mesh index (through the child part and the parent patch part) -/
def childToBase (m : Mesh) (p : Parti) (childOf : List Nat) (a ch d i : Nat) : Nat :=
  (m.target (p.row a) d).getD ((childTarget m (p.row a) childOf ch d).getD i 0) 0

/-- number of children of parent `a` -/
def numChildren (p : Parti) (childOf : List Nat) (a : Nat) : Nat :=
  (p.row a).foldl (fun n c => max n (childOf.getD c 0 + 1)) 0

end FeatModel.Parti
