import FeatModel.Model.FEHermite
/-
The Hermite cubic basis of an arbitrarily oriented interval as polynomials in the *real* coordinate (core Lean).
The cell lists its two vertices as `(a, b)`; `a < b` (left-to-right) and `a > b` (right-to-left) are both allowed.
With `h = b - a` (signed) and `s = (x - a)/h`:
  `Φ0 = 1 - 3s² + 2s³`, `Φ1 = h (s - 2s² + s³)`, `Φ2 = 3s² - 2s³`, `Φ3 = h (s³ - s²)`
(order of FEAT's local DOFs: value at `a`, derivative at `a`, value at `b`, derivative at `b`).
-/
namespace FeatModel.FE
open FeatModel.Poly

/-- the one-cell mesh whose cell lists the vertices `(a, b)` -/
def intervalMesh (a b : Rat) : Mesh :=
  { kind := Kind.H, dim := 1, coords := [[a], [b]], num := [2, 1], idx := [[], [[[0, 1]]]] }

/-- `s = (x - a) / (b - a)` -/
def sPoly (a b : Rat) : Poly := [(-a / (b - a), [0]), (1 / (b - a), [1])]

def hermitePhys (a b : Rat) : List Poly :=
  let s := sPoly a b
  let s2 := mul s s
  let s3 := mul s s2
  [ add (const 1) (add (smul (-3) s2) (smul 2 s3)),
    smul (b - a) (add s (add (smul (-2) s2) s3)),
    add (smul 3 s2) (smul (-2) s3),
    smul (b - a) (add s3 (smul (-1) s2)) ]

/-- the canonical 1-D Hermite table in closed form (kernel-checked to be the generated table `BasisH1.he`) -/
def hermRefVals : List Poly :=
  [ [((1 : Rat) / 2, [0]), (-(3 : Rat) / 4, [1]), ((1 : Rat) / 4, [3])],
    [((1 : Rat) / 4, [0]), (-(1 : Rat) / 4, [1]), (-(1 : Rat) / 4, [2]), ((1 : Rat) / 4, [3])],
    [((1 : Rat) / 2, [0]), ((3 : Rat) / 4, [1]), (-(1 : Rat) / 4, [3])],
    [(-(1 : Rat) / 4, [0]), (-(1 : Rat) / 4, [1]), ((1 : Rat) / 4, [2]), ((1 : Rat) / 4, [3])] ]

/-- the cubic `c0 + c1 x + c2 x² + c3 x³` -/
def cubic (c0 c1 c2 c3 : Rat) : Poly := [(c0, [0]), (c1, [1]), (c2, [2]), (c3, [3])]

/-- the finite element function with local coefficients `u` on the interval `(a, b)` as a polynomial in `x` -/
def hermiteFn (a b : Rat) (u : List Rat) : Poly :=
  let Φ := hermitePhys a b
  add (smul (u.getD 0 0) (Φ.getD 0 [])) (add (smul (u.getD 1 0) (Φ.getD 1 []))
    (add (smul (u.getD 2 0) (Φ.getD 2 [])) (smul (u.getD 3 0) (Φ.getD 3 []))))

/-- coordinate of local vertex `l` of the interval whose cell lists `(a, b)` -/
def intervalVertex (a b : Rat) (l : Nat) : Rat := if l = 0 then a else b

end FeatModel.FE
