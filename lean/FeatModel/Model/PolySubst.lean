import FeatModel.Model.Poly
/-
Polynomial substitution `p ∘ σ` for the computable polynomials of `Model/Poly.lean` (core Lean only): used for traces of
basis functions on facets (σ = embedding of the facet into the reference cell).
-/
namespace FeatModel.Poly

/-- `p^n` (intermediate results are kept in normal form, otherwise the term lists explode) -/
def ppow (p : Poly) : Nat → Poly
  | 0 => const 1
  | n + 1 => normalize (mul p (ppow p n))

/-- the monomial whose first exponent belongs to variable `k`, with `x_i` replaced by `σ i` -/
def monoSubst (σ : Nat → Poly) : Nat → Mono → Poly
  | _, [] => const 1
  | k, e :: es => normalize (mul (ppow (σ k) e) (monoSubst σ (k + 1) es))

/-- `p ∘ σ` -/
def subst (σ : Nat → Poly) : Poly → Poly
  | [] => []
  | t :: p => normalize (add (smul t.1 (monoSubst σ 0 t.2)) (subst σ p))

/-- substitution given by a list (variables beyond the list are replaced by 0) -/
def substL (l : List Poly) (p : Poly) : Poly := subst (fun k => l.getD k []) p

/-- remove trailing zero exponents (so that `[]`, `[0]`, `[0, 0]` denote the same monomial syntactically) -/
def trimZeros : Mono → Mono
  | [] => []
  | e :: es =>
    match trimZeros es with
    | [] => if e = 0 then [] else [e]
    | f :: fs => e :: f :: fs

def trim (p : Poly) : Poly := p.map fun t => (t.1, trimZeros t.2)

/-- decidable sufficient condition for equality as functions, insensitive to trailing zero exponents -/
def equivT (p q : Poly) : Bool := equiv (trim p) (trim q)

end FeatModel.Poly
