import FeatModel.Model.C11Text
/-
C11 — model of `PropertyMap::read(std::istream&, bool replace)` and `PropertyMap::write(std::ostream&, indent)`
(`kernel/util/property_map.cpp`).  The tree is kept flat: every section is identified by its path of section
names (in the spelling of its first insertion); keys and section names compare without regard to case
(`String::NoCaseLess`).  Core Lean only.
-/
namespace FeatModel.C11

/-- `std::tolower` in the "C" locale followed by the conversion `int(char)` (char is signed on the target) -/
def lowerSigned (c : Char) : Int :=
  let n := if 'A' ≤ c && c ≤ 'Z' then c.toNat + 32 else c.toNat
  if n ≥ 128 then (n : Int) - 256 else n

/-- `String::compare_no_case(other) < 0` -/
def noCaseLt : Str → Str → Bool
  | [], [] => false
  | [], _ :: _ => true
  | _ :: _, [] => false
  | a :: as, b :: bs =>
    if lowerSigned a < lowerSigned b then true
    else if lowerSigned a > lowerSigned b then false
    else noCaseLt as bs

def noCaseEq (a b : Str) : Bool := !noCaseLt a b && !noCaseLt b a

abbrev Path := List Str

structure PMap where
  secs : List Path                    -- all section paths, in order of creation
  ents : List (Path × Str × Str)      -- (section path, key, value), in order of creation
  deriving DecidableEq, Repr

def PMap.empty : PMap := { secs := [], ents := [] }

/-- `PropertyMap::add_section`: returns the (possibly already existing) child and the new map -/
def PMap.addSection (m : PMap) (parent : Path) (name : Str) : Path × PMap :=
  match m.secs.find? (fun p => p.length == parent.length + 1 && p.take parent.length == parent &&
                               noCaseEq (p.getLastD []) name) with
  | some p => (p, m)
  | none => (parent ++ [name], { m with secs := m.secs ++ [parent ++ [name]] })

/-- `PropertyMap::add_entry` -/
def PMap.addEntry (m : PMap) (sec : Path) (key value : Str) (replace : Bool) : PMap :=
  if m.ents.any (fun e => e.1 == sec && noCaseEq e.2.1 key) then
    (if replace then { m with ents := m.ents.map (fun e => if e.1 == sec && noCaseEq e.2.1 key then (e.1, e.2.1, value) else e) }
     else m)
  else { m with ents := m.ents ++ [(sec, key, value)] }

inductive LastRead where
  | none | entry | section | braceOpen | braceClose
  deriving DecidableEq, Repr

/-- remove a `#` comment -/
def stripComment (s : Str) : Str := s.takeWhile (· != '#')

/-- the continuation loop of `read`: `value` ends with `&`; returns the completed value and the unread lines -/
def contValue : Nat → Str → List Str → Option (Str × List Str)
  | 0, _, _ => none
  | fuel + 1, value, lines =>
    if value.getLast? == some '&' then
      let v := value.dropLast
      -- skip lines that are empty after comment removal and trimming
      let rec skip : List Str → Option (Str × List Str)
        | [] => none
        | l :: ls =>
          let t := trim (stripComment l)
          if t.isEmpty then skip ls else some (t, ls)
      match skip lines with
      | none => none                -- "Only empty lines ... for line continuation"
      | some (t, ls) => contValue fuel (v ++ t) ls
    else some (value, lines)

structure IniSt where
  map : PMap
  stack : List Path                   -- top first; the bottom element is the root `[]`
  current : Path
  last : LastRead

/-- one round of the main loop of `read` (fuel = number of lines + 1) -/
def iniLoop (replace : Bool) : Nat → List Str → IniSt → Option PMap
  | 0, _, _ => none
  | _ + 1, [], st => if st.stack.length > 1 then none else some st.map
  | fuel + 1, raw :: rest, st =>
    let line := trim raw
    if line.isEmpty then iniLoop replace fuel rest st
    else
      let line := if line.contains '#' then trim (stripComment line) else line
      if line.isEmpty then iniLoop replace fuel rest st
      else if line.head? == some '[' && line.getLast? == some ']' then
        let name := trim ((line.drop 1).dropLast)
        if name.isEmpty then none
        else
          let (p, m) := st.map.addSection (st.stack.headD []) name
          iniLoop replace fuel rest { st with map := m, current := p, last := .section }
      else if line.contains '=' then
        if st.last == .braceClose then none
        else
          let key := trim (line.takeWhile (· != '='))
          if key.isEmpty then none
          else
            let value := trim ((line.dropWhile (· != '=')).drop 1)
            if value.isEmpty then
              iniLoop replace fuel rest { st with map := st.map.addEntry st.current key value replace, last := .entry }
            else
              match contValue (rest.length + 1) value rest with
              | none => none
              | some (v, rest') =>
                -- `rest'` is a suffix of `rest`; the fuel of the outer loop is an upper bound in any case
                iniLoop replace fuel rest' { st with map := st.map.addEntry st.current key v replace, last := .entry }
      else if line == ['{'] then
        if st.last == .section then iniLoop replace fuel rest { st with stack := st.current :: st.stack, last := .braceOpen }
        else none
      else if line == ['}'] then
        if st.last != .none && st.stack.length > 1 then
          let stack := st.stack.drop 1
          iniLoop replace fuel rest { st with stack := stack, current := stack.headD [], last := .braceClose }
        else none
      else none

/-- `PropertyMap::read` into an empty map; `none` = `SyntaxError` -/
def iniRead (replace : Bool) (text : Str) : Option PMap :=
  let lines := splitLines text
  iniLoop replace (lines.length + 1) lines { map := PMap.empty, stack := [[]], current := [], last := .none }

/-- insertion sort by the case-insensitive order (the iteration order of the `std::map`s) -/
def insertBy (lt : α → α → Bool) (x : α) : List α → List α
  | [] => [x]
  | y :: ys => if lt x y then x :: y :: ys else y :: insertBy lt x ys

def sortBy (lt : α → α → Bool) (l : List α) : List α := l.foldr (insertBy lt) []

def PMap.entriesOf (m : PMap) (sec : Path) : List (Str × Str) :=
  sortBy (fun a b => noCaseLt a.1 b.1) ((m.ents.filter (fun e => e.1 == sec)).map (fun e => e.2))

def PMap.childrenOf (m : PMap) (sec : Path) : List Str :=
  sortBy noCaseLt ((m.secs.filter (fun p => p.length == sec.length + 1 && p.take sec.length == sec)).map (fun p => p.getLastD []))

/-- `PropertyMap::write(os, indent)` as a list of lines; fuel bounds the nesting depth -/
def PMap.writeAt (m : PMap) : Nat → Path → Nat → List Str
  | 0, _, _ => []
  | fuel + 1, sec, indent =>
    let prefix_ := List.replicate (2 * indent) ' '
    (m.entriesOf sec).map (fun kv => prefix_ ++ kv.1 ++ " = ".toList ++ kv.2) ++
    ((m.childrenOf sec).map (fun nm =>
      [prefix_ ++ '[' :: nm ++ [']'], prefix_ ++ ['{']] ++
      m.writeAt fuel (sec ++ [nm]) (indent + 1) ++
      [prefix_ ++ "} # end of [".toList ++ nm ++ [']']])).flatten

def PMap.depthBound (m : PMap) : Nat := (m.secs.map List.length).foldl max 0 + 2

def iniWrite (m : PMap) : Str :=
  (m.writeAt m.depthBound [] 0).flatMap (fun l => l ++ ['\n'])

end FeatModel.C11
