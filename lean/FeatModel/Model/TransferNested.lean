import FeatModel.Model.GridTransfer
import FeatModel.Model.FE
import FeatModel.Model.PolySubst
import FeatModel.Model.Assembly
/-
Nestedness of the parametric Lagrange spaces under the standard refinement, on the reference cell.
Core Lean only.  The reference basis polynomials are C15's generated tables (`FeatModel.FE.tabOf`, regenerated from the
real evaluators and re-checked against their samples); the child maps `A_c` (reference cell → c-th sub-cell of the
reference cell) are the ones `Cubature::RefineFactory` applies to the cubature points (`Intern::RuleRefinery`).

For a *parametric* element on a cell with (multi-)linear trafo `T`, the fine basis at the fine reference point `ξ` is
`φ̂_i(ξ)` and the coarse basis at the same physical point is `φ̂_j(A_c ξ)`, because `T_fine = T_coarse ∘ A_c` (the child
cell of the standard refinement is the image of the c-th reference sub-cell; `A_c` is affine, so this also holds on
multilinear quadrilaterals/hexahedra).  Hence nestedness is the polynomial identity
`φ̂_j ∘ A_c = Σ_i φ̂_j(A_c(node_i)) · φ̂_i` on the reference cell.
-/
namespace FeatModel.GT
open FeatModel.Poly FeatModel.FE

/-- number of children of the standard refinement -/
def numChildren : Kind → Nat → Nat
  | .H, d => 2 ^ d
  | .S, 1 => 2
  | .S, 2 => 4
  | .S, 3 => 12
  | .S, _ => 0

/-- vertices of the child triangles of `RuleRefinery<Simplex<2>>` -/
def triChildVerts : List (List (List Rat)) :=
  [[[0, 0], [1/2, 0], [0, 1/2]], [[1/2, 0], [1, 0], [1/2, 1/2]], [[0, 1/2], [1/2, 1/2], [0, 1]],
   [[1/2, 1/2], [0, 1/2], [1/2, 0]]]

/-- affine polynomial `c0 + Σ_k c_k x_k` in `n` variables -/
def affPoly (n : Nat) (c0 : Rat) (cs : List Rat) : Poly :=
  (c0, List.replicate n 0) :: (List.range n).map fun k => (cs.getD k 0, unitMono n k)

/-- components of the child map `A_c` as polynomials in the reference coordinates:
hypercubes `x_d/2 ± 1/2` (bit `d` of `c`), `Simplex<1>`: `x/2`, `(x+1)/2`, triangles: barycentric combination of the
child vertices -/
def childMap (k : Kind) (dim c : Nat) : List Poly :=
  match k with
  | .H => (List.range dim).map fun d =>
      affPoly dim (if (c / 2 ^ d) % 2 = 1 then 1/2 else -1/2) ((List.range dim).map fun e => if e = d then 1/2 else 0)
  | .S =>
    if dim = 1 then [affPoly 1 (if c = 0 then 0 else 1/2) [1/2]]
    else if dim = 2 then
      let v := triChildVerts.getD c []
      (List.range 2).map fun a =>
        let v0 := (v.getD 0 []).getD a 0
        affPoly 2 v0 [(v.getD 1 []).getD a 0 - v0, (v.getD 2 []).getD a 0 - v0]
    else []

/-- `A_c(ξ)` -/
def childPoint (k : Kind) (dim c : Nat) (xi : List Rat) : List Rat := (childMap k dim c).map (evalAt xi)

/-- candidate nodal points of the reference cell -/
def candidates (k : Kind) (dim : Nat) : List (List Rat) :=
  let vals : List Rat := match k with | .H => [-1, 0, 1] | .S => [0, 1/2, 1]
  (List.range dim).foldl (fun acc _ => acc.flatMap fun p => vals.map fun v => p ++ [v]) [[]]

/-- the nodal point of local basis function `i`: the candidate where `φ̂_i = 1` and all other basis functions vanish -/
def refNode (t : BasisTab) (k : Kind) (dim i : Nat) : Option (List Rat) :=
  (candidates k dim).find? fun p =>
    (List.range t.nloc).all fun l => evalAt p (t.val l) == (if l = i then 1 else 0)

def refNodes (t : BasisTab) (k : Kind) (dim : Nat) : List (List Rat) :=
  (List.range t.nloc).map fun i => (refNode t k dim i).getD []

/-- all basis functions have a nodal point (the element is a nodal Lagrange element on the candidate grid) -/
def nodalB (t : BasisTab) (k : Kind) (dim : Nat) : Bool :=
  (List.range t.nloc).all fun i => (refNode t k dim i).isSome

/-- local embedding matrix of child `c`: `E_ij = φ̂_j(A_c(node_i))` — the coarse basis evaluated at the fine nodes -/
def Eref (t : BasisTab) (k : Kind) (dim c : Nat) : Mat :=
  let nodes := refNodes t k dim
  tab t.nloc t.nloc fun i j => evalAt (childPoint k dim c (nodes.getD i [])) (t.val j)

/-- the polynomial identity `φ̂_j ∘ A_c = Σ_i E_ij φ̂_i` for child `c` and every coarse basis function -/
def nestedChildB (t : BasisTab) (k : Kind) (dim c : Nat) : Bool :=
  let e := Eref t k dim c
  let a := childMap k dim c
  (List.range t.nloc).all fun j =>
    equivT (substL a (t.val j)) (Poly.sum ((List.range t.nloc).map fun i => smul (get e i j) (t.val i)))

/-- … for every child -/
def nestedRefB (t : BasisTab) (k : Kind) (dim : Nat) : Bool :=
  nodalB t k dim && (List.range (numChildren k dim)).all fun c => nestedChildB t k dim c

/-- what a parametric element evaluates at the fine reference point `ξ` of child `c` (weight `w`) -/
def refPt (t : BasisTab) (k : Kind) (dim c : Nat) (xi : List Rat) (w : Rat) : Pt :=
  { w := w, f := t.vals.map (evalAt xi), c := t.vals.map (evalAt (childPoint k dim c xi)) }

/-- the basis values of a dumped case are the reference table values at the reference cubature points `xis` -/
def paramB (t : BasisTab) (k : Kind) (dim : Nat) (xis : List (List Rat)) (d : Dump) : Bool :=
  d.cells.all fun cell =>
    cell.cmap.length == t.nloc && cell.children.length == numChildren k dim &&
    (List.range cell.children.length).all fun c =>
      let ch := cell.children.getD c default
      ch.fmap.length == t.nloc && ch.pts.length == xis.length &&
      (List.range ch.pts.length).all fun q =>
        let p := ch.pts.getD q default
        let r := refPt t k dim c (xis.getD q []) p.w
        p.f == r.f && p.c == r.c

end FeatModel.GT

/-! ### the refined cubature rule reproduces the coarse mass matrix (reference cell) -/
namespace FeatModel.GT
open FeatModel.Poly FeatModel.FE

/-- pad all exponent vectors to `d` entries (same polynomial function) -/
def padPoly (d : Nat) (F : Poly) : Poly := F.map fun t => (t.1, t.2 ++ List.replicate (d - t.2.length) 0)

/-- integrand of the mass matrix entry `(l, j)` on the reference cell -/
def massPoly (t : BasisTab) (d l j : Nat) : Poly := padPoly d (normalize (mul (t.val l) (t.val j)))

/-- the same integrand seen from child `c`: `(φ̂_l φ̂_j) ∘ A_c` -/
def childMassPoly (t : BasisTab) (k : Kind) (d c l j : Nat) : Poly :=
  padPoly d (substL (childMap k d c) (mul (t.val l) (t.val j)))

end FeatModel.GT

/-! ### layout of the prolongation matrix: `SymbolicAssembler::assemble_matrix_2lvl` -/
namespace FeatModel.GT

/-- the 2-level dof adjacency: fine dof `r` couples with the coarse dofs of every coarse cell one of whose children
contains `r`; rows sorted and duplicate-free (`injectify_sorted`).  C16's `symbolicGraph2` on the (child, parent) pairs. -/
def layout2lvl (d : Dump) : Option FeatModel.Adj.Graph :=
  let pairs := d.cells.flatMap fun cell => cell.children.map fun ch => (ch.fmap, cell.cmap)
  FeatModel.Asm.symbolicGraph2 d.nf d.nc (pairs.map (·.1)) (pairs.map (·.2))

end FeatModel.GT
