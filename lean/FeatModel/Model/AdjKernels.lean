/-
C19, array level: the render kernels of kernel/adjacency/graph.hpp as the loops they are
(histogram into `domain_ptr`, prefix sums, pointer bump, the `idx_mask` set / reset sweeps), the
`Adjactor` interface the kernels are templated on (single graph, two-adjactor nest, the lazy
`CompositeAdjactor` iterator), `Graph::degree/sort_indices/permute_indices/clone`, the `Coloring`
array / vector constructors and `DynamicGraph`.  Core Lean only.

`Model/Adjacency.lean` is the list-level specification; `Lemmas/C19_kernels*.lean` prove that the
arrays computed here are the arrays (`domainPtr`, `imageIdx`) of the list-level renders.
-/
import FeatModel.Model.Adjacency
namespace FeatModel.Adj

/-- The `Adjactor` interface as the render kernels use it: two sizes and a loop over the images of one
domain node (`for(it = image_begin(i); it != image_end(i); ++it) body(*it)`). -/
structure Adjactor where
  nDom : Nat
  nImg : Nat
  fold : {σ : Type} → Nat → (σ → Nat → σ) → σ → σ

namespace Adjactor

/-- a `Graph` as adjactor: the iterator walks `image_idx[domain_ptr[i] .. domain_ptr[i+1])` -/
def ofGraph (g : Graph) : Adjactor :=
  { nDom := g.nDom, nImg := g.nImg, fold := fun i f s => (g.row i).foldl f s }

/-- the loop nest of the two-adjactor kernels:
`for(it in adj1(i)) for(jt in adj2(*it)) body(*jt)` -/
def composite (a b : Graph) : Adjactor :=
  { nDom := a.nDom, nImg := b.nImg,
    fold := fun i f s => (a.row i).foldl (fun s j => (b.row j).foldl f s) s }

/-- the images of a domain node in iteration order -/
def images (A : Adjactor) (i : Nat) : List Nat := A.fold i (fun l v => l ++ [v]) []

/-- the relation an adjactor denotes, as a list-level graph -/
def toGraph (A : Adjactor) : Graph := { nImg := A.nImg, adj := (List.range A.nDom).map A.images }

/-- `fold` really is a loop over a fixed sequence of images -/
def Lawful (A : Adjactor) : Prop :=
  ∀ (σ : Type) (i : Nat) (f : σ → Nat → σ) (s : σ), A.fold i f s = (A.images i).foldl f s

end Adjactor

/-- the two vectors of a `Graph` object plus `_num_nodes_image` -/
structure Arrays where
  nImg : Nat
  ptr : Array Nat
  idx : Array Nat
deriving Repr, DecidableEq

def Arrays.ofGraph (g : Graph) : Arrays :=
  { nImg := g.nImg, ptr := g.domainPtr.toArray, idx := g.imageIdx.toArray }

namespace Kern

abbrev Mask := Array Bool

/-- One walk over the images of domain node `i`.
`inj = false`: plain loop `body(*it)`.
`inj = true`: the `idx_mask` technique of the injectify kernels:
`if(idx_mask[*it] == 0) { body(*it); idx_mask[*it] = 1; }` and afterwards the reset sweep
`for(it …) idx_mask[*it] = 0`. The mask is part of the state and survives from node to node (and from the
counting pass to the fill pass), so a missing reset is visible. -/
def walk {σ : Type} (A : Adjactor) (inj : Bool) (i : Nat) (f : σ → Nat → σ) (st : σ × Mask) : σ × Mask :=
  if inj then
    let st1 := A.fold i (fun (st : σ × Mask) v =>
      if st.2.getD v false then st else (f st.1 v, st.2.setIfInBounds v true)) st
    (st1.1, A.fold i (fun (m : Mask) v => m.setIfInBounds v false) st1.2)
  else (A.fold i f st.1, st.2)

/-- The same walk with the mask's VALUE DOMAIN made explicit: any element type `μ` with two values `off`, `on`
(`std::vector<char>` with 0 / 1 in the source). `walk … true` is the instance `μ = Bool` (`C19.walk_is_walkM`);
`C19.walkM_spec` proves the technique correct for every `μ` in which `off ≠ on` — and for no other: a scheme that
stores something that need not differ from `off`, or compares against a value the element type cannot hold (see
`walkTag`), is not an instance. NOTE: `Index` and the mask element type are modelled unbounded; C++ narrowing can
only be seen by the correspondence run, which therefore crosses the 2^7 / 2^8 / 2^15 / 2^16 node-count
boundaries (stream `large` of checks/props/c19.py). -/
def walkM {σ μ : Type} [DecidableEq μ] (off on : μ) (A : Adjactor) (i : Nat) (f : σ → Nat → σ)
    (st : σ × Array μ) : σ × Array μ :=
  let st1 := A.fold i (fun (st : σ × Array μ) v =>
    if st.2.getD v off = off then (f st.1 v, st.2.setIfInBounds v on) else st) st
  (st1.1, A.fold i (fun (m : Array μ) v => m.setIfInBounds v off) st1.2)

/-- A per-node TAG scheme with a `w`-bit mask element and no reset sweep: visiting image `v` of domain node `i`
stores `(i + 1) mod 2^w` and duplicates are detected by comparing the stored element with the full-width `i + 1`.
Not part of FEAT; kept to state precisely why it is wrong (`C19.walkTag_narrow_fails`): for `i + 1 ≥ 2^w` the
comparison never succeeds and duplicates are kept. -/
def walkTag {σ : Type} (w : Nat) (A : Adjactor) (i : Nat) (f : σ → Nat → σ) (st : σ × Array Nat) : σ × Array Nat :=
  A.fold i (fun (st : σ × Array Nat) v =>
    if st.2.getD v 0 = i + 1 then st else (f st.1 v, st.2.setIfInBounds v ((i + 1) % 2 ^ w))) st

/-! ### `_render_as_is` / `_render_injectify` (row-wise kernels) -/

/-- counting pass: `_domain_ptr[i] = num_indices_image;` then `++num_indices_image` per (unmasked) image.
State: `(_domain_ptr, num_indices_image, idx_mask)`. -/
def rowCount (A : Adjactor) (inj : Bool) : Array Nat × Nat × Mask :=
  (List.range A.nDom).foldl
    (fun (st : Array Nat × Nat × Mask) i =>
      let ptr := st.1.setIfInBounds i st.2.1
      let r := walk A inj i (fun (n : Nat) _ => n + 1) (st.2.1, st.2.2)
      (ptr, r.1, r.2))
    (Array.replicate (A.nDom + 1) 0, 0, Array.replicate A.nImg false)

/-- fill pass: `k = _domain_ptr[i]`; `_image_idx[k] = *it; ++k` per (unmasked) image -/
def rowFill (A : Adjactor) (inj : Bool) (ptr : Array Nat) (num : Nat) (mask : Mask) : Array Nat :=
  ((List.range A.nDom).foldl
    (fun (st : Array Nat × Mask) i =>
      let r := walk A inj i (fun (s : Array Nat × Nat) v => (s.1.setIfInBounds s.2 v, s.2 + 1))
        ((st.1, ptr.getD i 0), st.2)
      (r.1.1, r.2))
    (Array.replicate num 0, mask)).1

def renderRows (A : Adjactor) (inj : Bool) : Arrays :=
  let c := rowCount A inj
  let ptr := c.1.setIfInBounds A.nDom c.2.1
  { nImg := A.nImg, ptr := ptr, idx := rowFill A inj ptr c.2.1 c.2.2 }

/-! ### `_render_transpose` / `_render_injectify_transpose` (column-wise kernels) -/

/-- histogram pass: `++_domain_ptr[(*it) + 1]` (and `++num_indices_image` in the injectify variant).
State: `((_domain_ptr, num_indices_image), idx_mask)`. -/
def colCount (A : Adjactor) (inj : Bool) : (Array Nat × Nat) × Mask :=
  (List.range A.nDom).foldl
    (fun (st : (Array Nat × Nat) × Mask) j =>
      walk A inj j (fun (s : Array Nat × Nat) v =>
        (s.1.setIfInBounds (v + 1) (s.1.getD (v + 1) 0 + 1), s.2 + 1)) st)
    ((Array.replicate (A.nImg + 1) 0, 0), Array.replicate A.nImg false)

/-- `for(i < n) _domain_ptr[i+1] += _domain_ptr[i];` -/
def prefixInPlace (n : Nat) (ptr : Array Nat) : Array Nat :=
  (List.range n).foldl (fun p i => p.setIfInBounds (i + 1) (p.getD (i + 1) 0 + p.getD i 0)) ptr

/-- `for(i < n) image_ptr[i] = &image_idx[_domain_ptr[i]];` (pointers kept as offsets) -/
def imagePtrInit (n : Nat) (ptr : Array Nat) : Array Nat :=
  (List.range n).foldl (fun ip i => ip.setIfInBounds i (ptr.getD i 0)) (Array.replicate n 0)

/-- the fused loop of `_render_injectify_transpose`:
`for(i < n) { _domain_ptr[i+1] += _domain_ptr[i]; image_ptr[i] = &image_idx[_domain_ptr[i]]; }` -/
def prefixFused (n : Nat) (ptr : Array Nat) : Array Nat × Array Nat :=
  (List.range n).foldl
    (fun (st : Array Nat × Array Nat) i =>
      let p := st.1.setIfInBounds (i + 1) (st.1.getD (i + 1) 0 + st.1.getD i 0)
      (p, st.2.setIfInBounds i (p.getD i 0)))
    (ptr, Array.replicate n 0)

/-- pointer-bump fill: `Index*& idx = image_ptr[*it]; *idx = j; ++idx;`.
State: `((_image_idx, image_ptr), idx_mask)`. -/
def colFill (A : Adjactor) (inj : Bool) (num : Nat) (iptr : Array Nat) (mask : Mask) : Array Nat :=
  ((List.range A.nDom).foldl
    (fun (st : (Array Nat × Array Nat) × Mask) j =>
      walk A inj j (fun (s : Array Nat × Array Nat) v =>
        (s.1.setIfInBounds (s.2.getD v 0) j, s.2.setIfInBounds v (s.2.getD v 0 + 1))) st)
    ((Array.replicate num 0, iptr), mask)).1.1

def renderCols (A : Adjactor) (inj : Bool) : Arrays :=
  let c := colCount A inj
  let pp := if inj then prefixFused A.nImg c.1.1
            else (prefixInPlace A.nImg c.1.1, imagePtrInit A.nImg (prefixInPlace A.nImg c.1.1))
  -- the injectify variant counts `num_indices_image` itself, the plain one reads `_domain_ptr[n]`
  let num := if inj then c.1.2 else pp.1.getD A.nImg 0
  { nImg := A.nDom, ptr := pp.1, idx := colFill A inj num pp.2 c.2 }

/-! ### `Graph::sort_indices`, `degree`, `permute_indices`, `clone` on the arrays -/

/-- `std::sort(_image_idx.begin() + ptr[i], _image_idx.begin() + ptr[i+1])` for every domain node;
early return for an empty index vector. (`XASSERT(!_domain_ptr.empty())` → `none`.) -/
def sortSegments (a : Arrays) : Option Arrays :=
  if a.ptr.isEmpty then none
  else if a.idx.isEmpty then some a
  else
    let idx' := (List.range (a.ptr.size - 1)).foldl
      (fun (idx : Array Nat) i =>
        let lo := a.ptr.getD i 0
        let hi := a.ptr.getD (i + 1) 0
        (idx.extract 0 lo ++ (Graph.sortList (idx.extract lo hi).toList).toArray ++ idx.extract hi idx.size))
      a.idx
    some { a with idx := idx' }

/-- `Graph::degree()`: `for(i+1 < ptr.size()) deg = max(deg, ptr[i+1] - ptr[i])` -/
def degreeAll (a : Arrays) : Nat :=
  (List.range (a.ptr.size - 1)).foldl (fun d i => max d (a.ptr.getD (i + 1) 0 - a.ptr.getD i 0)) 0

/-- `Graph::degree(i)` -/
def degreeAt (a : Arrays) (i : Nat) : Nat := a.ptr.getD (i + 1) 0 - a.ptr.getD i 0

/-- `Graph::permute_indices(inv_perm)`: `idx = inv_perm.map(idx)` for every index. The two `XASSERT`s of the
source (non-empty index vector; `_num_nodes_image == inv_perm.size()`, as repaired by ffa23477d) are kept;
`map` is `_perm_pos.at(idx)` (throws when out of range, impossible for a well-formed graph).
`none` = abort/exception. -/
def permuteIndices (a : Arrays) (p : List Nat) : Option Arrays :=
  if a.idx.isEmpty then none
  else if a.nImg != p.length then none
  else if a.idx.all (· < p.length) then some { a with idx := a.idx.map fun k => p.getD k 0 }
  else none

/-- `Graph::clone()`: Copy-Vector constructor unless the pointer vector is empty -/
def clone (a : Arrays) : Arrays := if a.ptr.isEmpty then { nImg := 0, ptr := #[], idx := #[] } else a

/-- the eight render types on one adjactor -/
def render (rt : Nat) (A : Adjactor) : Option Arrays :=
  match rt with
  | 0 => some (renderRows A false)
  | 1 => sortSegments (renderRows A false)
  | 2 => some (renderRows A true)
  | 3 => sortSegments (renderRows A true)
  | 4 | 5 => some (renderCols A false)
  | 6 | 7 => some (renderCols A true)
  | _ => none

/-- the composite render constructor (`XASSERTM(adj1.nImg == adj2.nDom)` in every kernel) -/
def render2 (rt : Nat) (a b : Graph) : Option Arrays :=
  if a.nImg != b.nDom then none else render rt (Adjactor.composite a b)

end Kern

/-! ## `CompositeAdjactor::ImageIterator` (lazy flatMap) -/
namespace CompIt

/-- iterator state: what is left of adjactor 1's list *including* the current node (`[]` = `_cur1 == _end1`),
and what is left of the current adjactor-2 list (head = `*_cur2`, `[]` = `_cur2 == _end2`).
The `end` iterator is `([], [])`; `it != end` is `rem1 ≠ []` (then `_cur1` differs) because the code sets
`_cur2` to the default iterator exactly when `_cur1` reaches `_end1`. -/
structure It where
  rem1 : List Nat
  cur2 : List Nat
deriving Repr, DecidableEq

/-- `image_begin(i)` as it was before 1c006df21: `_cur1 = adj1.begin(i)`; if `_cur1 != _end1` load the adjactor-2
list of `*_cur1` without skipping an empty one (kept to document the defect: `C19.compositeIterator_empty_head`;
the code and the driver now use `beginFixed`) -/
def begin (a b : Graph) (i : Nat) : It :=
  match a.row i with
  | [] => ⟨[], []⟩
  | j :: r => ⟨j :: r, b.row j⟩

/-- the `while(++_cur1 != _end1)` loop of `operator++`; argument = list 1 after the increment -/
def skip (b : Graph) : List Nat → It
  | [] => ⟨[], []⟩
  | j :: r => if (b.row j).isEmpty then skip b r else ⟨j :: r, b.row j⟩

/-- `operator++`: `if(++_cur2 != _end2) return;` else advance in list 1 to the next node with a non-empty
list 2, else become `end` -/
def next (b : Graph) (it : It) : It :=
  match it.cur2 with
  | _ :: (x :: xs) => ⟨it.rem1, x :: xs⟩
  | _ => skip b it.rem1.tail

/-- `for(it = begin; it != end; ++it) out.push_back(*it)` with fuel; `none` = dereferencing a second
iterator that sits at its end (begin positioned on an empty adjactor-2 list: undefined behaviour) -/
def collect (b : Graph) : Nat → It → List Nat → Option (List Nat)
  | 0, _, acc => some acc
  | fuel + 1, it, acc =>
    match it.rem1, it.cur2 with
    | [], _ => some acc
    | _ :: _, [] => none
    | _ :: _, v :: _ => collect b fuel (next b it) (acc ++ [v])

def imagesOf (a b : Graph) (i : Nat) : Option (List Nat) :=
  collect b (((a.row i).flatMap b.row).length + 1) (begin a b i) []

/-- `image_begin(i)` (since 1c006df21): skip leading empty adjactor-2 lists exactly as `operator++` does
(FINDINGS_C19.md F-C19-5) -/
def beginFixed (a b : Graph) (i : Nat) : It := skip b (a.row i)

def imagesOfFixed (a b : Graph) (i : Nat) : Option (List Nat) :=
  collect b (((a.row i).flatMap b.row).length + 1) (beginFixed a b i) []

end CompIt

/-- `p.concat(p)` with the argument aliasing `*this` (3fe35ab5b): the argument array is copied first, then
`p1[i] = p2_copy[p1[i]]` in place. (Before the repair the loop read entries it had already overwritten.) -/
def Perm.concatAliased (p : List Nat) : List Nat :=
  let copy := p.toArray
  ((List.range p.length).foldl (fun (a : Array Nat) i => a.setIfInBounds i (copy.getD (a.getD i 0) 0)) p.toArray).toList

/-! ## `Coloring` array / vector constructors -/
namespace Coloring

/-- Array constructor: `_num_colors = |{coloring[i]}|` (an `unordered_set`) -/
def numDistinct (col : List Nat) : Nat := (Graph.dedup col).length

/-- `get_max_color() = _num_colors - 1` in `Index` (64-bit unsigned) arithmetic -/
def maxColor (numColors : Nat) : Nat := if numColors = 0 then 2 ^ 64 - 1 else numColors - 1

end Coloring

/-! ## `DynamicGraph` (a vector of `std::set<Index>`) -/
structure DynGraph where
  nImg : Nat
  rows : List (List Nat)     -- every row strictly ascending (set iteration order)
deriving Repr, DecidableEq

namespace DynGraph

def empty (nDom nImg : Nat) : DynGraph := { nImg := nImg, rows := List.replicate nDom [] }

/-- `std::set::insert`: position found by ordered search; `(new row, inserted?)` -/
def setInsert (x : Nat) : List Nat → List Nat × Bool
  | [] => ([x], true)
  | y :: ys =>
    if x < y then (x :: y :: ys, true)
    else if x = y then (y :: ys, false)
    else let r := setInsert x ys; (y :: r.1, r.2)

def setErase (x : Nat) : List Nat → List Nat × Bool
  | [] => ([], false)
  | y :: ys =>
    if x = y then (ys, true)
    else let r := setErase x ys; (y :: r.1, r.2)

def row (g : DynGraph) (i : Nat) : List Nat := g.rows.getD i []

def nDom (g : DynGraph) : Nat := g.rows.length

def insert (g : DynGraph) (i j : Nat) : DynGraph × Bool :=
  let r := setInsert j (g.row i)
  ({ g with rows := g.rows.set i r.1 }, r.2)

def erase (g : DynGraph) (i j : Nat) : DynGraph × Bool :=
  let r := setErase j (g.row i)
  ({ g with rows := g.rows.set i r.1 }, r.2)

def «exists» (g : DynGraph) (i j : Nat) : Bool := (g.row i).contains j

def degreeAt (g : DynGraph) (i : Nat) : Nat := (g.row i).length
def degreeAll (g : DynGraph) : Nat := g.rows.foldl (fun d l => max d l.length) 0
def numIndices (g : DynGraph) : Nat := g.rows.foldl (fun n l => n + l.length) 0
def clear (g : DynGraph) : DynGraph := { g with rows := g.rows.map fun _ => [] }

/-- as adjactor (what `Graph(RenderType, dynamic_graph)` iterates over) -/
def toGraph (g : DynGraph) : Graph := { nImg := g.nImg, adj := g.rows }

/-- `DynamicGraph(render_type, adjactor)`: `_render_as_is` inserts every `(i, *it)`,
`_render_transpose` every `(*it, i)` -/
def ofAdjactor (A : Adjactor) (transpose : Bool) : DynGraph :=
  if transpose then
    (List.range A.nDom).foldl (fun (g : DynGraph) i => A.fold i (fun g v => (g.insert v i).1) g)
      (empty A.nImg A.nDom)
  else
    (List.range A.nDom).foldl (fun (g : DynGraph) i => A.fold i (fun g v => (g.insert i v).1) g)
      (empty A.nDom A.nImg)

/-- `DynamicGraph::compose(adjactor)`: each row is replaced by the union of the adjactor's lists of its
members -/
def compose (g : DynGraph) (b : Graph) : Option DynGraph :=
  if g.nImg != b.nDom then none
  else some { nImg := b.nImg,
              rows := g.rows.map fun l =>
                l.foldl (fun (s : List Nat) j => (b.row j).foldl (fun s k => (setInsert k s).1) s) [] }

end DynGraph

/-! ## Specification vocabulary for the Cuthill–McKee layer output -/
namespace CM

/-- running sums: the offsets after each block size -/
def offsets : Nat → List Nat → List Nat
  | _, [] => []
  | acc, s :: ss => (acc + s) :: offsets (acc + s) ss

/-- `next` is the BFS level that follows `lvl` when `seen` has been numbered: exactly the not yet seen
out-neighbours of `lvl`, each once (the order inside a level is the business of `SortType`) -/
def IsNextLevel (g : Graph) (seen lvl next : List Nat) : Prop :=
  next.Nodup ∧ ∀ k, k ∈ next ↔ (k ∉ seen ∧ ∃ n, n ∈ lvl ∧ k ∈ g.row n)

/-- `lv :: rest` are consecutive non-empty BFS levels (`seen` already contains `lv`); after the last level
nothing new is reachable -/
def IsLevelChain (g : Graph) : List Nat → List Nat → List (List Nat) → Prop
  | seen, lv, [] => IsNextLevel g seen lv []
  | seen, lv, nx :: rest => nx ≠ [] ∧ IsNextLevel g seen lv nx ∧ IsLevelChain g (seen ++ nx) nx rest

/-- the components in the order they are numbered: each one is a single fresh root followed by its BFS
levels -/
def AreBfsComponents (g : Graph) : List Nat → List (List (List Nat)) → Prop
  | _, [] => True
  | seen, c :: cs =>
    (∃ root rest, c = [root] :: rest ∧ root ∉ seen ∧ root < g.nDom ∧
      IsLevelChain g (seen ++ [root]) [root] rest) ∧
    AreBfsComponents g (seen ++ c.flatten) cs

/-- the `layers` output of `CuthillMcKee::compute`: `0`, then the end offset of every BFS level of every
component (levels of a component in reverse order, and the component's numbering reversed, when
`reverse` is set), then the terminator `n` -/
def LayersAreBfsLevels (g : Graph) (rev : Bool) (perm layers : List Nat) : Prop :=
  ∃ comps : List (List (List Nat)), AreBfsComponents g [] comps ∧
    perm = comps.flatMap (fun c => if rev then c.flatten.reverse else c.flatten) ∧
    layers = 0 :: offsets 0 (comps.flatMap fun c =>
      if rev then c.reverse.map List.length else c.map List.length) ++ [g.nDom]

/-! ### the ordering itself (beyond "bijection + BFS levels") -/

/-- discovery order of the next level: the not yet numbered out-neighbours of `level`, in the order
(parent position in `level`, then position in the parent's adjacency list), each at its first occurrence -/
def discovered (g : Graph) (seen level : List Nat) : List Nat :=
  Graph.dedup ((level.flatMap g.row).filter fun k => !seen.contains k)

/-- every level is *exactly* `sortLevel` (stable degree sort, or nothing) of the discovery order -/
def IsLevelChainExact (g : Graph) (st : SortType) : List Nat → List Nat → List (List Nat) → Prop
  | seen, lv, [] => discovered g seen lv = []
  | seen, lv, nx :: rest =>
    nx ≠ [] ∧ nx = sortLevel g st (discovered g seen lv) ∧ IsLevelChainExact g st (seen ++ nx) nx rest

/-- what the three `RootType`s document: first not yet numbered node / not yet numbered node of minimum
(maximum) degree, the one with the smallest index among equals -/
def IsDocumentedRoot (g : Graph) (rt : RootType) (seen : List Nat) (root : Nat) : Prop :=
  root < g.nDom ∧ root ∉ seen ∧
  match rt with
  | .standard => ∀ j, j < root → j ∈ seen
  | .minDeg => ∀ j, j < g.nDom → j ∉ seen →
      (g.degree root < g.degree j ∨ (g.degree root = g.degree j ∧ root ≤ j))
  | .maxDeg => ∀ j, j < g.nDom → j ∉ seen →
      (g.degree j < g.degree root ∨ (g.degree j = g.degree root ∧ root ≤ j))

/-- components in the order they are processed: each starts at the documented root among the nodes that are
left, and is numbered level by level -/
def AreCmComponents (g : Graph) (rt : RootType) (st : SortType) : List Nat → List (List (List Nat)) → Prop
  | _, [] => True
  | seen, c :: cs =>
    (∃ root rest, c = [root] :: rest ∧ IsDocumentedRoot g rt seen root ∧
      IsLevelChainExact g st (seen ++ [root]) [root] rest) ∧
    AreCmComponents g rt st (seen ++ c.flatten) cs

/-- complete specification of `CuthillMcKee::compute`: the numbering is the concatenation of the components
(each one reversed as a whole when `reverse` is set), the layers are the level end offsets -/
def IsCmOrdering (g : Graph) (rev : Bool) (rt : RootType) (st : SortType) (perm layers : List Nat) : Prop :=
  ∃ comps : List (List (List Nat)), AreCmComponents g rt st [] comps ∧
    perm.length = g.nDom ∧
    perm = comps.flatMap (fun c => if rev then c.flatten.reverse else c.flatten) ∧
    layers = 0 :: offsets 0 (comps.flatMap fun c =>
      if rev then c.reverse.map List.length else c.map List.length) ++ [g.nDom]

end CM

/-! ## permutations of blocked data -/
namespace Perm

/-- an array of `bs`-blocks (`Tiny::Vector<T, bs>`, `IndexTuple<bs>`) seen as a list of lists; `n` blocks -/
def chunk (bs : Nat) : Nat → List Nat → List (List Nat)
  | 0, _ => []
  | n + 1, x => x.take bs :: chunk bs n (x.drop bs)

/-- `IndexSet::permute(perm, inv_perm_face)`: the tuples are permuted by the forward permutation, then every index
is mapped through the inverse face permutation -/
def indexSetPermute (p q : List Nat) (tuples : List (List Nat)) : List (List Nat) :=
  (applyPerm p tuples).map fun t => t.map fun k => q.getD k 0

end Perm

end FeatModel.Adj
