import FeatModel.Model.Poly
import FeatModel.Model.Proto
import FeatModel.Gen.BasisS2
import FeatModel.Gen.BasisS3
import FeatModel.Gen.BasisH1
import FeatModel.Gen.BasisH2
import FeatModel.Gen.BasisH3
/-
Executable model of FEAT's finite-element machinery for C15 (core Lean only):

* `Mesh`                      – a conformal mesh given by *all* its index sets (arbitrary orientation of every entity)
* `mapPoly/mapPoint/jacMat`   – `Trafo::Standard::Evaluator` (map_point, calc_jac_mat, calc_hess_ten, jac_det, volume)
* `orientEdge/orientQuad`     – `Geometry::Intern::CongruencySampler::compare`
* `slotPerm`                  – the orientation handling of the Lagrange-3 evaluators (`ek[i][j] = base + 2i + map(o_i, j)`)
* `tabOf`                     – the reference basis (values / gradients / Hessians as polynomials): generated tables `Gen/Basis*`
* `evalCell`                  – `ParametricEvaluator` (chain rule of first and second order)
* `localDofs / entityDof`     – `DofMappingUniform/SingleEntity/Identity`, `DofAssignmentUniform`
* `nodePts / interpolate`     – the node functionals and `Assembly::Interpolator::project`

Everything is exact rational arithmetic, so the model only has to be *mathematically* equal to the C++ (equal
rationals print equally).
-/
namespace FeatModel.FE
open FeatModel.Poly

inductive Kind | S | H
  deriving DecidableEq, Repr

inductive Fam | L1 | L2 | L3 | D0 | D1 | CR | B2 | PB | HE | BF
  deriving DecidableEq, Repr

structure Mesh where
  kind : Kind
  dim : Nat
  coords : List (List Rat)
  /-- `num[d]` = number of entities of dimension `d` (`d = 0..dim`) -/
  num : List Nat
  /-- `idx[d][f]` = rows of the index set `<d,f>` (`idx[0] = []`) -/
  idx : List (List (List (List Nat)))

def Mesh.row (m : Mesh) (d f e : Nat) : List Nat := ((m.idx.getD d []).getD f []).getD e []
def Mesh.n (m : Mesh) (d : Nat) : Nat := m.num.getD d 0
def Mesh.vertex (m : Mesh) (v : Nat) : List Rat := m.coords.getD v []
/-- vertex coordinates of entity `e` of dimension `d` -/
def Mesh.entVerts (m : Mesh) (d e : Nat) : List (List Rat) :=
  if d = 0 then [m.vertex e] else (m.row d 0 e).map m.vertex

/-! ### reference shapes -/

/-- `FaceIndexMapping<shape, f, 0>`: local vertex tuples of the `f`-faces of the `d`-dimensional reference cell -/
def fim : Kind → Nat → Nat → List (List Nat)
  | .S, 2, 1 => [[1, 2], [2, 0], [0, 1]]
  | .S, 3, 1 => [[0, 1], [0, 2], [0, 3], [1, 2], [1, 3], [2, 3]]
  | .S, 3, 2 => [[1, 2, 3], [0, 2, 3], [0, 1, 3], [0, 1, 2]]
  | .H, 2, 1 => [[0, 1], [2, 3], [0, 2], [1, 3]]
  | .H, 3, 1 => [[0, 1], [2, 3], [4, 5], [6, 7], [0, 2], [1, 3], [4, 6], [5, 7], [0, 4], [1, 5], [2, 6], [3, 7]]
  | .H, 3, 2 => [[0, 1, 2, 3], [4, 5, 6, 7], [0, 1, 4, 5], [2, 3, 6, 7], [0, 2, 4, 6], [1, 3, 5, 7]]
  | _, _, _ => []

def numVerts : Kind → Nat → Nat
  | .S, d => d + 1
  | .H, d => 2 ^ d

/-- number of `f`-faces of the `d`-dimensional reference cell -/
def numFaces (k : Kind) (d f : Nat) : Nat :=
  if f = 0 then numVerts k d else if f = d then 1 else (fim k d f).length

def unitMono (d k : Nat) : Mono := (List.range d).map fun j => if j = k then 1 else 0

/-- the (multi)linear vertex shape function `N_i` of the `d`-dimensional reference cell (in `d` variables) -/
def shapeFn : Kind → Nat → Nat → Poly
  | .S, d, 0 => ((1 : Rat), List.replicate d 0) :: (List.range d).map fun k => ((-1 : Rat), unitMono d k)
  | .S, d, i + 1 => [((1 : Rat), unitMono d i)]
  | .H, d, i =>
    normalize (prod ((List.range d).map fun k =>
      [((1 : Rat) / 2, List.replicate d 0), ((if (i / 2 ^ k) % 2 = 1 then (1 : Rat) else -1) / 2, unitMono d k)]))

/-! ### `Trafo::Standard::Evaluator` -/

/-- component `a` of the transformation as a polynomial in the reference coordinates -/
def mapPoly (k : Kind) (d : Nat) (V : List (List Rat)) (a : Nat) : Poly :=
  sum ((List.range (numVerts k d)).map fun i => smul ((V.getD i []).getD a 0) (shapeFn k d i))

def worldDim (V : List (List Rat)) : Nat := (V.headD []).length

def mapPoint (k : Kind) (d : Nat) (V : List (List Rat)) (x : List Rat) : List Rat :=
  (List.range (worldDim V)).map fun a => evalAt x (mapPoly k d V a)

/-- `jac[a][j] = ∂ map_a / ∂ x_j` -/
def jacMat (k : Kind) (d : Nat) (V : List (List Rat)) (x : List Rat) : List (List Rat) :=
  (List.range (worldDim V)).map fun a => (List.range d).map fun j => evalAt x (pderiv j (mapPoly k d V a))

/-- `hess[a][p][q] = ∂² map_a / ∂ x_p ∂ x_q` -/
def hessTen (k : Kind) (d : Nat) (V : List (List Rat)) (x : List Rat) : List (List (List Rat)) :=
  (List.range (worldDim V)).map fun a => (List.range d).map fun p => (List.range d).map fun q =>
    evalAt x (pderiv q (pderiv p (mapPoly k d V a)))

def mat (M : List (List Rat)) (i j : Nat) : Rat := (M.getD i []).getD j 0

def det (d : Nat) (M : List (List Rat)) : Rat :=
  match d with
  | 1 => mat M 0 0
  | 2 => mat M 0 0 * mat M 1 1 - mat M 0 1 * mat M 1 0
  | 3 => mat M 0 0 * (mat M 1 1 * mat M 2 2 - mat M 1 2 * mat M 2 1)
       - mat M 0 1 * (mat M 1 0 * mat M 2 2 - mat M 1 2 * mat M 2 0)
       + mat M 0 2 * (mat M 1 0 * mat M 2 1 - mat M 1 1 * mat M 2 0)
  | _ => 0

/-- inverse by cofactors (`Tiny::Matrix::set_inverse`); a singular matrix gives the zero matrix here, the C++ aborts
    (division by zero in `Q`) – the driver reports that case as `ABORT` -/
def inv (d : Nat) (M : List (List Rat)) : List (List Rat) :=
  let dt := det d M
  match d with
  | 1 => [[1 / dt]]
  | 2 => [[mat M 1 1 / dt, -(mat M 0 1) / dt], [-(mat M 1 0) / dt, mat M 0 0 / dt]]
  | 3 =>
    let c := fun (i j : Nat) =>
      -- cofactor of entry (i, j)
      let r := (List.range 3).filter (· ≠ i)
      let s := (List.range 3).filter (· ≠ j)
      let m := mat M (r.getD 0 0) (s.getD 0 0) * mat M (r.getD 1 0) (s.getD 1 0)
             - mat M (r.getD 0 0) (s.getD 1 0) * mat M (r.getD 1 0) (s.getD 0 0)
      if (i + j) % 2 = 0 then m else -m
    (List.range 3).map fun i => (List.range 3).map fun j => c j i / dt
  | _ => []

def rabs (q : Rat) : Rat := if q < 0 then -q else q

/-- the double constant `0.57735026918962576451` (= `0x1.279a74590331cp-1`) used by the hexahedron volume -/
def gaussPt : Rat := mkRat 1300077228592327 2251799813685248

def fact : Nat → Nat
  | 0 => 1
  | n + 1 => (n + 1) * fact n

/-- `Evaluator::volume()` -/
def cellVolume (k : Kind) (d : Nat) (V : List (List Rat)) : Rat :=
  match k, d with
  | .S, _ => rabs (det d (jacMat k d V (List.replicate d 0))) / (fact d : Nat)
  | .H, 1 => 2 * Proto.qsqrt ((mat (jacMat k 1 V [0]) 0 0) * (mat (jacMat k 1 V [0]) 0 0))
  | .H, 2 => 4 * rabs (det 2 (jacMat k 2 V [0, 0]))
  | .H, 3 =>
    ((List.range 8).map fun i =>
      rabs (det 3 (jacMat k 3 V ((List.range 3).map fun j => if (i / 2 ^ j) % 2 = 1 then gaussPt else -gaussPt)))).foldl (· + ·) 0
  | _, _ => 0

/-! ### orientation codes (`CongruencySampler::compare`) and index maps (`CongruencyMapping<.,0>::map`) -/

/-- edge: 0 = same direction, 1 = reversed (anything else is an inconsistent mesh; the C++ then indexes a table
    with -1 — the model returns 0, the generator only produces consistent meshes) -/
def orientEdge (src trg : List Nat) : Nat :=
  if src.getD 0 0 = trg.getD 0 0 then 0 else 1

def orientQuad (src trg : List Nat) : Nat :=
  let s0 := src.getD 0 0
  let s1 := src.getD 1 0
  let t := fun i => trg.getD i 0
  if s0 = t 0 then (if s1 = t 1 then 0 else 4)
  else if s0 = t 1 then (if s1 = t 3 then 1 else 5)
  else if s0 = t 2 then (if s1 = t 0 then 2 else 6)
  else (if s1 = t 2 then 3 else 7)

def cmapEdge (o j : Nat) : Nat := if o = 0 then j else 1 - j

def cmapQuad (o j : Nat) : Nat :=
  (([[0, 1, 2, 3], [1, 3, 0, 2], [2, 0, 3, 1], [3, 2, 1, 0], [0, 2, 1, 3], [1, 0, 3, 2], [2, 3, 0, 1], [3, 1, 2, 0]] :
    List (List Nat)).getD o []).getD j 0

/-! ### DOF tables -/

/-- DOFs per entity of dimension `d = 0..dim` (`DofTraits`) -/
def dofsPerDim (f : Fam) (k : Kind) (dim : Nat) : List Nat :=
  let full : List Nat := match f, k with
    | .L1, _ => [1, 0, 0, 0]
    | .L2, .S => [1, 1, 0, 0]
    | .L2, .H => [1, 1, 1, 1]
    | .L3, .S => [1, 2, 1, 0]
    | .L3, .H => [1, 2, 4, 8]
    | .B2, _ => [1, 1, 1, 1]
    | .PB, _ => [1, 1, 1, 0]
    | .HE, _ => [2, 0, 0, 0]   -- Hermite-3 / Bogner-Fox-Schmit in 1-D: value and derivative at every vertex
    | .BF, _ => [2, 0, 0, 0]
    | .D0, _ => (List.range 4).map fun d => if d = dim then 1 else 0
    | .D1, _ => (List.range 4).map fun d => if d = dim then dim + 1 else 0
    | .CR, _ => (List.range 4).map fun d => if d + 1 = dim then 1 else 0
  full.take (dim + 1)

def dpd (f : Fam) (m : Mesh) (d : Nat) : Nat := (dofsPerDim f m.kind m.dim).getD d 0

/-- first global DOF index of the block of dimension `d` -/
def dofOffset (f : Fam) (m : Mesh) (d : Nat) : Nat :=
  ((List.range d).map fun e => dpd f m e * m.n e).foldl (· + ·) 0

def numDofs (f : Fam) (m : Mesh) : Nat := dofOffset f m (m.dim + 1)

/-- `DofAssignmentUniform::get_index`: global index of DOF `j` of entity `e` of dimension `d` -/
def entityDof (f : Fam) (m : Mesh) (d e j : Nat) : Nat := dofOffset f m d + e * dpd f m d + j

/-- `DofMapping::get_index` for all local DOFs of cell `c` (vertices first, then edges, …, then the cell itself) -/
def localDofs (f : Fam) (m : Mesh) (c : Nat) : List Nat :=
  (List.range (m.dim + 1)).flatMap fun d =>
    let ents := if d = m.dim then [c] else m.row m.dim d c
    ents.flatMap fun e => (List.range (dpd f m d)).map fun j => entityDof f m d e j

def numLocal (f : Fam) (k : Kind) (dim : Nat) : Nat :=
  ((List.range (dim + 1)).map fun d => (dofsPerDim f k dim).getD d 0 * numFaces k dim d).foldl (· + ·) 0

/-! ### reference basis -/

def d0Tab (dim : Nat) : BasisTab :=
  { nvars := dim, nloc := 1, hasGrad := false, hasHess := false, vals := [[(1, List.replicate dim 0)]], grads := [],
    hess := [], samples := [] }

open FeatModel.Gen in
def tabOf : Fam → Kind → Nat → Option BasisTab
  | .D0, _, d => some (d0Tab d)
  | .L1, .S, 2 => some BasisS2.l1 | .L2, .S, 2 => some BasisS2.l2 | .L3, .S, 2 => some BasisS2.l3
  | .D1, .S, 2 => some BasisS2.d1 | .CR, .S, 2 => some BasisS2.cr | .PB, .S, 2 => some BasisS2.pb
  | .L1, .S, 3 => some BasisS3.l1 | .L2, .S, 3 => some BasisS3.l2
  | .D1, .S, 3 => some BasisS3.d1 | .CR, .S, 3 => some BasisS3.cr
  | .HE, .H, 1 => some BasisH1.he | .BF, .H, 1 => some BasisH1.bf
  | .L1, .H, 1 => some BasisH1.l1 | .L2, .H, 1 => some BasisH1.l2 | .L3, .H, 1 => some BasisH1.l3 | .B2, .H, 1 => some BasisH1.b2
  | .L1, .H, 2 => some BasisH2.l1 | .L2, .H, 2 => some BasisH2.l2 | .L3, .H, 2 => some BasisH2.l3 | .B2, .H, 2 => some BasisH2.b2
  | .L1, .H, 3 => some BasisH3.l1 | .L2, .H, 3 => some BasisH3.l2 | .L3, .H, 3 => some BasisH3.l3 | .B2, .H, 3 => some BasisH3.b2
  | _, _, _ => none

/-- set position `i` of a list -/
def lset (l : List Nat) (i v : Nat) : List Nat := l.set i v

/-- orientation codes of the edges of cell `c` (`SubIndexMapping<Shape, 1, 0>`: `CongruencySampler::compare` of the
    cell's local edge with the stored edge) -/
def edgeCodes (m : Mesh) (c : Nat) : List Nat :=
  let cv := m.row m.dim 0 c
  (fim m.kind m.dim 1).zipIdx.map fun (e, i) =>
    orientEdge (e.map fun l => cv.getD l 0) (m.row 1 0 ((m.row m.dim 1 c).getD i 0))

/-- orientation codes of the quadrilateral faces of a hexahedron (`SubIndexMapping<Hypercube<3>, 2, 0>`) -/
def faceCodes (m : Mesh) (c : Nat) : List Nat :=
  if m.kind = Kind.H ∧ m.dim = 3 then
    let cv := m.row m.dim 0 c
    (fim Kind.H 3 2).zipIdx.map fun (e, i) =>
      orientQuad (e.map fun l => cv.getD l 0) (m.row 2 0 ((m.row 3 2 c).getD i 0))
  else []

/-- local DOF index → slot of the canonical (orientation 0) table, from the orientation codes.  Only Lagrange-3 has
    more than one DOF on an edge / quadrilateral face; its evaluators write formula slot `(i, j)` to
    `phi[base + n·i + map(o_i, j)]`. -/
def slotPermOf (f : Fam) (k : Kind) (dim : Nat) (ec fc : List Nat) : List Nat :=
  let nl := numLocal f k dim
  let id := List.range nl
  if f ≠ Fam.L3 ∨ dim < 2 then id else
  let ebase := numVerts k dim
  let p1 := (List.range ec.length).foldl (fun p i =>
      (List.range 2).foldl (fun p j => lset p (ebase + 2 * i + cmapEdge (ec.getD i 0) j) (ebase + 2 * i + j)) p) id
  let fbase := ebase + 2 * ec.length
  (List.range fc.length).foldl (fun p i =>
      (List.range 4).foldl (fun p j => lset p (fbase + 4 * i + cmapQuad (fc.getD i 0) j) (fbase + 4 * i + j)) p) p1

/-- the local basis of cell `c` only depends on the orientation codes of its edges and faces -/
def slotPerm (f : Fam) (m : Mesh) (c : Nat) : List Nat :=
  slotPermOf f m.kind m.dim (edgeCodes m c) (faceCodes m c)

/-! ### `ParametricEvaluator`: values, gradients, Hessians in real coordinates -/

structure BasisEval where
  value : Rat
  grad : List Rat
  hess : List (List Rat)

structure CellEval where
  hasGrad : Bool
  hasHess : Bool
  phi : List BasisEval
  img : List Rat
  jac : List (List Rat)
  jdet : Rat

def sumR (l : List Rat) : Rat := l.foldl (· + ·) 0

def evalCell (f : Fam) (m : Mesh) (c : Nat) (x : List Rat) : Option CellEval :=
  match tabOf f m.kind m.dim with
  | none => none
  | some tab =>
    let d := m.dim
    let V := m.entVerts d c
    let J := jacMat m.kind d V x
    let Ji := inv d J
    let HT := hessTen m.kind d V x
    let rng := List.range d
    -- hess_inv[k][a][b] = - Σ_m Ji[k][m] Σ_pq HT[m][p][q] Ji[p][a] Ji[q][b]
    let hj := fun (mm a b : Nat) => sumR (rng.flatMap fun p => rng.map fun q =>
      (((HT.getD mm []).getD p []).getD q 0) * mat Ji p a * mat Ji q b)
    let hinv := fun (k a b : Nat) => -(sumR (rng.map fun mm => mat Ji k mm * hj mm a b))
    let perm := slotPerm f m c
    let phi := (List.range tab.nloc).map fun i =>
      let s := perm.getD i i
      let rg := rng.map fun k => evalAt x (tab.grad s k)
      let g := rng.map fun a => sumR (rng.map fun k => rg.getD k 0 * mat Ji k a)
      let h := rng.map fun a => rng.map fun b =>
        sumR (rng.flatMap fun k => rng.map fun l => evalAt x (tab.hes s k l) * mat Ji k a * mat Ji l b)
          + sumR (rng.map fun k => rg.getD k 0 * hinv k a b)
      { value := evalAt x (tab.val s), grad := if tab.hasGrad then g else [], hess := if tab.hasHess then h else [] }
    some { hasGrad := tab.hasGrad, hasHess := tab.hasHess, phi := phi, img := mapPoint m.kind d V x, jac := J,
           jdet := rabs (det d J) }

/-! ### node functionals and `Assembly::Interpolator` -/

/-- nodal points of the node functional of an entity of dimension `d`, in the entity's own reference coordinates -/
def nodePts (f : Fam) (k : Kind) (cellDim d : Nat) : List (List Rat) :=
  let third : Rat := 1 / 3
  match f, k with
  | .L1, _ => if d = 0 then [[]] else []
  | .L2, .S => if d = 0 then [[]] else if d = 1 then [[1 / 2]] else []
  | .L2, .H => [List.replicate d 0]
  | .HE, _ => []   -- derivative node functionals: `Model/FEHermite.lean`
  | .BF, _ => []   -- Bogner-Fox-Schmit has no node functionals in FEAT
  | .B2, _ => []   -- Bernstein-2 node functionals are L2-projections with an irrational Gauss rule: not modelled
  | .L3, .S => if d = 0 then [[]] else if d = 1 then [[third], [2 * third]] else if d = 2 then [[third, third]] else []
  | .L3, .H => (List.range (2 ^ d)).map fun i => (List.range d).map fun j => if (i / 2 ^ j) % 2 = 1 then third else -third
  | .PB, _ => if d = 0 then [[]] else if d = 1 then [[1 / 2]] else if d = 2 then [[third, third]] else []
  | .D0, .S => if d = cellDim then [List.replicate d (1 / ((d : Nat) + 1 : Rat))] else []
  | .D0, .H => if d = cellDim then [List.replicate d 0] else []
  | .D1, _ => if d = cellDim then (List.replicate d 0) :: (List.range d).map (fun i => (List.range d).map fun j => if j = i then (1 : Rat) else 0) else []
  | .CR, _ => if d + 1 = cellDim then [List.replicate d (1 / (cellDim : Rat))] else []

/-- physical nodal point `j` of entity `e` of dimension `d` (the sub-dimensional `Trafo` evaluator) -/
def nodePoint (f : Fam) (m : Mesh) (d e j : Nat) : List Rat :=
  if d = 0 then m.vertex e
  else mapPoint m.kind d (m.entVerts d e) ((nodePts f m.kind m.dim d).getD j [])

/-- `Interpolator::project` for a polynomial function `p` (in the world coordinates): the coefficient vector -/
def interpolate (f : Fam) (m : Mesh) (p : Poly) : List Rat :=
  (List.range (m.dim + 1)).flatMap fun d =>
    (List.range (m.n d)).flatMap fun e =>
      (List.range (dpd f m d)).map fun j => evalAt (nodePoint f m d e j) p

/-- value / gradient / Hessian of the finite element function with coefficient vector `u` at `x` in cell `c` -/
def feEval (f : Fam) (m : Mesh) (u : List Rat) (c : Nat) (x : List Rat) : Option (CellEval × Rat × List Rat × List (List Rat)) :=
  match evalCell f m c x with
  | none => none
  | some ce =>
    let dofs := localDofs f m c
    let coef := fun (i : Nat) => u.getD (dofs.getD i 0) 0
    let n := ce.phi.length
    let rng := List.range m.dim
    let phi := fun (i : Nat) => ce.phi.getD i { value := 0, grad := [], hess := [] }
    let v := sumR ((List.range n).map fun i => coef i * (phi i).value)
    let g := rng.map fun a => sumR ((List.range n).map fun i => coef i * (phi i).grad.getD a 0)
    let h := rng.map fun a => rng.map fun b => sumR ((List.range n).map fun i => coef i * mat (phi i).hess a b)
    some (ce, v, g, h)

end FeatModel.FE
