/-
Model of kernel/adjacency: Graph render kernels, Permutation, Coloring, CuthillMcKee.
Core Lean only. Index = Nat; every unsigned subtraction of the C++ is guarded as in the source.

The adjacency relation is kept at list level (`adj : List (List Nat)`); the CSR-like arrays the C++
stores (`domain_ptr`, `image_idx`) are `domainPtr` / `imageIdx` of the list form, and these arrays
are what the correspondence run compares with the implementation.
-/
namespace FeatModel.Adj

structure Graph where
  nImg : Nat
  adj : List (List Nat)
deriving Repr, DecidableEq

namespace Graph

def nDom (g : Graph) : Nat := g.adj.length

/-- all image indices in range -/
def wf (g : Graph) : Bool := g.adj.all (fun l => l.all (· < g.nImg))

def prefixSums : Nat → List Nat → List Nat
  | acc, [] => [acc]
  | acc, x :: xs => acc :: prefixSums (acc + x) xs

def domainPtr (g : Graph) : List Nat := prefixSums 0 (g.adj.map List.length)
def imageIdx (g : Graph) : List Nat := g.adj.flatten

def row (g : Graph) (i : Nat) : List Nat := g.adj.getD i []

def degree (g : Graph) (i : Nat) : Nat := (g.row i).length

def maxDegree (g : Graph) : Nat := g.adj.foldl (fun d l => max d l.length) 0

/-! ### render kernels (single adjactor) -/

def asIs (g : Graph) : Graph := g

/-- duplicate-free, first-occurrence order (mask technique of `_render_injectify`) -/
def dedup : List Nat → List Nat
  | [] => []
  | x :: xs => x :: (dedup xs).filter (· != x)

def injectify (g : Graph) : Graph := { g with adj := g.adj.map dedup }

/-- `_render_transpose`: image node `i` lists every domain node `j` once per occurrence of `i` in `adj j`,
in ascending `j` (pointer-bump fill in domain order) -/
def transposeRow (adj : List (List Nat)) (i : Nat) : List Nat :=
  adj.zipIdx.flatMap fun (l, j) => (l.filter (· == i)).map fun _ => j

def transpose (g : Graph) : Graph :=
  { nImg := g.nDom, adj := (List.range g.nImg).map (transposeRow g.adj) }

def injTransposeRow (adj : List (List Nat)) (i : Nat) : List Nat :=
  adj.zipIdx.filterMap fun (l, j) => if l.contains i then some j else none

def injectifyTranspose (g : Graph) : Graph :=
  { nImg := g.nDom, adj := (List.range g.nImg).map (injTransposeRow g.adj) }

/-- insertion sort (the C++ calls `std::sort`; any sort gives the same list) -/
def insertSorted (x : Nat) : List Nat → List Nat
  | [] => [x]
  | y :: ys => if x ≤ y then x :: y :: ys else y :: insertSorted x ys

def sortList : List Nat → List Nat
  | [] => []
  | x :: xs => insertSorted x (sortList xs)

def sortIndices (g : Graph) : Graph := { g with adj := g.adj.map sortList }

/-- composition of two adjactors: `i ↦ flatMap adj2 (adj1 i)` -/
def compose (a b : Graph) : Graph :=
  { nImg := b.nImg, adj := a.adj.map fun l => l.flatMap b.row }

/-- the eight render types of `Adjacency::RenderType` -/
def render (rt : Nat) (g : Graph) : Option Graph :=
  match rt with
  | 0 => some g.asIs
  | 1 => some g.asIs.sortIndices
  | 2 => some g.injectify
  | 3 => some g.injectify.sortIndices
  | 4 | 5 => some g.transpose
  | 6 | 7 => some g.injectifyTranspose
  | _ => none

def renderComposite (rt : Nat) (a b : Graph) : Option Graph :=
  if a.nImg != b.nDom then none else render rt (compose a b)

/-- the "permutation copy constructor" `Graph(other, domain_perm, image_perm)` -/
def permuted (g : Graph) (dp ip : List Nat) : Graph :=
  { nImg := g.nImg, adj := dp.map fun d => (g.row d).map fun k => ip.getD k 0 }

end Graph

/-! ## Permutation -/
namespace Perm

/-- `calc_swap_from_perm`: trace `j` through the already computed swaps while `j < i`.
The `while` loop gets fuel; `none` models a hang (non-bijective input). -/
def trace (swap : Array Nat) (i : Nat) : Nat → Nat → Option Nat
  | 0, _ => none
  | fuel + 1, j => if j < i then trace swap i fuel (swap.getD j 0) else some j

def swapFromPermAux (p : List Nat) (n : Nat) : Nat → Array Nat → Option (Array Nat)
  | 0, swap => some swap
  | k + 1, swap =>
    let i := n - (k + 1)
    match trace swap i (n + 1) (p.getD i 0) with
    | none => none
    | some j => swapFromPermAux p n k (swap.push j)

def swapFromPerm (p : List Nat) : Option (List Nat) :=
  (swapFromPermAux p p.length p.length #[]).map Array.toList

def swapAt (x : Array α) (i j : Nat) : Array α :=
  if h : i < x.size ∧ j < x.size then
    let a := x[i]
    let b := x[j]
    (x.set i b).setIfInBounds j a
  else x

/-- in-situ `apply(x)`: for `i = 0 .. n-2`, swap `x[i]` and `x[swap[i]]` when `swap[i] > i` -/
def applySwaps (s : List Nat) (x : Array α) : Array α :=
  (List.range (s.length - 1)).foldl (fun x i => let j := s.getD i 0; if j > i then swapAt x i j else x) x

/-- in-situ inverse `apply(x, true)`: same swaps in reverse order -/
def applySwapsInv (s : List Nat) (x : Array α) : Array α :=
  (List.range (s.length - 1)).reverse.foldl (fun x i => let j := s.getD i 0; if j > i then swapAt x i j else x) x

/-- out-of-place `apply(y, x)`: `y[i] = x[perm[i]]` -/
def applyPerm [Inhabited α] (p : List Nat) (x : List α) : List α := p.map fun k => x.getD k default

/-- out-of-place inverse: `y[perm[i]] = x[i]` -/
def applyPermInv [Inhabited α] (p : List Nat) (x : List α) : List α :=
  ((p.zip x).foldl (fun (y : Array α) (pk, xv) => y.setIfInBounds pk xv) (Array.replicate p.length default)).toList

/-- `calc_perm_from_swap`: apply the swaps to the identity -/
def permFromSwap (s : List Nat) : List Nat := (applySwaps s (Array.range s.length)).toList

/-- the inv_swap constructor loop -/
def permFromInvSwap (v : List Nat) : List Nat :=
  ((List.range (v.length - 1)).reverse.foldl
    (fun (x : Array Nat) i => swapAt x i (v.getD i 0)) (Array.range v.length)).toList

/-- inverse permutation array: `q[p[i]] = i` -/
def invPerm (p : List Nat) : List Nat :=
  ((List.range p.length).foldl (fun (q : Array Nat) i => q.setIfInBounds (p.getD i 0) i) (Array.replicate p.length 0)).toList

def isBijection (p : List Nat) : Bool :=
  p.all (· < p.length) && (List.range p.length).all (fun k => p.contains k)

structure Permutation where
  perm : List Nat
  swap : List Nat
deriving Repr, DecidableEq

/-- constructors: 2 = perm, 3 = swap, 4 = inv_perm, 5 = inv_swap, 1 = identity -/
def construct (kind : Nat) (v : List Nat) : Option Permutation :=
  match kind with
  | 1 => some ⟨List.range v.length, List.range v.length⟩
  | 2 => (swapFromPerm v).map fun s => ⟨v, s⟩
  | 3 => some ⟨permFromSwap v, v⟩
  | 4 => let p := invPerm v; (swapFromPerm p).map fun s => ⟨p, s⟩
  | 5 => let p := permFromInvSwap v; (swapFromPerm p).map fun s => ⟨p, s⟩
  | _ => none

/-- `concat`: `p1[i] := p2[p1[i]]` -/
def concat (p1 p2 : List Nat) : Option Permutation :=
  let p := p1.map fun k => p2.getD k 0
  (swapFromPerm p).map fun s => ⟨p, s⟩

end Perm

/-! ## Coloring -/
namespace Coloring

/-- choose the admissible (not marked) old colour with the least uses (first one on ties) -/
def chooseColor (numColors : Nat) (marked : List Nat) (colNum : Array Nat) : Option Nat :=
  let step := fun (best : Option (Nat × Nat)) (j : Nat) =>
    if marked.contains j then best
    else
      let u := colNum.getD j 0
      match best with
      | none => some (u, j)
      | some (bu, _) => if u < bu then some (u, j) else best
  ((List.range numColors).foldl step none).map (·.2)

structure St where
  coloring : Array Nat       -- colour per node (sentinel `unset` while not coloured)
  numColors : Nat
  colNum : Array Nat
deriving Repr

/-- one node: `earlier` = colours of the neighbours that count as already coloured -/
def colorNode (st : St) (i : Nat) (marked : List Nat) : St :=
  match chooseColor st.numColors marked st.colNum with
  | some c => { st with coloring := st.coloring.setIfInBounds i c,
                        colNum := st.colNum.setIfInBounds c (st.colNum.getD c 0 + 1) }
  | none => { coloring := st.coloring.setIfInBounds i st.numColors,
              numColors := st.numColors + 1,
              colNum := st.colNum.setIfInBounds st.numColors (st.colNum.getD st.numColors 0 + 1) }

/-- `Coloring(graph)`: nodes in index order, only neighbours with smaller index are looked at -/
def greedy (g : Graph) : St :=
  let n := g.nDom
  let mnc := g.maxDegree + 1
  (List.range n).foldl
    (fun st i =>
      let marked := (g.row i).filterMap fun k => if k < i then some (st.coloring.getD k 0) else none
      colorNode st i marked)
    { coloring := Array.replicate n 0, numColors := 0, colNum := Array.replicate mnc 0 }

/-- `Coloring(graph, order)`: nodes in the given order, all already coloured neighbours are looked at -/
def greedyOrdered (g : Graph) (order : List Nat) : St :=
  let n := g.nDom
  let unset := n + 1
  let mnc := g.maxDegree + 1
  order.foldl
    (fun st i =>
      let marked := (g.row i).filterMap fun k =>
        let c := st.coloring.getD k unset
        if c != unset then some c else none
      colorNode st i marked)
    { coloring := Array.replicate n unset, numColors := 0, colNum := Array.replicate mnc 0 }

/-- `create_partition_graph`: colour `c` lists, ascending, the nodes of colour `c` -/
def partitionGraph (numColors : Nat) (coloring : List Nat) : Graph :=
  { nImg := coloring.length,
    adj := (List.range numColors).map fun c =>
      coloring.zipIdx.filterMap fun (cj, j) => if cj == c then some j else none }

end Coloring

/-! ## Cuthill–McKee -/
namespace CM

inductive RootType | standard | minDeg | maxDeg
deriving Repr, DecidableEq
inductive SortType | standard | asc | desc
deriving Repr, DecidableEq

def isMasked (mask : Array Bool) (j : Nat) : Bool := mask.getD j false

/-- root selection among unmasked nodes -/
def findRoot (g : Graph) (rt : RootType) (mask : Array Bool) : Option Nat :=
  let n := g.nDom
  match rt with
  | .standard => (List.range n).find? fun j => !isMasked mask j
  | .minDeg =>
    ((List.range n).foldl (fun (acc : Option Nat × Nat) j =>
      if (g.degree j < acc.2 || acc.1.isNone) && !isMasked mask j then (some j, g.degree j) else acc) (none, n + 1)).1
  | .maxDeg =>
    ((List.range n).foldl (fun (acc : Option Nat × Nat) j =>
      if (g.degree j > acc.2 || acc.1.isNone) && !isMasked mask j then (some j, g.degree j) else acc) (none, 0)).1

/-- the linear-insertion sort of one BFS level, loop-faithful: walk left while the key is strictly
better than the predecessor's -/
def insertLevel (better : Nat → Nat → Bool) (deg : Nat → Nat) (sorted : List Nat) (y : Nat) : List Nat :=
  let r := sorted.reverse
  let moved := r.takeWhile fun z => better (deg y) (deg z)
  let rest := r.dropWhile fun z => better (deg y) (deg z)
  rest.reverse ++ [y] ++ moved.reverse

def sortLevel (g : Graph) (st : SortType) (lvl : List Nat) : List Nat :=
  match st with
  | .standard => lvl
  | .desc => lvl.foldl (insertLevel (fun x d => x > d) g.degree) []
  | .asc => lvl.foldl (insertLevel (fun x d => x < d) g.degree) []

/-- visit the nodes of the current level, collect every not yet masked neighbour once -/
def expandLevel (g : Graph) (level : List Nat) (mask : Array Bool) : List Nat × Array Bool :=
  level.foldl (fun (acc : List Nat × Array Bool) n =>
    (g.row n).foldl (fun (acc : List Nat × Array Bool) k =>
      if isMasked acc.2 k then acc else (acc.1 ++ [k], acc.2.setIfInBounds k true)) acc) ([], mask)

/-- BFS over one component. `perm` holds everything numbered so far (`lvl3 = perm.length`),
`level` the nodes of the current level. Returns new perm, mask and the layer offsets pushed. -/
def component (g : Graph) (st : SortType) : Nat → List Nat → List Nat → Array Bool → List Nat →
    List Nat × Array Bool × List Nat
  | 0, perm, _, mask, layers => (perm, mask, layers)
  | fuel + 1, perm, level, mask, layers =>
    if perm.length < g.nDom then
      let (fresh, mask') := expandLevel g level mask
      if fresh.isEmpty then (perm, mask', layers)
      else
        let sorted := sortLevel g st fresh
        let perm' := perm ++ sorted
        component g st fuel perm' sorted mask' (layers ++ [perm'.length])
    else (perm, mask, layers)

/-- reverse the layer offsets of one component (sizes from offsets, reverse, offsets from sizes) -/
def reverseLayers (base : Nat) (offs : List Nat) : List Nat :=
  let sizes := (offs.zip (base :: offs)).map fun (a, b) => a - b
  (sizes.reverse.foldl (fun (acc : List Nat × Nat) s => (acc.1 ++ [acc.2 + s], acc.2 + s)) ([], base)).1

/-- outer (separability) loop -/
def outer (g : Graph) (rev : Bool) (rt : RootType) (st : SortType) :
    Nat → List Nat → Array Bool → List Nat → Option (List Nat × List Nat)
  | 0, perm, _, layers => if perm.length < g.nDom then none else some (perm, layers)
  | fuel + 1, perm, mask, layers =>
    if perm.length < g.nDom then
      match findRoot g rt mask with
      | none => none      -- "No root node found!"
      | some root =>
        let base := perm.length
        let mask := mask.setIfInBounds root true
        let (perm', mask', lay) := component g st (g.nDom + 1) (perm ++ [root]) [root] mask [base + 1]
        let seg := perm'.drop base
        let perm'' := if rev then perm'.take base ++ seg.reverse else perm'
        let lay' := if rev then reverseLayers base lay else lay
        outer g rev rt st fuel perm'' mask' (layers ++ lay')
    else some (perm, layers)

/-- `CuthillMcKee::compute(layers, graph, reverse, r_type, s_type)`; `none` = abort -/
def compute (g : Graph) (rev : Bool) (rt : RootType) (st : SortType) : Option (List Nat × List Nat) :=
  if g.nDom = 0 then none   -- `Permutation perm(0)` aborts: "cannot create empty permutation"
  else match outer g rev rt st (g.nDom + 1) [] (Array.replicate g.nDom false) [0] with
  | none => none
  | some (perm, layers) => some (perm, layers ++ [g.nDom])

end CM

end FeatModel.Adj
