import FeatModel.Model.GridTransfer
import FeatModel.Model.Dist
/-
Model of `Global::Transfer` (kernel/global/transfer.hpp) for one parent group: the parent process (child 0) and its
child processes, each with its `LAFEM::Transfer`.  `Global::Muxer::join/split` and `Gate::sync_0` are C13's models
(`FeatModel.Dist.muxJoin`, `muxSplit`, `sync0Patch`), imported read-only.  Core Lean only.

Branches of `prol` / `rest` / `trunc`:
* un-muxed: `_coarse_muxer == nullptr` or `!is_child()`: the local operator, then `sync_0`;
* muxed: `XASSERT(is_parent())`; `rest`/`trunc`: local operator into `_vec_tmp`, `join(_vec_tmp, coarse)`, `sync_0`;
  `prol`: `split(_vec_tmp, coarse)`, local `prol`, `sync_0`.  Ghost children call `rest_send`/`trunc_send`/`prol_recv`,
  which are the child halves of the same join/split, so the group functions below describe both.
-/
namespace FeatModel.GT
open FeatModel.Dist

instance : Inhabited Transfer :=
  ⟨⟨FeatModel.LA.Csr.entryFree 0 0, FeatModel.LA.Csr.entryFree 0 0, FeatModel.LA.Csr.entryFree 0 0⟩⟩

/-- what `Global::Transfer` asks its coarse muxer, and the data of `join`/`split` -/
structure MuxerM where
  commSize : Nat        -- size of the sibling communicator; 0 = no communicator
  isParent : Bool       -- `_sibling_comm->rank() == _parent_rank`
  B : Nat               -- `_buffer_size`
  pm : List CMir        -- parent mirror of every child
  cm : List CMir        -- child mirrors held by the parent
deriving Inhabited

/-- `(_sibling_comm != nullptr) && (_sibling_comm->size() > 0)` -/
def MuxerM.isChild (m : MuxerM) : Bool := decide (0 < m.commSize)
def MuxerM.isGhost (m : MuxerM) : Bool := m.isChild && !m.isParent

/-- `Muxer::join` on the parent (`srcs[c]` = vector of child `c`): a plain copy for `size() ≤ 1` -/
def MuxerM.join (m : MuxerM) (srcs : List (Array Rat)) (trg : Array Rat) : Array Rat :=
  if m.commSize ≤ 1 then srcs.getD 0 #[]
  else (muxJoin m.B m.pm m.cm (srcs.map fun s => CVec.leaf 1 s.toList) (CVec.leaf 1 trg.toList)).flat.toArray

/-- `Muxer::split` on the parent: the vectors the children receive -/
def MuxerM.split (m : MuxerM) (src : Array Rat) (trgs : List (Array Rat)) : List (Array Rat) :=
  if m.commSize ≤ 1 then [src]
  else (muxSplit m.B m.pm m.cm (CVec.leaf 1 src.toList) (trgs.map fun s => CVec.leaf 1 s.toList)).map
    fun v => v.flat.toArray

/-- `Gate::sync_0` of a gate without neighbours (C13's `SynchVectorTicket` model with no mirrors) -/
def syncTrivial (v : Array Rat) : Array Rat :=
  (sync0Patch [({ n := v.size, nbrs := [] } : Patch)] [v.toList] 0 []).toArray

structure GTransfer where
  muxer : Option MuxerM          -- `_coarse_muxer` (`none` = nullptr)
  locals : List Transfer         -- `_transfer` of every process of the group, index 0 = the parent process

/-- the muxed branch is taken -/
def GTransfer.muxed (g : GTransfer) : Bool :=
  match g.muxer with
  | none => false
  | some m => m.isChild

def GTransfer.parentOk (g : GTransfer) : Bool :=
  match g.muxer with
  | none => false
  | some m => m.isParent

/-- which stored matrix a member applies -/
inductive Which where
  | rest | trunc
deriving DecidableEq

def applyWhich (w : Which) (t : Transfer) (vecFine vecCoarse : Array Rat) : Option (Array Rat) :=
  match w with
  | .rest => t.applyRest vecFine vecCoarse
  | .trunc => t.applyTrunc vecFine vecCoarse

/-- `rest` / `trunc` (and the `_send` halves of the children): `fines[c]`, `tmps[c]` = fine vector and `_vec_tmp` of
process `c`; `coarse0` = the coarse vector on the parent; `none` = assertion failure -/
def GTransfer.down (g : GTransfer) (w : Which) (fines tmps : List (Array Rat)) (coarse0 : Array Rat) :
    Option (Array Rat) :=
  if !g.muxed then
    (applyWhich w (g.locals.getD 0 default) (fines.getD 0 #[]) coarse0).map syncTrivial
  else if !g.parentOk then none
  else
    match (List.range g.locals.length).mapM fun c =>
        applyWhich w (g.locals.getD c default) (fines.getD c #[]) (tmps.getD c #[]) with
    | none => none
    | some parts => some (syncTrivial ((g.muxer.getD default).join parts coarse0))

def GTransfer.rest (g : GTransfer) := g.down .rest
def GTransfer.trunc (g : GTransfer) := g.down .trunc

/-- `prol` (and `prol_recv` of the children): the fine vectors of all processes -/
def GTransfer.prol (g : GTransfer) (fines0 tmps : List (Array Rat)) (coarse : Array Rat) :
    Option (List (Array Rat)) :=
  if !g.muxed then
    ((g.locals.getD 0 default).applyProl (fines0.getD 0 #[]) coarse).map fun v => [syncTrivial v]
  else if !g.parentOk then none
  else
    let parts := (g.muxer.getD default).split coarse tmps
    (List.range g.locals.length).mapM fun c =>
      ((g.locals.getD c default).applyProl (fines0.getD c #[]) (parts.getD c #[])).map syncTrivial

/-- `trunc_send` / `rest_send` / `prol_recv` assert `is_ghost()`; `prol_cancel` always asserts -/
def GTransfer.sendAllowed (g : GTransfer) : Bool :=
  match g.muxer with
  | none => false
  | some m => m.isGhost

/-- `Global::Transfer::convert(coarse_muxer, other)`: the new muxer pointer, the local transfer converted field-wise
(`_vec_tmp` is scratch) -/
def GTransfer.convert (mux : Option MuxerM) (cv : Rat → Rat) (g : GTransfer) : GTransfer :=
  { muxer := mux, locals := g.locals.map (Transfer.convert cv) }

/-- `Global::Transfer::clone(mode)`: same muxer, cloned local transfer -/
def GTransfer.clone (m : CloneMode) (g : GTransfer) : GTransfer :=
  { muxer := g.muxer, locals := g.locals.map (Transfer.clone m) }

end FeatModel.GT
