/-
Model of the distributed-vector layer of FEAT (kernel/global/gate.hpp, synch_vec.hpp,
kernel/lafem/vector_mirror.hpp, kernel/lafem/arch/mirror_generic.hpp, kernel/global/matrix.hpp).
Core Lean only.  Scalars are polymorphic (`Rat` in the driver, any field in the theorems).

* A *patch* (= one MPI rank's view) is its number of local DOFs and its list of neighbours
  `(rank, mirror indices)` in the order in which `Gate::push` was called.
* `gather` / `scatterAxpy` follow the loops of `Mirror::gather_dv_generic` / `scatter_dv_generic`
  (`buf[i] = vec[idx[i]]`, `vec[idx[i]] += alpha*buf[i]`, ascending `i`, duplicates allowed).
  Blocked vectors (`DenseVectorBlocked<_,_,bs>`) are the same loops on the POD array with every
  mirror index `i` expanded to `i*bs+0 … i*bs+bs-1` (`expand`).
* `freqs` is `Gate::compile`: format(1), one `scatter_axpy` of an all-ones buffer per mirror,
  `component_invert`.
* `sync0Patch` is `SynchVectorTicket`: *all* send buffers are gathered (constructor) from the
  unsynchronised vectors, then the received buffers are scattered into the target in the order
  `ord` in which `wait_any` reports them (a list of neighbour positions).
-/
namespace FeatModel.Dist

structure Patch where
  n : Nat
  nbrs : List (Nat × List Nat)
deriving Repr, Inhabited

variable {α : Type} [Add α] [Mul α] [Zero α] [One α] [Div α]

/-- element access with the zero default (never out of range for well-formed inputs) -/
def val (v : List α) (i : Nat) : α := v.getD i 0

/-- blocked index expansion of a mirror: `idx[i]*bs + k` for `k < bs` -/
def expand (bs : Nat) (mir : List Nat) : List Nat :=
  mir.flatMap fun i => (List.range bs).map fun k => i * bs + k

/-- the gate of a blocked vector seen on its POD array -/
def Patch.expand (bs : Nat) (p : Patch) : Patch :=
  { n := p.n * bs, nbrs := p.nbrs.map fun nb => (nb.1, Dist.expand bs nb.2) }

/-- `Mirror::gather_dv_generic` with buffer offset 0 -/
def gather (mir : List Nat) (v : List α) : List α := mir.map (val v)

/-- `Mirror::scatter_dv_generic` with buffer offset 0: `vec[idx[i]] += alpha*buf[i]` -/
def scatterAxpy (v : List α) (mir : List Nat) (buf : List α) (alpha : α) : List α :=
  (mir.zip buf).foldl (fun w p => w.modify p.1 (fun x => x + alpha * p.2)) v

/-! ### `VectorMirror::gather` / `scatter_axpy` including their assertions -/

/-- `VectorMirror::gather(buffer, vector, buffer_offset)`; `size` is the mirror's vector size,
`bs` the block size, `v`/`buf` the POD arrays.  `none` = XASSERT failure. -/
def mirrorGather (bs size : Nat) (mir : List Nat) (buf : List α) (boff : Nat) (v : List α) : Option (List α) :=
  let m := expand bs mir
  if boff + bs * mir.length ≤ buf.length ∧ size * bs = v.length then
    some (buf.take boff ++ gather m v ++ buf.drop (boff + m.length))
  else none

/-- `VectorMirror::scatter_axpy(vector, buffer, alpha, buffer_offset)` -/
def mirrorScatter (bs size : Nat) (mir : List Nat) (v : List α) (buf : List α) (alpha : α) (boff : Nat) :
    Option (List α) :=
  if boff + bs * mir.length ≤ buf.length ∧ size * bs = v.length then
    some (scatterAxpy v (expand bs mir) (buf.drop boff) alpha)
  else none

/-! ### Gate -/

/-- `Gate::compile`: `1 / (1 + number of mirror entries hitting the DOF)` -/
def counts (p : Patch) : List α :=
  p.nbrs.foldl (fun f nb => scatterAxpy f nb.2 (List.replicate nb.2.length 1) 1) (List.replicate p.n 1)

def freqs (p : Patch) : List α := (counts p).map fun x => 1 / x

/-- `component_product` -/
def compMul (x y : List α) : List α := List.zipWith (fun a b => a * b) x y

/-- `Gate::from_1_to_0`: multiply by the frequencies unless the gate has no neighbours -/
def from1to0 (p : Patch) (v : List α) : List α :=
  if p.nbrs.isEmpty then v else compMul v (freqs p)

/-- the buffer that patch `s` gathers for its neighbour `r` (`none`: `s` does not send to `r`) -/
def sendBuf (ps : List Patch) (vs : List (List α)) (s r : Nat) : Option (List α) :=
  ((ps.getD s default).nbrs.find? fun nb => nb.1 == r).map fun nb => gather nb.2 (vs.getD s [])

/-- `SynchVectorTicket` on patch `r`: scatter the received buffers in arrival order `ord` -/
def sync0Patch (ps : List Patch) (vs : List (List α)) (r : Nat) (ord : List Nat) : List α :=
  ord.foldl (fun tgt k =>
      let nb := (ps.getD r default).nbrs.getD k (0, [])
      scatterAxpy tgt nb.2 ((sendBuf ps vs nb.1 r).getD []) 1)
    (vs.getD r [])

/-- `Gate::sync_0` on every patch; `ords r` = arrival order of patch `r` -/
def sync0 (ps : List Patch) (ords : List (List Nat)) (vs : List (List α)) : List (List α) :=
  (List.range ps.length).map fun r => sync0Patch ps vs r (ords.getD r [])

/-- `Gate::sync_1` = `from_1_to_0` + `sync_0` -/
def sync1 (ps : List Patch) (ords : List (List Nat)) (vs : List (List α)) : List (List α) :=
  sync0 ps ords ((List.range ps.length).map fun r => from1to0 (ps.getD r default) (vs.getD r []))

/-- every posted receive has a matching send of the same length (otherwise MPI deadlocks/truncates) -/
def exchangeOk (ps : List Patch) : Bool :=
  (List.range ps.length).all fun r =>
    (ps.getD r default).nbrs.all fun nb =>
      match (ps.getD nb.1 default).nbrs.find? fun nb' => nb'.1 == r with
      | some nb' => nb'.2.length == nb.2.length && nb.1 < ps.length
      | none => false

/-- `DenseVector::triple_dot`: `Σ f_i x_i y_i` -/
def tripleDot (f x y : List α) : α :=
  ((List.zipWith (fun a b => a * b) (List.zipWith (fun a b => a * b) f x) y)).foldl (· + ·) 0

def dotLocal (x y : List α) : α := (List.zipWith (fun a b => a * b) x y).foldl (· + ·) 0

/-- `Gate::dot` (communicator with more than one rank): local part, then allreduce-sum -/
def gdotLocal (p : Patch) (x y : List α) : α :=
  if p.nbrs.isEmpty then dotLocal x y else tripleDot (freqs p) x y

def gdot (ps : List Patch) (xs ys : List (List α)) : α :=
  ((List.range ps.length).map fun r => gdotLocal (ps.getD r default) (xs.getD r []) (ys.getD r [])).foldl (· + ·) 0

/-! ### Global::Matrix::apply = local CSR apply + sync_0 -/

/-- a CSR row is a list of `(column, value)` -/
def matVec (rows : List (List (Nat × α))) (x : List α) : List α :=
  rows.map fun row => row.foldl (fun acc e => acc + e.2 * val x e.1) 0

def gapply (ps : List Patch) (ords : List (List Nat)) (mats : List (List (List (Nat × α))))
    (xs : List (List α)) : List (List α) :=
  sync0 ps ords ((List.range ps.length).map fun r => matVec (mats.getD r []) (xs.getD r []))

/-! ### Decompositions and their well-formedness (hypotheses of the theorems) -/

/-- per patch: local→global DOF map, and the gate data -/
structure Decomp where
  maps : List (List Nat)
  patches : List Patch
deriving Repr

namespace Decomp

def np (d : Decomp) : Nat := d.patches.length
def patch (d : Decomp) (r : Nat) : Patch := d.patches.getD r default
def lmap (d : Decomp) (r : Nat) : List Nat := d.maps.getD r []
/-- global DOF of local DOF `i` of patch `r` -/
def gdof (d : Decomp) (r i : Nat) : Nat := (d.lmap r).getD i 0

/-- consistency of maps and mirrors (what MirrorAssembler + the partitioner guarantee; C12) -/
structure WF (d : Decomp) : Prop where
  len : d.maps.length = d.patches.length
  size : ∀ r, r < d.np → (d.patch r).n = (d.lmap r).length
  inj : ∀ r, r < d.np → (d.lmap r).Nodup
  ranks : ∀ r, r < d.np → ((d.patch r).nbrs.map (·.1)).Nodup
  nbr : ∀ r, r < d.np → ∀ nb ∈ (d.patch r).nbrs, nb.1 ≠ r ∧ nb.1 < d.np
  mirNodup : ∀ r, r < d.np → ∀ nb ∈ (d.patch r).nbrs, nb.2.Nodup
  mirRange : ∀ r, r < d.np → ∀ nb ∈ (d.patch r).nbrs, ∀ i ∈ nb.2, i < (d.patch r).n
  /-- the neighbour has the mirror of the same interface, listing the same global DOFs in the same order -/
  sym : ∀ r, r < d.np → ∀ nb ∈ (d.patch r).nbrs, ∃ nb' ∈ (d.patch nb.1).nbrs,
      nb'.1 = r ∧ nb'.2.map (d.gdof nb.1) = nb.2.map (d.gdof r) ∧ ∀ j ∈ nb'.2, j < (d.patch nb.1).n
  /-- every DOF shared with another patch is in the mirror for that patch -/
  complete : ∀ r, r < d.np → ∀ s, s < d.np → s ≠ r → ∀ i, i < (d.patch r).n → ∀ j, j < (d.patch s).n →
      d.gdof r i = d.gdof s j → ∃ nb ∈ (d.patch r).nbrs, nb.1 = s ∧ i ∈ nb.2

/-- the values that patch `s` holds for global DOF `g` (at most one entry when `lmap s` is injective) -/
def sharedVals (d : Decomp) (vs : List (List α)) (s g : Nat) : List α :=
  ((List.range (d.lmap s).length).filter fun j => d.gdof s j == g).map fun j => val (vs.getD s []) j

/-- all patches that contain global DOF `g` (for `g = gdof r i` this includes `r` itself) -/
def sharers (d : Decomp) (g : Nat) : List Nat :=
  (List.range d.np).filter fun s => (d.lmap s).contains g

end Decomp

end FeatModel.Dist
