/-
Model of the distributed-vector layer of FEAT (kernel/global/gate.hpp, synch_vec.hpp,
kernel/lafem/vector_mirror.hpp, kernel/lafem/arch/mirror_generic.hpp, kernel/global/matrix.hpp).
Core Lean only.  Scalars are polymorphic (`Rat` in the driver, any field in the theorems).

* A *patch* (= one MPI rank's view) is its number of local DOFs and its list of neighbours
  `(rank, mirror indices)` in the order in which `Gate::push` was called.
* `gather` / `scatterAxpy` follow the loops of `Mirror::gather_dv_generic` / `scatter_dv_generic`
  (`buf[i] = vec[idx[i]]`, `vec[idx[i]] += alpha*buf[i]`, ascending `i`, duplicates allowed).
  Blocked vectors (`DenseVectorBlocked<_,_,bs>`) are the same loops on the POD array with every
  mirror index `i` expanded to `i*bs+0 … i*bs+bs-1` (`expand`).
* `freqs` is `Gate::compile`: format(1), one `scatter_axpy` of an all-ones buffer per mirror,
  `component_invert`.
* `sync0Patch` is `SynchVectorTicket`: *all* send buffers are gathered (constructor) from the
  unsynchronised vectors, then the received buffers are scattered into the target in the order
  `ord` in which `wait_any` reports them (a list of neighbour positions).
-/
namespace FeatModel.Dist

structure Patch where
  n : Nat
  nbrs : List (Nat × List Nat)
deriving Repr, Inhabited

variable {α : Type} [Add α] [Mul α] [Zero α] [One α] [Div α]

/-- element access with the zero default (never out of range for well-formed inputs) -/
def val (v : List α) (i : Nat) : α := v.getD i 0

/-- blocked index expansion of a mirror: `idx[i]*bs + k` for `k < bs` -/
def expand (bs : Nat) (mir : List Nat) : List Nat :=
  mir.flatMap fun i => (List.range bs).map fun k => i * bs + k

/-- the gate of a blocked vector seen on its POD array -/
def Patch.expand (bs : Nat) (p : Patch) : Patch :=
  { n := p.n * bs, nbrs := p.nbrs.map fun nb => (nb.1, Dist.expand bs nb.2) }

/-- `Mirror::gather_dv_generic` with buffer offset 0 -/
def gather (mir : List Nat) (v : List α) : List α := mir.map (val v)

/-- `Mirror::scatter_dv_generic` with buffer offset 0: `vec[idx[i]] += alpha*buf[i]` -/
def scatterAxpy (v : List α) (mir : List Nat) (buf : List α) (alpha : α) : List α :=
  (mir.zip buf).foldl (fun w p => w.modify p.1 (fun x => x + alpha * p.2)) v

/-! ### `VectorMirror::gather` / `scatter_axpy` including their assertions -/

/-- `VectorMirror::gather(buffer, vector, buffer_offset)`; `size` is the mirror's vector size,
`bs` the block size, `v`/`buf` the POD arrays.  `none` = XASSERT failure. -/
def mirrorGather (bs size : Nat) (mir : List Nat) (buf : List α) (boff : Nat) (v : List α) : Option (List α) :=
  let m := expand bs mir
  if boff + bs * mir.length ≤ buf.length ∧ size * bs = v.length then
    some (buf.take boff ++ gather m v ++ buf.drop (boff + m.length))
  else none

/-- `VectorMirror::scatter_axpy(vector, buffer, alpha, buffer_offset)` -/
def mirrorScatter (bs size : Nat) (mir : List Nat) (v : List α) (buf : List α) (alpha : α) (boff : Nat) :
    Option (List α) :=
  if boff + bs * mir.length ≤ buf.length ∧ size * bs = v.length then
    some (scatterAxpy v (expand bs mir) (buf.drop boff) alpha)
  else none

/-! ### Gate -/

/-- `Gate::compile`: `1 / (1 + number of mirror entries hitting the DOF)` -/
def counts (p : Patch) : List α :=
  p.nbrs.foldl (fun f nb => scatterAxpy f nb.2 (List.replicate nb.2.length 1) 1) (List.replicate p.n 1)

def freqs (p : Patch) : List α := (counts p).map fun x => 1 / x

/-- `component_product` -/
def compMul (x y : List α) : List α := List.zipWith (fun a b => a * b) x y

/-- `Gate::from_1_to_0`: multiply by the frequencies unless the gate has no neighbours -/
def from1to0 (p : Patch) (v : List α) : List α :=
  if p.nbrs.isEmpty then v else compMul v (freqs p)

/-- the buffer that patch `s` gathers for its neighbour `r` (`none`: `s` does not send to `r`) -/
def sendBuf (ps : List Patch) (vs : List (List α)) (s r : Nat) : Option (List α) :=
  ((ps.getD s default).nbrs.find? fun nb => nb.1 == r).map fun nb => gather nb.2 (vs.getD s [])

/-- `SynchVectorTicket` on patch `r`: scatter the received buffers in arrival order `ord` -/
def sync0Patch (ps : List Patch) (vs : List (List α)) (r : Nat) (ord : List Nat) : List α :=
  ord.foldl (fun tgt k =>
      let nb := (ps.getD r default).nbrs.getD k (0, [])
      scatterAxpy tgt nb.2 ((sendBuf ps vs nb.1 r).getD []) 1)
    (vs.getD r [])

/-- `Gate::sync_0` on every patch; `ords r` = arrival order of patch `r` -/
def sync0 (ps : List Patch) (ords : List (List Nat)) (vs : List (List α)) : List (List α) :=
  (List.range ps.length).map fun r => sync0Patch ps vs r (ords.getD r [])

/-- `Gate::sync_1` = `from_1_to_0` + `sync_0` -/
def sync1 (ps : List Patch) (ords : List (List Nat)) (vs : List (List α)) : List (List α) :=
  sync0 ps ords ((List.range ps.length).map fun r => from1to0 (ps.getD r default) (vs.getD r []))

/-- every posted receive has a matching send of the same length (otherwise MPI deadlocks/truncates) -/
def exchangeOk (ps : List Patch) : Bool :=
  (List.range ps.length).all fun r =>
    (ps.getD r default).nbrs.all fun nb =>
      match (ps.getD nb.1 default).nbrs.find? fun nb' => nb'.1 == r with
      | some nb' => nb'.2.length == nb.2.length && nb.1 < ps.length
      | none => false

/-- `DenseVector::triple_dot`: `Σ f_i x_i y_i` -/
def tripleDot (f x y : List α) : α :=
  ((List.zipWith (fun a b => a * b) (List.zipWith (fun a b => a * b) f x) y)).foldl (· + ·) 0

def dotLocal (x y : List α) : α := (List.zipWith (fun a b => a * b) x y).foldl (· + ·) 0

/-- `Gate::dot` (communicator with more than one rank): local part, then allreduce-sum -/
def gdotLocal (p : Patch) (x y : List α) : α :=
  if p.nbrs.isEmpty then dotLocal x y else tripleDot (freqs p) x y

def gdot (ps : List Patch) (xs ys : List (List α)) : α :=
  ((List.range ps.length).map fun r => gdotLocal (ps.getD r default) (xs.getD r []) (ys.getD r [])).foldl (· + ·) 0

/-! ### Global::Matrix::apply = local CSR apply + sync_0 -/

/-- a CSR row is a list of `(column, value)` -/
def matVec (rows : List (List (Nat × α))) (x : List α) : List α :=
  rows.map fun row => row.foldl (fun acc e => acc + e.2 * val x e.1) 0

def gapply (ps : List Patch) (ords : List (List Nat)) (mats : List (List (List (Nat × α))))
    (xs : List (List α)) : List (List α) :=
  sync0 ps ords ((List.range ps.length).map fun r => matVec (mats.getD r []) (xs.getD r []))

/-! ### Decompositions and their well-formedness (hypotheses of the theorems) -/

/-- per patch: local→global DOF map, and the gate data -/
structure Decomp where
  maps : List (List Nat)
  patches : List Patch
deriving Repr

namespace Decomp

def np (d : Decomp) : Nat := d.patches.length
def patch (d : Decomp) (r : Nat) : Patch := d.patches.getD r default
def lmap (d : Decomp) (r : Nat) : List Nat := d.maps.getD r []
/-- global DOF of local DOF `i` of patch `r` -/
def gdof (d : Decomp) (r i : Nat) : Nat := (d.lmap r).getD i 0

/-- consistency of maps and mirrors (what MirrorAssembler + the partitioner guarantee; C12) -/
structure WF (d : Decomp) : Prop where
  len : d.maps.length = d.patches.length
  size : ∀ r, r < d.np → (d.patch r).n = (d.lmap r).length
  inj : ∀ r, r < d.np → (d.lmap r).Nodup
  ranks : ∀ r, r < d.np → ((d.patch r).nbrs.map (·.1)).Nodup
  nbr : ∀ r, r < d.np → ∀ nb ∈ (d.patch r).nbrs, nb.1 ≠ r ∧ nb.1 < d.np
  mirNodup : ∀ r, r < d.np → ∀ nb ∈ (d.patch r).nbrs, nb.2.Nodup
  mirRange : ∀ r, r < d.np → ∀ nb ∈ (d.patch r).nbrs, ∀ i ∈ nb.2, i < (d.patch r).n
  /-- the neighbour has the mirror of the same interface, listing the same global DOFs in the same order -/
  sym : ∀ r, r < d.np → ∀ nb ∈ (d.patch r).nbrs, ∃ nb' ∈ (d.patch nb.1).nbrs,
      nb'.1 = r ∧ nb'.2.map (d.gdof nb.1) = nb.2.map (d.gdof r) ∧ ∀ j ∈ nb'.2, j < (d.patch nb.1).n
  /-- every DOF shared with another patch is in the mirror for that patch -/
  complete : ∀ r, r < d.np → ∀ s, s < d.np → s ≠ r → ∀ i, i < (d.patch r).n → ∀ j, j < (d.patch s).n →
      d.gdof r i = d.gdof s j → ∃ nb ∈ (d.patch r).nbrs, nb.1 = s ∧ i ∈ nb.2

/-- the values that patch `s` holds for global DOF `g` (at most one entry when `lmap s` is injective) -/
def sharedVals (d : Decomp) (vs : List (List α)) (s g : Nat) : List α :=
  ((List.range (d.lmap s).length).filter fun j => d.gdof s j == g).map fun j => val (vs.getD s []) j

/-- all patches that contain global DOF `g` (for `g = gdof r i` this includes `r` itself) -/
def sharers (d : Decomp) (g : Nat) : List Nat :=
  (List.range d.np).filter fun s => (d.lmap s).contains g

end Decomp


/-! ## Composite mirrors and vectors (LAFEM::TupleMirror / PowerMirror over TupleVector / PowerVector)

`TupleMirror<First, Rest...>` and `PowerMirrorHelper<i>` are both the recursion
`first.op(buffer, vector.first(), offset); rest.op(buffer, vector.rest(), offset + first.buffer_size(vector.first()))`,
and a one-component tuple / power behaves like its component.  So a composite mirror is a binary tree:
a `k`-tuple is `pair c₁ (pair c₂ (… cₖ))`, a power of `n` is the same with `n` copies of one sub-mirror
(`CMir.power`), and nesting puts a `pair` into a first position.  Leaves are `VectorMirror` index lists
applied to `DenseVector` (`bs = 1`) or `DenseVectorBlocked<bs>` POD arrays. -/

inductive CMir where
  | leaf (idx : List Nat)
  | pair (a b : CMir)
deriving Repr, Inhabited

inductive CVec (α : Type) where
  | leaf (bs : Nat) (pod : List α)
  | pair (a b : CVec α)
deriving Repr, Inhabited

/-- `PowerMirror<Sub, n>`: `n ≥ 1` copies of the same sub-mirror (`power 0` is not a C++ type; it is `sub`) -/
def CMir.power : Nat → CMir → CMir
  | 0, s => s
  | 1, s => s
  | n + 2, s => .pair s (CMir.power (n + 1) s)

namespace CVec

/-- number of POD entries -/
def podSize : CVec α → Nat
  | leaf _ pod => pod.length
  | pair a b => a.podSize + b.podSize

/-- all leaves in order, concatenated -/
def flat : CVec α → List α
  | leaf _ pod => pod
  | pair a b => a.flat ++ b.flat

/-- `format(0)`: same shape, all entries zero -/
def zero : CVec α → CVec α
  | leaf bs pod => leaf bs (List.replicate pod.length 0)
  | pair a b => pair a.zero b.zero

/-- rebuild a vector of the shape of `v` from a flat POD list -/
def unflat : CVec α → List α → CVec α
  | leaf bs pod, l => leaf bs (l.take pod.length)
  | pair a b, l => pair (a.unflat l) (b.unflat (l.drop a.podSize))

/-- the leaves as lists (output format of the driver) -/
def leaves : CVec α → List (List α)
  | leaf _ pod => [pod]
  | pair a b => a.leaves ++ b.leaves

end CVec

namespace CMir

/-- `buffer_size(vector)`: `num_indices * block_size` on a leaf, sum over the components otherwise -/
def bufSize : CMir → CVec α → Nat
  | leaf idx, .leaf bs _ => idx.length * bs
  | pair a b, .pair x y => a.bufSize x + b.bufSize y
  | _, _ => 0

/-- mirror and vector have the same tree shape, every leaf index addresses a block of its leaf -/
def wf : CMir → CVec α → Bool
  | leaf idx, .leaf bs pod => idx.all fun i => i * bs + bs ≤ pod.length
  | pair a b, .pair x y => a.wf x && b.wf y
  | _, _ => false

/-- the composite mirror as one index list into the flattened vector (`voff` = POD offset of this subtree) -/
def flatIdx : CMir → CVec α → Nat → List Nat
  | leaf idx, .leaf bs _, voff => (expand bs idx).map (· + voff)
  | pair a b, .pair x y, voff => a.flatIdx x voff ++ b.flatIdx y (voff + x.podSize)
  | _, _, _ => []

end CMir

/-- overwrite `buf[off .. off+seg.length)` by `seg` (the range is inside the buffer for valid calls) -/
def writeAt (buf : List α) (off : Nat) (seg : List α) : List α :=
  buf.take off ++ seg ++ buf.drop (off + seg.length)

/-- `TupleMirror::gather(buffer, vector, buffer_offset)` / `PowerMirror::gather`:
component `j` is gathered at `buffer_offset + Σ_{i<j} buffer_size_i` -/
def cgather : CMir → CVec α → List α → Nat → List α
  | .leaf idx, .leaf bs pod, buf, off => writeAt buf off (gather (expand bs idx) pod)
  | .pair a b, .pair x y, buf, off => cgather b y (cgather a x buf off) (off + a.bufSize x)
  | _, _, buf, _ => buf

/-- `TupleMirror::scatter_axpy(vector, buffer, alpha, buffer_offset)` / `PowerMirror::scatter_axpy` -/
def cscatter : CMir → CVec α → List α → α → Nat → CVec α
  | .leaf idx, .leaf bs pod, buf, alpha, off => .leaf bs (scatterAxpy pod (expand bs idx) (buf.drop off) alpha)
  | .pair a b, .pair x y, buf, alpha, off =>
      .pair (cscatter a x buf alpha off) (cscatter b y buf alpha (off + a.bufSize x))
  | _, v, _, _, _ => v

/-! ### Gate over composite vectors (`Global::Gate<TupleVector<…>, TupleMirror<…>>`) -/

structure CPatch (α : Type) where
  /-- a vector of the right shape (contents irrelevant) -/
  tmpl : CVec α
  nbrs : List (Nat × CMir)
deriving Inhabited

/-- componentwise map / zipWith on equal shapes -/
def CVec.map (f : α → α) : CVec α → CVec α
  | .leaf bs pod => .leaf bs (pod.map f)
  | .pair a b => .pair (a.map f) (b.map f)

def CVec.zipWith (f : α → α → α) : CVec α → CVec α → CVec α
  | .leaf bs p, .leaf _ q => .leaf bs (List.zipWith f p q)
  | .pair a b, .pair c d => .pair (CVec.zipWith f a c) (CVec.zipWith f b d)
  | v, _ => v

/-- `Gate::compile` -/
def cfreqs (p : CPatch α) : CVec α :=
  let ones := p.tmpl.map fun _ => 1
  let cnt := p.nbrs.foldl (fun f nb =>
    cscatter nb.2 f (List.replicate (nb.2.bufSize f) 1) 1 0) ones
  cnt.map fun x => 1 / x

def cfrom1to0 (p : CPatch α) (v : CVec α) : CVec α :=
  if p.nbrs.isEmpty then v else CVec.zipWith (fun a b => a * b) v (cfreqs p)

def csendBuf (ps : List (CPatch α)) (vs : List (CVec α)) (s r : Nat) : Option (List α) :=
  ((ps.getD s default).nbrs.find? fun nb => nb.1 == r).map fun nb =>
    let v := vs.getD s default
    cgather nb.2 v (List.replicate (nb.2.bufSize v) 0) 0

def csync0Patch (ps : List (CPatch α)) (vs : List (CVec α)) (r : Nat) (ord : List Nat) : CVec α :=
  ord.foldl (fun tgt k =>
      match (ps.getD r default).nbrs[k]? with
      | some nb => cscatter nb.2 tgt ((csendBuf ps vs nb.1 r).getD []) 1 0
      | none => tgt)
    (vs.getD r default)

def csync0 (ps : List (CPatch α)) (ords : List (List Nat)) (vs : List (CVec α)) : List (CVec α) :=
  (List.range ps.length).map fun r => csync0Patch ps vs r (ords.getD r [])

def csync1 (ps : List (CPatch α)) (ords : List (List Nat)) (vs : List (CVec α)) : List (CVec α) :=
  csync0 ps ords ((List.range ps.length).map fun r => cfrom1to0 (ps.getD r default) (vs.getD r default))

/-- matching sends/receives with equal buffer sizes -/
def cexchangeOk (ps : List (CPatch α)) : Bool :=
  (List.range ps.length).all fun r =>
    let p := ps.getD r default
    p.nbrs.all fun nb =>
      let q := ps.getD nb.1 default
      match q.nbrs.find? fun nb' => nb'.1 == r with
      | some nb' => nb'.2.bufSize q.tmpl == nb.2.bufSize p.tmpl && nb.1 < ps.length
      | none => false

def cgdotLocal (p : CPatch α) (x y : CVec α) : α :=
  if p.nbrs.isEmpty then dotLocal x.flat y.flat else tripleDot (cfreqs p).flat x.flat y.flat

def cgdot (ps : List (CPatch α)) (xs ys : List (CVec α)) : α :=
  ((List.range ps.length).map fun r =>
    cgdotLocal (ps.getD r default) (xs.getD r default) (ys.getD r default)).foldl (· + ·) 0

/-! ### Muxer (`Global::Muxer::join` / `split` between a child layer and its parent process)

Child `c` owns `srcs[c]` and its parent mirror `pm[c]`; the parent owns the child mirrors `cm[c]`.
`B` is `_buffer_size` (compile: the largest child-mirror buffer size); every child sends a buffer of
exactly `B` entries, `MPI_Gather` concatenates them in child order. -/

def muxBufSize (cm : List CMir) (tmpl : CVec α) : Nat :=
  cm.foldl (fun b m => max b (m.bufSize tmpl)) 0

/-- `join`: children gather with their parent mirror, the parent scatters buffer `c` from offset `c*B` -/
def muxJoin (B : Nat) (pm cm : List CMir) (srcs : List (CVec α)) (trg : CVec α) : CVec α :=
  let childBufs := (List.range cm.length).flatMap fun c =>
    cgather (pm.getD c default) (srcs.getD c default) (List.replicate B 0) 0
  (List.range cm.length).foldl (fun t c => cscatter (cm.getD c default) t childBufs 1 (c * B)) trg.zero

/-- `split`: the parent gathers buffer `c` at offset `c*B`, `MPI_Scatter` hands slice `c` to child `c`,
which scatters it with its parent mirror into a zero vector -/
def muxSplit (B : Nat) (pm cm : List CMir) (src : CVec α) (trgs : List (CVec α)) : List (CVec α) :=
  let childBufs := (List.range cm.length).foldl
    (fun buf c => cgather (cm.getD c default) src buf (c * B)) (List.replicate (B * cm.length) 0)
  (List.range cm.length).map fun c =>
    cscatter (pm.getD c default) (trgs.getD c default).zero ((childBufs.drop (c * B)).take B) 1 0


/-! ## More of the Global layer: norms, reductions, Global::Vector arithmetic, the second
`Global::Matrix::apply` overload, `extract_diag` / `lump_rows`, `Global::Filter` with unit filters -/

/-- `Global::Vector::norm2sqr` = `dot(this, this)` -/
def gnorm2sqr (ps : List Patch) (xs : List (List α)) : α := gdot ps xs xs

/-- `Global::Vector::norm2` = `Math::sqrt(norm2sqr())`, and `Gate::norm2(x)` = `sqrt(sum(x*x))`;
the square root is a parameter (the deterministic rational `qsqrt` in the driver) -/
def gnorm2 (sqrt : α → α) (ps : List Patch) (xs : List (List α)) : α := sqrt (gnorm2sqr ps xs)

/-- `Gate::sum`: allreduce-sum of one scalar per rank -/
def allSum (l : List α) : α := l.foldl (· + ·) 0

/-- `Gate::norm2(x)`: `sqrt(Σ_r x_r²)` -/
def gateNorm2 (sqrt : α → α) (l : List α) : α := sqrt (allSum (l.map fun x => x * x))

section Order
variable [LT α] [DecidableLT α] [Neg α]

def maxOf (a b : α) : α := if a < b then b else a
def minOf (a b : α) : α := if b < a then b else a
def absOf (a : α) : α := if a < 0 then -a else a

/-- `Gate::max` / `Gate::min`: allreduce over one scalar per rank (at least one rank) -/
def allMax (l : List α) : α := l.tail.foldl maxOf (l.headD 0)
def allMin (l : List α) : α := l.tail.foldl minOf (l.headD 0)

/-- `DenseVector::max_abs_element` (value of the entry found by `MaxAbsIndex`, which starts from 0) -/
def localMaxAbs (v : List α) : α := v.foldl (fun m x => maxOf m (absOf x)) 0
/-- `min_abs_element`, `max_element`, `min_element` (non-empty vectors) -/
def localMinAbs (v : List α) : α := allMin (v.map absOf)
def localMax (v : List α) : α := allMax v
def localMin (v : List α) : α := allMin v

/-- `Global::Vector::max_abs_element` etc.: local value, then `Gate::max` / `Gate::min` -/
def gMaxAbs (xs : List (List α)) : α := allMax (xs.map localMaxAbs)
def gMinAbs (xs : List (List α)) : α := allMin (xs.map localMinAbs)
def gMax (xs : List (List α)) : α := allMax (xs.map localMax)
def gMin (xs : List (List α)) : α := allMin (xs.map localMin)

end Order

/-- `Global::Vector::axpy(x, a)`: `this += a*x`, and `scale(x, b)`: `this = b*x` (purely local) -/
def vAxpy (y x : List α) (a : α) : List α := List.zipWith (fun yi xi => yi + a * xi) y x
def vScale (x : List α) (b : α) : List α := x.map fun xi => b * xi

/-- the little Global::Vector program of the `vops` case: `r.copy(y); r.axpy(x, a); r.scale(r, b)`,
then (`mode = 1`) `r.sync_1()` -/
def vopsLocal (a b : α) (ys xs : List (List α)) : List (List α) :=
  List.zipWith (fun y x => vScale (vAxpy y x a) b) ys xs

/-- CSR `apply(r, x, y, alpha)`: `r = y + alpha * A x` -/
def matVecAxpy (rows : List (List (Nat × α))) (x y : List α) (alpha : α) : List α :=
  List.zipWith (fun yi axi => yi + alpha * axi) y (matVec rows x)

/-- `Global::Matrix::apply(r, x, y, alpha)`: `r.copy(y); r.from_1_to_0(); local apply; r.sync_0()` -/
def gapply2 (ps : List Patch) (ords : List (List Nat)) (mats : List (List (List (Nat × α))))
    (xs ys : List (List α)) (alpha : α) : List (List α) :=
  sync0 ps ords ((List.range ps.length).map fun r =>
    matVecAxpy (mats.getD r []) (xs.getD r []) (from1to0 (ps.getD r default) (ys.getD r [])) alpha)

/-- CSR `extract_diag`: the entry `(i, i)` of row `i` (0 if not in the pattern; first match) -/
def matDiag (rows : List (List (Nat × α))) : List α :=
  rows.zipIdx.map fun (row, i) => ((row.find? fun e => e.1 == i).map (·.2)).getD 0

/-- CSR `lump_rows`: row sums -/
def matLump (rows : List (List (Nat × α))) : List α :=
  rows.map fun row => row.foldl (fun acc e => acc + e.2) 0

/-- `Global::Matrix::extract_diag(diag, sync = true)` / `lump_rows(lump, sync = true)` -/
def gdiag (ps : List Patch) (ords : List (List Nat)) (mats : List (List (List (Nat × α)))) : List (List α) :=
  sync0 ps ords ((List.range ps.length).map fun r => matDiag (mats.getD r []))
def glump (ps : List Patch) (ords : List (List Nat)) (mats : List (List (List (Nat × α)))) : List (List α) :=
  sync0 ps ords ((List.range ps.length).map fun r => matLump (mats.getD r []))

/-- `UnitFilter::filter_rhs` / `filter_sol`: `v[idx_k] = val_k` in storage order;
`filter_def` / `filter_cor`: `v[idx_k] = 0` -/
def unitFilterSet (f : List (Nat × α)) (v : List α) : List α :=
  f.foldl (fun w e => w.set e.1 e.2) v
def unitFilterZero (f : List (Nat × α)) (v : List α) : List α :=
  f.foldl (fun w e => w.set e.1 0) v

/-- `Global::Filter<UnitFilter>::filter_*` on every patch (no communication) -/
def gfilter (zero : Bool) (fs : List (List (Nat × α))) (vs : List (List α)) : List (List α) :=
  List.zipWith (fun f v => if zero then unitFilterZero f v else unitFilterSet f v) fs vs

/-- blocked decomposition: every DOF `g` becomes the `bs` DOFs `g*bs + k` -/
def Decomp.expand (bs : Nat) (d : Decomp) : Decomp :=
  { maps := d.maps.map fun m => Dist.expand bs m, patches := d.patches.map (Patch.expand bs) }


/-! ### Global::Splitter (base splitter): a muxer between the partitioned vector and the unpartitioned
base-mesh vector.  `join` converts the (type-1) patch vectors to type-0 first (`from_1_to_0`), so that the
muxer's summation over the patches gives every base DOF its value exactly once; `split` is the muxer split.
Patch `r` is child `r`; its root mirror is `rm r` (identity on the patch), its patch mirror on the base vector `bm r`. -/

def splitterJoin (B : Nat) (ps : List Patch) (rm bm : List (List Nat)) (vs : List (List α)) (nBase : Nat) : List α :=
  (muxJoin B (rm.map CMir.leaf) (bm.map CMir.leaf)
    ((List.range ps.length).map fun r => CVec.leaf 1 (from1to0 (ps.getD r default) (vs.getD r [])))
    (CVec.leaf 1 (List.replicate nBase 0))).flat

def splitterSplit (B : Nat) (ps : List Patch) (rm bm : List (List Nat)) (base : List α) : List (List α) :=
  (muxSplit B (rm.map CMir.leaf) (bm.map CMir.leaf) (CVec.leaf 1 base)
    (ps.map fun p => CVec.leaf 1 (List.replicate p.n 0))).map CVec.flat


/-! ### Operand aliasing in the Global layer

`Global::Matrix::apply(r, x, y, alpha)` (and `apply_transposed`, and the `_async` variants) may be called
with `r` and `y` the same object.  Then `r.copy(y)` is skipped (`Global::Vector::copy` avoids self-copy),
`from_1_to_0` converts `r` in place and the local CSR kernel runs with its result array aliasing its addend:
row `i` reads `r[i]` and then overwrites it (`matVecAxpyInPlace`); the transposed kernel accumulates into
`r` in both cases.  The `alias` flag selects the code path; `C13.gapply2_alias` says both give the same result. -/

def rowDot (row : List (Nat × α)) (x : List α) : α := row.foldl (fun acc e => acc + e.2 * val x e.1) 0

/-- CSR `apply(r, x, r, alpha)` with the result aliasing the addend: a sweep over the rows -/
def matVecAxpyInPlace (rows : List (List (Nat × α))) (x r : List α) (alpha : α) : List α :=
  rows.zipIdx.foldl (fun acc ri => acc.set ri.2 (val acc ri.2 + alpha * rowDot ri.1 x)) r

/-- CSR `apply_transposed(r, x, y, alpha)`: `r = y`, then `r[col] += alpha * a * x[row]` in storage order -/
def matVecTAxpy (rows : List (List (Nat × α))) (x y : List α) (alpha : α) : List α :=
  rows.zipIdx.foldl (fun acc ri =>
    ri.1.foldl (fun acc2 e => acc2.modify e.1 (fun t => t + alpha * (e.2 * val x ri.2))) acc) y

/-- `Global::Matrix::apply(r, x, y, alpha)` / `apply_transposed(r, x, y, alpha)`; `alias`: `r` is `y` -/
def gapply2A (alias transp : Bool) (ps : List Patch) (ords : List (List Nat))
    (mats : List (List (List (Nat × α)))) (xs ys : List (List α)) (alpha : α) : List (List α) :=
  sync0 ps ords ((List.range ps.length).map fun r =>
    let y0 := from1to0 (ps.getD r default) (ys.getD r [])      -- r.copy(y) (skipped when aliased); r.from_1_to_0()
    let rows := mats.getD r []
    let x := xs.getD r []
    if transp then matVecTAxpy rows x y0 alpha
    else if alias then matVecAxpyInPlace rows x y0 alpha
    else matVecAxpy rows x y0 alpha)

/-- the aliased Global::Vector program of the `valias` case:
`r.copy(y); r.copy(r); r.axpy(r, a); r.scale(r, b); r.component_product(r, r)` (every kernel is elementwise,
so reading and writing the same array is harmless) -/
def valiasLocal (a b : α) (ys : List (List α)) : List (List α) :=
  ys.map fun y =>
    let r1 := vAxpy y y a
    let r2 := vScale r1 b
    compMul r2 r2


/-! ### Asynchronous reductions (`Gate::dot_async` / `sum_async` / `min_async` / `max_async` / `norm2_async`,
`Global::Vector::dot_async` / `norm2sqr_async` / `norm2_async` / `*_element_async`) as used by the pipelined solvers.

`Gate::dot_async(x, y, sqrt)` is `sum_async(_freqs.triple_dot(x, y), sqrt)`: unlike the synchronous `Gate::dot`
it has no special case for gates without neighbours, the local part is always the frequency-weighted triple
product; the ticket's `wait()` returns the all-reduced sum, or its square root if the `sqrt` flag was set. -/

/-- local part of `Gate::dot_async` -/
def gdotAsyncLocal (p : Patch) (x y : List α) : α := tripleDot (freqs p) x y

/-- `Gate::dot_async(x, y, sqrt).wait()` / `Global::Vector::dot_async` / `norm2sqr_async` (`sqrt = none`) /
`norm2_async` (`sqrt = some f`, `y = x`) -/
def gdotAsync (sqrt : Option (α → α)) (ps : List Patch) (xs ys : List (List α)) : α :=
  let s := allSum ((List.range ps.length).map fun r =>
    gdotAsyncLocal (ps.getD r default) (xs.getD r []) (ys.getD r []))
  match sqrt with
  | some f => f s
  | none => s

def gnorm2sqrAsync (ps : List Patch) (xs : List (List α)) : α := gdotAsync none ps xs xs
def gnorm2Async (sqrt : α → α) (ps : List Patch) (xs : List (List α)) : α := gdotAsync (some sqrt) ps xs xs

/-- `Gate::sum_async(x, sqrt).wait()` -/
def sumAsync (sqrt : Option (α → α)) (l : List α) : α :=
  match sqrt with
  | some f => f (allSum l)
  | none => allSum l

/-- what a reduction computes that combines the *unweighted* local squared norms: every DOF shared by `k`
patches is counted `k` times (this is NOT the global norm, see `C13.unweightedNormSqr_eq`) -/
def unweightedNormSqr (xs : List (List α)) : α := allSum (xs.map fun x => dotLocal x x)


/-! ### Floating point level of the type-0 synchronisation

`fl` is the rounding of one floating point addition.  `scatter_axpy` with `alpha = 1` (the only value used by
`SynchVectorTicket`) performs `vec[idx[i]] = fl(vec[idx[i]] + buf[i])` (`1*b` is exact).  With `fl = id` these are
`scatterAxpy … 1` / `sync0Patch` (`C13.sync0PatchFl_id`). -/

def scatterAddFl (fl : α → α) (v : List α) (mir : List Nat) (buf : List α) : List α :=
  (mir.zip buf).foldl (fun w p => w.modify p.1 (fun x => fl (x + p.2))) v

def sync0PatchFl (fl : α → α) (ps : List Patch) (vs : List (List α)) (r : Nat) (ord : List Nat) : List α :=
  ord.foldl (fun tgt k =>
      let nb := (ps.getD r default).nbrs.getD k (0, [])
      scatterAddFl fl tgt nb.2 ((sendBuf ps vs nb.1 r).getD []))
    (vs.getD r [])

/-- the floating point sum of the own value `c0` and the received contributions `cs` in arrival order -/
def flSum (fl : α → α) (c0 : α) (cs : List α) : α := cs.foldl (fun acc c => fl (acc + c)) c0

/-! ### Discretise-and-solve: distributed Richardson / Jacobi-Richardson / CG on top of the distributed
matrix-vector product and the global dot product (what `Solver::Richardson`, `JacobiPrecond`, `PCG` do with
`Global::Matrix` / `Global::Vector` arguments) -/

section Solve
variable [Neg α]

/-- defect `d = b - A x` by `matrix.apply(d, x, b, -1)` (type-1 result) -/
def gdefect (ps : List Patch) (ords : List (List Nat)) (mats : List (List (List (Nat × α))))
    (bs xs : List (List α)) : List (List α) :=
  gapply2 ps ords mats xs bs (-1)

/-- the synchronised inverse diagonal of `JacobiPrecond`: `extract_diag` (with sync), then `component_invert` -/
def ginvDiag (ps : List Patch) (ords : List (List Nat)) (mats : List (List (List (Nat × α)))) : List (List α) :=
  (gdiag ps ords mats).map fun dg => dg.map fun a => 1 / a

/-- one (Jacobi-)Richardson step: `x += omega * (D⁻¹) (b - A x)`; `jac = false`: no preconditioner -/
def richStep (jac : Bool) (omega : α) (ps : List Patch) (ords : List (List Nat))
    (mats : List (List (List (Nat × α)))) (bs xs : List (List α)) : List (List α) :=
  let ds := gdefect ps ords mats bs xs
  let cs := if jac then List.zipWith compMul ds (ginvDiag ps ords mats) else ds
  List.zipWith (fun x c => vAxpy x c omega) xs cs

def richIter (jac : Bool) (omega : α) (ps : List Patch) (ords : List (List Nat))
    (mats : List (List (List (Nat × α)))) (bs : List (List α)) : Nat → List (List α) → List (List α)
  | 0, xs => xs
  | k + 1, xs => richIter jac omega ps ords mats bs k (richStep jac omega ps ords mats bs xs)

/-- state of the conjugate gradient iteration: solution, residual, direction, `r·r` -/
structure CGState (α : Type) where
  x : List (List α)
  r : List (List α)
  p : List (List α)
  rr : α

def cgInit (ps : List Patch) (ords : List (List Nat)) (mats : List (List (List (Nat × α))))
    (bs xs : List (List α)) : CGState α :=
  let r := gdefect ps ords mats bs xs
  { x := xs, r := r, p := r, rr := gdot ps r r }

/-- one CG step: `q = A p; a = rr / p·q; x += a p; r -= a q; rr' = r·r; p = r + (rr'/rr) p` -/
def cgStep (ps : List Patch) (ords : List (List Nat)) (mats : List (List (List (Nat × α))))
    (st : CGState α) : CGState α :=
  let q := gapply ps ords mats st.p
  let a := st.rr / gdot ps st.p q
  let x := List.zipWith (fun x p => vAxpy x p a) st.x st.p
  let r := List.zipWith (fun r q => vAxpy r q (-a)) st.r q
  let rr := gdot ps r r
  let p := List.zipWith (fun r p => vAxpy r p (rr / st.rr)) r st.p
  { x := x, r := r, p := p, rr := rr }

def cgIter (ps : List Patch) (ords : List (List Nat)) (mats : List (List (List (Nat × α)))) :
    Nat → CGState α → CGState α
  | 0, st => st
  | k + 1, st => cgIter ps ords mats k (cgStep ps ords mats st)

end Solve


/-! ### PCG with the Jacobi preconditioner (type-1 main diagonal) on the distributed operator -/

section PCG
variable [Neg α]

structure PCGState (α : Type) where
  x : List (List α)
  r : List (List α)
  p : List (List α)
  rz : α

/-- `z = D⁻¹ r` with the synchronised inverse diagonal of `JacobiPrecond` -/
def jacApply (ps : List Patch) (ords : List (List Nat)) (mats : List (List (List (Nat × α))))
    (rs : List (List α)) : List (List α) :=
  List.zipWith compMul rs (ginvDiag ps ords mats)

def pcgInit (ps : List Patch) (ords : List (List Nat)) (mats : List (List (List (Nat × α))))
    (bs xs : List (List α)) : PCGState α :=
  let r := gdefect ps ords mats bs xs
  let z := jacApply ps ords mats r
  { x := xs, r := r, p := z, rz := gdot ps r z }

/-- `q = A p; a = rz / p·q; x += a p; r -= a q; z = D⁻¹ r; rz' = r·z; p = z + (rz'/rz) p` -/
def pcgStep (ps : List Patch) (ords : List (List Nat)) (mats : List (List (List (Nat × α))))
    (st : PCGState α) : PCGState α :=
  let q := gapply ps ords mats st.p
  let a := st.rz / gdot ps st.p q
  let x := List.zipWith (fun x p => vAxpy x p a) st.x st.p
  let r := List.zipWith (fun r q => vAxpy r q (-a)) st.r q
  let z := jacApply ps ords mats r
  let rz := gdot ps r z
  let p := List.zipWith (fun z p => vAxpy z p (rz / st.rz)) z st.p
  { x := x, r := r, p := p, rz := rz }

def pcgIter (ps : List Patch) (ords : List (List Nat)) (mats : List (List (List (Nat × α)))) :
    Nat → PCGState α → PCGState α
  | 0, st => st
  | k + 1, st => pcgIter ps ords mats k (pcgStep ps ords mats st)

end PCG

/-! ### Floating point level of the global dot product: `triple_dot` accumulates `r += f[i]*x[i]*y[i]`
(three roundings per entry), the allreduce adds the per-rank values one by one (in some order). -/

def tripleDotFl (fl : α → α) (f x y : List α) : α :=
  ((List.zipWith (fun a b => (a, b)) (List.zipWith (fun a b => (a, b)) f x) y)).foldl
    (fun acc t => fl (acc + fl (fl (t.1.1 * t.1.2) * t.2))) 0

/-- `Gate::dot` in floating point; `perm` = the order in which the allreduce combines the ranks -/
def gdotFl (fl : α → α) (ps : List Patch) (xs ys : List (List α)) (order : List Nat) : α :=
  (order.map fun r => tripleDotFl fl (freqs (ps.getD r default)) (xs.getD r []) (ys.getD r [])).foldl
    (fun acc l => fl (acc + l)) 0

end FeatModel.Dist
