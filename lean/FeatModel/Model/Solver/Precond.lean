import FeatModel.Model.LA.Csr
/-
Stationary preconditioners of kernel/solver: `JacobiPrecond`, `SORPrecond`, `SSORPrecond` (generic CSR sweeps),
`PolynomialPrecond`, `ScalePrecond`, `DiagonalPrecond`, `MatrixPrecond` and the solver-object state machine
(`init_symbolic / init_numeric / apply / done_symbolic` with matrix-value updates in between).
The ILU(p) core lives in `Model/Solver/Ilu.lean`.  Core Lean only.

The sweeps are index-faithful: the C++ loops `for(col = row_ptr[i]; col_ind[col] < i; ++col)` have no upper bound of
their own (they rely on a stored diagonal entry and sorted columns); the model gives them the fuel "number of stored
positions from the start position on", so that it is total and agrees with the C++ whenever that stays in bounds.
-/
namespace FeatModel.Solver
open FeatModel.LA

variable {α : Type}

/-- `UnitFilter::filter_cor` / `filter_def`: the listed entries are set to zero -/
def filterCor [Zero α] (fidx : List Nat) (v : Array α) : Array α :=
  fidx.foldl (fun v i => v.setIfInBounds i 0) v

/-- the documented precondition of the sweeps (and of `set_struct_csr`): a well-formed square matrix whose rows have
    strictly increasing column indices and store their diagonal entry -/
def sortedDiag (A : Csr α) : Bool :=
  A.wf && A.rows == A.cols && (List.range A.rows).all fun i =>
    (List.range' (A.rowBegin i) (A.rowEnd i - A.rowBegin i)).all
        (fun k => decide (k + 1 < A.rowEnd i → A.colInd.getD k 0 < A.colInd.getD (k + 1) 0))
    && (List.range' (A.rowBegin i) (A.rowEnd i - A.rowBegin i)).any (fun k => A.colInd.getD k 0 == i)

/-! ### SOR -/

/-- `for (col = start; col_ind[col] < i; ++col) d += val[col] * out[col_ind[col]];` → `(col, d)` -/
def scanLower [Add α] [Mul α] [Zero α] (A : Csr α) (out : Array α) (i : Nat) : Nat → Nat → α → Nat × α
  | 0, col, d => (col, d)
  | f + 1, col, d =>
    if A.colInd.getD col A.cols < i then
      scanLower A out i f (col + 1) (d + A.val.getD col 0 * out.getD (A.colInd.getD col 0) 0)
    else (col, d)

/-- `for (col = start; col_ind[col] > i; --col) d += val[col] * out[col_ind[col]];` → `(col, d)` -/
def scanUpper [Add α] [Mul α] [Zero α] (A : Csr α) (out : Array α) (i : Nat) : Nat → Nat → α → Nat × α
  | 0, col, d => (col, d)
  | f + 1, col, d =>
    if i < A.colInd.getD col 0 then
      scanUpper A out i f (col - 1) (d + A.val.getD col 0 * out.getD (A.colInd.getD col 0) 0)
    else (col, d)

/-- one row of the SOR forward insertion: `pout[i] = omega * (pin[i] - d) / pval[col]` -/
def sorStep [Add α] [Sub α] [Mul α] [Div α] [Zero α] (ω : α) (A : Csr α) (pin : Array α) (out : Array α) (i : Nat) :
    Array α :=
  let r := scanLower A out i (A.colInd.size - A.rowBegin i) (A.rowBegin i) 0
  out.setIfInBounds i (ω * (pin.getD i 0 - r.2) / A.val.getD r.1 0)

/-- `SORPrecondWithBackend<generic, SparseMatrixCSR>::_apply_intern` after `vec_cor.copy(vec_def)` -/
def sorSweep [Add α] [Sub α] [Mul α] [Div α] [Zero α] (ω : α) (A : Csr α) (x : Array α) : Array α :=
  (List.range A.rows).foldl (sorStep ω A x) x

/-- the sweep when `apply(v, v)` is called in place: `vec_cor.copy(vec_def)` is a self-copy and `pin` IS `pout`
    (row `i` reads `pin[i]` before it overwrites it) -/
def sorSweepIn [Add α] [Sub α] [Mul α] [Div α] [Zero α] (ω : α) (A : Csr α) (x : Array α) : Array α :=
  (List.range A.rows).foldl (fun out i => sorStep ω A out out i) x

/-- `SORPrecond::apply`: sweep, then the correction filter -/
def sorApply [Add α] [Sub α] [Mul α] [Div α] [Zero α] (ω : α) (fidx : List Nat) (A : Csr α) (x : Array α) : Array α :=
  filterCor fidx (sorSweep ω A x)

/-! ### SSOR -/

/-- forward row: `pout[i] = (pin[i] - omega * d) / pval[col]` -/
def ssorFwdStep [Add α] [Sub α] [Mul α] [Div α] [Zero α] (ω : α) (A : Csr α) (pin : Array α) (out : Array α)
    (i : Nat) : Array α :=
  let r := scanLower A out i (A.colInd.size - A.rowBegin i) (A.rowBegin i) 0
  out.setIfInBounds i ((pin.getD i 0 - ω * r.2) / A.val.getD r.1 0)

/-- backward row: `pout[i] -= omega * d / pval[col]`, scanning from `row_ptr[i+1] - 1` downwards -/
def ssorBwdStep [Add α] [Sub α] [Mul α] [Div α] [Zero α] (ω : α) (A : Csr α) (out : Array α) (i : Nat) : Array α :=
  let r := scanUpper A out i (A.rowEnd i) (A.rowEnd i - 1) 0
  out.setIfInBounds i (out.getD i 0 - ω * r.2 / A.val.getD r.1 0)

def ssorFwd [Add α] [Sub α] [Mul α] [Div α] [Zero α] (ω : α) (A : Csr α) (x : Array α) : Array α :=
  (List.range A.rows).foldl (ssorFwdStep ω A x) x

/-- forward insertion of the in-place call `apply(v, v)` (`pin` aliases `pout`) -/
def ssorFwdIn [Add α] [Sub α] [Mul α] [Div α] [Zero α] (ω : α) (A : Csr α) (x : Array α) : Array α :=
  (List.range A.rows).foldl (fun out i => ssorFwdStep ω A out out i) x

/-- rows `n-1, …, 0` -/
def ssorBwd [Add α] [Sub α] [Mul α] [Div α] [Zero α] (ω : α) (A : Csr α) (y : Array α) : Array α :=
  (List.range A.rows).reverse.foldl (ssorBwdStep ω A) y

/-- `_apply_intern` (both insertions) -/
def ssorSweep [Add α] [Sub α] [Mul α] [Div α] [Zero α] (ω : α) (A : Csr α) (x : Array α) : Array α :=
  ssorBwd ω A (ssorFwd ω A x)

/-- `SSORPrecond::apply`: sweeps, `vec_cor.scale(vec_cor, omega * (2 - omega))`, correction filter -/
def ssorApply [Add α] [Sub α] [Mul α] [Div α] [Zero α] [One α] (ω : α) (fidx : List Nat) (A : Csr α)
    (x : Array α) : Array α :=
  filterCor fidx ((ssorSweep ω A x).map (· * (ω * ((1 + 1) - ω))))

/-! ### Jacobi / polynomial: the inverted diagonal -/

/-- `Arch::Diagonal::csr_generic`: position of the first stored entry of `row` with column `row`,
    `row_ptr[rows]` if there is none -/
def diagIndex (A : Csr α) (row : Nat) : Nat :=
  match (List.range' (A.rowBegin row) (A.rowEnd row - A.rowBegin row)).find?
      (fun col => A.colInd.getD col A.cols == row) with
  | some c => c
  | none => A.rowPtr.getD A.rows 0

/-- `SparseMatrixCSR::extract_diag` -/
def extractDiag [Zero α] (A : Csr α) : Array α :=
  Array.ofFn (n := A.rows) fun row =>
    let idx := diagIndex A row.val
    if idx != A.usedElements then A.val.getD idx 0 else 0

/-- `init_numeric` of Jacobi / polynomial: `extract_diag`, then `component_invert(_inv_diag, omega)`: `omega / a_ii` -/
def invDiag [Zero α] [Div α] (ω : α) (A : Csr α) : Array α :=
  (extractDiag A).map (ω / ·)

/-- `vec_cor.component_product(_inv_diag, vec_def)` on vectors of length `n` -/
def compProd [Zero α] [Mul α] (n : Nat) (d x : Array α) : Array α :=
  Array.ofFn (n := n) fun i => d.getD i.val 0 * x.getD i.val 0

/-- `JacobiPrecond::apply` with the stored `_inv_diag` -/
def jacobiApply [Zero α] [Mul α] (fidx : List Nat) (n : Nat) (invD x : Array α) : Array α :=
  filterCor fidx (compProd n invD x)

/-- one pass of the loop of `PolynomialPrecond::apply`:
    `aux1 = A cor; filter_def(aux1); aux2 = inv_diag .* aux1; cor += aux3; cor -= aux2` -/
def polyStep [Zero α] [One α] [Add α] [Mul α] [Div α] [Neg α] (tiny : α → Bool) (fidx : List Nat) (A : Csr α)
    (invD aux3 : Array α) (cor : Array α) : Option (Array α) :=
  match A.apply tiny cor (Array.replicate A.rows 0) false with
  | none => none
  | some aux1 =>
    let aux1 := filterCor fidx aux1
    let aux2 := compProd A.rows invD aux1
    let cor := Array.ofFn (n := A.rows) fun i => cor.getD i.val 0 + 1 * aux3.getD i.val 0
    some (Array.ofFn (n := A.rows) fun i => cor.getD i.val 0 + (-1) * aux2.getD i.val 0)

def polyLoop [Zero α] [One α] [Add α] [Mul α] [Div α] [Neg α] (tiny : α → Bool) (fidx : List Nat) (A : Csr α)
    (invD aux3 : Array α) : Nat → Array α → Option (Array α)
  | 0, cor => some cor
  | m + 1, cor =>
    match polyStep tiny fidx A invD aux3 cor with
    | none => none
    | some c => polyLoop tiny fidx A invD aux3 m c

/-- `PolynomialPrecond::apply` (`none` = an XASSERT of the matrix apply fired) -/
def polyApply [Zero α] [One α] [Add α] [Mul α] [Div α] [Neg α] (tiny : α → Bool) (m : Nat) (fidx : List Nat)
    (A : Csr α) (invD x : Array α) : Option (Array α) :=
  let c0 := compProd A.rows invD x
  match polyLoop tiny fidx A invD c0 m c0 with
  | none => none
  | some c => some (filterCor fidx c)

/-- `polyStep` with a general defect filter: the unit filter entries `fidx` followed by `fdef` (`filter_def` of a
    mean filter; `some` for the unit / none filters) -/
def polyStepF [Zero α] [One α] [Add α] [Mul α] [Div α] [Neg α] (tiny : α → Bool) (fidx : List Nat)
    (fdef : Array α → Option (Array α)) (A : Csr α) (invD aux3 : Array α) (cor : Array α) : Option (Array α) :=
  match A.apply tiny cor (Array.replicate A.rows 0) false with
  | none => none
  | some aux1 =>
    match fdef (filterCor fidx aux1) with
    | none => none
    | some aux1 =>
      let aux2 := compProd A.rows invD aux1
      let cor := Array.ofFn (n := A.rows) fun i => cor.getD i.val 0 + 1 * aux3.getD i.val 0
      some (Array.ofFn (n := A.rows) fun i => cor.getD i.val 0 + (-1) * aux2.getD i.val 0)

def polyLoopF [Zero α] [One α] [Add α] [Mul α] [Div α] [Neg α] (tiny : α → Bool) (fidx : List Nat)
    (fdef : Array α → Option (Array α)) (A : Csr α) (invD aux3 : Array α) : Nat → Array α → Option (Array α)
  | 0, cor => some cor
  | m + 1, cor =>
    match polyStepF tiny fidx fdef A invD aux3 cor with
    | none => none
    | some c => polyLoopF tiny fidx fdef A invD aux3 m c

/-- `PolynomialPrecond::apply` with a general defect filter inside the loop (the correction filter of the non-unit
    filter types is applied by the caller) -/
def polyApplyF [Zero α] [One α] [Add α] [Mul α] [Div α] [Neg α] (tiny : α → Bool) (m : Nat) (fidx : List Nat)
    (fdef : Array α → Option (Array α)) (A : Csr α) (invD x : Array α) : Option (Array α) :=
  let c0 := compProd A.rows invD x
  match polyLoopF tiny fidx fdef A invD c0 m c0 with
  | none => none
  | some c => some (filterCor fidx c)

/-! ### scale / diagonal / matrix preconditioners -/

/-- `ScalePrecond::apply`: `vec_cor.scale(vec_def, omega)` -/
def scaleApply [Zero α] [Mul α] (ω : α) (fidx : List Nat) (x : Array α) : Array α :=
  filterCor fidx (x.map (· * ω))

/-- `DiagonalPrecond::apply`: `vec_cor.component_product(_diag, vec_def)` -/
def diagonalApply [Zero α] [Mul α] (fidx : List Nat) (d x : Array α) : Array α :=
  filterCor fidx (compProd x.size d x)

/-- `MatrixPrecond::apply`: `_matrix.apply(vec_cor, vec_def)` -/
def matrixApply [Zero α] [One α] [Add α] [Mul α] [Div α] (tiny : α → Bool) (fidx : List Nat) (A : Csr α)
    (x : Array α) : Option (Array α) :=
  match A.apply tiny x (Array.replicate A.rows 0) false with
  | none => none
  | some r => some (filterCor fidx r)

end FeatModel.Solver
