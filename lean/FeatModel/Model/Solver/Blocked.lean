import FeatModel.Model.LA.Csr
import FeatModel.Model.Solver.Precond
/-
The square-blocked (BCSR) SOR / SSOR sweeps of kernel/solver/sor_precond.hpp and ssor_precond.hpp
(`SORPrecondWithBackend<generic, SparseMatrixBCSR>`, `SSORPrecondWithBackend<generic, SparseMatrixBCSR>`), generic
over the block algebra: `β` = matrix blocks (a non-commutative ring in the theorems), `γ` = vector blocks (a module
over it), `α` = scalars.  A BCSR matrix is a `Csr β` (same `row_ptr` / `col_ind`, one block per stored position),
so `Csr.entry` is its block-dense meaning and `sortedDiag` the precondition.  All block operations are passed
explicitly (`Ops`), the driver instantiates them with bs×bs rational matrices, the theorems with any module.
Core Lean only.
-/
namespace FeatModel.Solver.Blk
open FeatModel.LA

/-- the block operations used by the sweeps -/
structure Ops (α β γ : Type) where
  /-- zero vector block (`ValueType d(0)`) and default for out-of-range reads -/
  zero : γ
  /-- default for out-of-range block reads -/
  zeroB : β
  add : γ → γ → γ
  sub : γ → γ → γ
  /-- block times vector block -/
  act : β → γ → γ
  /-- `Tiny::Matrix::set_inverse` -/
  inv : β → β
  /-- scalar times vector block -/
  smul : α → γ → γ

variable {α β γ : Type}

/-- `for (col = start; col_ind[col] < i; ++col) d += val[col] * out[col_ind[col]];` -/
def scanLower (o : Ops α β γ) (A : Csr β) (out : Array γ) (i : Nat) : Nat → Nat → γ → Nat × γ
  | 0, col, d => (col, d)
  | f + 1, col, d =>
    if A.colInd.getD col A.cols < i then
      scanLower o A out i f (col + 1) (o.add d (o.act (A.val.getD col o.zeroB) (out.getD (A.colInd.getD col 0) o.zero)))
    else (col, d)

/-- `for (col = start; col_ind[col] > i; --col) d += val[col] * out[col_ind[col]];` -/
def scanUpper (o : Ops α β γ) (A : Csr β) (out : Array γ) (i : Nat) : Nat → Nat → γ → Nat × γ
  | 0, col, d => (col, d)
  | f + 1, col, d =>
    if i < A.colInd.getD col 0 then
      scanUpper o A out i f (col - 1) (o.add d (o.act (A.val.getD col o.zeroB) (out.getD (A.colInd.getD col 0) o.zero)))
    else (col, d)

/-- SOR row: `inverse.set_inverse(pval[col]); pout[i] = _omega * inverse * (pin[i] - d);` -/
def sorStep (o : Ops α β γ) (ω : α) (A : Csr β) (pin : Array γ) (out : Array γ) (i : Nat) : Array γ :=
  let r := scanLower o A out i (A.colInd.size - A.rowBegin i) (A.rowBegin i) o.zero
  out.setIfInBounds i (o.smul ω (o.act (o.inv (A.val.getD r.1 o.zeroB)) (o.sub (pin.getD i o.zero) r.2)))

def sorSweep (o : Ops α β γ) (ω : α) (A : Csr β) (x : Array γ) : Array γ :=
  (List.range A.rows).foldl (sorStep o ω A x) x

/-- in-place call `apply(v, v)`: `pin` aliases `pout` -/
def sorSweepIn (o : Ops α β γ) (ω : α) (A : Csr β) (x : Array γ) : Array γ :=
  (List.range A.rows).foldl (fun out i => sorStep o ω A out out i) x

/-- the blocked unit filter zeroes whole blocks -/
def filterCor (o : Ops α β γ) (fidx : List Nat) (v : Array γ) : Array γ :=
  fidx.foldl (fun v i => v.setIfInBounds i o.zero) v

def sorApply (o : Ops α β γ) (ω : α) (fidx : List Nat) (A : Csr β) (x : Array γ) : Array γ :=
  filterCor o fidx (sorSweep o ω A x)

/-- SSOR forward row: `pout[i] = inverse * (pin[i] - _omega * d);` -/
def ssorFwdStep (o : Ops α β γ) (ω : α) (A : Csr β) (pin : Array γ) (out : Array γ) (i : Nat) : Array γ :=
  let r := scanLower o A out i (A.colInd.size - A.rowBegin i) (A.rowBegin i) o.zero
  out.setIfInBounds i (o.act (o.inv (A.val.getD r.1 o.zeroB)) (o.sub (pin.getD i o.zero) (o.smul ω r.2)))

/-- SSOR backward row: `pout[i] = pout[i] - (_omega * inverse * d);` -/
def ssorBwdStep (o : Ops α β γ) (ω : α) (A : Csr β) (out : Array γ) (i : Nat) : Array γ :=
  let r := scanUpper o A out i (A.rowEnd i) (A.rowEnd i - 1) o.zero
  out.setIfInBounds i (o.sub (out.getD i o.zero) (o.smul ω (o.act (o.inv (A.val.getD r.1 o.zeroB)) r.2)))

def ssorFwd (o : Ops α β γ) (ω : α) (A : Csr β) (x : Array γ) : Array γ :=
  (List.range A.rows).foldl (ssorFwdStep o ω A x) x

def ssorFwdIn (o : Ops α β γ) (ω : α) (A : Csr β) (x : Array γ) : Array γ :=
  (List.range A.rows).foldl (fun out i => ssorFwdStep o ω A out out i) x

def ssorBwd (o : Ops α β γ) (ω : α) (A : Csr β) (y : Array γ) : Array γ :=
  (List.range A.rows).reverse.foldl (ssorBwdStep o ω A) y

def ssorSweep (o : Ops α β γ) (ω : α) (A : Csr β) (x : Array γ) : Array γ :=
  ssorBwd o ω A (ssorFwd o ω A x)

/-- `apply`: sweeps, `vec_cor.scale(vec_cor, omega * (2 - omega))`, correction filter -/
def ssorApply [Add α] [Sub α] [Mul α] [One α] (o : Ops α β γ) (ω : α) (fidx : List Nat) (A : Csr β) (x : Array γ) :
    Array γ :=
  filterCor o fidx ((ssorSweep o ω A x).map (o.smul (ω * ((1 + 1) - ω))))

end FeatModel.Solver.Blk
