/-
Model of the convergence-control state machine of `FEAT::Solver::IterativeSolver` (kernel/solver/iterative.hpp):
`is_converged`, `is_diverged`, `_set_initial_defect`, `_analyse_defect`, `_set_new_defect`, `_update_defect`.

Core Lean only.  The scalar `α` only needs `*`, `≤`, `<` (decidable); non-finite defect norms (NaN/inf of the floating
point instantiations) are an explicit input flag `fin`, because `Math::isfinite` is the first test in both
`_set_initial_defect` and `_analyse_defect`.
-/
namespace FeatModel.Solver

/-- `Solver::Status` (kernel/solver/base.hpp), same order as the C++ enum -/
inductive Status where
  | undefined | progress | success | aborted | diverged | maxIter | stagnated
  deriving DecidableEq, Repr, Inhabited

def Status.code : Status → Nat
  | .undefined => 0 | .progress => 1 | .success => 2 | .aborted => 3
  | .diverged => 4 | .maxIter => 5 | .stagnated => 6

/-- `status_success` of base.hpp -/
def Status.isSuccess : Status → Bool
  | .success | .maxIter | .stagnated => true
  | _ => false

/-- configuration members of `IterativeSolver`; `eps2` is `Math::sqr(Math::eps<DataType>())`;
    `plotIter` is `_plot_mode ∈ {iter, all}` -/
structure Config (α : Type) where
  tolRel : α
  tolAbs : α
  tolAbsLow : α
  divRel : α
  divAbs : α
  stagRate : α
  eps2 : α
  minIter : Nat
  maxIter : Nat
  minStag : Nat
  skipDefCalc : Bool
  plotIter : Bool
  plotInterval : Nat

/-- convergence-control state: `_def_init/_def_cur/_def_prev/_num_iter/_num_stag_iter`;
    `curFin` records whether `_def_cur` is a finite number -/
structure State (α : Type) where
  defInit : α
  defCur : α
  defPrev : α
  numIter : Nat
  numStag : Nat
  curFin : Bool

variable {α : Type} [Mul α] [LE α] [LT α] [DecidableLE α] [DecidableLT α]

/-- `is_converged(def_cur)` -/
def isConverged (c : Config α) (defInit d : α) : Bool :=
  decide (d ≤ c.tolAbs) && (decide (d ≤ c.tolRel * defInit) || decide (d ≤ c.tolAbsLow))

/-- `is_diverged(def_cur)` -/
def isDiverged (c : Config α) (defInit d : α) : Bool :=
  decide (c.divAbs < d) || decide (c.divRel * defInit < d)

/-- `_set_initial_defect`: `d` is the computed norm, `fin` whether it is finite.  The solver object is persistent:
    `prev` is the convergence-control state the previous `apply()`/`correct()` left behind; the function assigns
    `_def_init = _def_cur = _def_prev`, `_num_iter = 0`, `_num_stag_iter = 0` (and nothing else) -/
def setInitialDefect (c : Config α) (prev : State α) (fin : Bool) (d : α) : Status × State α :=
  let s : State α :=
    { prev with defInit := d, defCur := d, defPrev := d, numIter := 0, numStag := 0, curFin := fin }
  if !fin then (.aborted, s)
  else if d < c.tolAbsLow then (.success, s)
  else if d ≤ c.eps2 then (.success, s)
  else (.progress, s)

/-- `_analyse_defect(num_iter, def_cur, def_prev, check_stag)` applied to the members of `s`
    (this is how `_set_new_defect` and `_update_defect` call it); returns the status and the state with the
    updated stagnation counter -/
def analyseDefect (c : Config α) (s : State α) (checkStag : Bool) : Status × State α :=
  if !s.curFin then (.aborted, s)
  else if isDiverged c s.defInit s.defCur then (.diverged, s)
  else if s.numIter < c.minIter then (.progress, s)
  else if isConverged c s.defInit s.defCur then (.success, s)
  else if c.maxIter ≤ s.numIter then (.maxIter, s)
  else if checkStag && decide (0 < c.minStag) then
    if c.stagRate * s.defPrev ≤ s.defCur then
      if c.minStag ≤ s.numStag + 1 then (.stagnated, { s with numStag := s.numStag + 1 })
      else (.progress, { s with numStag := s.numStag + 1 })
    else (.progress, { s with numStag := 0 })
  else (.progress, s)

/-- `_plot_iter()` with the default argument `Status::progress` -/
def plotIterNow (c : Config α) (numIter : Nat) : Bool :=
  decide (numIter % c.plotInterval = 0) && c.plotIter

/-- the `calc_def` short-cut of `_set_new_defect`, evaluated after `++_num_iter` -/
def calcDef (c : Config α) (numIter : Nat) : Bool :=
  !c.skipDefCalc || decide (c.minIter < c.maxIter) || plotIterNow c numIter || decide (0 < c.minStag)

/-- `_set_new_defect` up to the call of `_analyse_defect`: `d`/`fin` is what `_calc_def_norm` would return (it is only
    called when `calc_def`) -/
def setNewDefectRaw (c : Config α) (s : State α) (fin : Bool) (d : α) : Status × State α :=
  let s1 := { s with numIter := s.numIter + 1, defPrev := s.defCur }
  let s2 := if calcDef c s1.numIter then { s1 with defCur := d, curFin := fin } else s1
  analyseDefect c s2 true

/-- `_set_new_defect`: when the defect was NOT computed (`calc_def = false`) a `success` of `_analyse_defect` — which
    would rest on the stale stored defect — is reported as `max_iter` (fix of finding c07-edge:F3, /repo 8aa081eb5) -/
def setNewDefect (c : Config α) (s : State α) (fin : Bool) (d : α) : Status × State α :=
  let r := setNewDefectRaw c s fin d
  if !calcDef c (s.numIter + 1) && decide (r.1 = .success) then (.maxIter, r.2) else r

/-- `_update_defect(def_cur_norm)` -/
def updateDefect (c : Config α) (s : State α) (fin : Bool) (d : α) : Status × State α :=
  let s1 := { s with numIter := s.numIter + 1, defPrev := s.defCur, defCur := d, curFin := fin }
  analyseDefect c s1 true

/-- number of trailing consecutive stagnating iterations of a defect trace (latest defect first):
    the specification of the stagnation counter -/
def stagRun (c : Config α) : List α → Nat
  | d1 :: d0 :: rest => if c.stagRate * d0 ≤ d1 then stagRun c (d0 :: rest) + 1 else 0
  | _ => 0

/-- feed defects while the status is `progress` (what every solver loop does); returns the statuses seen, the final
    state and the trace of `_def_cur` values (latest first, prepended to `tr`) -/
def feed (c : Config α) (upd : Bool) :
    Status → State α → List α → List (Bool × α) → List Status × State α × List α
  | _, s, tr, [] => ([], s, tr)
  | st, s, tr, (fin, d) :: ds =>
    if st ≠ .progress then ([], s, tr)
    else
      let r := if upd then updateDefect c s fin d else setNewDefect c s fin d
      let rest := feed c upd r.1 r.2 (r.2.defCur :: tr) ds
      (r.1 :: rest.1, rest.2)

/-- a complete control run: initial defect, then `feed` -/
def runControl (c : Config α) (upd : Bool) (prev : State α) :
    List (Bool × α) → List Status × Option (State α × List α)
  | [] => ([], none)
  | (fin, d) :: ds =>
    let r := setInitialDefect c prev fin d
    let rest := feed c upd r.1 r.2 [r.2.defCur] ds
    (r.1 :: rest.1, some rest.2)

end FeatModel.Solver
