import FeatModel.Model.Solver.Krylov
import FeatModel.Model.Solver.BiCGStab
import FeatModel.Model.Solver.Chebyshev
/-
A solver object is persistent: the convergence-control members (`State`) survive from one `apply()`/`correct()` to the
next.  `runSession` threads that state through a sequence of solves on one object, exactly as the harness does with
one real solver object; `independentSession` runs every solve from one fixed state.  Core Lean only.
-/
namespace FeatModel.Solver

inductive Kind where
  | pcg | rich | pcr | pmr | pcgnr | bicgstab
  /-- Chebyshev with `fraction_min_ev = 1/2`; `omega` of `solveOne` is its `fraction_max_ev` -/
  | cheb
  deriving DecidableEq, Repr

variable {V α : Type} [Add α] [Mul α] [Div α] [Neg α] [Zero α] [One α] [LE α] [LT α] [DecidableEq α] [DecidableLE α]
  [DecidableLT α]

/-- one `apply()` (`isApply`) or `correct()` call on a solver object whose control state is `prev` -/
def solveOne (k : Kind) (S : Sys V α) (c : Config α) (omega : α) (prev : State α) (isApply : Bool) (x0 b : V) :
    Option (Result V α) :=
  match k with
  | .pcg => if isApply then pcgApply S c prev b else pcgCorrect S c prev x0 b
  | .rich => if isApply then richApply S c prev omega b else richCorrect S c prev omega x0 b
  | .pcr => if isApply then pcrApply S c prev b else pcrCorrect S c prev x0 b
  | .pmr => if isApply then pmrApply S c prev b else pmrCorrect S c prev x0 b
  | .pcgnr => if isApply then pcgnrApply S c prev b else pcgnrCorrect S c prev x0 b
  | .bicgstab => if isApply then bicgApply S c prev b else bicgCorrect S c prev x0 b
  | .cheb => chebSolve S c prev S.v3 S.chebTol (1 / (1 + 1)) omega isApply x0 b

/-- a session on one solver object: the state left by solve `k` is the state solve `k+1` starts from;
    `none` = the exact scalar aborted (division by zero) in some solve -/
def runSession (k : Kind) (S : Sys V α) (c : Config α) (omega : α) :
    State α → List (Bool × V × V) → Option (List (Result V α))
  | _, [] => some []
  | prev, (isApply, x0, b) :: rest =>
    match solveOne k S c omega prev isApply x0 b with
    | none => none
    | some r =>
      match runSession k S c omega r.st rest with
      | none => none
      | some rs => some (r :: rs)

/-- every solve started from the same state `st` (a brand-new solver object for each solve) -/
def independentSession (k : Kind) (S : Sys V α) (c : Config α) (omega : α) (st : State α) :
    List (Bool × V × V) → Option (List (Result V α))
  | [] => some []
  | (isApply, x0, b) :: rest =>
    match solveOne k S c omega st isApply x0 b with
    | none => none
    | some r =>
      match independentSession k S c omega st rest with
      | none => none
      | some rs => some (r :: rs)

/-- one life-cycle step of a session on a solver object: a solve, or a re-initialisation
    (`done_numeric(); init_numeric()` resp. the full `done(); init()` = done_numeric, done_symbolic, init_symbolic,
    init_numeric).  The work vectors are released/re-created by these calls; the convergence-control members are plain
    counters of `IterativeSolver` that no init/done function touches — they survive until the next
    `_set_initial_defect` -/
inductive SessionStep (V : Type) where
  | solve (isApply : Bool) (x0 b : V)
  | reinitNumeric
  | reinitFull

/-- a session with re-initialisations between the solves on ONE solver object -/
def runSteps (k : Kind) (S : Sys V α) (c : Config α) (omega : α) :
    State α → List (SessionStep V) → Option (List (Result V α))
  | _, [] => some []
  | prev, .solve isApply x0 b :: rest =>
    match solveOne k S c omega prev isApply x0 b with
    | none => none
    | some r =>
      match runSteps k S c omega r.st rest with
      | none => none
      | some rs => some (r :: rs)
  | prev, .reinitNumeric :: rest => runSteps k S c omega prev rest
  | prev, .reinitFull :: rest => runSteps k S c omega prev rest

/-- the solves of a step list -/
def solvesOf : List (SessionStep V) → List (Bool × V × V)
  | [] => []
  | .solve isApply x0 b :: rest => (isApply, x0, b) :: solvesOf rest
  | _ :: rest => solvesOf rest

end FeatModel.Solver
