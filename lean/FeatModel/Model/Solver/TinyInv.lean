import FeatModel.Model.LA.Vec
/-
`Tiny::Matrix::set_inverse` for the block sizes 1, 2, 3 (kernel/util/tiny_algebra.hpp, `Intern::InverseHelper<n,n>`:
closed formulas, statement by statement; row-major pod arrays `a[i*n + j]`).  Used by the blocked SOR / SSOR / ILU
models for the inversion of the diagonal / pivot blocks.  Core Lean only.
-/
namespace FeatModel.Solver
variable {α : Type} [Zero α] [One α] [Add α] [Sub α] [Mul α] [Div α] [Neg α]

/-- `b[0] = T_(1) / a[0]` -/
def tinyInv1 (a : Array α) : Array α := #[1 / a.getD 0 0]

/-- `det = a00 a11 - a01 a10; d = 1/det; b = [d a11, -d a01, -d a10, d a00]` -/
def tinyInv2 (a : Array α) : Array α :=
  let det := a.getD 0 0 * a.getD 3 0 - a.getD 1 0 * a.getD 2 0
  let d := 1 / det
  #[d * a.getD 3 0, -d * a.getD 1 0, -d * a.getD 2 0, d * a.getD 0 0]

/-- first column by cofactors, `det` by expansion along the first row, `d = 1/det`, the first column is scaled in
    place (`b[k0] *= d`), the other entries are `d * cofactor` -/
def tinyInv3 (a : Array α) : Array α :=
  let g := fun (i j : Nat) => a.getD (i * 3 + j) 0
  let b00 := g 1 1 * g 2 2 - g 1 2 * g 2 1
  let b10 := g 1 2 * g 2 0 - g 1 0 * g 2 2
  let b20 := g 1 0 * g 2 1 - g 1 1 * g 2 0
  let det := g 0 0 * b00 + g 0 1 * b10 + g 0 2 * b20
  let d := 1 / det
  #[b00 * d, d * (g 0 2 * g 2 1 - g 0 1 * g 2 2), d * (g 0 1 * g 1 2 - g 0 2 * g 1 1),
    b10 * d, d * (g 0 0 * g 2 2 - g 0 2 * g 2 0), d * (g 0 2 * g 1 0 - g 0 0 * g 1 2),
    b20 * d, d * (g 0 1 * g 2 0 - g 0 0 * g 2 1), d * (g 0 0 * g 1 1 - g 0 1 * g 1 0)]

/-- the determinant the helper returns (what `set_inverse` divides by) -/
def tinyDet (n : Nat) (a : Array α) : α :=
  let g := fun (i j : Nat) => a.getD (i * n + j) 0
  match n with
  | 1 => g 0 0
  | 2 => g 0 0 * g 1 1 - g 0 1 * g 1 0
  | 3 => g 0 0 * (g 1 1 * g 2 2 - g 1 2 * g 2 1) + g 0 1 * (g 1 2 * g 2 0 - g 1 0 * g 2 2)
          + g 0 2 * (g 1 0 * g 2 1 - g 1 1 * g 2 0)
  | _ => 0

/-- `set_inverse` for n ≤ 3, `other` for the larger sizes (closed formulas 4..6 and the generic elimination are not
    modelled statement by statement: the driver uses an exact Gauss–Jordan there) -/
def tinyInv (n : Nat) (other : Array α → Array α) (a : Array α) : Array α :=
  match n with
  | 1 => tinyInv1 a
  | 2 => tinyInv2 a
  | 3 => tinyInv3 a
  | _ => other a

end FeatModel.Solver
