import FeatModel.Model.Solver.Krylov
/-
Model of `BiCGStab::_apply_intern` (kernel/solver/bicgstab.hpp), left-preconditioned variant (the default).
Peculiarities modelled faithfully:
* `_set_initial_defect` is called first, then the preconditioner is applied to the initial defect (before the fix
  of finding c07-edge:F6 the order was reversed and an early `aborted` kept the previous solve's counters);
* after the first half step the defect norm is tested directly with `is_diverged` / `is_converged`
  (not through `_analyse_defect`: no `max_iter`, stagnation test; not through `_calc_def_norm`); the `success` test
  honours `min_iter` (`_num_iter + 1 >= _min_iter`) since the fix of finding c07-edge:F2, /repo commit 784169477;
* if `_set_initial_defect` does not return `progress` the function returns that status (since the fix of F-C07-1,
  /repo commit c0d18e9d5; before, it fell through to `return Status::undefined`).
-/
namespace FeatModel.Solver

variable {V α : Type} [Mul α] [Div α] [Neg α] [Zero α] [One α] [LE α] [LT α] [DecidableEq α] [DecidableLE α]
  [DecidableLT α]

def bicgLoop (S : Sys V α) (c : Config α) (rh0 : V) :
    Nat → V → V → V → V → α → State α → Nat → List α → Option (Result V α)
  | 0, x, _, _, _, _, st, _, hist => some ⟨.undefined, x, st, hist⟩
  | fuel + 1, x, r, rt, pt, rho, st, calls, hist =>
    let q := S.Fd (S.A pt)
    match S.prec calls q with
    | none => some ⟨.aborted, x, st, hist⟩
    | some qt =>
      let den := S.ops.dot rh0 qt
      if den = 0 then none else
      let alpha := rho / den
      let x1 := S.ops.axpy x pt alpha
      let r1 := S.ops.axpy r q (-alpha)
      let defHalf := S.nrm r1
      if isDiverged c st.defInit defHalf then
        some ⟨.diverged, x1, { st with defCur := defHalf, numIter := st.numIter + 1, defPrev := st.defCur }, hist⟩
      else if decide (c.minIter ≤ st.numIter + 1) && isConverged c st.defInit defHalf then
        some ⟨.success, x1, { st with defCur := defHalf, numIter := st.numIter + 1, defPrev := st.defCur }, hist⟩
      else
      let rt1 := S.ops.axpy rt qt (-alpha)
      let t := S.Fd (S.A rt1)
      match S.prec (calls + 1) t with
      | none => some ⟨.aborted, x1, st, hist⟩
      | some tt =>
        let den2 := S.ops.dot tt tt
        if den2 = 0 then none else
        let omega := S.ops.dot tt rt1 / den2
        let x2 := S.ops.axpy x1 rt1 omega
        let r2 := S.ops.axpy r1 t (-omega)
        let d := S.nrm r2
        let (status, st') := setNewDefect c st true d
        let hist' := pushHist c st d hist
        if status ≠ .progress then some ⟨status, x2, st', hist'⟩ else
        let rt2 := S.ops.axpy rt1 tt (-omega)
        let rho' := S.ops.dot rh0 rt2
        if rho = 0 ∨ omega = 0 then none else
        let beta := (rho' / rho) * (alpha / omega)
        let pt' := S.ops.axpy (S.ops.scale (S.ops.axpy pt qt (-omega)) beta) rt2 1
        bicgLoop S c rh0 fuel x2 r2 rt2 pt' rho' st' (calls + 2) hist'

/-- `BiCGStab::_apply_intern(vec_sol, ·)` with `_vec_r = r`; `st0` = control state left by the previous solve.
    Since the fix of finding c07-edge:F6 (/repo commit 3d5803c40) `_set_initial_defect` comes first, then the
    preconditioner is applied to the initial defect. -/
def bicgIntern (S : Sys V α) (c : Config α) (st0 : State α) (x r : V) : Option (Result V α) :=
  let d0 := S.nrm r
  let (status, st) := setInitialDefect c st0 true d0
  if status ≠ .progress then some ⟨status, x, st, [d0]⟩ else
  match S.prec 0 r with
  | none => some ⟨.aborted, x, st, [d0]⟩
  | some pt => bicgLoop S c r (fuelOf c) x r pt pt (S.ops.dot r pt) st 1 [d0]

def bicgApply (S : Sys V α) (c : Config α) (st0 : State α) (b : V) : Option (Result V α) :=
  bicgIntern S c st0 S.ops.zero b

def bicgCorrect (S : Sys V α) (c : Config α) (st0 : State α) (x0 b : V) : Option (Result V α) :=
  bicgIntern S c st0 x0 (resid S b x0)

end FeatModel.Solver
