import FeatModel.Model.Solver.Control
/-
Models of the recurrences of the Krylov / defect-correction solvers of kernel/solver (PCG, Richardson, PCR, BiCGStab)
over an abstract vector type `V`: the system matrix `A`, the defect filter `Fd`, the preconditioner call
`prec k v` (`k` = number of preconditioner calls made before in this solve; `none` = the preconditioner reported
failure; *any* function) and the norm `nrm` are parameters.  Every solver calls the convergence control of
`Control.lean` exactly where the C++ calls `_set_initial_defect` / `_set_new_defect`.

`none` as a result means: the exact scalar aborted on a division by zero (breakdown; NaN/inf at floating point).
Core Lean only.
-/
namespace FeatModel.Solver

/-- the `DenseVector` operations the solvers use -/
structure VecOps (V α : Type) where
  /-- `x.axpy(p, a)` : `x + a·p` -/
  axpy : V → V → α → V
  /-- `x.scale(x, a)` -/
  scale : V → α → V
  dot : V → V → α
  /-- `x.format()` -/
  zero : V

structure Sys (V α : Type) where
  ops : VecOps V α
  /-- `matrix.apply(r, x)` -/
  A : V → V
  /-- `filter.filter_def` -/
  Fd : V → V
  /-- `_apply_precond` (includes `copy + filter_cor` when there is no preconditioner) -/
  prec : Nat → V → Option V
  /-- `_calc_def_norm` -/
  nrm : V → α
  /-- `transp.apply(r, x)` with the transposed system matrix (PCGNR only) -/
  At : V → V := A
  /-- the vector `format(3)` the power method of Chebyshev starts from, and its tolerance `DataType(1e-4)` -/
  v3 : V := ops.zero
  chebTol : α := nrm ops.zero

structure Result (V α : Type) where
  status : Status
  x : V
  st : State α
  /-- every value `_calc_def_norm` returned, latest first -/
  hist : List α

variable {V α : Type} [Mul α] [Div α] [Neg α] [Zero α] [One α] [LE α] [LT α] [DecidableEq α] [DecidableLE α]
  [DecidableLT α]

/-- `matrix.apply(r, x, b, -1); filter.filter_def(r)` : the filtered defect `F(b − A x)` -/
def resid (S : Sys V α) (b x : V) : V := S.Fd (S.ops.axpy b (S.A x) (-1))

/-- number of loop iterations after which every solver loop has returned -/
def fuelOf (c : Config α) : Nat := max c.minIter c.maxIter + 1

/-- history bookkeeping of `_set_new_defect`: `_calc_def_norm` is only called when `calc_def` -/
def pushHist (c : Config α) (st : State α) (d : α) (hist : List α) : List α :=
  if calcDef c (st.numIter + 1) then d :: hist else hist

/-! ### PCG (kernel/solver/pcg.hpp) -/

def pcgLoop (S : Sys V α) (c : Config α) :
    Nat → V → V → V → α → State α → Nat → List α → Option (Result V α)
  | 0, x, _, _, _, st, _, hist => some ⟨.undefined, x, st, hist⟩
  | fuel + 1, x, r, p, gamma, st, calls, hist =>
    let q := S.Fd (S.A p)
    let qp := S.ops.dot q p
    if qp = 0 then none else
    let alpha := gamma / qp
    let x' := S.ops.axpy x p alpha
    let r' := S.ops.axpy r q (-alpha)
    let d := S.nrm r'
    let (status, st') := setNewDefect c st true d
    let hist' := pushHist c st d hist
    if status ≠ .progress then some ⟨status, x', st', hist'⟩ else
    match S.prec calls r' with
    | none => some ⟨.aborted, x', st', hist'⟩
    | some z =>
      let gamma' := S.ops.dot r' z
      if gamma = 0 then none else
      let beta := gamma' / gamma
      let p' := S.ops.axpy (S.ops.scale p beta) z 1
      pcgLoop S c fuel x' r' p' gamma' st' (calls + 1) hist'

/-- `PCG::_apply_intern(vec_sol)` with `_vec_r = r` -/
def pcgIntern (S : Sys V α) (c : Config α) (prev : State α) (x r : V) : Option (Result V α) :=
  let d0 := S.nrm r
  let (status, st) := setInitialDefect c prev true d0
  if status ≠ .progress then some ⟨status, x, st, [d0]⟩ else
  match S.prec 0 r with
  | none => some ⟨.aborted, x, st, [d0]⟩
  | some p => pcgLoop S c (fuelOf c) x r p (S.ops.dot r p) st 1 [d0]

/-- `PCG::apply(vec_cor, vec_def)`: the start vector is formatted -/
def pcgApply (S : Sys V α) (c : Config α) (prev : State α) (b : V) : Option (Result V α) :=
  pcgIntern S c prev S.ops.zero b

/-- `PCG::correct(vec_sol, vec_rhs)` -/
def pcgCorrect (S : Sys V α) (c : Config α) (prev : State α) (x0 b : V) : Option (Result V α) :=
  pcgIntern S c prev x0 (resid S b x0)

/-! ### Richardson (kernel/solver/richardson.hpp) -/

def richLoop (S : Sys V α) (c : Config α) (omega : α) (b : V) :
    Nat → V → V → State α → Nat → List α → Option (Result V α)
  | 0, x, _, st, _, hist => some ⟨.undefined, x, st, hist⟩
  | fuel + 1, x, df, st, calls, hist =>
    match S.prec calls df with
    | none => some ⟨.aborted, x, st, hist⟩
    | some cor =>
      let x' := S.ops.axpy x cor omega
      let df' := resid S b x'
      let d := S.nrm df'
      let (status, st') := setNewDefect c st true d
      let hist' := pushHist c st d hist
      if status ≠ .progress then some ⟨status, x', st', hist'⟩
      else richLoop S c omega b fuel x' df' st' (calls + 1) hist'

/-- `Richardson::_apply_intern(vec_sol, vec_rhs)` with `_vec_def = df` -/
def richIntern (S : Sys V α) (c : Config α) (prev : State α) (omega : α) (b x df : V) : Option (Result V α) :=
  let d0 := S.nrm df
  let (status, st) := setInitialDefect c prev true d0
  if status ≠ .progress then some ⟨status, x, st, [d0]⟩
  else richLoop S c omega b (fuelOf c) x df st 0 [d0]

def richApply (S : Sys V α) (c : Config α) (prev : State α) (omega : α) (b : V) : Option (Result V α) :=
  richIntern S c prev omega b S.ops.zero b

def richCorrect (S : Sys V α) (c : Config α) (prev : State α) (omega : α) (x0 b : V) : Option (Result V α) :=
  richIntern S c prev omega b x0 (resid S b x0)

/-! ### PCR (kernel/solver/pcr.hpp) -/

def pcrLoop (S : Sys V α) (c : Config α) :
    Nat → V → V → V → V → V → α → State α → Nat → List α → Option (Result V α)
  | 0, x, _, _, _, _, _, st, _, hist => some ⟨.undefined, x, st, hist⟩
  | fuel + 1, x, r, s, p, q, gamma, st, calls, hist =>
    match S.prec calls q with
    | none => some ⟨.aborted, x, st, hist⟩
    | some z =>
      let zq := S.ops.dot z q
      if zq = 0 then none else
      let alpha := gamma / zq
      let x' := S.ops.axpy x p alpha
      let r' := S.ops.axpy r q (-alpha)
      let d := S.nrm r'
      let (status, st') := setNewDefect c st true d
      let hist' := pushHist c st d hist
      if status ≠ .progress then some ⟨status, x', st', hist'⟩ else
      let s' := S.ops.axpy s z (-alpha)
      let y := S.Fd (S.A s')
      let gamma' := S.ops.dot s' y
      if gamma = 0 then none else
      let beta := gamma' / gamma
      let p' := S.ops.axpy (S.ops.scale p beta) s' 1
      let q' := S.ops.axpy (S.ops.scale q beta) y 1
      pcrLoop S c fuel x' r' s' p' q' gamma' st' (calls + 1) hist'

def pcrIntern (S : Sys V α) (c : Config α) (prev : State α) (x r : V) : Option (Result V α) :=
  let d0 := S.nrm r
  let (status, st) := setInitialDefect c prev true d0
  if status ≠ .progress then some ⟨status, x, st, [d0]⟩ else
  match S.prec 0 r with
  | none => some ⟨.aborted, x, st, [d0]⟩
  | some s =>
    let q := S.Fd (S.A s)
    pcrLoop S c (fuelOf c) x r s s q (S.ops.dot s q) st 1 [d0]

def pcrApply (S : Sys V α) (c : Config α) (prev : State α) (b : V) : Option (Result V α) :=
  pcrIntern S c prev S.ops.zero b

def pcrCorrect (S : Sys V α) (c : Config α) (prev : State α) (x0 b : V) : Option (Result V α) :=
  pcrIntern S c prev x0 (resid S b x0)

/-! ### PMR (kernel/solver/pmr.hpp) -/

def pmrLoop (S : Sys V α) (c : Config α) :
    Nat → V → V → V → State α → Nat → List α → Option (Result V α)
  | 0, x, _, _, st, _, hist => some ⟨.undefined, x, st, hist⟩
  | fuel + 1, x, r, s, st, calls, hist =>
    let q := S.Fd (S.A s)
    match S.prec calls q with
    | none => some ⟨.aborted, x, st, hist⟩
    | some z =>
      let zq := S.ops.dot z q
      if zq = 0 then none else
      let alpha := S.ops.dot q s / zq
      let x' := S.ops.axpy x s alpha
      let r' := S.ops.axpy r q (-alpha)
      let d := S.nrm r'
      let (status, st') := setNewDefect c st true d
      let hist' := pushHist c st d hist
      if status ≠ .progress then some ⟨status, x', st', hist'⟩
      else pmrLoop S c fuel x' r' (S.ops.axpy s z (-alpha)) st' (calls + 1) hist'

def pmrIntern (S : Sys V α) (c : Config α) (prev : State α) (x r : V) : Option (Result V α) :=
  let d0 := S.nrm r
  let (status, st) := setInitialDefect c prev true d0
  if status ≠ .progress then some ⟨status, x, st, [d0]⟩ else
  match S.prec 0 r with
  | none => some ⟨.aborted, x, st, [d0]⟩
  | some s => pmrLoop S c (fuelOf c) x r s st 1 [d0]

def pmrApply (S : Sys V α) (c : Config α) (prev : State α) (b : V) : Option (Result V α) :=
  pmrIntern S c prev S.ops.zero b

def pmrCorrect (S : Sys V α) (c : Config α) (prev : State α) (x0 b : V) : Option (Result V α) :=
  pmrIntern S c prev x0 (resid S b x0)

/-! ### PCGNR (kernel/solver/pcgnr.hpp); the harness passes ONE preconditioner object as left and right
     preconditioner, so `prec` counts the calls of both -/

def pcgnrLoop (S : Sys V α) (c : Config α) :
    Nat → V → V → V → V → α → State α → Nat → List α → Option (Result V α)
  | 0, x, _, _, _, _, st, _, hist => some ⟨.undefined, x, st, hist⟩
  | fuel + 1, x, r, p, q, gamma, st, calls, hist =>
    let y := S.Fd (S.A q)
    match S.prec calls y with
    | none => some ⟨.aborted, x, st, hist⟩
    | some z =>
      let yz := S.ops.dot y z
      if yz = 0 then none else
      let alpha := gamma / yz
      let x' := S.ops.axpy x q alpha
      let r' := S.ops.axpy r y (-alpha)
      let d := S.nrm r'
      let (status, st') := setNewDefect c st true d
      let hist' := pushHist c st d hist
      if status ≠ .progress then some ⟨status, x', st', hist'⟩ else
      let p' := S.ops.axpy p z (-alpha)
      let s := S.Fd (S.At p')
      match S.prec (calls + 1) s with
      | none => some ⟨.aborted, x', st', hist'⟩
      | some t =>
        let gamma' := S.ops.dot s t
        if gamma = 0 then none else
        let beta := gamma' / gamma
        let q' := S.ops.axpy (S.ops.scale q beta) t 1
        pcgnrLoop S c fuel x' r' p' q' gamma' st' (calls + 2) hist'

def pcgnrIntern (S : Sys V α) (c : Config α) (prev : State α) (x r : V) : Option (Result V α) :=
  let d0 := S.nrm r
  let (status, st) := setInitialDefect c prev true d0
  if status ≠ .progress then some ⟨status, x, st, [d0]⟩ else
  match S.prec 0 r with
  | none => some ⟨.aborted, x, st, [d0]⟩
  | some p =>
    -- note: no `filter_def` on this first transposed product (there is one inside the loop)
    let s := S.At p
    match S.prec 1 s with
    | none => some ⟨.aborted, x, st, [d0]⟩
    | some q => pcgnrLoop S c (fuelOf c) x r p q (S.ops.dot s q) st 2 [d0]

def pcgnrApply (S : Sys V α) (c : Config α) (prev : State α) (b : V) : Option (Result V α) :=
  pcgnrIntern S c prev S.ops.zero b

def pcgnrCorrect (S : Sys V α) (c : Config α) (prev : State α) (x0 b : V) : Option (Result V α) :=
  pcgnrIntern S c prev x0 (resid S b x0)

end FeatModel.Solver
