import FeatModel.Model.Solver.Krylov
/-
Model of `RGCR` (kernel/solver/rgcr.hpp, "recycling GCR"): the solver object keeps two parallel lists of direction
vectors `p_j` and `q_j = F A p_j` (normalised so that `‖q_j‖ = 1`, mutually orthogonal).  Iteration `k` uses the
`k`-th pair; when the lists are exhausted a new pair is built from the preconditioned defect and orthogonalised against
ALL previous pairs.  After every `apply()`/`correct()` both lists are cut down to a quarter of their length and the
survivors are RECYCLED by the next solve — the solver is history dependent by design, so it is not a `Kind` of
`Session.lean`; its object state `(State, p_list, q_list)` is threaded explicitly.  `done_numeric()` clears both lists.
`none` = division by zero (`1 / ‖q_hat‖`).  Core Lean only.
-/
namespace FeatModel.Solver

variable {V α : Type} [Mul α] [Div α] [Neg α] [Zero α] [One α] [LE α] [LT α] [DecidableEq α] [DecidableLE α]
  [DecidableLT α]

/-- modified Gram–Schmidt of the new pair `(ph, qh)` against the stored pairs: `β = <qh, q_j>; qh -= β q_j; ph -= β p_j` -/
def rgcrOrth (S : Sys V α) : List (V × V) → V → V → V × V
  | [], ph, qh => (ph, qh)
  | (pj, qj) :: rest, ph, qh =>
    let beta := S.ops.dot qh qj
    rgcrOrth S rest (S.ops.axpy ph pj (-beta)) (S.ops.axpy qh qj (-beta))

structure RgcrResult (V α : Type) where
  res : Result V α
  /-- the direction pairs `(p_j, q_j)` at the end of `_apply_intern` (before the truncation to a quarter) -/
  dirs : List (V × V)

/-- `if(_num_iter >= p_list.size())`: build, orthogonalise (against the first `k = _num_iter` pairs), normalise and
    append a new pair.  Result: `none` = division by zero, `some none` = the preconditioner failed,
    `some (some (dirs', calls'))` otherwise -/
def rgcrExtend (S : Sys V α) (dirs : List (V × V)) (k calls : Nat) (r : V) : Option (Option (List (V × V) × Nat)) :=
  if dirs.length ≤ k then
    match S.prec calls r with
    | none => some none
    | some ph0 =>
      let o := rgcrOrth S (dirs.take k) ph0 (S.Fd (S.A ph0))
      let nq := S.nrm o.2
      if nq = 0 then none
      else some (some (dirs ++ [(S.ops.scale o.1 (1 / nq), S.ops.scale o.2 (1 / nq))], calls + 1))
  else some (some (dirs, calls))

def rgcrLoop (S : Sys V α) (c : Config α) :
    Nat → V → V → List (V × V) → State α → Nat → List α → Option (RgcrResult V α)
  | 0, x, _, dirs, st, _, hist => some ⟨⟨.undefined, x, st, hist⟩, dirs⟩
  | fuel + 1, x, r, dirs, st, calls, hist =>
    match rgcrExtend S dirs st.numIter calls r with
    | none => none
    | some none => some ⟨⟨.aborted, x, st, hist⟩, dirs⟩
    | some (some (dirs', calls')) =>
      match dirs'[st.numIter]? with
      | none => none
      | some (p, q) =>
        let alpha := S.ops.dot r q
        let x' := S.ops.axpy x p alpha
        let r' := S.ops.axpy r q (-alpha)
        let d := S.nrm r'
        let (status, st') := setNewDefect c st true d
        let hist' := pushHist c st d hist
        if status ≠ .progress then some ⟨⟨status, x', st', hist'⟩, dirs'⟩
        else rgcrLoop S c fuel x' r' dirs' st' calls' hist'

/-- `RGCR::_apply_intern` with `_vec_r = r` and the recycled pairs `dirs` -/
def rgcrIntern (S : Sys V α) (c : Config α) (prev : State α) (dirs : List (V × V)) (x r : V) :
    Option (RgcrResult V α) :=
  let d0 := S.nrm r
  let (status, st) := setInitialDefect c prev true d0
  if status ≠ .progress then some ⟨⟨status, x, st, [d0]⟩, dirs⟩
  else rgcrLoop S c (fuelOf c) x r dirs st 0 [d0]

/-- `apply()` / `correct()`; afterwards `p_list.resize(size/4); q_list.resize(size/4)` -/
def rgcrSolve (S : Sys V α) (c : Config α) (prev : State α) (dirs : List (V × V)) (isApply : Bool) (x0 b : V) :
    Option (Result V α × List (V × V)) :=
  match (if isApply then rgcrIntern S c prev dirs S.ops.zero b else rgcrIntern S c prev dirs x0 (resid S b x0)) with
  | none => none
  | some rr => some (rr.res, rr.dirs.take (rr.dirs.length / 4))

/-- a session on one RGCR object whose system may change from step to step: every step carries the system `S` it is
    solved with and the re-initialisation performed BEFORE the solve (`0` none, `1` `done_numeric(); init_numeric()`,
    `2` `done(); init()`).  Since the fix of finding c07-edge:F9 (/repo 34b320bb6) `done_numeric()` clears both
    direction lists, so the recycled pairs survive only from one solve to the next WITHOUT any re-initialisation —
    and new matrix values can only enter through a numeric re-initialisation. -/
def rgcrSessionSys (c : Config α) :
    State α → List (V × V) → List (Sys V α × Nat × Bool × V × V) → Option (List (Result V α))
  | _, _, [] => some []
  | prev, dirs, (S, re, isApply, x0, b) :: rest =>
    match rgcrSolve S c prev (if re = 0 then dirs else []) isApply x0 b with
    | none => none
    | some (r, dirs') =>
      match rgcrSessionSys c r.st dirs' rest with
      | none => none
      | some rs => some (r :: rs)

/-- a session with one fixed system (what the driver executes against one real RGCR object) -/
def rgcrSession (S : Sys V α) (c : Config α) (prev : State α) (dirs : List (V × V))
    (steps : List (Nat × Bool × V × V)) : Option (List (Result V α)) :=
  rgcrSessionSys c prev dirs (steps.map fun st => (S, st))

end FeatModel.Solver
