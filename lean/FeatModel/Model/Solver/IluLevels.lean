import FeatModel.Model.Solver.Ilu
/-
The TEXTBOOK symbolic ILU(p) (level of fill, e.g. Saad, "Iterative methods for sparse linear systems", Alg. 10.6) on a
dense `n × n` table of levels (`none` = not in the pattern): `lev(i,j) = 0` on the pattern of the matrix, and row by row,
for the pivots `k = 0, …, i-1` in ascending order, `lev(i,j) := min(lev(i,j), lev(i,k) + lev(k,j) + 1)` for `j > k`,
where levels above `p` are dropped.  This is the specification `factorize_symbolic(p)` is proved against
(`C08.ilu_symbolic`); `drv_c08` also evaluates it on every `iluf` case.  Core Lean only.
-/
namespace FeatModel.Solver

/-- minimum of two levels, `none` = +∞ -/
def levMin : Option Nat → Option Nat → Option Nat
  | none, b => b
  | a, none => a
  | some x, some y => some (min x y)

/-- level-0 row `i` of a (level-0) structure: `some 0` on the diagonal and on the stored `L` / `U` columns -/
def levRow0 (s : IluSym) (i : Nat) : Array (Option Nat) :=
  Array.ofFn (n := s.n) fun j =>
    if j.val = i then some 0
    else if (List.range' (s.rpL.getD i 0) (s.rpL.getD (i + 1) 0 - s.rpL.getD i 0)).any (fun k => s.ciL.getD k 0 == j.val)
      then some 0
    else if (List.range' (s.rpU.getD i 0) (s.rpU.getD (i + 1) 0 - s.rpU.getD i 0)).any (fun k => s.ciU.getD k 0 == j.val)
      then some 0
    else none

/-- eliminate with pivot `k`: for `j > k`, `row[j] := min(row[j], row[k] + rowK[j] + 1)` if that level is `≤ p` -/
def levPivot (p : Nat) (rowK : Array (Option Nat)) (k : Nat) (row : Array (Option Nat)) : Array (Option Nat) :=
  match row.getD k none with
  | none => row
  | some lk =>
    Array.ofFn (n := row.size) fun j =>
      if k < j.val then
        match rowK.getD j.val none with
        | some lkj => if lk + lkj + 1 ≤ p then levMin (row.getD j.val none) (some (lk + lkj + 1)) else row.getD j.val none
        | none => row.getD j.val none
      else row.getD j.val none

/-- row `i`: all pivots `k < i` in ascending order against the finished rows -/
def levRow (p : Nat) (done : Array (Array (Option Nat))) (row0 : Array (Option Nat)) (i : Nat) : Array (Option Nat) :=
  (List.range i).foldl (fun row k => levPivot p (done.getD k #[]) k row) row0

/-- the table of levels of ILU(p) for the level-0 structure `s` -/
def levelTable (p : Nat) (s : IluSym) : Array (Array (Option Nat)) :=
  (List.range s.n).foldl (fun done i => done.push (levRow p done (levRow0 s i) i)) #[]

/-- level of `(i, j)` in ILU(p), `none` = not in the level-p pattern -/
def levelOf (p : Nat) (s : IluSym) (i j : Nat) : Option Nat := ((levelTable p s).getD i #[]).getD j none

/-- the structure `t` stores exactly the off-diagonal positions with a level in the table (decidable comparison, run by
    the driver on every case) -/
def patternMatches (p : Nat) (s t : IluSym) : Bool :=
  let tbl := levelTable p s     -- computed once (`levelOf p s i j` is `(tbl.getD i #[]).getD j none`)
  (List.range s.n).all fun i => (List.range s.n).all fun j =>
    j == i ||
      (((tbl.getD i #[]).getD j none).isSome ==
        ((List.range' (t.rpL.getD i 0) (t.rpL.getD (i + 1) 0 - t.rpL.getD i 0)).any (fun k => t.ciL.getD k 0 == j)
          || (List.range' (t.rpU.getD i 0) (t.rpU.getD (i + 1) 0 - t.rpU.getD i 0)).any (fun k => t.ciU.getD k 0 == j)))

end FeatModel.Solver
