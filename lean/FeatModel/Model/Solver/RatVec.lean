import FeatModel.Model.Proto
import FeatModel.Model.Solver.Krylov
import FeatModel.Model.Solver.Precond
/-
The concrete instance the driver executes: vectors `Vector Rat n`, a dense matrix (the harness stores the same entries
in a `SparseMatrixCSR<Q>`; explicit zeros do not matter in exact arithmetic), `NoneFilter`/`UnitFilter` as a Boolean
mask, the mock preconditioner of the harness (an arbitrary matrix, failing at a chosen call) and
`norm2 = Math::sqrt(Σ xᵢ²)` with `Math::sqrt(Q)` = `Proto.qsqrt`.
-/
namespace FeatModel.Solver

abbrev RVec (n : Nat) := Vector Rat n
abbrev RMat (n : Nat) := Vector (Vector Rat n) n

def vdot {n : Nat} (a b : RVec n) : Rat := Fin.foldl n (fun acc i => acc + a[i] * b[i]) 0

def vaxpy {n : Nat} (x p : RVec n) (a : Rat) : RVec n := Vector.ofFn fun i => x[i] + a * p[i]

def vscale {n : Nat} (x : RVec n) (a : Rat) : RVec n := Vector.ofFn fun i => a * x[i]

def vzero (n : Nat) : RVec n := Vector.ofFn fun _ => 0

def matVec {n : Nat} (A : RMat n) (x : RVec n) : RVec n := Vector.ofFn fun i => vdot A[i] x

/-- `UnitFilter::filter_def` / `filter_cor`: constrained entries are set to zero (`NoneFilter`: empty mask) -/
def maskF {n : Nat} (mask : Vector Bool n) (v : RVec n) : RVec n :=
  Vector.ofFn fun i => if mask[i] then 0 else v[i]

/-- Newton iteration from above for `⌊√m⌋` (the iterates decrease until the fixed point) -/
def sqrtNewton (m : Nat) : Nat → Nat → Nat
  | 0, x => x
  | fuel + 1, x =>
    let y := (x + m / x) / 2
    if y < x then sqrtNewton m fuel y else x

/-- `⌊√m⌋`: fast candidate, *checked*, with `Nat.sqrt` (slow on numbers with 10⁵ bits) as fallback, so that
    `fastSqrt m = Nat.sqrt m` holds by construction (Lemmas/C07Vec.lean) -/
def fastSqrt (m : Nat) : Nat :=
  let s := sqrtNewton m 256 (2 ^ (Nat.log2 m / 2 + 1))
  if s * s ≤ m ∧ m < (s + 1) * (s + 1) then s else Nat.sqrt m

/-- `Proto.qsqrt` with `fastSqrt` in place of `Nat.sqrt` -/
def qsqrtF (x : Rat) : Rat :=
  let n := x.num.toNat
  let d := x.den
  mkRat (fastSqrt (n * d * 2 ^ 80)) (d * 2 ^ 40)

def vnorm {n : Nat} (v : RVec n) : Rat := qsqrtF (vdot v v)

def ratOps (n : Nat) : VecOps (RVec n) Rat :=
  { axpy := vaxpy, scale := vscale, dot := vdot, zero := vzero n }

/-- preconditioner of a session: `none` = no preconditioner object (`copy` + `filter_cor`);
    `some (M, failAt)` = the harness mock: `M·v`; the `failAt`-th call (1-based, 0 = never) fails, and so does
    every call whose input starts with the sentinel 7777 -/
def precOf {n : Nat} (mask : Vector Bool n) : Option (RMat n × Nat) → Nat → RVec n → Option (RVec n)
  | none, _, v => some (maskF mask v)
  | some (M, failAt), k, v =>
    if failAt ≠ 0 ∧ k + 1 = failAt then none
    else if v.toList.head? = some 7777 then none
    else some (matVec M v)

/-- `SparseMatrixCSR::transpose` -/
def transposeM {n : Nat} (A : RMat n) : RMat n := Vector.ofFn fun i => Vector.ofFn fun j => A[j][i]

def ratSys {n : Nat} (A : RMat n) (mask : Vector Bool n) (pre : Option (RMat n × Nat)) : Sys (RVec n) Rat :=
  { ops := ratOps n, A := matVec A, Fd := maskF mask, prec := precOf mask pre, nrm := vnorm,
    At := matVec (transposeM A), v3 := Vector.ofFn fun _ => 3,
    chebTol := mkRat 7378697629483821 73786976294838206464 }

/-- `Math::sqr(Math::eps<Q>())` of harness/common/exact_q.hpp -/
def epsSqQ : Rat := mkRat 1 (2 ^ 104)

/-- the convergence-control members as initialised by the `IterativeSolver` constructor -/
def freshState : State Rat :=
  { defInit := 0, defCur := 0, defPrev := 0, numIter := 0, numStag := 0, curFin := true }

/-! ### FEAT's own preconditioners (models of property C08, imported read-only) inside the solvers -/

inductive FeatPre where
  | jac | sor | ssor
  deriving DecidableEq, Repr

/-- the `SparseMatrixCSR` the harness builds from the dense input: explicit zeros are not stored, columns ascending -/
def toCsr {n : Nat} (A : RMat n) : FeatModel.LA.Csr Rat :=
  let rows : List (List (Nat × Rat)) :=
    A.toList.map fun r => ((List.range n).zip r.toList).filter (fun p => p.2 != 0)
  let ptr := rows.foldl (fun acc r => acc ++ [acc.getLastD 0 + r.length]) [0]
  { rows := n, cols := n, rowPtr := ptr.toArray, colInd := (rows.flatMap (·.map (·.1))).toArray,
    val := (rows.flatMap (·.map (·.2))).toArray }

/-- `JacobiPrecond` / `SORPrecond` / `SSORPrecond::apply` with damping `w` and the system filter -/
def featPrecApply {n : Nat} (k : FeatPre) (w : Rat) (A : RMat n) (mask : Vector Bool n) (v : RVec n) : RVec n :=
  let fidx := (List.range n).filter fun i => mask.toList.getD i false
  let csr := toCsr A
  let out : Array Rat :=
    match k with
    | .jac => jacobiApply fidx n (invDiag w csr) v.toArray
    | .sor => sorApply w fidx csr v.toArray
    | .ssor => ssorApply w fidx csr v.toArray
  Vector.ofFn fun i => out.getD i.val 0

/-- the system with one of FEAT's preconditioners (it never reports failure) -/
def ratSysF {n : Nat} (A : RMat n) (mask : Vector Bool n) (k : FeatPre) (w : Rat) : Sys (RVec n) Rat :=
  { ratSys A mask none with prec := fun _ v => some (featPrecApply k w A mask v) }

end FeatModel.Solver
