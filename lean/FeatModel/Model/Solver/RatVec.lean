import FeatModel.Model.Proto
import FeatModel.Model.Solver.Krylov
/-
The concrete instance the driver executes: vectors `Vector Rat n`, a dense matrix (the harness stores the same entries
in a `SparseMatrixCSR<Q>`; explicit zeros do not matter in exact arithmetic), `NoneFilter`/`UnitFilter` as a Boolean
mask, the mock preconditioner of the harness (an arbitrary matrix, failing at a chosen call) and
`norm2 = Math::sqrt(Σ xᵢ²)` with `Math::sqrt(Q)` = `Proto.qsqrt`.
-/
namespace FeatModel.Solver

abbrev RVec (n : Nat) := Vector Rat n
abbrev RMat (n : Nat) := Vector (Vector Rat n) n

def vdot {n : Nat} (a b : RVec n) : Rat := Fin.foldl n (fun acc i => acc + a[i] * b[i]) 0

def vaxpy {n : Nat} (x p : RVec n) (a : Rat) : RVec n := Vector.ofFn fun i => x[i] + a * p[i]

def vscale {n : Nat} (x : RVec n) (a : Rat) : RVec n := Vector.ofFn fun i => a * x[i]

def vzero (n : Nat) : RVec n := Vector.ofFn fun _ => 0

def matVec {n : Nat} (A : RMat n) (x : RVec n) : RVec n := Vector.ofFn fun i => vdot A[i] x

/-- `UnitFilter::filter_def` / `filter_cor`: constrained entries are set to zero (`NoneFilter`: empty mask) -/
def maskF {n : Nat} (mask : Vector Bool n) (v : RVec n) : RVec n :=
  Vector.ofFn fun i => if mask[i] then 0 else v[i]

/-- Newton iteration from above for `⌊√m⌋` (the iterates decrease until the fixed point) -/
def sqrtNewton (m : Nat) : Nat → Nat → Nat
  | 0, x => x
  | fuel + 1, x =>
    let y := (x + m / x) / 2
    if y < x then sqrtNewton m fuel y else x

/-- `⌊√m⌋`: fast candidate, *checked*, with `Nat.sqrt` (slow on numbers with 10⁵ bits) as fallback, so that
    `fastSqrt m = Nat.sqrt m` holds by construction (Lemmas/C07Vec.lean) -/
def fastSqrt (m : Nat) : Nat :=
  let s := sqrtNewton m 256 (2 ^ (Nat.log2 m / 2 + 1))
  if s * s ≤ m ∧ m < (s + 1) * (s + 1) then s else Nat.sqrt m

/-- `Proto.qsqrt` with `fastSqrt` in place of `Nat.sqrt` -/
def qsqrtF (x : Rat) : Rat :=
  let n := x.num.toNat
  let d := x.den
  mkRat (fastSqrt (n * d * 2 ^ 80)) (d * 2 ^ 40)

def vnorm {n : Nat} (v : RVec n) : Rat := qsqrtF (vdot v v)

def ratOps (n : Nat) : VecOps (RVec n) Rat :=
  { axpy := vaxpy, scale := vscale, dot := vdot, zero := vzero n }

/-- preconditioner of a session: `none` = no preconditioner object (`copy` + `filter_cor`);
    `some (M, failAt)` = the harness mock: `M·v`; the `failAt`-th call (1-based, 0 = never) fails, and so does
    every call whose input starts with the sentinel 7777 -/
def precOf {n : Nat} (mask : Vector Bool n) : Option (RMat n × Nat) → Nat → RVec n → Option (RVec n)
  | none, _, v => some (maskF mask v)
  | some (M, failAt), k, v =>
    if failAt ≠ 0 ∧ k + 1 = failAt then none
    else if v.toList.head? = some 7777 then none
    else some (matVec M v)

/-- `SparseMatrixCSR::transpose` -/
def transposeM {n : Nat} (A : RMat n) : RMat n := Vector.ofFn fun i => Vector.ofFn fun j => A[j][i]

def ratSys {n : Nat} (A : RMat n) (mask : Vector Bool n) (pre : Option (RMat n × Nat)) : Sys (RVec n) Rat :=
  { ops := ratOps n, A := matVec A, Fd := maskF mask, prec := precOf mask pre, nrm := vnorm,
    At := matVec (transposeM A) }

/-- `Math::sqr(Math::eps<Q>())` of harness/common/exact_q.hpp -/
def epsSqQ : Rat := mkRat 1 (2 ^ 104)

/-- the convergence-control members as initialised by the `IterativeSolver` constructor -/
def freshState : State Rat :=
  { defInit := 0, defCur := 0, defPrev := 0, numIter := 0, numStag := 0, curFin := true }

end FeatModel.Solver
