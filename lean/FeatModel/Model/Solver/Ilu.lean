import FeatModel.Model.LA.Csr
/-
`Solver::Intern::ILUCoreSymbolic` / `ILUCoreScalar` of kernel/solver/ilu_precond.hpp and the scalar
`ILUPrecondWithBackend<generic, SparseMatrixCSR>`.  Core Lean only.

* `setStructCsr`        – `set_struct_csr` (level-0 pattern, split into strictly lower / strictly upper rows;
                          `none` = `InvalidMatrixStructureException`)
* `factorizeSymbolic`   – `factorize_symbolic(p)` with the linear `_insert`
* `copyDataCsr`         – `copy_data_csr`
* `factorizeNumeric`    – `factorize_numeric_il_du` (in place; `dataD` holds the INVERTED pivots afterwards)
* `solveIl`, `solveDu`  – the two triangular solves, `x` and `b` may alias
The index loops follow the C++ statement by statement (moving pointers `pl`, `pu`, `k`, `ra`).
-/
namespace FeatModel.Solver
open FeatModel.LA

variable {α : Type}

/-- symbolic part: CSR structures of the strictly lower `L` and the strictly upper `U` -/
structure IluSym where
  n : Nat
  rpL : Array Nat
  ciL : Array Nat
  rpU : Array Nat
  ciU : Array Nat
deriving Repr, BEq, DecidableEq

/-- numeric part: the data arrays of `L`, `U` and `D` -/
structure IluNum (α : Type) where
  dataL : Array α
  dataU : Array α
  dataD : Array α

/-- `for(; (j < jend) && (col_idx_a[j] < i); ++j) _col_idx_l.push_back(col_idx_a[j]);` -/
def scanStructL (colInd : Array Nat) (i jend : Nat) : Nat → Nat → Array Nat → Nat × Array Nat
  | 0, j, ciL => (j, ciL)
  | f + 1, j, ciL =>
    if j < jend && colInd.getD j 0 < i then scanStructL colInd i jend f (j + 1) (ciL.push (colInd.getD j 0))
    else (j, ciL)

/-- `set_struct_csr(n, row_ptr_a, col_idx_a)`; a read past the end of `col_idx_a` (last row without diagonal, F13)
    is modelled as "not the diagonal" -/
def setStructCsr (n : Nat) (rowPtr colInd : Array Nat) : Option IluSym :=
  (List.range n).foldlM (fun (s : IluSym) i =>
      let j0 := rowPtr.getD i 0
      let jend := rowPtr.getD (i + 1) 0
      let r := scanStructL colInd i jend (jend - j0) j0 s.ciL
      if colInd.getD r.1 n != i then none
      else
        let ciU := (List.range' (r.1 + 1) (jend - (r.1 + 1))).foldl (fun a k => a.push (colInd.getD k 0)) s.ciU
        some { s with ciL := r.2, ciU := ciU, rpL := s.rpL.push r.2.size, rpU := s.rpU.push ciU.size })
    { n := n, rpL := #[0], ciL := #[], rpU := #[0], ciU := #[] }

/-- the search loop of `_insert`: from position `i` on, stop at a hit (`true`) or at the first larger column -/
def insertSearch (idx : Array Nat) (j : Nat) : Nat → Nat → Nat × Bool
  | 0, i => (i, false)
  | f + 1, i =>
    if i < idx.size then
      if idx.getD i 0 == j then (i, true)
      else if j < idx.getD i 0 then (i, false)
      else insertSearch idx j f (i + 1)
    else (i, false)

/-- `_insert(idx, lvl, i, j, l)`: linear search from position `i` in the (sorted) tail, level update on a hit,
    shifting insertion otherwise; returns the next start position -/
def insertEntry (idx lvl : Array Nat) (i j l : Nat) : Array Nat × Array Nat × Nat :=
  let r := insertSearch idx j (idx.size - i) i
  if r.2 then (idx, if l < lvl.getD r.1 0 then lvl.setIfInBounds r.1 l else lvl, r.1 + 1)
  else ((idx.toList.take r.1 ++ j :: idx.toList.drop r.1).toArray,
        (lvl.toList.take r.1 ++ l :: lvl.toList.drop r.1).toArray, r.1 + 1)

/-- the growing level-p structure during `factorize_symbolic` (`new_ptr_*`, `new_idx_*`, `new_lvl_*`) -/
structure SymState where
  ptrL : Array Nat
  idxL : Array Nat
  lvlL : Array Nat
  ptrU : Array Nat
  idxU : Array Nat
  lvlU : Array Nat

/-- state of the loop over row `U_j` for one `L_ij`: the arrays plus the two search start positions -/
structure SymCur where
  idxL : Array Nat
  lvlL : Array Nat
  idxU : Array Nat
  lvlU : Array Nat
  olj : Nat
  ouj : Nat

/-- body of `for(k = new_ptr_u[cj]; k < new_ptr_u[cj+1]; ++k)` -/
def symEntry (pn i lj : Nat) (c : SymCur) (k : Nat) : SymCur :=
  let ck := c.idxU.getD k 0
  let ll := lj + c.lvlU.getD k 0 + 1
  if ll > pn then c
  else if ck < i then
    let r := insertEntry c.idxL c.lvlL c.olj ck ll
    { c with idxL := r.1, lvlL := r.2.1, olj := r.2.2 }
  else if ck > i then
    let r := insertEntry c.idxU c.lvlU c.ouj ck ll
    { c with idxU := r.1, lvlU := r.2.1, ouj := r.2.2 }
  else c

/-- `for(j = new_ptr_l[i]; j < new_idx_l.size(); ++j)`: the bound grows with the insertions (fuel-bounded) -/
def symRowLoop (pn i : Nat) (ptrU : Array Nat) : Nat → Nat → SymCur → SymCur
  | 0, _, c => c
  | f + 1, j, c =>
    if j < c.idxL.size then
      let cj := c.idxL.getD j 0
      let lj := c.lvlL.getD j 0
      let c' := foldRange (ptrU.getD cj 0) (ptrU.getD (cj + 1) 0) (symEntry pn i lj)
        { c with olj := j, ouj := ptrU.getD i 0 }
      symRowLoop pn i ptrU f (j + 1) c'
    else c

/-- one row of `factorize_symbolic`: copy the level-0 entries, run the fill loop, close the row -/
def symRow (s : IluSym) (pn : Nat) (st : SymState) (i : Nat) : SymState :=
  let idxL := foldRange (s.rpL.getD i 0) (s.rpL.getD (i + 1) 0) (fun a j => a.push (s.ciL.getD j 0)) st.idxL
  let lvlL := foldRange (s.rpL.getD i 0) (s.rpL.getD (i + 1) 0) (fun a _ => a.push 0) st.lvlL
  let idxU := foldRange (s.rpU.getD i 0) (s.rpU.getD (i + 1) 0) (fun a j => a.push (s.ciU.getD j 0)) st.idxU
  let lvlU := foldRange (s.rpU.getD i 0) (s.rpU.getD (i + 1) 0) (fun a _ => a.push 0) st.lvlU
  let c := symRowLoop pn i st.ptrU (s.n + idxL.size + 1) (st.ptrL.getD i 0)
    { idxL := idxL, lvlL := lvlL, idxU := idxU, lvlU := lvlU, olj := 0, ouj := 0 }
  { ptrL := st.ptrL.push c.idxL.size, idxL := c.idxL, lvlL := c.lvlL,
    ptrU := st.ptrU.push c.idxU.size, idxU := c.idxU, lvlU := c.lvlU }

/-- `factorize_symbolic(p)` -/
def factorizeSymbolic (s : IluSym) (p : Int) : IluSym :=
  if p < 1 then s
  else
    let st := (List.range s.n).foldl (symRow s p.toNat)
      { ptrL := #[0], idxL := #[], lvlL := #[], ptrU := #[0], idxU := #[], lvlU := #[] }
    { n := s.n, rpL := st.ptrL, ciL := st.idxL, rpU := st.ptrU, ciU := st.idxU }

/-- `copy_data_csr`, row `i`, `L` part: `if(col_idx_l[j] == col_idx_a[ra]) data_l[j] = data_a[ra++]; else data_l[j] = 0;`
    (state: the array and the moving pointer `ra`) -/
def copyL [Zero α] (s : IluSym) (A : Csr α) (st : Array α × Nat) (j : Nat) : Array α × Nat :=
  if s.ciL.getD j 0 == A.colInd.getD st.2 A.cols then (st.1.setIfInBounds j (A.val.getD st.2 0), st.2 + 1)
  else (st.1.setIfInBounds j 0, st.2)

/-- `U` part: `if((ra < xa) && (col_idx_u[j] == col_idx_a[ra])) data_u[j] = data_a[ra++]; else data_u[j] = 0;` -/
def copyU [Zero α] (s : IluSym) (A : Csr α) (xa : Nat) (st : Array α × Nat) (j : Nat) : Array α × Nat :=
  if st.2 < xa && s.ciU.getD j 0 == A.colInd.getD st.2 A.cols then
    (st.1.setIfInBounds j (A.val.getD st.2 0), st.2 + 1)
  else (st.1.setIfInBounds j 0, st.2)

/-- one row of `copy_data_csr`: the arrays of the object are overwritten in place -/
def copyRow [Zero α] (s : IluSym) (A : Csr α) (d : IluNum α) (i : Nat) : IluNum α :=
  let l := foldRange (s.rpL.getD i 0) (s.rpL.getD (i + 1) 0) (copyL s A) (d.dataL, A.rowPtr.getD i 0)
  let dd := d.dataD.setIfInBounds i (A.val.getD l.2 0)
  let u := foldRange (s.rpU.getD i 0) (s.rpU.getD (i + 1) 0) (copyU s A (A.rowPtr.getD (i + 1) 0)) (d.dataU, l.2 + 1)
  { dataL := l.1, dataU := u.1, dataD := dd }

/-- `copy_data_csr` into the data arrays `prev` of the object (allocated by `alloc_data`, possibly holding the factors
    of an earlier `init_numeric`): every position is written, fill-in positions with zero -/
def copyDataCsr [Zero α] (s : IluSym) (A : Csr α) (prev : IluNum α) : IluNum α :=
  (List.range s.n).foldl (copyRow s A) prev

/-- `alloc_data()`: value-initialised arrays of the right sizes -/
def allocData [Zero α] (s : IluSym) : IluNum α :=
  { dataL := Array.replicate s.ciL.size 0, dataU := Array.replicate s.ciU.size 0, dataD := Array.replicate s.n 0 }

/-- `for(; (p < q) && (cidx[p] <= ck); ++p) if(cidx[p] == ck) data[p] -= t;` → the array and the pointer -/
def mergeSub [Zero α] [Sub α] (idx : Array Nat) (q ck : Nat) (t : α) : Nat → Array α → Nat → Array α × Nat
  | 0, a, p => (a, p)
  | f + 1, a, p =>
    if p < q && idx.getD p 0 ≤ ck then
      mergeSub idx q ck t f (if idx.getD p 0 == ck then a.setIfInBounds p (a.getD p 0 - t) else a) (p + 1)
    else (a, p)

/-- first `k` loop of `factorize_numeric_il_du` (row `cj` of `U` against row `i` of `L`, stops at `ck >= i`) -/
def elimLow [Zero α] [Sub α] [Mul α] (s : IluSym) (i ql kend : Nat) (lij : α) (du : Array α) :
    Nat → Array α → Nat → Nat → Array α × Nat × Nat
  | 0, dl, pl, k => (dl, pl, k)
  | f + 1, dl, pl, k =>
    if k < kend then
      let ck := s.ciU.getD k 0
      if ck ≥ i then (dl, pl, k)
      else
        let r := mergeSub s.ciL ql ck (lij * du.getD k 0) (ql - pl) dl pl
        elimLow s i ql kend lij du f r.1 r.2 (k + 1)
    else (dl, pl, k)

/-- last `k` loop (row `cj` of `U` against row `i` of `U`) -/
def elimUpp [Zero α] [Sub α] [Mul α] (s : IluSym) (qu kend : Nat) (lij : α) : Nat → Array α → Nat → Nat → Array α
  | 0, du, _, _ => du
  | f + 1, du, pu, k =>
    if k < kend then
      let r := mergeSub s.ciU qu (s.ciU.getD k 0) (lij * du.getD k 0) (qu - pu) du pu
      elimUpp s qu kend lij f r.1 r.2 (k + 1)
    else du

/-- body of the loop over row `i` of `L` (storage position `j`) -/
def elimLM [Zero α] [Sub α] [Mul α] (s : IluSym) (i : Nat) (d : IluNum α) (j : Nat) : IluNum α :=
  let cj := s.ciL.getD j 0
  let ql := s.rpL.getD (i + 1) 0
  let qu := s.rpU.getD (i + 1) 0
  let dl0 := d.dataL.setIfInBounds j (d.dataL.getD j 0 * d.dataD.getD cj 0)
  let lij := dl0.getD j 0
  let kend := s.rpU.getD (cj + 1) 0
  let k0 := s.rpU.getD cj 0
  let r := elimLow s i ql kend lij d.dataU (kend - k0) dl0 j k0
  let k := r.2.2
  let hit := k < kend && s.ciU.getD k 0 == i
  let dd := if hit then d.dataD.setIfInBounds i (d.dataD.getD i 0 - lij * d.dataU.getD k 0) else d.dataD
  let k' := if hit then k + 1 else k
  { dataL := r.1, dataU := elimUpp s qu kend lij (kend - k') d.dataU (s.rpU.getD i 0) k', dataD := dd }

/-- one row of `factorize_numeric_il_du`, then the pivot is inverted -/
def factorRowM [Zero α] [One α] [Sub α] [Mul α] [Div α] (s : IluSym) (d : IluNum α) (i : Nat) : IluNum α :=
  let d := foldRange (s.rpL.getD i 0) (s.rpL.getD (i + 1) 0) (elimLM s i) d
  { d with dataD := d.dataD.setIfInBounds i (1 / d.dataD.getD i 0) }

/-- `factorize_numeric_il_du` (merge pointers `pl`, `pu`, `k` as in the C++) -/
def factorizeNumeric [Zero α] [One α] [Sub α] [Mul α] [Div α] (s : IluSym) (d : IluNum α) : IluNum α :=
  (List.range s.n).foldl (factorRowM s) d

/-- the stored factors as CSR matrices (shared dense meaning `Csr.entry`) -/
def IluSym.matL (s : IluSym) (d : IluNum α) : Csr α :=
  { rows := s.n, cols := s.n, rowPtr := s.rpL, colInd := s.ciL, val := d.dataL }
def IluSym.matU (s : IluSym) (d : IluNum α) : Csr α :=
  { rows := s.n, cols := s.n, rowPtr := s.rpU, colInd := s.ciU, val := d.dataU }

/-- row `i` of `solve_il`: `r = b[i]; for j in row i of L: r -= L[j] * x[col[j]]; x[i] = r` -/
def solveIlStep [Zero α] [Sub α] [Mul α] (L : Csr α) (b : Array α) (x : Array α) (i : Nat) : Array α :=
  x.setIfInBounds i
    (foldRange (L.rowBegin i) (L.rowEnd i) (fun r j => r - L.val.getD j 0 * x.getD (L.colInd.getD j 0) 0) (b.getD i 0))

/-- `solve_il(x, b)` (rows ascending); `x` is the output array with its previous content -/
def solveIl [Zero α] [Sub α] [Mul α] (L : Csr α) (b x : Array α) : Array α :=
  (List.range L.rows).foldl (solveIlStep L b) x

/-- `solve_il(x, x)`: the in-place call of `ILUPrecond::apply(v, v)` ("x and b are allowed to refer to the same
    array": row `i` reads `b[i] = x[i]` before overwriting it) -/
def solveIlIn [Zero α] [Sub α] [Mul α] (L : Csr α) (x : Array α) : Array α :=
  (List.range L.rows).foldl (fun x i => solveIlStep L x x i) x

/-- row `i` of `solve_du(x, x)`: `r = x[i]; for j in row i of U: r -= U[j] * x[col[j]]; x[i] = dinv[i] * r` -/
def solveDuStep [Zero α] [Sub α] [Mul α] (U : Csr α) (dinv : Array α) (x : Array α) (i : Nat) : Array α :=
  x.setIfInBounds i (dinv.getD i 0 *
    (foldRange (U.rowBegin i) (U.rowEnd i) (fun r j => r - U.val.getD j 0 * x.getD (U.colInd.getD j 0) 0) (x.getD i 0)))

/-- `solve_du(x, x)` (rows descending, in place) -/
def solveDu [Zero α] [Sub α] [Mul α] (U : Csr α) (dinv : Array α) (x : Array α) : Array α :=
  (List.range U.rows).reverse.foldl (solveDuStep U dinv) x

/-- `ILUPrecond::apply` without the filter: `solve_il(x, b); solve_du(x, x)` on the stored factors -/
def iluSolve [Zero α] [Sub α] [Mul α] (s : IluSym) (d : IluNum α) (b x0 : Array α) : Array α :=
  solveDu (s.matU d) d.dataD (solveIl (s.matL d) b x0)

/-- decidable shape facts of a symbolic factorisation: offsets monotone and consistent, `L` strictly lower,
    `U` strictly upper, all columns `< n` -/
def IluSym.wf (s : IluSym) : Bool :=
  s.rpL.size == s.n + 1 && s.rpU.size == s.n + 1 && s.rpL.getD 0 0 == 0 && s.rpU.getD 0 0 == 0
  && s.rpL.getD s.n 0 == s.ciL.size && s.rpU.getD s.n 0 == s.ciU.size
  && s.ciL.all (· < s.n) && s.ciU.all (· < s.n)
  && (List.range s.n).all (fun i =>
        s.rpL.getD i 0 ≤ s.rpL.getD (i + 1) 0 && s.rpU.getD i 0 ≤ s.rpU.getD (i + 1) 0
        && (List.range' (s.rpL.getD i 0) (s.rpL.getD (i + 1) 0 - s.rpL.getD i 0)).all (fun k => s.ciL.getD k s.n < i)
        && (List.range' (s.rpU.getD i 0) (s.rpU.getD (i + 1) 0 - s.rpU.getD i 0)).all
              (fun k => i < s.ciU.getD k 0 && s.ciU.getD k s.n < s.n))

end FeatModel.Solver
