import FeatModel.Model.LA.Csr
/-
`Solver::Intern::ILUCoreSymbolic` / `ILUCoreScalar` of kernel/solver/ilu_precond.hpp and the scalar
`ILUPrecondWithBackend<generic, SparseMatrixCSR>`.  Core Lean only.

* `setStructCsr`        – `set_struct_csr` (level-0 pattern, split into strictly lower / strictly upper rows;
                          `none` = `InvalidMatrixStructureException`)
* `factorizeSymbolic`   – `factorize_symbolic(p)` with the linear `_insert`
* `copyDataCsr`         – `copy_data_csr`
* `factorizeNumeric`    – `factorize_numeric_il_du` (in place; `dataD` holds the INVERTED pivots afterwards)
* `solveIl`, `solveDu`  – the two triangular solves, `x` and `b` may alias
The index loops follow the C++ statement by statement (moving pointers `pl`, `pu`, `k`, `ra`).
-/
namespace FeatModel.Solver
open FeatModel.LA

variable {α : Type}

/-- symbolic part: CSR structures of the strictly lower `L` and the strictly upper `U` -/
structure IluSym where
  n : Nat
  rpL : Array Nat
  ciL : Array Nat
  rpU : Array Nat
  ciU : Array Nat
deriving Repr, BEq, DecidableEq

/-- numeric part: the data arrays of `L`, `U` and `D` -/
structure IluNum (α : Type) where
  dataL : Array α
  dataU : Array α
  dataD : Array α

/-- `for(; (j < jend) && (col_idx_a[j] < i); ++j) _col_idx_l.push_back(col_idx_a[j]);` -/
def scanStructL (colInd : Array Nat) (i jend : Nat) : Nat → Nat → Array Nat → Nat × Array Nat
  | 0, j, ciL => (j, ciL)
  | f + 1, j, ciL =>
    if j < jend && colInd.getD j 0 < i then scanStructL colInd i jend f (j + 1) (ciL.push (colInd.getD j 0))
    else (j, ciL)

/-- `set_struct_csr(n, row_ptr_a, col_idx_a)`; a read past the end of `col_idx_a` (last row without diagonal, F13)
    is modelled as "not the diagonal" -/
def setStructCsr (n : Nat) (rowPtr colInd : Array Nat) : Option IluSym :=
  (List.range n).foldlM (fun (s : IluSym) i =>
      let j0 := rowPtr.getD i 0
      let jend := rowPtr.getD (i + 1) 0
      let r := scanStructL colInd i jend (jend - j0) j0 s.ciL
      if colInd.getD r.1 n != i then none
      else
        let ciU := (List.range' (r.1 + 1) (jend - (r.1 + 1))).foldl (fun a k => a.push (colInd.getD k 0)) s.ciU
        some { s with ciL := r.2, ciU := ciU, rpL := s.rpL.push r.2.size, rpU := s.rpU.push ciU.size })
    { n := n, rpL := #[0], ciL := #[], rpU := #[0], ciU := #[] }

/-- `_insert(idx, lvl, i, j, l)`: linear search from position `i` in the (sorted) tail, level update on a hit,
    shifting insertion otherwise; returns the next start position -/
def insertEntry (idx lvl : Array Nat) (i j l : Nat) : Array Nat × Array Nat × Nat := Id.run do
  let n := idx.size
  let mut i := i
  for _ in [0:n] do
    if i < n then
      if idx.getD i 0 == j then
        let lvl' := if l < lvl.getD i 0 then lvl.setIfInBounds i l else lvl
        return (idx, lvl', i + 1)
      else if j < idx.getD i 0 then break
      else i := i + 1
    else break
  let idx' := (idx.toList.take i ++ j :: idx.toList.drop i).toArray
  let lvl' := (lvl.toList.take i ++ l :: lvl.toList.drop i).toArray
  return (idx', lvl', i + 1)

/-- `factorize_symbolic(p)` -/
def factorizeSymbolic (s : IluSym) (p : Int) : IluSym := Id.run do
  if p < 1 then return s
  let pn := p.toNat
  let mut nPtrL : Array Nat := #[0]
  let mut nIdxL : Array Nat := #[]
  let mut nLvlL : Array Nat := #[]
  let mut nPtrU : Array Nat := #[0]
  let mut nIdxU : Array Nat := #[]
  let mut nLvlU : Array Nat := #[]
  for i in [0:s.n] do
    for j in [s.rpL.getD i 0 : s.rpL.getD (i + 1) 0] do
      nIdxL := nIdxL.push (s.ciL.getD j 0)
      nLvlL := nLvlL.push 0
    for j in [s.rpU.getD i 0 : s.rpU.getD (i + 1) 0] do
      nIdxU := nIdxU.push (s.ciU.getD j 0)
      nLvlU := nLvlU.push 0
    -- `for(IT_ j(new_ptr_l[i]); j < IT_(new_idx_l.size()); ++j)`: the bound grows with the insertions
    let mut j := nPtrL.getD i 0
    for _ in [0 : s.n + nIdxL.size + 1] do
      if j < nIdxL.size then
        let cj := nIdxL.getD j 0
        let lj := nLvlL.getD j 0
        let mut olj := j
        let mut ouj := nPtrU.getD i 0
        for k in [nPtrU.getD cj 0 : nPtrU.getD (cj + 1) 0] do
          let ck := nIdxU.getD k 0
          let lk := nLvlU.getD k 0
          let ll := lj + lk + 1
          if ll > pn then continue
          if ck < i then
            let r := insertEntry nIdxL nLvlL olj ck ll
            nIdxL := r.1
            nLvlL := r.2.1
            olj := r.2.2
          else if ck > i then
            let r := insertEntry nIdxU nLvlU ouj ck ll
            nIdxU := r.1
            nLvlU := r.2.1
            ouj := r.2.2
        j := j + 1
      else break
    nPtrL := nPtrL.push nIdxL.size
    nPtrU := nPtrU.push nIdxU.size
  return { n := s.n, rpL := nPtrL, ciL := nIdxL, rpU := nPtrU, ciU := nIdxU }

/-- `copy_data_csr` into freshly `alloc_data`-sized arrays (every position is written) -/
def copyDataCsr [Zero α] (s : IluSym) (A : Csr α) : IluNum α := Id.run do
  let mut dl : Array α := Array.replicate s.ciL.size 0
  let mut du : Array α := Array.replicate s.ciU.size 0
  let mut dd : Array α := Array.replicate s.n 0
  for i in [0:s.n] do
    let mut ra := A.rowPtr.getD i 0
    let xa := A.rowPtr.getD (i + 1) 0
    for j in [s.rpL.getD i 0 : s.rpL.getD (i + 1) 0] do
      if s.ciL.getD j 0 == A.colInd.getD ra A.cols then
        dl := dl.setIfInBounds j (A.val.getD ra 0)
        ra := ra + 1
      else
        dl := dl.setIfInBounds j 0
    dd := dd.setIfInBounds i (A.val.getD ra 0)
    ra := ra + 1
    for j in [s.rpU.getD i 0 : s.rpU.getD (i + 1) 0] do
      if ra < xa && s.ciU.getD j 0 == A.colInd.getD ra A.cols then
        du := du.setIfInBounds j (A.val.getD ra 0)
        ra := ra + 1
      else
        du := du.setIfInBounds j 0
  return { dataL := dl, dataU := du, dataD := dd }

/-- `factorize_numeric_il_du` -/
def factorizeNumeric [Zero α] [One α] [Sub α] [Mul α] [Div α] (s : IluSym) (d : IluNum α) : IluNum α := Id.run do
  let mut dl := d.dataL
  let mut du := d.dataU
  let mut dd := d.dataD
  for i in [0:s.n] do
    let ql := s.rpL.getD (i + 1) 0
    let qu := s.rpU.getD (i + 1) 0
    for j in [s.rpL.getD i 0 : ql] do
      let cj := s.ciL.getD j 0
      let mut pl := j
      let mut pu := s.rpU.getD i 0
      dl := dl.setIfInBounds j (dl.getD j 0 * dd.getD cj 0)
      let lij := dl.getD j 0
      let kend := s.rpU.getD (cj + 1) 0
      let mut k := s.rpU.getD cj 0
      -- row j of U against row i of L
      for _ in [0 : kend - k] do
        let ck := s.ciU.getD k 0
        if ck >= i then break
        for _ in [0 : ql - pl] do
          if pl < ql && s.ciL.getD pl 0 <= ck then
            if s.ciL.getD pl 0 == ck then
              dl := dl.setIfInBounds pl (dl.getD pl 0 - lij * du.getD k 0)
            pl := pl + 1
          else break
        k := k + 1
      -- main diagonal
      if k < kend && s.ciU.getD k 0 == i then
        dd := dd.setIfInBounds i (dd.getD i 0 - lij * du.getD k 0)
        k := k + 1
      -- row j of U against row i of U
      for _ in [0 : kend - k] do
        let ck := s.ciU.getD k 0
        for _ in [0 : qu - pu] do
          if pu < qu && s.ciU.getD pu 0 <= ck then
            if s.ciU.getD pu 0 == ck then
              du := du.setIfInBounds pu (du.getD pu 0 - lij * du.getD k 0)
            pu := pu + 1
          else break
        k := k + 1
    dd := dd.setIfInBounds i (1 / dd.getD i 0)
  return { dataL := dl, dataU := du, dataD := dd }

/-- the stored factors as CSR matrices (shared dense meaning `Csr.entry`) -/
def IluSym.matL (s : IluSym) (d : IluNum α) : Csr α :=
  { rows := s.n, cols := s.n, rowPtr := s.rpL, colInd := s.ciL, val := d.dataL }
def IluSym.matU (s : IluSym) (d : IluNum α) : Csr α :=
  { rows := s.n, cols := s.n, rowPtr := s.rpU, colInd := s.ciU, val := d.dataU }

/-- row `i` of `solve_il`: `r = b[i]; for j in row i of L: r -= L[j] * x[col[j]]; x[i] = r` -/
def solveIlStep [Zero α] [Sub α] [Mul α] (L : Csr α) (b : Array α) (x : Array α) (i : Nat) : Array α :=
  x.setIfInBounds i
    (foldRange (L.rowBegin i) (L.rowEnd i) (fun r j => r - L.val.getD j 0 * x.getD (L.colInd.getD j 0) 0) (b.getD i 0))

/-- `solve_il(x, b)` (rows ascending); `x` is the output array with its previous content -/
def solveIl [Zero α] [Sub α] [Mul α] (L : Csr α) (b x : Array α) : Array α :=
  (List.range L.rows).foldl (solveIlStep L b) x

/-- row `i` of `solve_du(x, x)`: `r = x[i]; for j in row i of U: r -= U[j] * x[col[j]]; x[i] = dinv[i] * r` -/
def solveDuStep [Zero α] [Sub α] [Mul α] (U : Csr α) (dinv : Array α) (x : Array α) (i : Nat) : Array α :=
  x.setIfInBounds i (dinv.getD i 0 *
    (foldRange (U.rowBegin i) (U.rowEnd i) (fun r j => r - U.val.getD j 0 * x.getD (U.colInd.getD j 0) 0) (x.getD i 0)))

/-- `solve_du(x, x)` (rows descending, in place) -/
def solveDu [Zero α] [Sub α] [Mul α] (U : Csr α) (dinv : Array α) (x : Array α) : Array α :=
  (List.range U.rows).reverse.foldl (solveDuStep U dinv) x

/-- `ILUPrecond::apply` without the filter: `solve_il(x, b); solve_du(x, x)` on the stored factors -/
def iluSolve [Zero α] [Sub α] [Mul α] (s : IluSym) (d : IluNum α) (b x0 : Array α) : Array α :=
  solveDu (s.matU d) d.dataD (solveIl (s.matL d) b x0)

/-- decidable shape facts of a symbolic factorisation: offsets monotone and consistent, `L` strictly lower,
    `U` strictly upper, all columns `< n` -/
def IluSym.wf (s : IluSym) : Bool :=
  s.rpL.size == s.n + 1 && s.rpU.size == s.n + 1 && s.rpL.getD 0 0 == 0 && s.rpU.getD 0 0 == 0
  && s.rpL.getD s.n 0 == s.ciL.size && s.rpU.getD s.n 0 == s.ciU.size
  && s.ciL.all (· < s.n) && s.ciU.all (· < s.n)
  && (List.range s.n).all (fun i =>
        s.rpL.getD i 0 ≤ s.rpL.getD (i + 1) 0 && s.rpU.getD i 0 ≤ s.rpU.getD (i + 1) 0
        && (List.range' (s.rpL.getD i 0) (s.rpL.getD (i + 1) 0 - s.rpL.getD i 0)).all (fun k => s.ciL.getD k s.n < i)
        && (List.range' (s.rpU.getD i 0) (s.rpU.getD (i + 1) 0 - s.rpU.getD i 0)).all
              (fun k => i < s.ciU.getD k 0 && s.ciU.getD k s.n < s.n))

end FeatModel.Solver
